import Ndt.Model.Diff
/-!
# The scalar difference quotients regenerated from the source are the modelled ones

`Ndt.Gen.DifferenceFunctions._*` is produced by the translator from `finite_difference.DifferenceFunctions` on every run; the
hand-written quotients of `Ndt/Model/Diff.lean` — the ones the expansions (C01), the point lists (C05) and the driver are
about — are definitionally equal to them.  A change of a sign, a constant, an argument or of `.real` / `.imag` in the source
breaks one of these `rfl`s.
-/
namespace Ndt
open Ndt.Gen
variable {K : Type} [Add K] [Sub K] [Mul K] [Div K] [Neg K] [OfNat K 0] [OfNat K 1] [OfNat K 2] [OfNat K 3] [OfNat K 12]
variable {C : Type} [Add C] [Sub C] [Mul C]

theorem central_generated (f : K → K) (fx x h : K) : DifferenceFunctions._central f fx x h = dCentral f fx x h := rfl
theorem central_even_generated (f : K → K) (fx x h : K) : DifferenceFunctions._central_even f fx x h = dCentralEven f fx x h := rfl
theorem forward_generated (f : K → K) (fx x h : K) : DifferenceFunctions._forward f fx x h = dForward f fx x h := rfl
theorem backward_generated (f : K → K) (fx x h : K) : DifferenceFunctions._backward f fx x h = dBackward f fx x h := rfl
theorem complex_generated (s : CStep K C) (f : C → C) (fx x h : K) : DifferenceFunctions._complex s f fx x h = qComplex s f x h := rfl
theorem complex_odd_generated (s : CStep K C) (f : C → C) (fx x h : K) :
    DifferenceFunctions._complex_odd s f fx x h = qComplexOdd s f x h := rfl
theorem complex_odd_higher_generated (s : CStep K C) (f : C → C) (fx x h : K) :
    DifferenceFunctions._complex_odd_higher s f fx x h = qComplexOddHigher s f x h := rfl
theorem complex_even_generated (s : CStep K C) (f : C → C) (fx x h : K) :
    DifferenceFunctions._complex_even s f fx x h = qComplexEven s f x h := rfl
theorem complex_even_higher_generated (s : CStep K C) (f : C → C) (fx x h : K) :
    DifferenceFunctions._complex_even_higher s f fx x h = qComplexEvenHigher s f fx x h := rfl

/-- all nine at once (the obligation audited by the checks of C01 and C05) -/
theorem difference_functions_generated (s : CStep K C) (fr : K → K) (fc : C → C) (fx x h : K) :
    DifferenceFunctions._central fr fx x h = dCentral fr fx x h ∧
    DifferenceFunctions._central_even fr fx x h = dCentralEven fr fx x h ∧
    DifferenceFunctions._forward fr fx x h = dForward fr fx x h ∧
    DifferenceFunctions._backward fr fx x h = dBackward fr fx x h ∧
    DifferenceFunctions._complex s fc fx x h = qComplex s fc x h ∧
    DifferenceFunctions._complex_odd s fc fx x h = qComplexOdd s fc x h ∧
    DifferenceFunctions._complex_odd_higher s fc fx x h = qComplexOddHigher s fc x h ∧
    DifferenceFunctions._complex_even s fc fx x h = qComplexEven s fc x h ∧
    DifferenceFunctions._complex_even_higher s fc fx x h = qComplexEvenHigher s fc fx x h :=
  ⟨rfl, rfl, rfl, rfl, rfl, rfl, rfl, rfl, rfl⟩

end Ndt
