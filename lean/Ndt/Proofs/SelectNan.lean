import Ndt.Model.Select
/-!
NaN-aware facts about the selection stage, for *any* carrier (in particular `Float`), from the two IEEE facts
the selection relies on: a comparison with a NaN is false, and `a ≤ a` for every non-NaN `a`.
-/
namespace Ndt
variable {K : Type} [Num K]

private def minStep : Option K → K → Option K := fun acc x => match acc with
    | none => some x
    | some m => if x < m then some x else some m

private theorem foldl_min_mem (l : List K) : ∀ (init : Option K) (m : K),
    l.foldl minStep init = some m → init = some m ∨ m ∈ l := by
  induction l with
  | nil => intro init m h; exact Or.inl h
  | cons x xs ih =>
    intro init m h
    rw [List.foldl_cons] at h
    rcases ih _ m h with h1 | h1
    · cases init with
      | none => simp [minStep] at h1; exact Or.inr (by simp [h1])
      | some a =>
        simp only [minStep] at h1
        split at h1
        · simp at h1; exact Or.inr (by simp [h1])
        · exact Or.inl h1
    · exact Or.inr (List.mem_cons_of_mem _ h1)

private theorem foldl_min_isSome (l : List K) : ∀ (init : Option K), (init.isSome ∨ l ≠ []) →
    (l.foldl minStep init).isSome := by
  induction l with
  | nil => intro init h; rcases h with h | h; exact h; exact absurd rfl h
  | cons x xs ih =>
    intro init _
    rw [List.foldl_cons]
    apply ih; left
    cases init with
    | none => simp [minStep]
    | some a => simp only [minStep]; split <;> simp

theorem nanMin_mem (l : List K) (m : K) (h : nanMin l = some m) : m ∈ l ∧ Num.isNan m = false := by
  have := foldl_min_mem (l.filter (fun x => !Num.isNan x)) none m h
  rcases this with h1 | h1
  · cases h1
  · rw [List.mem_filter] at h1
    exact ⟨h1.1, by simpa using h1.2⟩

theorem nanMin_isSome (l : List K) (h : ∃ e ∈ l, Num.isNan e = false) : (nanMin l).isSome := by
  obtain ⟨e, he, hn⟩ := h
  apply foldl_min_isSome; right
  intro hnil
  have : e ∈ l.filter (fun x => !Num.isNan x) := by rw [List.mem_filter]; exact ⟨he, by simp [hn]⟩
  rw [hnil] at this; cases this

private theorem pick_mem (idx : List Nat) (h : idx ≠ []) : idx.getD (idx.length / 2) 0 ∈ idx := by
  have hlen : 0 < idx.length := List.length_pos_iff.mpr h
  have hlt : idx.length / 2 < idx.length := Nat.div_lt_self hlen (by decide)
  have hget : idx.getD (idx.length / 2) 0 = idx[idx.length / 2] := by simp [List.getD, hlt]
  rw [hget]; exact List.getElem_mem hlt

/-- **The selected row is never one whose error estimate is NaN, as long as some row's is not** (and it is a row of the table).
`hnan`: a comparison `a ≤ b` with NaN `a` is false; `hrefl`: `a ≤ a` for non-NaN `a` (IEEE 754, both). -/
theorem argMinRow_skips_nan (hnan : ∀ a b : K, Num.isNan a = true → ¬ a ≤ b) (hrefl : ∀ a : K, Num.isNan a = false → a ≤ a)
    (errs : List K) (h : ∃ e ∈ errs, Num.isNan e = false) :
    argMinRow errs < errs.length ∧ Num.isNan (errs.getD (argMinRow errs) Num.zero) = false := by
  have hs := nanMin_isSome errs h
  obtain ⟨m, hm⟩ := Option.isSome_iff_exists.mp hs
  obtain ⟨hmem, hmn⟩ := nanMin_mem errs m hm
  obtain ⟨j, hj, hjm⟩ := List.mem_iff_getElem.mp hmem
  have hne : (List.range errs.length).filter (fun i => decide (errs.getD i Num.zero ≤ m) && decide (m ≤ errs.getD i Num.zero)) ≠ [] := by
    intro hnil
    have : j ∈ (List.range errs.length).filter (fun i => decide (errs.getD i Num.zero ≤ m) && decide (m ≤ errs.getD i Num.zero)) := by
      rw [List.mem_filter]
      refine ⟨List.mem_range.mpr hj, ?_⟩
      have hjd : errs.getD j Num.zero = m := by simp [List.getD, hj, hjm]
      rw [hjd]
      simp only [Bool.and_eq_true, decide_eq_true_eq]
      exact ⟨hrefl m hmn, hrefl m hmn⟩
    rw [hnil] at this; cases this
  have key := pick_mem _ hne
  rw [List.mem_filter] at key
  obtain ⟨hr, hp⟩ := key
  simp only [Bool.and_eq_true, decide_eq_true_eq] at hp
  have harg : argMinRow errs = ((List.range errs.length).filter (fun i => decide (errs.getD i Num.zero ≤ m) && decide (m ≤ errs.getD i Num.zero))).getD
      (((List.range errs.length).filter (fun i => decide (errs.getD i Num.zero ≤ m) && decide (m ≤ errs.getD i Num.zero))).length / 2) 0 := by
    unfold argMinRow; rw [hm]
  rw [harg]
  refine ⟨List.mem_range.mp hr, ?_⟩
  generalize ((List.range errs.length).filter (fun i => decide (errs.getD i Num.zero ≤ m) && decide (m ≤ errs.getD i Num.zero))).getD
      (((List.range errs.length).filter (fun i => decide (errs.getD i Num.zero ≤ m) && decide (m ≤ errs.getD i Num.zero))).length / 2) 0 = r at hp ⊢
  cases hc : Num.isNan (errs.getD r Num.zero) with
  | false => rfl
  | true => exact absurd hp.1 (hnan _ _ hc)

/-- **The reported error estimate of an element is not NaN, and the reported value is read at a row of the table, whenever some row of
that element's column has a non-NaN (penalised) error** — whatever the other rows hold (NaN or ±inf samples where a step left the
domain of f or hit a singularity exactly). -/
theorem bestEstimate_err_not_nan (hnan : ∀ a b : K, Num.isNan a = true → ¬ a ≤ b) (hrefl : ∀ a : K, Num.isNan a = false → a ≤ a)
    (sc : SelConsts K) (nrows ncols : Nat) (der errs steps : List K) (col : Nat) (hcol : col < ncols)
    (h : ∃ e ∈ List.zipWith (· + ·) (column errs nrows ncols col) (outlierErrors sc (column der nrows ncols col)), Num.isNan e = false) :
    Num.isNan ((bestEstimate sc nrows ncols der errs steps).err.getD col Num.zero) = false ∧
    (bestEstimate sc nrows ncols der errs steps).index.getD col 0 / ncols < nrows := by
  have key := argMinRow_skips_nan hnan hrefl _ h
  have hlen : (List.zipWith (· + ·) (column errs nrows ncols col) (outlierErrors sc (column der nrows ncols col))).length = nrows := by
    simp [column, outlierErrors]
  simp only [bestEstimate, List.getD_eq_getElem?_getD, List.getElem?_map, List.getElem?_range hcol, Option.map_some, Option.getD_some]
  refine ⟨by simpa [List.getD_eq_getElem?_getD] using key.2, ?_⟩
  have hr := key.1
  rw [hlen] at hr
  rw [Nat.mul_comm, Nat.mul_add_div (by omega : ncols > 0), Nat.div_eq_of_lt hcol]
  simpa using hr

/-- A carrier with a genuine NaN (`none`), to show that the hypotheses of `argMinRow_skips_nan` are satisfiable together with NaN
entries: exact rationals plus one absorbing not-a-number whose comparisons are all false. -/
def NanRat := Option Rat

private def lift2 (f : Rat → Rat → Rat) : NanRat → NanRat → NanRat
  | some a, some b => some (f a b)
  | _, _ => none

instance nanRatNum : Num NanRat where
  add := lift2 (· + ·)
  sub := lift2 (· - ·)
  mul := lift2 (· * ·)
  div := lift2 (· / ·)
  neg := fun a => match a with | some x => some (-x) | none => none
  lt := fun a b => match a, b with | some x, some y => x < y | _, _ => False
  le := fun a b => match a, b with | some x, some y => x ≤ y | _, _ => False
  abs := fun a => match a with | some x => some (if x < 0 then -x else x) | none => none
  zero := some 0
  one := some 1
  ofNat := fun n => some (n : Rat)
  decLt := fun a b => match a, b with
    | some x, some y => (inferInstance : Decidable (x < y))
    | some _, none => isFalse (fun h => h) | none, some _ => isFalse (fun h => h) | none, none => isFalse (fun h => h)
  decLe := fun a b => match a, b with
    | some x, some y => (inferInstance : Decidable (x ≤ y))
    | some _, none => isFalse (fun h => h) | none, some _ => isFalse (fun h => h) | none, none => isFalse (fun h => h)
  isNan := fun a => a.isNone
  nan := none

theorem nanRat_hnan : ∀ a b : NanRat, Num.isNan a = true → ¬ a ≤ b := by
  intro a b h
  cases a with
  | none => cases b <;> exact fun h => h
  | some x => cases h

theorem nanRat_hrefl : ∀ a : NanRat, Num.isNan a = false → a ≤ a := by
  intro a h
  cases a with
  | none => cases h
  | some x => exact (Rat.le_refl : x ≤ x)

/-- non-vacuity: a column of error estimates with NaN rows first and last; row 2 (the smallest finite one) is selected -/
example : argMinRow ([none, some 3, some 1, none] : List NanRat) = 2 := by decide
example : argMinRow ([none, none, some 5] : List NanRat) = 2 := by decide
/-- an all-NaN column selects row 0 (what numpy's warning-and-zero behaviour amounts to after the `fix:`) -/
example : argMinRow ([none, none] : List NanRat) = 0 := by decide

end Ndt
