import Ndt.Model.Select
import Ndt.Proofs.FieldNum
import Mathlib.Tactic.Linarith
import Mathlib.Tactic.Positivity
/-! Facts about the selection stage over an ordered field (no NaN exists there: `Num.isNan = false`). -/
namespace Ndt
variable {K : Type} [Field K] [LinearOrder K] [IsStrictOrderedRing K]

@[simp] theorem num_isNan (a : K) : Num.isNan a = false := rfl

theorem outlierErrors_length (c : SelConsts K) (col : List K) : (outlierErrors c col).length = col.length := by
  simp [outlierErrors]

/-- the outlier penalty is non-negative for every estimate -/
theorem outlierErrors_nonneg (c : SelConsts K) (col : List K) : ∀ e ∈ outlierErrors c col, 0 ≤ e := by
  intro e he
  simp only [outlierErrors, List.mem_map] at he
  obtain ⟨d, _, rfl⟩ := he
  simp only [num_abs, num_one, num_zero]
  split_ifs <;> positivity

theorem filter_noNan (l : List K) : l.filter (fun x => !Num.isNan x) = l := by
  simp

/-- fold that computes the running minimum -/
theorem foldl_min_spec (l : List K) (init : Option K) :
    ∀ m, l.foldl (fun acc x => match acc with
        | none => some x
        | some m => if x < m then some x else some m) init = some m →
      (∀ x ∈ l, m ≤ x) ∧ (∀ i, init = some i → m ≤ i) ∧ (m ∈ l ∨ init = some m) := by
  induction l generalizing init with
  | nil =>
    intro m h
    simp only [List.foldl_nil] at h
    exact ⟨by simp, fun i hi => by rw [h] at hi; cases hi; exact le_rfl, Or.inr h⟩
  | cons a l ih =>
    intro m h
    simp only [List.foldl_cons] at h
    cases init with
    | none =>
      obtain ⟨h1, h2, h3⟩ := ih _ m h
      refine ⟨?_, by simp, ?_⟩
      · intro x hx
        rcases List.mem_cons.mp hx with rfl | hx
        · exact h2 _ rfl
        · exact h1 x hx
      · rcases h3 with h3 | h3
        · exact Or.inl (List.mem_cons_of_mem _ h3)
        · cases h3; exact Or.inl (List.mem_cons_self ..)
    | some i =>
      by_cases hlt : a < i
      · simp only [hlt, if_true] at h
        obtain ⟨h1, h2, h3⟩ := ih _ m h
        refine ⟨?_, ?_, ?_⟩
        · intro x hx
          rcases List.mem_cons.mp hx with rfl | hx
          · exact h2 _ rfl
          · exact h1 x hx
        · intro j hj; cases hj; exact le_trans (h2 _ rfl) (le_of_lt hlt)
        · rcases h3 with h3 | h3
          · exact Or.inl (List.mem_cons_of_mem _ h3)
          · cases h3; exact Or.inl (List.mem_cons_self ..)
      · simp only [hlt, if_false] at h
        obtain ⟨h1, h2, h3⟩ := ih _ m h
        refine ⟨?_, ?_, ?_⟩
        · intro x hx
          rcases List.mem_cons.mp hx with rfl | hx
          · exact le_trans (h2 _ rfl) (not_lt.mp hlt)
          · exact h1 x hx
        · intro j hj; cases hj; exact h2 _ rfl
        · rcases h3 with h3 | h3
          · exact Or.inl (List.mem_cons_of_mem _ h3)
          · exact Or.inr h3

theorem nanMin_spec (l : List K) (hl : l ≠ []) :
    ∃ m, nanMin l = some m ∧ (∀ x ∈ l, m ≤ x) ∧ m ∈ l := by
  unfold nanMin
  rw [filter_noNan]
  cases l with
  | nil => exact absurd rfl hl
  | cons a l =>
    simp only [List.foldl_cons]
    -- after the first element the accumulator is `some _`
    have hsome : ∀ (l : List K) (i : K), ∃ m, l.foldl (fun acc x => match acc with
        | none => some x
        | some m => if x < m then some x else some m) (some i) = some m := by
      intro l
      induction l with
      | nil => intro i; exact ⟨i, rfl⟩
      | cons b l ih =>
        intro i
        simp only [List.foldl_cons]
        by_cases h : b < i
        · simp only [h, if_true]; exact ih b
        · simp only [h, if_false]; exact ih i
    obtain ⟨m, hm⟩ := hsome l a
    refine ⟨m, hm, ?_, ?_⟩
    · obtain ⟨h1, h2, _⟩ := foldl_min_spec l (some a) m hm
      intro x hx
      rcases List.mem_cons.mp hx with rfl | hx
      · exact h2 _ rfl
      · exact h1 x hx
    · obtain ⟨_, _, h3⟩ := foldl_min_spec l (some a) m hm
      rcases h3 with h3 | h3
      · exact List.mem_cons_of_mem _ h3
      · cases h3; exact List.mem_cons_self ..

/-- **arg-min is correct**: for a non-empty column the chosen row is a valid row, attains the minimum of
the column, and is the *middle* one of the rows attaining it. -/
theorem argMinRow_spec (errs : List K) (hl : errs ≠ []) :
    ∃ m ties, nanMin errs = some m ∧ (∀ x ∈ errs, m ≤ x) ∧
      ties = (List.range errs.length).filter (fun i => decide (errs.getD i 0 = m)) ∧ ties ≠ [] ∧
      argMinRow errs = ties.getD (ties.length / 2) 0 ∧
      argMinRow errs < errs.length ∧ errs.getD (argMinRow errs) 0 = m := by
  obtain ⟨m, hm, hmin, hmem⟩ := nanMin_spec errs hl
  set ties := (List.range errs.length).filter (fun i => decide (errs.getD i 0 = m)) with hties
  have hfilter : (List.range errs.length).filter
      (fun i => decide (errs.getD i Num.zero ≤ m) && decide (m ≤ errs.getD i Num.zero)) = ties := by
    apply List.filter_congr
    intro i _
    simp only [num_zero]
    generalize errs.getD i 0 = x
    rcases lt_trichotomy x m with h | h | h
    · have h1 : x ≤ m := le_of_lt h
      have h2 : ¬ m ≤ x := not_le.mpr h
      have h3 : x ≠ m := ne_of_lt h
      simp [h1, h2, h3]
    · subst h; simp
    · have h1 : ¬ x ≤ m := not_le.mpr h
      have h3 : x ≠ m := ne_of_gt h
      simp [h1, h3]
  have hne : ties ≠ [] := by
    obtain ⟨i, hi, hget⟩ := List.mem_iff_getElem.mp hmem
    intro hnil
    have : i ∈ ties := by
      rw [hties, List.mem_filter]
      refine ⟨List.mem_range.mpr hi, ?_⟩
      simp [List.getD_eq_getElem?_getD, List.getElem?_eq_getElem hi, hget]
    rw [hnil] at this; cases this
  have harg : argMinRow errs = ties.getD (ties.length / 2) 0 := by
    unfold argMinRow; rw [hm]; simp only; rw [hfilter]
  have hpos : 0 < ties.length := List.length_pos_iff.mpr hne
  have hidx : ties.length / 2 < ties.length := Nat.div_lt_self hpos (by norm_num)
  have hmemt : ties.getD (ties.length / 2) 0 ∈ ties := by
    rw [List.getD_eq_getElem?_getD, List.getElem?_eq_getElem hidx]; exact List.getElem_mem hidx
  rw [hties, List.mem_filter] at hmemt
  refine ⟨m, ties, hm, hmin, rfl, hne, harg, ?_, ?_⟩
  · rw [harg]; exact List.mem_range.mp hmemt.1
  · rw [harg]
    have := hmemt.2
    simp only [decide_eq_true_eq] at this
    exact this

end Ndt
