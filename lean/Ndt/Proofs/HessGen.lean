import Ndt.Model.Hessian
/-!
# The Hessian cells regenerated from the source are the modelled ones

`Ndt.Gen.HessianDifferenceFunctions._*_cell` is produced by the translator from the loop bodies of
`finite_difference.HessianDifferenceFunctions` on every run (the assignment to `hess[i, j]`, with the arrays filled by the
earlier loops inlined and `hess[j, i]` read as the outer product of the steps it still holds); the hand-written cells of
`Ndt/Model/Hessian.lean` — the ones the exactness theorems of C04 and the driver are about — are definitionally equal to them.
-/
namespace Ndt
open Ndt.Gen
variable {K : Type} [Add K] [Sub K] [Mul K] [Div K] [Neg K] [OfNat K 0] [OfNat K 1] [OfNat K 2] [OfNat K 4]

theorem hessian_cells_generated (f : (Nat → K) → K) (fx : K) (x h : Nat → K) (i j : Nat) :
    HessianDifferenceFunctions._forward_cell f fx x h i j = hessForwardCell f fx x h i j ∧
    HessianDifferenceFunctions._backward_cell f fx x h i j = hessForwardCell f fx x (fun k => -(h k)) i j ∧
    HessianDifferenceFunctions._central_even_cell f fx x h i j = hessCentralCell f fx x h i j ∧
    HessianDifferenceFunctions._central2_cell f fx x h i j = hessCentral2Cell f fx x h i j :=
  ⟨rfl, rfl, rfl, rfl⟩

theorem hessian_complex_cell_generated {C : Type} [Add C] [Sub C] [Mul C] [OfNat C 0] (s : CStep K C) (f : (Nat → C) → C)
    (x h : Nat → K) (i j : Nat) :
    HessianDifferenceFunctions._complex_even_cell s f x h i j = hessComplexCell s f x h i j := rfl

end Ndt
