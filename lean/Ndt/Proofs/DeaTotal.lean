import Ndt.Model.Dea
import Mathlib.Tactic.SplitIfs
/-!
# Dea is total (C14)

`Dea.__call__` is modelled with *checked* array accesses (`Ndt/Model/Dea.lean`): an index outside the table is the
outcome `indexError`, a slice assignment between slices of different lengths `valueError`.  This file proves that
neither outcome is reachable: the invariant `DeaInv` (table size `limexp + 5`, `_n ≤ limexp - 1`) holds initially and is
preserved by every call, and under it every access of `_dea`, `_shift_table` and `_update_res3la` is in range — for every
`limexp ≥ 3`, every sequence of any length and any values (the carrier only needs the operations of `Num`, so the theorem
covers the Float instance that is compared bit for bit with the implementation, NaN and infinities included).

The two defects repaired in a78bbf1 (`_n` not capped on the all-converged exit) were exactly violations of this invariant.
-/
namespace Ndt
variable {K : Type} [Num K]

theorem aget_ok (a : Array K) (i : Nat) (h : i < a.size) : aget a (i : Int) = .ok (a.getD i Num.zero) := by
  unfold aget
  have h0 : ¬ ((i : Int) < 0) := by omega
  simp only [h0, if_false]
  have : (0 ≤ (i : Int) ∧ (i : Int) < (a.size : Int)) := by omega
  simp only [this, and_self, if_true, Int.toNat_natCast]
  rfl

theorem aset_ok (a : Array K) (i : Nat) (v : K) (h : i < a.size) :
    aset a (i : Int) v = .ok (a.setIfInBounds i v) := by
  unfold aset
  have h0 : ¬ ((i : Int) < 0) := by omega
  simp only [h0, if_false]
  have : (0 ≤ (i : Int) ∧ (i : Int) < (a.size : Int)) := by omega
  simp only [this, and_self, if_true, Int.toNat_natCast]
  rfl

theorem foldl_set_size {α β : Type} (f : β → Nat × α) (l : List β) (a : Array α) :
    (l.foldl (fun acc p => acc.setIfInBounds (f p).1 (f p).2) a).size = a.size := by
  induction l generalizing a with
  | nil => rfl
  | cons x xs ih => simp only [List.foldl_cons]; rw [ih]; simp

theorem sliceAssign_ok (a : Array K) (dst src : List Nat) (h : src.length = dst.length) :
    ∃ a', sliceAssign a dst src = .ok a' ∧ a'.size = a.size := by
  unfold sliceAssign
  simp only [List.length_map, h, if_true]
  refine ⟨_, rfl, ?_⟩
  exact foldl_set_size (fun p : Nat × K => (p.1, p.2)) _ a

theorem sliceIdx_length (size lo hi step : Nat) (hs : 0 < step) (hh : hi ≤ size) (hl : lo ≤ hi) :
    (sliceIdx size lo hi step).length = (hi - lo + step - 1) / step := by
  unfold sliceIdx
  simp only [Nat.min_eq_left hh]
  split
  · simp
  · have : hi - lo = 0 := by omega
    simp [this]
    exact (Nat.div_eq_of_lt (by omega)).symm

theorem foldlM_range_inv {σ : Type} (f : σ → Nat → PyM σ) (P : Nat → σ → Prop) (m : Nat) (init : σ)
    (h0 : P 0 init) (hstep : ∀ i s, i < m → P i s → ∃ s', f s i = .ok s' ∧ P (i + 1) s') :
    ∃ s', (List.range m).foldlM f init = .ok s' ∧ P m s' := by
  induction m with
  | zero => exact ⟨init, rfl, h0⟩
  | succ m ih =>
    obtain ⟨s, hs, hP⟩ := ih (fun i s hi => hstep i s (by omega))
    obtain ⟨s', hs', hP'⟩ := hstep m s (by omega) hP
    refine ⟨s', ?_, hP'⟩
    rw [List.range_succ, List.foldlM_append, hs]
    simp only [List.foldlM_cons, List.foldlM_nil]
    show (f s m >>= fun x => pure x) = _
    rw [hs']
    rfl

theorem aget_okI (a : Array K) (j : Int) (h0 : 0 ≤ j) (h1 : j < (a.size : Int)) :
    aget a j = .ok (a.getD j.toNat Num.zero) := by
  unfold aget
  have : ¬ (j < 0) := by omega
  simp only [this, if_false, h0, h1, and_self, if_true]
  rfl

theorem aset_okI (a : Array K) (j : Int) (v : K) (h0 : 0 ≤ j) (h1 : j < (a.size : Int)) :
    aset a j v = .ok (a.setIfInBounds j.toNat v) := by
  unfold aset
  have : ¬ (j < 0) := by omega
  simp only [this, if_false, h0, h1, and_self, if_true]
  rfl

structure LoopInv (L n0 i : Nat) (s : DeaLoop K) : Prop where
  size : s.t.size = L
  nle : s.n ≤ n0
  k : s.stop = true ∨ s.k1 + 2 * i = n0

theorem deaIter_ok (c : DeaConsts K) (L n0 i : Nat) (s : DeaLoop K) (hL : n0 + 3 ≤ L) (hi : i < n0 / 2)
    (h : LoopInv L n0 i s) : ∃ s', deaIter c s i = .ok s' ∧ LoopInv L n0 (i + 1) s' := by
  obtain ⟨hsz, hn, hk⟩ := h
  unfold deaIter
  by_cases hstop : s.stop = true
  · refine ⟨s, ?_, ⟨hsz, hn, Or.inl hstop⟩⟩
    simp [hstop]
    rfl
  · have hk' : s.k1 + 2 * i = n0 := by
      rcases hk with h | h
      · exact absurd h hstop
      · exact h
    have k2 : 2 ≤ s.k1 := by omega
    have g1 := aget_okI s.t ((s.k1 : Int) + 2) (by omega) (by omega)
    have g2 := aget_okI s.t ((s.k1 : Int) - 2) (by omega) (by omega)
    have g3 := aget_okI s.t ((s.k1 : Int) - 1) (by omega) (by omega)
    have g4 := aget_okI s.t (s.k1 : Int) (by omega) (by omega)
    simp only [hstop, Bool.false_eq_true, if_false, g1, g2, g3, g4]
    have a1 : ∀ v, aset s.t (s.k1 : Int) v = .ok (s.t.setIfInBounds s.k1 v) := fun v => by
      have := aset_okI s.t (s.k1 : Int) v (by omega) (by omega)
      simpa using this
    have a2 : ∀ v w, aset (s.t.setIfInBounds s.k1 v) (s.k1 : Int) w = .ok ((s.t.setIfInBounds s.k1 v).setIfInBounds s.k1 w) := fun v w => by
      have := aset_okI (s.t.setIfInBounds s.k1 v) (s.k1 : Int) w (by omega) (by simp; omega)
      simpa using this
    simp only [a1, a2, bind, Except.bind, pure, Except.pure]
    split_ifs <;> first
      | exact ⟨_, rfl, ⟨hsz, hn, Or.inl rfl⟩⟩
      | exact ⟨_, rfl, ⟨by simp [hsz], by show 2 * i ≤ n0; omega, Or.inl rfl⟩⟩
      | exact ⟨_, rfl, ⟨by simp [hsz], hn, Or.inr (by show s.k1 - 2 + 2 * (i + 1) = n0; omega)⟩⟩

theorem deaLoopRun_ok (c : DeaConsts K) (st : DeaState K) (n : Nat) (hsz : n + 3 ≤ st.epstab.size) :
    ∃ s, deaLoopRun c st n = .ok s ∧ s.t.size = st.epstab.size ∧ s.n ≤ n := by
  unfold deaLoopRun
  have g := aget_okI st.epstab (n : Int) (by omega) (by omega)
  have a1 : ∀ v, aset st.epstab ((n : Int) + 2) v = .ok (st.epstab.setIfInBounds (n + 2) v) := fun v => by
    have := aset_okI st.epstab ((n : Int) + 2) v (by omega) (by omega)
    have e : ((n : Int) + 2).toNat = n + 2 := by omega
    rw [e] at this; exact this
  have a2 : ∀ (t : Array K) v, t.size = st.epstab.size → aset t (n : Int) v = .ok (t.setIfInBounds n v) := fun t v ht => by
    have := aset_okI t (n : Int) v (by omega) (by omega)
    simpa using this
  simp only [g, a1, bind, Except.bind]
  rw [a2 _ _ (by simp)]
  simp only []
  obtain ⟨s, hs, hP⟩ := foldlM_range_inv (deaIter c) (LoopInv st.epstab.size n) (n / 2)
    ⟨(st.epstab.setIfInBounds (n + 2) (st.epstab.getD (n : Int).toNat Num.zero)).setIfInBounds n c.huge, n,
      st.epstab.getD (n : Int).toNat Num.zero, c.huge, n, false, false⟩
    ⟨by simp, Nat.le_refl n, Or.inr (by simp)⟩
    (fun i s hi h => deaIter_ok c st.epstab.size n i s hsz hi h)
  exact ⟨s, hs, hP.size, hP.nle⟩

theorem shiftTable_ok (t : Array K) (n newelm oldN : Nat) (h1 : 2 * newelm + 4 ≤ t.size) (h2 : oldN + 1 ≤ t.size)
    (h3 : n ≤ oldN) : ∃ t', shiftTable t n newelm oldN = .ok t' ∧ t'.size = t.size := by
  unfold shiftTable
  have l1 : (sliceIdx t.size (oldN % 2 + 2) (2 * newelm + 2 + 2) 2).length = (sliceIdx t.size (oldN % 2) (2 * newelm + 2) 2).length := by
    rw [sliceIdx_length _ _ _ _ (by omega) (by omega) (by omega), sliceIdx_length _ _ _ _ (by omega) (by omega) (by omega)]
    congr 1; omega
  obtain ⟨t1, ht1, hs1⟩ := sliceAssign_ok t _ _ l1
  simp only [ht1, bind, Except.bind]
  split
  · have l2 : (sliceIdx t1.size (oldN - n) (oldN - n + n + 1) 1).length = (sliceIdx t1.size 0 (n + 1) 1).length := by
      rw [sliceIdx_length _ _ _ _ (by omega) (by omega) (by omega), sliceIdx_length _ _ _ _ (by omega) (by omega) (by omega)]
      congr 1; omega
    obtain ⟨t2, ht2, hs2⟩ := sliceAssign_ok t1 _ _ l2
    exact ⟨t2, ht2, by omega⟩
  · exact ⟨t1, rfl, hs1⟩

theorem updateRes3la_ok (t : Array K) (result : K) (nres : Nat) (h : 3 ≤ t.size) :
    ∃ t', updateRes3la t result nres = .ok t' ∧ t'.size = t.size := by
  unfold updateRes3la
  split
  · obtain ⟨t1, ht1, hs1⟩ := sliceAssign_ok t [t.size - 3, t.size - 3 + 1] [t.size - 3 + 1, t.size - 3 + 2] rfl
    simp only [ht1, bind, Except.bind]
    have := aset_okI t1 ((t.size - 3 + 2 : Nat) : Int) result (by omega) (by omega)
    exact ⟨_, this, by simp [hs1]⟩
  · have := aset_okI t ((t.size - 3 + nres : Nat) : Int) result (by omega) (by omega)
    exact ⟨_, this, by simp⟩

/-- the state invariant of `Dea`: odd-ised table size, `_n` inside the table -/
structure DeaInv (st : DeaState K) : Prop where
  lim : 3 ≤ st.limexp
  size : st.epstab.size = st.limexp + 5
  n : st.n + 1 ≤ st.limexp

theorem deaPost_ok (st : DeaState K) (s : DeaLoop K) (n : Nat) (hl : 3 ≤ st.limexp) (hsz : s.t.size = st.limexp + 5)
    (hn : n + 1 ≤ st.limexp) (hsn : s.n ≤ n) :
    ∃ p, deaPost st s (n / 2) n = .ok p ∧ p.1.size = st.limexp + 5 ∧ p.2.1 + 2 ≤ st.limexp := by
  unfold deaPost
  have hn' : (if s.n = st.limexp - 1 then st.limexp - 2 else s.n) + 2 ≤ st.limexp := by split <;> omega
  have hle : (if s.n = st.limexp - 1 then st.limexp - 2 else s.n) ≤ n := by split <;> omega
  simp only []
  split
  · exact ⟨_, rfl, hsz, hn'⟩
  · obtain ⟨t1, ht1, hs1⟩ := shiftTable_ok s.t (if s.n = st.limexp - 1 then st.limexp - 2 else s.n) (n / 2) n
      (by omega) (by omega) hle
    obtain ⟨t2, ht2, hs2⟩ := updateRes3la_ok t1 s.result st.nres (by omega)
    simp only [ht1, Except.bind, ht2]
    exact ⟨_, rfl, by simp only; omega, hn'⟩

theorem deaCore_ok (c : DeaConsts K) (st : DeaState K) (hi : DeaInv st) :
    ∃ r e st', deaCore c st st.n = .ok (r, e, st') ∧ st'.limexp = st.limexp ∧ st'.epstab.size = st.limexp + 5 ∧
      st'.n + 2 ≤ st.limexp := by
  obtain ⟨hl, hsz, hn⟩ := hi
  unfold deaCore
  obtain ⟨s, hs, hss, hsn⟩ := deaLoopRun_ok c st st.n (by omega)
  obtain ⟨p, hp, hps, hpn⟩ := deaPost_ok st s st.n hl (by omega) hn hsn
  simp only [hs, Except.bind, hp]
  exact ⟨_, _, _, rfl, rfl, hps, hpn⟩

/-- **Dea never fails and keeps its invariant**: one call from a state satisfying the invariant returns a value
(no IndexError, no ValueError from a slice assignment) and a state satisfying the invariant. -/
theorem deaCall_ok (c : DeaConsts K) (st : DeaState K) (hi : DeaInv st) (sv : K) :
    ∃ r e st', deaCall c st sv = .ok (r, e, st') ∧ DeaInv st' := by
  have hi' := hi
  obtain ⟨hl, hsz, hn⟩ := hi
  unfold deaCall
  have a := aset_okI st.epstab (st.n : Int) sv (by omega) (by omega)
  simp only [a, bind, Except.bind, Int.toNat_natCast]
  split
  · exact ⟨_, _, _, rfl, ⟨hl, by simp [hsz], by show 1 + 1 ≤ st.limexp; omega⟩⟩
  · split
    · have g := aget_okI (st.epstab.setIfInBounds st.n sv) 0 (by omega) (by simp; omega)
      simp only [g]
      exact ⟨_, _, _, rfl, ⟨hl, by simp [hsz], by show 2 + 1 ≤ st.limexp; omega⟩⟩
    · obtain ⟨r, e, st', h, h1, h2, h3⟩ := deaCore_ok c { st with epstab := st.epstab.setIfInBounds st.n sv }
        ⟨hl, by simp [hsz], hn⟩
      simp only [h]
      exact ⟨_, _, _, rfl, ⟨by show 3 ≤ st'.limexp; rw [h1]; exact hl, by show st'.epstab.size = st'.limexp + 5; rw [h1]; exact h2,
        by show st'.n + 1 + 1 ≤ st'.limexp; rw [h1]; exact h3⟩⟩

/-- feeding a whole sequence -/
def deaRun (c : DeaConsts K) : DeaState K → List K → PyM (List (K × K) × DeaState K)
  | st, [] => pure ([], st)
  | st, x :: xs => (deaCall c st x).bind fun p => (deaRun c p.2.2 xs).bind fun q => pure ((p.1, p.2.1) :: q.1, q.2)

theorem deaInit_inv (limexp : Nat) (st : DeaState K) (h : deaInit limexp = some st) : DeaInv st := by
  unfold deaInit at h
  simp only [] at h
  split at h
  · cases h
    exact ⟨by assumption, by simp, Nat.succ_le_succ (Nat.zero_le _)⟩
  · cases h

/-- **Dea is total**: for every `limexp` the constructor accepts and every sequence of any length, every call returns
(the model never reaches an out-of-range index or a mismatched slice assignment), one output per term. -/
theorem dea_total (c : DeaConsts K) (limexp : Nat) (st0 : DeaState K) (h0 : deaInit limexp = some st0) (seq : List K) :
    ∃ outs stf, deaRun c st0 seq = .ok (outs, stf) ∧ outs.length = seq.length ∧ DeaInv stf := by
  have hi := deaInit_inv limexp st0 h0
  clear h0
  induction seq generalizing st0 with
  | nil => exact ⟨[], st0, rfl, rfl, hi⟩
  | cons x xs ih =>
    obtain ⟨r, e, st', h, hi'⟩ := deaCall_ok c st0 hi x
    obtain ⟨outs, stf, h2, hl, hf⟩ := ih st' hi'
    refine ⟨(r, e) :: outs, stf, ?_, by simp [hl], hf⟩
    simp only [deaRun, h, Except.bind, h2]
    rfl
end Ndt

