import Ndt.Model.Diff
import Ndt.Proofs.Expansion
import Mathlib.Analysis.Complex.Basic
import Mathlib.Tactic.IntervalCases
import Mathlib.Tactic.Ring
import Mathlib.Tactic.FieldSimp
namespace Ndt
open Finset Complex

/-- the complex carrier: `sj = ζ` is any square root of `I` -/
noncomputable def cstepC (ζ : ℂ) : CStep ℝ ℂ := ⟨fun r => (r : ℂ), I, ζ, Complex.re, Complex.im⟩

/-- the real polynomial `Σ_{k<M} a_k (z - x)^k` on ℂ -/
noncomputable def polyAtC (a : ℕ → ℝ) (M : ℕ) (x : ℝ) : ℂ → ℂ := fun z => ∑ k ∈ range M, (a k : ℂ) * (z - (x : ℂ)) ^ k

theorem zeta_pow_mod (ζ : ℂ) (hζ : ζ * ζ = I) (k : ℕ) : ζ ^ k = ζ ^ (k % 8) := by
  have h8 : ζ ^ 8 = 1 := by
    have : ζ ^ 8 = (ζ * ζ) ^ 4 := by ring
    rw [this, hζ]; simp [Complex.I_pow_four]
  conv_lhs => rw [← Nat.div_add_mod k 8, pow_add, pow_mul, h8, one_pow, one_mul]


theorem zeta_table (ζ : ℂ) (hζ : ζ * ζ = I) :
    ζ ^ 0 = 1 ∧ ζ ^ 1 = ζ ∧ ζ ^ 2 = I ∧ ζ ^ 3 = I * ζ ∧ ζ ^ 4 = -1 ∧ ζ ^ 5 = -ζ ∧ ζ ^ 6 = -I ∧ ζ ^ 7 = -(I * ζ) := by
  have h2 : ζ ^ 2 = I := by rw [pow_two, hζ]
  have h4 : ζ ^ 4 = -1 := by
    have : ζ ^ 4 = (ζ ^ 2) ^ 2 := by ring
    rw [this, h2, I_sq]
  refine ⟨pow_zero _, pow_one _, h2, ?_, h4, ?_, ?_, ?_⟩
  · rw [show ζ ^ 3 = ζ ^ 2 * ζ by ring, h2]
  · rw [show ζ ^ 5 = ζ ^ 4 * ζ by ring, h4]; ring
  · rw [show ζ ^ 6 = ζ ^ 4 * ζ ^ 2 by ring, h4, h2]; ring
  · rw [show ζ ^ 7 = ζ ^ 4 * (ζ ^ 2 * ζ) by ring, h4, h2]; ring

theorem neg_one_pow_mod8 (k : ℕ) : (-1 : ℂ) ^ k = (-1) ^ (k % 8) := by
  conv_lhs => rw [← Nat.div_add_mod k 8, pow_add, pow_mul]
  norm_num

/-- coefficient selector of `_complex_odd`: powers `k ≡ 1 (mod 4)` with alternating sign -/
def selOdd (a : ℕ → ℝ) (k : ℕ) : ℝ := if k % 8 = 1 then a k else if k % 8 = 5 then -a k else 0

theorem im_form (r1 r2 : ℝ) : ((r1 : ℂ) + (r2 : ℂ) * I).im = r2 := by simp
theorem re_form (r1 r2 : ℝ) : ((r1 : ℂ) + (r2 : ℂ) * I).re = r1 := by simp

theorem term_complexOdd (ζ : ℂ) (hζ : ζ * ζ = I) (a h : ℝ) (k : ℕ) :
    ((ζ * ((1 / 2 : ℝ) : ℂ)) * ((a : ℂ) * ((h : ℂ) * ζ) ^ k - (a : ℂ) * (-((h : ℂ) * ζ)) ^ k)).im
      = (if k % 8 = 1 then a else if k % 8 = 5 then -a else 0) * h ^ k := by
  obtain ⟨t0, t1, t2, t3, t4, t5, t6, t7⟩ := zeta_table ζ hζ
  have hI : I * I = -1 := I_mul_I
  rw [neg_pow, mul_pow, zeta_pow_mod ζ hζ k, neg_one_pow_mod8 k]
  have hlt : k % 8 < 8 := Nat.mod_lt _ (by norm_num)
  interval_cases hr : k % 8 <;> simp only [t0, t1, t2, t3, t4, t5, t6, t7]
  · norm_num
  · have : ζ * ((1 / 2 : ℝ) : ℂ) * ((a : ℂ) * ((h : ℂ) ^ k * ζ) - (a : ℂ) * ((-1) ^ 1 * ((h : ℂ) ^ k * ζ)))
        = ((0 : ℝ) : ℂ) + ((a * h ^ k : ℝ) : ℂ) * I := by
      push_cast; linear_combination ((a : ℂ) * (h : ℂ) ^ k) * hζ
    rw [this, im_form]; norm_num
  · norm_num
  · have : ζ * ((1 / 2 : ℝ) : ℂ) * ((a : ℂ) * ((h : ℂ) ^ k * (I * ζ)) - (a : ℂ) * ((-1) ^ 3 * ((h : ℂ) ^ k * (I * ζ))))
        = ((-(a * h ^ k) : ℝ) : ℂ) + ((0 : ℝ) : ℂ) * I := by
      push_cast; linear_combination ((a : ℂ) * (h : ℂ) ^ k * I) * hζ + ((a : ℂ) * (h : ℂ) ^ k) * hI
    rw [this, im_form]; norm_num
  · norm_num
  · have : ζ * ((1 / 2 : ℝ) : ℂ) * ((a : ℂ) * ((h : ℂ) ^ k * (-ζ)) - (a : ℂ) * ((-1) ^ 5 * ((h : ℂ) ^ k * (-ζ))))
        = ((0 : ℝ) : ℂ) + ((-(a * h ^ k) : ℝ) : ℂ) * I := by
      push_cast; linear_combination (-((a : ℂ) * (h : ℂ) ^ k)) * hζ
    rw [this, im_form]; norm_num
  · norm_num
  · have : ζ * ((1 / 2 : ℝ) : ℂ) * ((a : ℂ) * ((h : ℂ) ^ k * (-(I * ζ))) - (a : ℂ) * ((-1) ^ 7 * ((h : ℂ) ^ k * (-(I * ζ)))))
        = ((a * h ^ k : ℝ) : ℂ) + ((0 : ℝ) : ℂ) * I := by
      push_cast; linear_combination (-((a : ℂ) * (h : ℂ) ^ k * I)) * hζ - ((a : ℂ) * (h : ℂ) ^ k) * hI
    rw [this, im_form]; norm_num


theorem polyAtC_shift (a : ℕ → ℝ) (M : ℕ) (x : ℝ) (w : ℂ) :
    polyAtC a M x ((x : ℂ) + w) = ∑ k ∈ range M, (a k : ℂ) * w ^ k := by
  unfold polyAtC; simp only [add_sub_cancel_left]

theorem polyAtC_shift_neg (a : ℕ → ℝ) (M : ℕ) (x : ℝ) (w : ℂ) :
    polyAtC a M x ((x : ℂ) - w) = ∑ k ∈ range M, (a k : ℂ) * (-w) ^ k := by
  unfold polyAtC
  have : ∀ k, ((x : ℂ) - w - (x : ℂ)) ^ k = (-w) ^ k := fun k => by congr 1; ring
  simp only [this]

/-- `_complex_odd` on a real polynomial: only the powers `k ≡ 1 (mod 4)` survive, with alternating sign -/
theorem qComplexOdd_expansion (ζ : ℂ) (hζ : ζ * ζ = I) (a : ℕ → ℝ) (M : ℕ) (x h : ℝ) :
    qComplexOdd (cstepC ζ) (polyAtC a M x) x h
      = ∑ k ∈ range M, (if k % 8 = 1 then a k else if k % 8 = 5 then -a k else 0) * h ^ k := by
  unfold qComplexOdd cstepC
  simp only []
  rw [polyAtC_shift, polyAtC_shift_neg, ← Finset.sum_sub_distrib, Finset.mul_sum, Complex.im_sum]
  exact Finset.sum_congr rfl (fun k _ => term_complexOdd ζ hζ (a k) h k)


/-! #### `_complex_odd_higher`: `((3 ζ) (f(x+hζ) - f(x-hζ))).re` -/
theorem term_complexOddHigher (ζ : ℂ) (hζ : ζ * ζ = I) (a h : ℝ) (k : ℕ) :
    ((((3 : ℝ) : ℂ) * ζ) * ((a : ℂ) * ((h : ℂ) * ζ) ^ k - (a : ℂ) * (-((h : ℂ) * ζ)) ^ k)).re
      = (if k % 8 = 3 then -(6 * a) else if k % 8 = 7 then 6 * a else 0) * h ^ k := by
  obtain ⟨t0, t1, t2, t3, t4, t5, t6, t7⟩ := zeta_table ζ hζ
  have hI : I * I = -1 := I_mul_I
  rw [neg_pow, mul_pow, zeta_pow_mod ζ hζ k, neg_one_pow_mod8 k]
  have hlt : k % 8 < 8 := Nat.mod_lt _ (by norm_num)
  interval_cases hr : k % 8 <;> simp only [t0, t1, t2, t3, t4, t5, t6, t7]
  · norm_num
  · have : ((3 : ℝ) : ℂ) * ζ * ((a : ℂ) * ((h : ℂ) ^ k * ζ) - (a : ℂ) * ((-1) ^ 1 * ((h : ℂ) ^ k * ζ)))
        = ((0 : ℝ) : ℂ) + ((6 * a * h ^ k : ℝ) : ℂ) * I := by
      push_cast; linear_combination (6 * (a : ℂ) * (h : ℂ) ^ k) * hζ
    rw [this, re_form]; norm_num
  · norm_num
  · have : ((3 : ℝ) : ℂ) * ζ * ((a : ℂ) * ((h : ℂ) ^ k * (I * ζ)) - (a : ℂ) * ((-1) ^ 3 * ((h : ℂ) ^ k * (I * ζ))))
        = ((-(6 * a * h ^ k) : ℝ) : ℂ) + ((0 : ℝ) : ℂ) * I := by
      push_cast; linear_combination (6 * (a : ℂ) * (h : ℂ) ^ k * I) * hζ + (6 * (a : ℂ) * (h : ℂ) ^ k) * hI
    rw [this, re_form]; norm_num
  · norm_num
  · have : ((3 : ℝ) : ℂ) * ζ * ((a : ℂ) * ((h : ℂ) ^ k * (-ζ)) - (a : ℂ) * ((-1) ^ 5 * ((h : ℂ) ^ k * (-ζ))))
        = ((0 : ℝ) : ℂ) + ((-(6 * a * h ^ k) : ℝ) : ℂ) * I := by
      push_cast; linear_combination (-(6 * (a : ℂ) * (h : ℂ) ^ k)) * hζ
    rw [this, re_form]; norm_num
  · norm_num
  · have : ((3 : ℝ) : ℂ) * ζ * ((a : ℂ) * ((h : ℂ) ^ k * (-(I * ζ))) - (a : ℂ) * ((-1) ^ 7 * ((h : ℂ) ^ k * (-(I * ζ)))))
        = ((6 * a * h ^ k : ℝ) : ℂ) + ((0 : ℝ) : ℂ) * I := by
      push_cast; linear_combination (-(6 * (a : ℂ) * (h : ℂ) ^ k * I)) * hζ - (6 * (a : ℂ) * (h : ℂ) ^ k) * hI
    rw [this, re_form]; norm_num

theorem qComplexOddHigher_expansion (ζ : ℂ) (hζ : ζ * ζ = I) (a : ℕ → ℝ) (M : ℕ) (x h : ℝ) :
    qComplexOddHigher (cstepC ζ) (polyAtC a M x) x h
      = ∑ k ∈ range M, (if k % 8 = 3 then -(6 * a k) else if k % 8 = 7 then 6 * a k else 0) * h ^ k := by
  unfold qComplexOddHigher cstepC
  simp only []
  rw [polyAtC_shift, polyAtC_shift_neg, ← Finset.sum_sub_distrib, Finset.mul_sum, Complex.re_sum]
  exact Finset.sum_congr rfl (fun k _ => term_complexOddHigher ζ hζ (a k) h k)

/-! #### `_complex_even`: `(f(x+hζ) + f(x-hζ)).im` -/
theorem term_complexEven (ζ : ℂ) (hζ : ζ * ζ = I) (a h : ℝ) (k : ℕ) :
    ((a : ℂ) * ((h : ℂ) * ζ) ^ k + (a : ℂ) * (-((h : ℂ) * ζ)) ^ k).im
      = (if k % 8 = 2 then 2 * a else if k % 8 = 6 then -(2 * a) else 0) * h ^ k := by
  obtain ⟨t0, t1, t2, t3, t4, t5, t6, t7⟩ := zeta_table ζ hζ
  rw [neg_pow, mul_pow, zeta_pow_mod ζ hζ k, neg_one_pow_mod8 k]
  have hlt : k % 8 < 8 := Nat.mod_lt _ (by norm_num)
  interval_cases hr : k % 8 <;> simp only [t0, t1, t2, t3, t4, t5, t6, t7]
  · have : (a : ℂ) * ((h : ℂ) ^ k * 1) + (a : ℂ) * ((-1) ^ 0 * ((h : ℂ) ^ k * 1)) = ((2 * a * h ^ k : ℝ) : ℂ) + ((0 : ℝ) : ℂ) * I := by
      push_cast; ring
    rw [this, im_form]; norm_num
  · norm_num
  · have : (a : ℂ) * ((h : ℂ) ^ k * I) + (a : ℂ) * ((-1) ^ 2 * ((h : ℂ) ^ k * I)) = ((0 : ℝ) : ℂ) + ((2 * a * h ^ k : ℝ) : ℂ) * I := by
      push_cast; ring
    rw [this, im_form]; norm_num
  · norm_num
  · have : (a : ℂ) * ((h : ℂ) ^ k * (-1)) + (a : ℂ) * ((-1) ^ 4 * ((h : ℂ) ^ k * (-1))) = ((-(2 * a * h ^ k) : ℝ) : ℂ) + ((0 : ℝ) : ℂ) * I := by
      push_cast; ring
    rw [this, im_form]; norm_num
  · norm_num
  · have : (a : ℂ) * ((h : ℂ) ^ k * (-I)) + (a : ℂ) * ((-1) ^ 6 * ((h : ℂ) ^ k * (-I))) = ((0 : ℝ) : ℂ) + ((-(2 * a * h ^ k) : ℝ) : ℂ) * I := by
      push_cast; ring
    rw [this, im_form]; norm_num
  · norm_num

theorem qComplexEven_expansion (ζ : ℂ) (hζ : ζ * ζ = I) (a : ℕ → ℝ) (M : ℕ) (x h : ℝ) :
    qComplexEven (cstepC ζ) (polyAtC a M x) x h
      = ∑ k ∈ range M, (if k % 8 = 2 then 2 * a k else if k % 8 = 6 then -(2 * a k) else 0) * h ^ k := by
  unfold qComplexEven cstepC
  simp only []
  rw [polyAtC_shift, polyAtC_shift_neg, ← Finset.sum_add_distrib, Complex.im_sum]
  exact Finset.sum_congr rfl (fun k _ => term_complexEven ζ hζ (a k) h k)


/-! #### `_complex_even_higher`: `12 (f(x+hζ) + f(x-hζ) - 2 f(x)).re` -/
theorem term_complexEvenRe (ζ : ℂ) (hζ : ζ * ζ = I) (a h : ℝ) (k : ℕ) :
    ((a : ℂ) * ((h : ℂ) * ζ) ^ k + (a : ℂ) * (-((h : ℂ) * ζ)) ^ k).re
      = (if k % 8 = 0 then 2 * a else if k % 8 = 4 then -(2 * a) else 0) * h ^ k := by
  obtain ⟨t0, t1, t2, t3, t4, t5, t6, t7⟩ := zeta_table ζ hζ
  rw [neg_pow, mul_pow, zeta_pow_mod ζ hζ k, neg_one_pow_mod8 k]
  have hlt : k % 8 < 8 := Nat.mod_lt _ (by norm_num)
  interval_cases hr : k % 8 <;> simp only [t0, t1, t2, t3, t4, t5, t6, t7]
  · have : (a : ℂ) * ((h : ℂ) ^ k * 1) + (a : ℂ) * ((-1) ^ 0 * ((h : ℂ) ^ k * 1)) = ((2 * a * h ^ k : ℝ) : ℂ) + ((0 : ℝ) : ℂ) * I := by
      push_cast; ring
    rw [this, re_form]; norm_num
  · norm_num
  · have : (a : ℂ) * ((h : ℂ) ^ k * I) + (a : ℂ) * ((-1) ^ 2 * ((h : ℂ) ^ k * I)) = ((0 : ℝ) : ℂ) + ((2 * a * h ^ k : ℝ) : ℂ) * I := by
      push_cast; ring
    rw [this, re_form]; norm_num
  · norm_num
  · have : (a : ℂ) * ((h : ℂ) ^ k * (-1)) + (a : ℂ) * ((-1) ^ 4 * ((h : ℂ) ^ k * (-1))) = ((-(2 * a * h ^ k) : ℝ) : ℂ) + ((0 : ℝ) : ℂ) * I := by
      push_cast; ring
    rw [this, re_form]; norm_num
  · norm_num
  · have : (a : ℂ) * ((h : ℂ) ^ k * (-I)) + (a : ℂ) * ((-1) ^ 6 * ((h : ℂ) ^ k * (-I))) = ((0 : ℝ) : ℂ) + ((-(2 * a * h ^ k) : ℝ) : ℂ) * I := by
      push_cast; ring
    rw [this, re_form]; norm_num
  · norm_num

theorem qComplexEvenHigher_expansion (ζ : ℂ) (hζ : ζ * ζ = I) (a : ℕ → ℝ) (M : ℕ) (hM : 0 < M) (x h : ℝ) :
    qComplexEvenHigher (cstepC ζ) (polyAtC a M x) (a 0) x h
      = ∑ k ∈ range M, (if k % 8 = 0 ∧ k ≠ 0 then 24 * a k else if k % 8 = 4 then -(24 * a k) else 0) * h ^ k := by
  unfold qComplexEvenHigher cstepC
  simp only []
  rw [polyAtC_shift, polyAtC_shift_neg, ← Finset.sum_add_distrib, Complex.sub_re, Complex.re_sum, Complex.ofReal_re]
  have h0 : (2 * a 0 : ℝ) = ∑ k ∈ range M, (if k = 0 then 2 * a 0 else 0) * h ^ k := by
    rw [Finset.sum_eq_single 0]
    · simp
    · intro k _ hk; simp [hk]
    · intro hn; exact absurd (Finset.mem_range.mpr hM) hn
  rw [h0, ← Finset.sum_sub_distrib, Finset.mul_sum]
  apply Finset.sum_congr rfl
  intro k _
  rw [term_complexEvenRe ζ hζ (a k) h k]
  by_cases hk0 : k = 0
  · subst hk0; simp
  · have hlt : k % 8 < 8 := Nat.mod_lt _ (by norm_num)
    simp only [hk0, if_false, ne_eq, not_false_eq_true, and_true]
    interval_cases hr : k % 8 <;> norm_num <;> ring

/-! #### `_complex`: `f(x + 1j h).imag` -/
theorem term_complex (a h : ℝ) (k : ℕ) :
    ((a : ℂ) * (I * (h : ℂ)) ^ k).im = (if k % 4 = 1 then a else if k % 4 = 3 then -a else 0) * h ^ k := by
  rw [mul_pow, Complex.I_pow_eq_pow_mod]
  have hlt : k % 4 < 4 := Nat.mod_lt _ (by norm_num)
  interval_cases hr : k % 4
  · have : (a : ℂ) * (I ^ 0 * (h : ℂ) ^ k) = ((a * h ^ k : ℝ) : ℂ) + ((0 : ℝ) : ℂ) * I := by push_cast; ring
    rw [this, im_form]; norm_num
  · have : (a : ℂ) * (I ^ 1 * (h : ℂ) ^ k) = ((0 : ℝ) : ℂ) + ((a * h ^ k : ℝ) : ℂ) * I := by push_cast; ring
    rw [this, im_form]; norm_num
  · have : (a : ℂ) * (I ^ 2 * (h : ℂ) ^ k) = ((-(a * h ^ k) : ℝ) : ℂ) + ((0 : ℝ) : ℂ) * I := by
      push_cast; rw [I_sq]; ring
    rw [this, im_form]; norm_num
  · have : (a : ℂ) * (I ^ 3 * (h : ℂ) ^ k) = ((0 : ℝ) : ℂ) + ((-(a * h ^ k) : ℝ) : ℂ) * I := by
      push_cast; rw [show (I : ℂ) ^ 3 = I ^ 2 * I by ring, I_sq]; ring
    rw [this, im_form]; norm_num

theorem qComplex_expansion (ζ : ℂ) (a : ℕ → ℝ) (M : ℕ) (x h : ℝ) :
    qComplex (cstepC ζ) (polyAtC a M x) x h
      = ∑ k ∈ range M, (if k % 4 = 1 then a k else if k % 4 = 3 then -a k else 0) * h ^ k := by
  unfold qComplex cstepC
  simp only []
  rw [polyAtC_shift, Complex.im_sum]
  exact Finset.sum_congr rfl (fun k _ => term_complex (a k) h k)

end Ndt
