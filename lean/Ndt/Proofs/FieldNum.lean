import Ndt.Num
import Mathlib.Algebra.Order.Field.Basic
import Mathlib.Algebra.Order.AbsoluteValue.Basic
/-! The `Num` instance of an arbitrary linearly ordered field: the instantiation at which the
property theorems are proved.  The models are the *same* definitions the driver runs at `Float`
and `Rat`. -/
namespace Ndt
open Classical in
noncomputable instance fieldNum {K} [Field K] [LinearOrder K] [IsStrictOrderedRing K] : Num K where
  abs := fun a => |a|
  zero := 0
  one := 1
  ofNat := fun n => (n : K)
  decLt := fun _ _ => inferInstance
  decLe := fun _ _ => inferInstance

variable {K : Type} [Field K] [LinearOrder K] [IsStrictOrderedRing K]

@[simp] theorem num_abs (a : K) : Num.abs a = |a| := rfl
@[simp] theorem num_one : (Num.one : K) = 1 := rfl
@[simp] theorem num_zero : (Num.zero : K) = 0 := rfl
@[simp] theorem num_ofNat (n : Nat) : (Num.ofNat n : K) = (n : K) := rfl

theorem maxAbs_eq (a b : K) : maxAbs a b = max |a| |b| := by
  simp only [maxAbs, num_abs]
  split_ifs with h
  · exact (max_eq_right (le_of_lt h)).symm
  · exact (max_eq_left (not_lt.mp h)).symm

theorem maxAbs_nonneg (a b : K) : 0 ≤ maxAbs a b := by
  rw [maxAbs_eq]; exact le_max_of_le_left (abs_nonneg a)
end Ndt
