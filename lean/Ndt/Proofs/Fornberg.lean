import Ndt.Model.Fornberg
import Mathlib.LinearAlgebra.Lagrange
import Mathlib.Algebra.Polynomial.Derivative
import Mathlib.Tactic.Ring
import Mathlib.Tactic.FieldSimp
/-! Fornberg's recursion computes the derivatives of the Lagrange basis polynomials: the loop
invariant of `_fd_weights_all`, proved for the function-level run `frun` and transferred to the
table-level run `frunT` that the driver executes. -/
open Polynomial Finset

namespace Ndt
variable {K : Type} [Field K]

theorem foldl_mul_range (g : ℕ → K) (a : K) (i : ℕ) :
    (List.range i).foldl (fun acc v => acc * g v) a = a * ∏ v ∈ range i, g v := by
  induction i with
  | zero => simp
  | succ i ih => rw [List.range_succ, List.foldl_append, ih, prod_range_succ]; simp [mul_assoc]

theorem fc2_eq (x : ℕ → K) (i : ℕ) : fc2 x i = ∏ v ∈ range i, (x i - x v) := by
  unfold fc2; rw [foldl_mul_range, one_mul]

/-- the spec: j-th derivative at x0 of the Lagrange basis polynomial of node v among nodes 0..i -/
noncomputable def spec (x : ℕ → K) (x0 : K) (i v j : ℕ) : K :=
  eval x0 (derivative^[j] (Lagrange.basis (range (i + 1)) x v))

theorem iter_deriv_linear_mul (a : K) (g : K[X]) (j : ℕ) :
    derivative^[j + 1] ((X - C a) * g) = (X - C a) * derivative^[j + 1] g + (j + 1 : K[X]) * derivative^[j] g := by
  induction j with
  | zero => simp [derivative_mul]; ring
  | succ j ih =>
    rw [Function.iterate_succ_apply', ih]
    simp only [derivative_add, derivative_mul, derivative_sub, derivative_X, derivative_C, sub_zero, one_mul,
      ← Function.iterate_succ_apply' derivative]
    simp only [derivative_natCast, derivative_one, add_zero, zero_mul, zero_add, Nat.succ_eq_add_one]
    push_cast; ring

/-- Leibniz for a linear factor, evaluation form, uniform in j (j - 1 truncated, multiplied by j = 0) -/
theorem eval_iter_deriv_linear_mul (a x0 : K) (g : K[X]) (j : ℕ) :
    eval x0 (derivative^[j] ((X - C a) * g))
      = (x0 - a) * eval x0 (derivative^[j] g) + (j : K) * eval x0 (derivative^[j - 1] g) := by
  cases j with
  | zero => simp
  | succ j => rw [iter_deriv_linear_mul]; simp

/-- adding a node multiplies every old basis polynomial by one basis divisor -/
theorem basis_succ_of_lt (x : ℕ → K) {i v : ℕ} (hv : v < i + 1) :
    Lagrange.basis (range (i + 2)) x v
      = Lagrange.basis (range (i + 1)) x v * Lagrange.basisDivisor (x v) (x (i + 1)) := by
  unfold Lagrange.basis
  have : (range (i + 2)).erase v = insert (i + 1) ((range (i + 1)).erase v) := by
    ext u; simp only [mem_erase, mem_range, mem_insert]; omega
  rw [this, prod_insert (by simp), mul_comm]

theorem spec_zero_of_lt (x : ℕ → K) (x0 : K) {i : ℕ} (hx : Set.InjOn x (range (i + 1) : Finset ℕ))
    {v j : ℕ} (hv : v ≤ i) (hj : i < j) : spec x x0 i v j = 0 := by
  unfold spec
  rw [iterate_derivative_eq_zero, eval_zero]
  rw [Lagrange.natDegree_basis hx (by simp; omega)]
  simp; omega

theorem basis_top (x : ℕ → K) (m : ℕ) :
    Lagrange.basis (range (m + 1)) x m
      = C (∏ u ∈ range m, (x m - x u))⁻¹ * ∏ u ∈ range m, (X - C (x u)) := by
  unfold Lagrange.basis Lagrange.basisDivisor
  have : (range (m + 1)).erase m = range m := by
    ext u; simp only [mem_erase, mem_range]; omega
  rw [this, prod_mul_distrib, ← map_prod, prod_inv_distrib]

theorem basis_top_succ (x : ℕ → K) (i : ℕ) (hx : Set.InjOn x (range (i + 2) : Finset ℕ)) :
    Lagrange.basis (range (i + 2)) x (i + 1)
      = C ((∏ u ∈ range i, (x i - x u)) / (∏ u ∈ range (i + 1), (x (i + 1) - x u)))
          * ((X - C (x i)) * Lagrange.basis (range (i + 1)) x i) := by
  have hc1 : (∏ u ∈ range i, (x i - x u)) ≠ 0 := by
    rw [prod_ne_zero_iff]; intro u hu
    have hu' : u < i := mem_range.mp hu
    refine sub_ne_zero.mpr (fun h => ?_)
    have := hx (by simp : i ∈ ((range (i + 2) : Finset ℕ) : Set ℕ)) (by simp; omega : u ∈ ((range (i + 2) : Finset ℕ) : Set ℕ)) h
    omega
  rw [basis_top x (i + 1), basis_top x i, prod_range_succ (fun u => X - C (x u))]
  rw [div_eq_mul_inv, C_mul]
  have : C (∏ u ∈ range i, (x i - x u)) * C (∏ u ∈ range i, (x i - x u))⁻¹ = (1 : K[X]) := by
    rw [← C_mul, mul_inv_cancel₀ hc1, C_1]
  calc C (∏ u ∈ range (i + 1), (x (i + 1) - x u))⁻¹ * ((∏ u ∈ range i, (X - C (x u))) * (X - C (x i)))
      = C (∏ u ∈ range (i + 1), (x (i + 1) - x u))⁻¹ * ((C (∏ u ∈ range i, (x i - x u)) * C (∏ u ∈ range i, (x i - x u))⁻¹) * ((∏ u ∈ range i, (X - C (x u))) * (X - C (x i)))) := by rw [this, one_mul]
    _ = _ := by ring

/-- the loop invariant -/
def Inv (x : ℕ → K) (x0 : K) (n i : ℕ) (s : FState K) : Prop :=
  (∀ v ≤ i, ∀ j ≤ n, s.W v j = spec x x0 i v j) ∧
  s.c1 = ∏ u ∈ range i, (x i - x u) ∧ s.c4 = x i - x0

theorem inv_init (x : ℕ → K) (x0 : K) (n : ℕ) : Inv x x0 n 0 (finit x x0) := by
  refine ⟨?_, by simp [finit], by simp [finit]⟩
  intro v hv j _
  have hv0 : v = 0 := by omega
  subst hv0
  unfold spec finit
  simp only [zero_add, range_one, Lagrange.basis_singleton, true_and]
  cases j with
  | zero => simp
  | succ j => rw [iterate_derivative_one (by omega)]; simp

theorem inv_step (x : ℕ → K) (x0 : K) (n i : ℕ) (s : FState K)
    (hx : Set.InjOn x (range (i + 2) : Finset ℕ)) (h : Inv x x0 n i s) :
    Inv x x0 n (i + 1) (fstep x x0 n s (i + 1)) := by
  obtain ⟨hW, hc1, hc4⟩ := h
  have hx1 : Set.InjOn x (range (i + 1) : Finset ℕ) :=
    hx.mono (by intro u hu; simp at hu ⊢; omega)
  refine ⟨?_, by simp [fstep, fc2_eq], rfl⟩
  intro v hv j hj
  by_cases hvi : v < i + 1
  · -- an old node
    have hne : x (i + 1) - x v ≠ 0 := by
      refine sub_ne_zero.mpr (fun h => ?_)
      have := hx (by simp : i + 1 ∈ ((range (i + 2) : Finset ℕ) : Set ℕ)) (by simp; omega : v ∈ ((range (i + 2) : Finset ℕ) : Set ℕ)) h
      omega
    have hne' : x v - x (i + 1) ≠ 0 := by
      intro h0; apply hne; rw [← neg_sub, h0, neg_zero]
    simp only [fstep, hvi, if_true]
    by_cases hjm : j ≤ min (i + 1) n
    · rw [if_pos hjm, hW v (by omega) j hj, hW v (by omega) (j - 1) (by omega)]
      unfold spec
      rw [basis_succ_of_lt x hvi, Lagrange.basisDivisor]
      have : Lagrange.basis (range (i + 1)) x v * (C (x v - x (i + 1))⁻¹ * (X - C (x (i + 1))))
          = C (x v - x (i + 1))⁻¹ * ((X - C (x (i + 1))) * Lagrange.basis (range (i + 1)) x v) := by ring
      rw [this, iterate_derivative_C_mul, eval_mul, eval_C, eval_iter_deriv_linear_mul]
      field_simp
      ring
    · rw [if_neg hjm, hW v (by omega) j hj, spec_zero_of_lt x x0 hx1 (by omega) (by omega),
        spec_zero_of_lt x x0 hx (by omega) (by omega)]
  · -- the new node
    have hv' : v = i + 1 := by omega
    subst hv'
    simp only [fstep, lt_irrefl, if_false, if_true, Nat.add_sub_cancel]
    by_cases hjm : j ≤ min (i + 1) n
    · rw [if_pos hjm, hW i le_rfl j hj, hW i le_rfl (j - 1) (by omega), hc1, hc4, fc2_eq]
      unfold spec
      rw [basis_top_succ x i hx, iterate_derivative_C_mul, eval_mul, eval_C, eval_iter_deriv_linear_mul]
      ring
    · rw [if_neg hjm, spec_zero_of_lt x x0 hx le_rfl (by omega)]

theorem inv_run (x : ℕ → K) (x0 : K) (n : ℕ) (i : ℕ) (hx : Set.InjOn x (range (i + 1) : Finset ℕ)) :
    Inv x x0 n i (frun x x0 n i) := by
  induction i with
  | zero => exact inv_init x x0 n
  | succ i ih =>
    exact inv_step x x0 n i _ hx (ih (hx.mono (by intro u hu; simp at hu ⊢; omega)))

/-! ### the table-level run agrees with the function-level run -/

theorem ofTab_ftab (s : FState K) (i n v j : ℕ) (hv : v ≤ i) (hj : j ≤ n) :
    ofTab (ftab s i n) v j = s.W v j := by
  unfold ofTab ftab
  have hv' : v < (List.range (i + 1)).length := by simp; omega
  have hj' : j < (List.range (n + 1)).length := by simp; omega
  simp [List.getD_eq_getElem?_getD, List.getElem?_map, List.getElem?_range, (by omega : v < i + 1),
    (by omega : j < n + 1)]

/-- `fstep` reads `W` only on rows `< i` and columns `≤ n` -/
theorem fstep_congr (x : ℕ → K) (x0 : K) (n i : ℕ) (hi : 1 ≤ i) (s s' : FState K)
    (hW : ∀ v < i, ∀ j ≤ n, s.W v j = s'.W v j) (hc1 : s.c1 = s'.c1) (hc4 : s.c4 = s'.c4) :
    (∀ v ≤ i, ∀ j ≤ n, (fstep x x0 n s i).W v j = (fstep x x0 n s' i).W v j) ∧
      (fstep x x0 n s i).c1 = (fstep x x0 n s' i).c1 ∧ (fstep x x0 n s i).c4 = (fstep x x0 n s' i).c4 := by
  refine ⟨?_, rfl, rfl⟩
  intro v hv j hj
  simp only [fstep]
  by_cases hvi : v < i
  · simp only [hvi, if_true]
    rw [hW v hvi j hj, hW v hvi (j - 1) (by omega)]
  · have : v = i := by omega
    subst this
    simp only [lt_irrefl, if_false, if_true]
    rw [hW (v - 1) (by omega) j hj, hW (v - 1) (by omega) (j - 1) (by omega), hc1, hc4]

theorem frunT_eq_frun (x : ℕ → K) (x0 : K) (n : ℕ) (i : ℕ) :
    (∀ v ≤ i, ∀ j ≤ n, (frunT x x0 n i).W v j = (frun x x0 n i).W v j) ∧
      (frunT x x0 n i).c1 = (frun x x0 n i).c1 ∧ (frunT x x0 n i).c4 = (frun x x0 n i).c4 := by
  induction i with
  | zero => exact ⟨fun _ _ _ _ => rfl, rfl, rfl⟩
  | succ i ih =>
    obtain ⟨hW, h1, h4⟩ := ih
    have hc := fstep_congr x x0 n (i + 1) (by omega) (frunT x x0 n i) (frun x x0 n i)
      (fun v hv j hj => hW v (by omega) j hj) h1 h4
    refine ⟨?_, hc.2.1, hc.2.2⟩
    intro v hv j hj
    show ofTab (ftab (fstep x x0 n (frunT x x0 n i) (i + 1)) (i + 1) n) v j = _
    rw [ofTab_ftab _ _ _ _ _ hv hj]
    exact hc.1 v hv j hj

end Ndt
