import Ndt.Model.Poly
import Mathlib.Algebra.Field.Basic
import Mathlib.Tactic.Ring
import Mathlib.Tactic.FieldSimp
import Mathlib.Algebra.BigOperators.Group.List.Basic
import Mathlib.Algebra.BigOperators.Group.Finset.Basic
import Mathlib.Algebra.BigOperators.Ring.Finset

namespace Ndt
variable {K : Type} [Field K]

@[simp] theorem npow_eq (x : K) (n : ℕ) : npow x n = x ^ n := by
  induction n with
  | zero => simp [npow]
  | succ n ih => simp [npow, ih, pow_succ]

@[simp] theorem evalP_nil (t : K) : evalP ([] : List K) t = 0 := rfl
@[simp] theorem evalP_cons (c : K) (p : List K) (t : K) : evalP (c :: p) t = c + t * evalP p t := rfl

theorem evalP_padd (p q : List K) (t : K) : evalP (padd p q) t = evalP p t + evalP q t := by
  induction p generalizing q with
  | nil => simp [padd]
  | cons a p ih =>
    cases q with
    | nil => simp [padd]
    | cons b q => simp [padd, ih]; ring

theorem evalP_map_mul (c : K) (p : List K) (t : K) :
    evalP (p.map (fun x => c * x)) t = c * evalP p t := by
  induction p with
  | nil => simp
  | cons a p ih => simp [ih]; ring

theorem evalP_mulLinear (p : List K) (a t : K) : evalP (mulLinear p a) t = evalP p t * (t - a) := by
  rw [mulLinear, evalP_padd, evalP_map_mul, evalP_cons]; ring

theorem evalP_pscale (c : K) (p : List K) (t : K) : evalP (pscale c p) t = c * evalP p t :=
  evalP_map_mul c p t

theorem evalP_lagrangeAux (tr : K) (rest acc : List K) (t : K) :
    evalP (lagrangeAux tr rest acc) t
      = evalP acc t * (rest.map (fun tj => (t - tj) / (tr - tj))).prod := by
  induction rest generalizing acc with
  | nil => simp [lagrangeAux]
  | cons tj rest ih =>
    simp [lagrangeAux, ih, evalP_pscale, evalP_mulLinear]; ring

/-- At its own node the basis polynomial is 1 (the other nodes differ from `tr`). -/
theorem evalP_lagrangeAux_self (tr : K) (rest : List K) (h : ∀ tj ∈ rest, tr ≠ tj) :
    evalP (lagrangeAux tr rest [1]) tr = 1 := by
  rw [evalP_lagrangeAux]
  have : (rest.map (fun tj => (tr - tj) / (tr - tj))).prod = 1 := by
    induction rest with
    | nil => simp
    | cons a rest ih =>
      have ha : tr - a ≠ 0 := sub_ne_zero.mpr (h a (by simp))
      simp only [List.map_cons, List.prod_cons]
      rw [ih (fun tj hj => h tj (by simp [hj])), div_self ha, one_mul]
  simp [this]

/-- At any other node in the list it vanishes. -/
theorem evalP_lagrangeAux_other (tr : K) (rest : List K) (tk : K) (hk : tk ∈ rest) :
    evalP (lagrangeAux tr rest [1]) tk = 0 := by
  rw [evalP_lagrangeAux]
  have : (rest.map (fun tj => (tk - tj) / (tr - tj))).prod = 0 := by
    induction rest with
    | nil => cases hk
    | cons a rest ih =>
      simp only [List.map_cons, List.prod_cons]
      rcases List.mem_cons.mp hk with rfl | h'
      · simp
      · rw [ih h', mul_zero]
  simp [this]

/-- **Lagrange property of the coefficient list**: for pairwise distinct nodes the polynomial with
coefficients `lagrangeCoeffs nodes r` takes the value 1 at node `r` and 0 at every other node. -/
theorem evalP_lagrangeCoeffs (nodes : List K) (hd : nodes.Nodup) (r j : ℕ)
    (hr : r < nodes.length) (hj : j < nodes.length) :
    evalP (lagrangeCoeffs nodes r) nodes[j] = if j = r then 1 else 0 := by
  unfold lagrangeCoeffs
  rw [List.getElem?_eq_getElem hr]
  simp only
  by_cases hjr : j = r
  · subst hjr
    rw [if_pos rfl]
    apply evalP_lagrangeAux_self
    intro tj htj heq
    have hmem : nodes[j] ∈ nodes.eraseIdx j := heq ▸ htj
    obtain ⟨i, hi, h1⟩ := List.mem_eraseIdx_iff_getElem?.mp hmem
    have hi' : i < nodes.length := by
      by_contra hcon
      rw [List.getElem?_eq_none (by omega)] at h1
      cases h1
    rw [List.getElem?_eq_getElem hi'] at h1
    exact hi ((List.Nodup.getElem_inj_iff hd).mp (Option.some.inj h1))
  · rw [if_neg hjr]
    apply evalP_lagrangeAux_other
    exact List.mem_eraseIdx_iff_getElem?.mpr ⟨j, hjr, List.getElem?_eq_getElem hj⟩

theorem dotF_pow (w : List K) (t c : K) :
    dotF w (fun i => c * t ^ i) = c * evalP w t := by
  induction w generalizing c with
  | nil => simp [dotF]
  | cons a w ih =>
    simp only [dotF, evalP_cons, pow_zero, mul_one]
    have : (fun i => c * t ^ (i + 1)) = (fun i => (c * t) * t ^ i) := by
      funext i; rw [pow_succ]; ring
    rw [this, ih]; ring

theorem dotF_add (w : List K) (g h : ℕ → K) :
    dotF w (fun i => g i + h i) = dotF w g + dotF w h := by
  induction w generalizing g h with
  | nil => simp [dotF]
  | cons a w ih => simp only [dotF]; rw [ih]; ring

theorem dotF_const_mul (w : List K) (c : K) (g : ℕ → K) :
    dotF w (fun i => c * g i) = c * dotF w g := by
  induction w generalizing g with
  | nil => simp [dotF]
  | cons a w ih => simp only [dotF]; rw [ih]; ring

theorem dotF_finset_sum {ι : Type} (s : Finset ι) (w : List K) (g : ι → ℕ → K) :
    dotF w (fun i => ∑ c ∈ s, g c i) = ∑ c ∈ s, dotF w (g c) := by
  classical
  induction s using Finset.induction_on with
  | empty =>
    simp only [Finset.sum_empty]
    have := dotF_const_mul w (0 : K) (fun _ => (0 : K))
    simpa using this
  | insert a s ha ih =>
    simp only [Finset.sum_insert ha]
    rw [dotF_add, ih]

theorem dotF_congr (w : List K) (g h : ℕ → K) (hgh : ∀ i < w.length, g i = h i) :
    dotF w g = dotF w h := by
  induction w generalizing g h with
  | nil => simp [dotF]
  | cons a w ih =>
    simp only [dotF]
    rw [hgh 0 (by simp), ih (fun i => g (i + 1)) (fun i => h (i + 1))
      (fun i hi => hgh (i + 1) (by simp; omega))]

/-- a window of a sequence that is a finite sum of powers of a geometric step:
`Σ_i w_i Σ_j d_j (h0 θ^(t+i))^(k_j) = Σ_j d_j (h0 θ^t)^(k_j) · p_w(θ^(k_j))` -/
theorem dotF_geometric {ι : Type} (S : Finset ι) (w : List K) (d : ι → K) (k : ι → ℕ) (h0 θ : K) (t : ℕ) :
    dotF w (fun i => ∑ j ∈ S, d j * (h0 * θ ^ (t + i)) ^ (k j))
      = ∑ j ∈ S, d j * (h0 * θ ^ t) ^ (k j) * evalP w (θ ^ (k j)) := by
  have : (fun i => ∑ j ∈ S, d j * (h0 * θ ^ (t + i)) ^ (k j))
      = (fun i => ∑ j ∈ S, (d j * (h0 * θ ^ t) ^ (k j)) * (θ ^ (k j)) ^ i) := by
    funext i
    apply Finset.sum_congr rfl
    intro j _
    rw [pow_add, ← pow_mul]
    ring
  rw [this, dotF_finset_sum]
  apply Finset.sum_congr rfl
  intro j _
  rw [dotF_pow]

/-- the list correlation read through `dotF` -/
theorem wsum_eq_dotF (w seq : List K) (h : w.length ≤ seq.length) :
    wsum w seq = dotF w (fun i => seq.getD i 0) := by
  induction w generalizing seq with
  | nil => cases seq <;> simp [wsum, dotF]
  | cons a w ih =>
    cases seq with
    | nil => simp at h
    | cons b seq =>
      simp only [wsum, dotF, List.getD_cons_zero, List.getD_cons_succ]
      rw [ih seq (by simpa using h)]

theorem correlate_length (w seq : List K) : (correlate w seq).length = seq.length + 1 - w.length := by
  simp [correlate]

/-- output `t` of the correlation is `Σ_j w[j] * seq[t+j]` -/
theorem correlate_getElem (w seq : List K) (t : ℕ) (ht : t < (correlate w seq).length) :
    (correlate w seq)[t] = dotF w (fun j => seq.getD (t + j) 0) := by
  have hlen : t < seq.length + 1 - w.length := by simpa [correlate] using ht
  simp only [correlate, List.getElem_map, List.getElem_range]
  rw [wsum_eq_dotF _ _ (by simp; omega)]
  apply dotF_congr
  intro i _
  simp [List.getD_eq_getElem?_getD, List.getElem?_drop]

end Ndt
