import Ndt.Model.Diff
import Ndt.Props.C06
import Mathlib.Algebra.BigOperators.Ring.Finset
import Mathlib.Algebra.Order.Ring.Defs
import Mathlib.Tactic.Ring
import Mathlib.Tactic.FieldSimp
import Mathlib.Tactic.Linarith
import Mathlib.Algebra.Field.Power
import Mathlib.Algebra.BigOperators.Field
/-!
Taylor expansions of the difference quotients of a polynomial (given by its coefficients in the
displacement `t - x`), and the finite-difference rule applied to an expansion given by powers `h^k`
with support in the exponents of the rule.
-/
open Finset
namespace Ndt
open Ndt.Gen

section field
variable {K : Type} [Field K]

/-- the polynomial `t ↦ Σ_{k<M} a k (t - x)^k` -/
def polyAt (a : ℕ → K) (M : ℕ) (x : K) : K → K := fun t => ∑ k ∈ range M, a k * (t - x) ^ k

theorem polyAt_self (a : ℕ → K) (M : ℕ) (hM : 0 < M) (x : K) : polyAt a M x x = a 0 := by
  unfold polyAt
  rw [Finset.sum_eq_single 0]
  · simp
  · intro k _ hk; simp [sub_self, zero_pow hk]
  · intro h; exact absurd (Finset.mem_range.mpr hM) h

theorem neg_one_pow_parity (k : ℕ) : ((-1 : K)) ^ k = if k % 2 = 0 then 1 else -1 := by
  rcases Nat.even_or_odd k with h | h
  · rw [h.neg_one_pow]; simp [Nat.even_iff.mp h]
  · rw [h.neg_one_pow]; simp [Nat.odd_iff.mp h]

variable [CharZero K]

/-- central quotient: only odd powers survive -/
theorem dCentral_expansion (a : ℕ → K) (M : ℕ) (x h fx : K) :
    dCentral (polyAt a M x) fx x h = ∑ k ∈ range M, (if k % 2 = 1 then a k else 0) * h ^ k := by
  unfold dCentral polyAt
  have e1 : x + h - x = h := by ring
  have e2 : x - h - x = -h := by ring
  rw [e1, e2, ← Finset.sum_sub_distrib, Finset.sum_div _ _ _]
  apply Finset.sum_congr rfl
  intro k _
  rw [neg_pow, neg_one_pow_parity]
  have h2 : (2 : K) ≠ 0 := two_ne_zero
  rcases Nat.mod_two_eq_zero_or_one k with hk | hk <;> simp [hk] <;> field_simp <;> ring

/-- even central quotient: only even powers `≥ 2` survive (given `fx = f x`) -/
theorem dCentralEven_expansion (a : ℕ → K) (M : ℕ) (hM : 0 < M) (x h : K) :
    dCentralEven (polyAt a M x) (polyAt a M x x) x h
      = ∑ k ∈ range M, (if k % 2 = 0 ∧ 2 ≤ k then a k else 0) * h ^ k := by
  rw [polyAt_self a M hM]
  unfold dCentralEven polyAt
  have e1 : x + h - x = h := by ring
  have e2 : x - h - x = -h := by ring
  rw [e1, e2, ← Finset.sum_add_distrib, Finset.sum_div _ _ _]
  have h0 : a 0 = ∑ k ∈ range M, (if k = 0 then a 0 else 0) := by
    rw [Finset.sum_ite_eq' (range M) 0 (fun _ => a 0)]; simp [hM]
  conv_lhs => rw [h0]
  rw [← Finset.sum_sub_distrib]
  apply Finset.sum_congr rfl
  intro k _
  rw [neg_pow, neg_one_pow_parity]
  have h2 : (2 : K) ≠ 0 := two_ne_zero
  rcases Nat.mod_two_eq_zero_or_one k with hk | hk
  · by_cases hk0 : k = 0
    · subst hk0; simp
    · have : 2 ≤ k := by omega
      simp [hk, hk0, this]
  · have hk0 : k ≠ 0 := by omega
    simp [hk, hk0]

/-- forward quotient: every power `≥ 1` -/
theorem dForward_expansion (a : ℕ → K) (M : ℕ) (hM : 0 < M) (x h : K) :
    dForward (polyAt a M x) (polyAt a M x x) x h = ∑ k ∈ range M, (if 1 ≤ k then a k else 0) * h ^ k := by
  rw [polyAt_self a M hM]
  unfold dForward polyAt
  have e1 : x + h - x = h := by ring
  rw [e1]
  have h0 : a 0 = ∑ k ∈ range M, (if k = 0 then a 0 else 0) := by
    rw [Finset.sum_ite_eq' (range M) 0 (fun _ => a 0)]; simp [hM]
  conv_lhs => rw [h0]
  rw [← Finset.sum_sub_distrib]
  apply Finset.sum_congr rfl
  intro k _
  by_cases hk0 : k = 0
  · subst hk0; simp
  · have : 1 ≤ k := by omega
    simp [hk0, this]

/-- backward quotient: every power `≥ 1`, with sign `(-1)^(k+1)` -/
theorem dBackward_expansion (a : ℕ → K) (M : ℕ) (hM : 0 < M) (x h : K) :
    dBackward (polyAt a M x) (polyAt a M x x) x h
      = ∑ k ∈ range M, (if 1 ≤ k then (-1) ^ (k + 1) * a k else 0) * h ^ k := by
  rw [polyAt_self a M hM]
  unfold dBackward polyAt
  have e2 : x - h - x = -h := by ring
  rw [e2]
  have h0 : a 0 = ∑ k ∈ range M, (if k = 0 then a 0 else 0) := by
    rw [Finset.sum_ite_eq' (range M) 0 (fun _ => a 0)]; simp [hM]
  conv_lhs => rw [h0]
  rw [← Finset.sum_sub_distrib]
  apply Finset.sum_congr rfl
  intro k _
  by_cases hk0 : k = 0
  · subst hk0; simp
  · have : 1 ≤ k := by omega
    simp only [hk0, if_false, this, if_true, zero_sub]
    rw [neg_pow, pow_succ]; ring

/-- **The rule on an expansion in powers `h^k`.**  If the quotient at step `h` is `Σ_{k<M} c_k h^k` with
`c_k = 0` for every `k` below the first uncovered exponent `k_nt` that is not one of the rule's exponents
`k_0 … k_{nt-1}`, then output `t` of the correlation with row `r`, at geometric steps, is
`c_{k_r} h_t^{k_r} / fdC r` plus the contribution of the powers `k ≥ k_nt` only. -/
theorem fdRow_apply_k (ρ : K) (p nt r M : ℕ) (hp : fd_parity_ok p = true)
    (hd : (fdNodes ρ p nt).Nodup) (hr : r < nt) (hM : fdExponent p nt ≤ M) (c : ℕ → K)
    (hc : ∀ k < fdExponent p nt, (∀ j < nt, k ≠ fdExponent p j) → c k = 0) (h0 : K) (t : ℕ) :
    dotF (fdRow ρ p nt r) (fun i => ∑ k ∈ range M, c k * (h0 * (1 / ρ) ^ (t + i)) ^ k)
      = c (fdExponent p r) * (h0 * (1 / ρ) ^ t) ^ fdExponent p r / fdC p r
        + ∑ k ∈ Ico (fdExponent p nt) M, c k * (h0 * (1 / ρ) ^ t) ^ k
            * evalP (fdRow ρ p nt r) ((1 / ρ) ^ k) := by
  rw [dotF_geometric (range M) (fdRow ρ p nt r) c (fun k => k) h0 (1 / ρ) t]
  rw [← Finset.sum_range_add_sum_Ico _ hM]
  congr 1
  have hstep := (fd_tables_pos p hp).1
  have hkr : fdExponent p r < fdExponent p nt := by
    unfold fdExponent
    have : fd_step p * r < fd_step p * nt := Nat.mul_lt_mul_of_pos_left hr (by omega)
    omega
  rw [Finset.sum_eq_single (fdExponent p r)]
  · have h1 := fdRow_moments ρ p nt r r hp hd hr hr
    rw [if_pos rfl] at h1
    have hcne := fdC_ne_zero (K := K) p r hp
    have : evalP (fdRow ρ p nt r) ((1 / ρ) ^ fdExponent p r) = 1 / fdC p r := by
      field_simp; exact h1
    rw [this]; ring
  · intro k hk hkr'
    by_cases hex : ∃ j < nt, k = fdExponent p j
    · obtain ⟨j, hj, rfl⟩ := hex
      have hjr : j ≠ r := fun h => hkr' (by rw [h])
      have h1 := fdRow_moments ρ p nt r j hp hd hr hj
      rw [if_neg hjr] at h1
      have hcne := fdC_ne_zero (K := K) p j hp
      have : evalP (fdRow ρ p nt r) ((1 / ρ) ^ fdExponent p j) = 0 := by
        rcases mul_eq_zero.mp h1 with h | h
        · exact h
        · exact absurd h hcne
      rw [this, mul_zero]
    · have : c k = 0 := hc k (Finset.mem_range.mp hk) (fun j hj hkj => hex ⟨j, hj, hkj⟩)
      rw [this]; ring
  · intro h; exact absurd (Finset.mem_range.mpr hkr) h

end field
end Ndt
