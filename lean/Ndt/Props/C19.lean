import Ndt.Model.NdScipy
import Mathlib.Algebra.BigOperators.Ring.Finset
import Mathlib.Tactic.Ring
import Mathlib.Tactic.FieldSimp
/-!
# C19 — nd_scipy wrappers return the Jacobian/gradient and respect bounds

Mostly a property of an external library; what is logic on our side: the method map (generated from the source),
the forwarding of options, the squeeze, and exactness of the documented `'cs'` contract on affine maps.
-/
open Finset
namespace Ndt
open Ndt.Gen

/-- the three methods of the property map to scipy's `'3-point'`, `'2-point'`, `'cs'`; `backward` is silently mapped to
the *forward* two-point scheme (recorded, outside the property's three methods); anything else raises KeyError -/
theorem method_map_total :
    ndScipyMethod .central = some .threePoint ∧ ndScipyMethod .forward = some .twoPoint ∧ ndScipyMethod .complex = some .cs ∧
    ndScipyMethod .backward = some .twoPoint ∧ ndScipyMethod .multicomplex = none ∧ ndScipyMethod .central2 = none ∧
    ndScipyMethod .other = none := by decide

/-- **forwarding**: step, bounds and the extra arguments reach the external call unchanged, whenever the method is known -/
theorem forwarding {A B S : Type} (m : Method) (step : S) (bounds : B) (args : A) (o : ScipyOptions A B S)
    (h : ndScipyOptions m step bounds args = some o) : o.relStep = step ∧ o.bounds = bounds ∧ o.args = args ∧ ndScipyMethod m = some o.method := by
  unfold ndScipyOptions at h
  cases hm : ndScipyMethod m with
  | none => rw [hm] at h; simp at h
  | some sm =>
    rw [hm] at h
    simp only [Option.map_some, Option.some.injEq] at h
    subst h
    exact ⟨rfl, rfl, rfl, rfl⟩

section cs
variable {K : Type} [Field K]

instance : OfNat (Cx K) 0 := ⟨⟨0, 0⟩⟩

/-- **`'cs'` is exact on affine maps**: under scipy's documented contract `Im f(x + i h e_j) / h`, for
`f(z) = A z + b` (real `A`, `b`, `n` variables) the entry `(i, j)` is exactly `A i j`, for every `h ≠ 0` -/
theorem cs_affine_exact (n : ℕ) (A : ℕ → ℕ → K) (b : ℕ → K) (x : ℕ → K) (h : K) (hh : h ≠ 0) (i j : ℕ) (hj : j < n) :
    csEntry (fun z i => ⟨b i + ∑ k ∈ range n, A i k * (z k).re, ∑ k ∈ range n, A i k * (z k).im⟩) x h i j = A i j := by
  unfold csEntry
  simp only
  have : ∑ k ∈ range n, A i k * (if k = j then h else 0) = A i j * h := by
    simp only [mul_ite, mul_zero]
    rw [Finset.sum_ite_eq' (range n) j]
    simp [hj]
  rw [this]
  field_simp

end cs

/-- Gradient: shape `(n,)`, 0-d for a single variable -/
theorem gradient_squeeze_shape (n : ℕ) : ndScipyGradShape 1 = [] ∧ (n ≠ 1 → ndScipyGradShape n = [n]) :=
  ⟨rfl, fun h => by simp [ndScipyGradShape, h]⟩

end Ndt
