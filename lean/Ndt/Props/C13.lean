import Ndt.Model.Dea3
import Ndt.Proofs.FieldNum
import Mathlib.Tactic.FieldSimp
import Mathlib.Tactic.Ring
import Mathlib.Tactic.Linarith
import Mathlib.Tactic.Positivity
import Ndt.Gen.Dea3
/-!
# C13 — dea3 recovers the limit of a geometric transient and never produces garbage

Theorems about `Ndt.dea3`, the very definition the driver runs at `Float` against numpy.
Here it is instantiated at an arbitrary linearly ordered field.
-/
namespace Ndt
variable {K : Type} [Field K] [LinearOrder K] [IsStrictOrderedRing K]

/-- `dea3` is a case split on the documented guard. -/
theorem dea3_eq (c : Consts K) (e0 e1 e2 : K) :
    dea3 c e0 e1 e2 =
      if dea3Converged c e0 e1 e2 then
        (e2, |e1 - e0| + |e2 - e1| + maxAbs e2 e1 * c.eps * c.ten)
      else
        (e1 + 1 / dea3Sss c e0 e1 e2,
         |e1 - e0| + |e2 - e1| + |e1 + 1 / dea3Sss c e0 e1 e2 - e2|) := by
  unfold dea3 dea3Converged dea3Sss
  simp only [num_abs, num_one, mul_one]
  split_ifs <;> rfl

/-- abserr is non-negative for **every** input, whenever the constants are non-negative. -/
theorem dea3_abserr_nonneg (c : Consts K) (hE : 0 ≤ c.eps) (hT : 0 ≤ c.ten) (e0 e1 e2 : K) :
    0 ≤ (dea3 c e0 e1 e2).2 := by
  rw [dea3_eq]
  have h1 := abs_nonneg (e1 - e0)
  have h2 := abs_nonneg (e2 - e1)
  have h3 := maxAbs_nonneg e2 e1
  split_ifs
  · have : 0 ≤ maxAbs e2 e1 * c.eps * c.ten := by positivity
    simp only; linarith
  · have := abs_nonneg (e1 + 1 / dea3Sss c e0 e1 e2 - e2)
    simp only; linarith

/-- the error estimate is never smaller than the distance between the result and the last term,
nor than the sum of the two differences -/
theorem dea3_abserr_ge (c : Consts K) (hE : 0 ≤ c.eps) (hT : 0 ≤ c.ten) (e0 e1 e2 : K) :
    |(dea3 c e0 e1 e2).1 - e2| ≤ (dea3 c e0 e1 e2).2 ∧
      |e1 - e0| + |e2 - e1| ≤ (dea3 c e0 e1 e2).2 := by
  rw [dea3_eq]
  have h1 := abs_nonneg (e1 - e0)
  have h2 := abs_nonneg (e2 - e1)
  have h3 := maxAbs_nonneg e2 e1
  split_ifs
  · have : 0 ≤ maxAbs e2 e1 * c.eps * c.ten := by positivity
    simp only [sub_self, abs_zero]
    constructor <;> linarith
  · have := abs_nonneg (e1 + 1 / dea3Sss c e0 e1 e2 - e2)
    simp only
    constructor <;> linarith

/-- equal / constant / converged input returns the last term itself -/
theorem dea3_converged (c : Consts K) (e0 e1 e2 : K) (h : dea3Converged c e0 e1 e2) :
    (dea3 c e0 e1 e2).1 = e2 := by
  rw [dea3_eq, if_pos h]

theorem dea3_constant (c : Consts K) (hE : 0 ≤ c.eps) (e0 e2 : K) :
    (dea3 c e0 e0 e2).1 = e2 := by
  apply dea3_converged
  left
  have := maxAbs_nonneg e0 e0
  simp only [sub_self, num_abs, abs_zero]
  positivity

/-- In the branch that divides, no denominator is zero: the field convention `x / 0 = 0` is
never what makes a statement about `dea3` true. -/
theorem dea3_no_division_by_zero (c : Consts K) (hE : 0 ≤ c.eps) (hS : 0 ≤ c.small)
    (e0 e1 e2 : K) (h : ¬ dea3Converged c e0 e1 e2) :
    (if |e1 - e0| < c.tiny then c.tiny else e1 - e0) ≠ 0 ∧
    (if |e2 - e1| < c.tiny then c.tiny else e2 - e1) ≠ 0 ∧
    dea3Sss c e0 e1 e2 ≠ 0 := by
  unfold dea3Converged at h
  simp only [num_abs, not_or, not_le] at h
  obtain ⟨h1, h2, h3⟩ := h
  have p1 : 0 < |e1 - e0| := lt_of_le_of_lt (mul_nonneg (maxAbs_nonneg _ _) hE) h1
  have p2 : 0 < |e2 - e1| := lt_of_le_of_lt (mul_nonneg (maxAbs_nonneg _ _) hE) h2
  refine ⟨?_, ?_, ?_⟩
  · split_ifs with g
    · exact ne_of_gt (lt_of_le_of_lt (abs_nonneg _) g)
    · exact abs_pos.mp p1
  · split_ifs with g
    · exact ne_of_gt (lt_of_le_of_lt (abs_nonneg _) g)
    · exact abs_pos.mp p2
  · intro hz
    rw [hz, zero_mul, abs_zero] at h3
    exact absurd h3 (not_lt.mpr hS)

/-- value of `sss` on a geometric triple when the `tiny` replacement does not fire -/
theorem dea3Sss_geometric (c : Consts K) (L a q : K) (ha : a ≠ 0) (hq0 : q ≠ 0) (hq1 : q ≠ 1)
    (g1 : ¬ |(L + a * q) - (L + a)| < c.tiny) (g2 : ¬ |(L + a * q * q) - (L + a * q)| < c.tiny) :
    dea3Sss c (L + a) (L + a * q) (L + a * q * q) = -(1 / (a * q)) + c.tiny := by
  have hq1' : q - 1 ≠ 0 := sub_ne_zero.mpr hq1
  unfold dea3Sss
  simp only [num_abs, num_one, if_neg g1, if_neg g2]
  have e1 : L + a * q - (L + a) = a * (q - 1) := by ring
  have e2 : L + a * q * q - (L + a * q) = a * q * (q - 1) := by ring
  rw [e1, e2]
  field_simp
  ring

/-- **Geometric transient, ideal guard (`tiny = 0`)**: outside the documented guard the result is
exactly `L`, for every `L`, every `a ≠ 0` and every ratio `q ∉ {0, 1}`. -/
theorem dea3_geometric (c : Consts K) (hT : c.tiny = 0) (L a q : K)
    (ha : a ≠ 0) (hq0 : q ≠ 0) (hq1 : q ≠ 1)
    (hnc : ¬ dea3Converged c (L + a) (L + a * q) (L + a * q * q)) :
    (dea3 c (L + a) (L + a * q) (L + a * q * q)).1 = L := by
  rw [dea3_eq, if_neg hnc]
  have g1 : ¬ |(L + a * q) - (L + a)| < c.tiny := by rw [hT]; exact not_lt.mpr (abs_nonneg _)
  have g2 : ¬ |(L + a * q * q) - (L + a * q)| < c.tiny := by rw [hT]; exact not_lt.mpr (abs_nonneg _)
  rw [dea3Sss_geometric c L a q ha hq0 hq1 g1 g2, hT]
  simp only
  field_simp
  ring

/-- **Geometric transient, actual guard (`tiny > 0`)**: the result differs from `L` exactly by the
perturbation the `+ _TINY` term introduces, `tiny / (s (s + tiny))` with `s = -1/(a q)`. -/
theorem dea3_geometric_tiny (c : Consts K) (L a q : K)
    (ha : a ≠ 0) (hq0 : q ≠ 0) (hq1 : q ≠ 1)
    (g1 : ¬ |(L + a * q) - (L + a)| < c.tiny) (g2 : ¬ |(L + a * q * q) - (L + a * q)| < c.tiny)
    (hs : -(1 / (a * q)) + c.tiny ≠ 0)
    (hnc : ¬ dea3Converged c (L + a) (L + a * q) (L + a * q * q)) :
    (dea3 c (L + a) (L + a * q) (L + a * q * q)).1
      = L - c.tiny / ((-(1 / (a * q))) * (-(1 / (a * q)) + c.tiny)) := by
  rw [dea3_eq, if_neg hnc, dea3Sss_geometric c L a q ha hq0 hq1 g1 g2]
  simp only
  have haq : a * q ≠ 0 := mul_ne_zero ha hq0
  have h2 : -1 + a * q * c.tiny ≠ 0 := by
    intro h0; apply hs
    field_simp
    linarith
  field_simp
  ring

/-- honest error estimate on geometric transients: the true error is not larger than `abserr` -/
theorem dea3_geometric_error_dominated (c : Consts K) (hT : c.tiny = 0) (hE : 0 ≤ c.eps)
    (hten : 0 ≤ c.ten) (L a q : K) (ha : a ≠ 0) (hq0 : q ≠ 0) (hq1 : q ≠ 1)
    (hnc : ¬ dea3Converged c (L + a) (L + a * q) (L + a * q * q)) :
    |(dea3 c (L + a) (L + a * q) (L + a * q * q)).1 - L|
      ≤ (dea3 c (L + a) (L + a * q) (L + a * q * q)).2 := by
  rw [dea3_geometric c hT L a q ha hq0 hq1 hnc, sub_self, abs_zero]
  exact dea3_abserr_nonneg c hE hten _ _ _

/-! ### array behaviour -/

theorem dea3List_length (c : Consts K) : ∀ (v0 v1 v2 : List K),
    v0.length = v1.length → v1.length = v2.length → (dea3List c v0 v1 v2).length = v0.length
  | [], _, _, _, _ => by simp [dea3List]
  | _ :: _, [], _, h, _ => by simp at h
  | _ :: _, _ :: _, [], _, h => by simp at h
  | a :: as, b :: bs, d :: ds, h1, h2 => by
    simp only [dea3List, List.length_cons] at *
    rw [dea3List_length c as bs ds (by omega) (by omega)]

/-- elementwise: entry `i` of the vectorised call depends only on entry `i` of each input -/
theorem dea3List_getElem (c : Consts K) : ∀ (v0 v1 v2 : List K) (i : Nat)
    (h0 : i < v0.length) (h1 : i < v1.length) (h2 : i < v2.length)
    (h : i < (dea3List c v0 v1 v2).length),
    (dea3List c v0 v1 v2)[i] = dea3 c v0[i] v1[i] v2[i]
  | a :: as, b :: bs, d :: ds, 0, _, _, _, _ => by simp [dea3List]
  | a :: as, b :: bs, d :: ds, i + 1, h0, h1, h2, h => by
    simp only [dea3List, List.getElem_cons_succ]
    exact dea3List_getElem c as bs ds i _ _ _ _

/-- `symmetric=True` only trims one element from each output -/
theorem dea3Call_symmetric (c : Consts K) (v0 v1 v2 : List K)
    (h : 1 < (dea3List c v0 v1 v2).length) :
    dea3Call c true v0 v1 v2
      = (((dea3List c v0 v1 v2).map Prod.fst).dropLast, ((dea3List c v0 v1 v2).map Prod.snd).drop 1) := by
  simp [dea3Call, h]

theorem dea3Call_plain (c : Consts K) (v0 v1 v2 : List K) :
    dea3Call c false v0 v1 v2
      = ((dea3List c v0 v1 v2).map Prod.fst, (dea3List c v0 v1 v2).map Prod.snd) := by
  simp [dea3Call]

/-! ### non-vacuity: a concrete geometric triple is outside the guard -/
example : ¬ @dea3Converged ℚ ratNum (⟨1/1000000, 0, 1/10000, 10⟩ : Consts ℚ) (0 + 1) (0 + 1 * (1/2)) (0 + 1 * (1/2) * (1/2)) := by
  decide +kernel

/-- **the elementwise body of `dea3` regenerated from the source on this run is the model these theorems are about** — for
every carrier, so also for the Float instance the driver compares bit for bit with numpy -/
theorem dea3_generated {K : Type} [Num K] (c : Consts K) (a b d : K) : Gen.dea3_elem c a b d = dea3 c a b d := by
  unfold Gen.dea3_elem dea3
  simp only [or_assoc]

end Ndt
