import Ndt.Model.Steps
import Ndt.Model.Rule
import Ndt.Proofs.FieldNum
import Mathlib.Tactic.Linarith
import Mathlib.Tactic.Positivity
import Mathlib.Tactic.IntervalCases
import Mathlib.Tactic.NormNum
import Mathlib.Tactic.FieldSimp
import Mathlib.Tactic.Ring
import Mathlib.Algebra.Order.Field.Power
/-!
# C10 — Step generators produce the documented geometric sequences, and enough steps

`Ndt.Gen.Steps` and `Ndt.Gen.LogRule` are regenerated from the source on every run.
-/
namespace Ndt
open Ndt.Gen

/-! ### the count logic -/

/-- `num_steps` is the given count (raised to `min_num_steps` iff `check_num_steps`), or
`min_num_steps + num_extrap` when none is given -/
theorem num_steps_logic (g : StepGen) :
    (∀ k, g.numSteps = some k → g.checkNumSteps = true → g.num_steps = max k g.min_num_steps) ∧
    (∀ k, g.numSteps = some k → g.checkNumSteps = false → g.num_steps = k) ∧
    (g.numSteps = none → g.num_steps = g.min_num_steps + g.numExtrap) := by
  refine ⟨?_, ?_, ?_⟩
  · intro k h1 h2; simp [StepGen.num_steps, h1, h2]
  · intro k h1 h2; simp [StepGen.num_steps, h1, h2]
  · intro h1; simp [StepGen.num_steps, h1]

theorem min_num_steps_pos (g : StepGen) : 1 ≤ g.min_num_steps := by
  simp [StepGen.min_num_steps]

/-- with `check_num_steps` (the default) or no explicit count, at least `min_num_steps` are generated -/
theorem min_le_num_steps (g : StepGen) (h : g.checkNumSteps = true ∨ g.numSteps = none) :
    g.min_num_steps ≤ g.num_steps := by
  rcases hn : g.numSteps with _ | k
  · simp [StepGen.num_steps, hn]
  · rcases h with h | h
    · simp [StepGen.num_steps, hn, h]
    · rw [hn] at h; cases h

/-- **the two separately maintained tables agree**: the divisor the step generator uses for
`(method, n, method_order)` is the exponent spacing of the rule, for every method, n, order -/
theorem divisor_eq_richardson_step (m : Method) (n order : ℕ) :
    let r : LogRule := ⟨n, m, order⟩
    StepGen._num_step_divisor m n r.method_order = r.richardson_step := by
  intro r
  cases m <;>
    simp [r, StepGen._num_step_divisor, LogRule.richardson_step, LogRule.method_order,
      LogRule._complex_high_order]
  -- complex
  by_cases h1 : 1 < n
  · simp [h1]
  · by_cases h4 : 4 ≤ order
    · have : 4 ≤ max (order / 4 * 4) 4 := by omega
      simp [h1, h4, this]
    · have h4' : ¬ 4 ≤ order := h4
      have : order / 2 * 2 < 4 := by omega
      simp [h1, h4', this]

/-- the number of entries of `LogRule.rule(…)` (see `fdRule`) -/
def ruleSize (r : LogRule) : ℕ :=
  if r.method == .multicomplex || r.n == 0 then 1 else r.num_terms

/-- **The default count always suffices**: for every method, every `n ≥ 1` and every order, a
generator that checks its count (the default) or has no explicit count produces more steps than the
rule of the same `(method, n, order)` consumes, so `_apply`'s guard `n_r < num_steps` cannot fire. -/
theorem default_count_suffices (g : StepGen) (h : g.checkNumSteps = true ∨ g.numSteps = none)
    (m : Method) (n order : ℕ) (hn : 1 ≤ n) :
    let r : LogRule := ⟨n, m, order⟩
    ruleSize r - 1 < (withRule g r).num_steps := by
  intro r
  have hmin := min_le_num_steps (withRule g r) (by simpa [withRule] using h)
  have hpos := min_num_steps_pos (withRule g r)
  have hdiv := divisor_eq_richardson_step m n order
  unfold ruleSize
  split_ifs with hmc
  · omega
  · have : r.num_terms ≤ (withRule g r).min_num_steps := by
      simp only [StepGen.min_num_steps, withRule, LogRule.num_terms]
      simp only [r] at hdiv ⊢
      rw [hdiv]
      have : n - 1 + (⟨n, m, order⟩ : LogRule).method_order = n + (⟨n, m, order⟩ : LogRule).method_order - 1 := by omega
      rw [this]
      exact le_max_left _ _
    have h1 : 1 ≤ r.num_terms ∨ r.num_terms = 0 := by omega
    omega

/-- both default generators of `Derivative` satisfy the hypothesis -/
theorem default_generators_check : maxGenDefaults.checkNumSteps = true ∧ minGenDefaults.checkNumSteps = true ∧
    minGenDefaults.numSteps = none := by decide

/-! ### documented defaults -/

theorem default_ratio (g : StepGen) :
    (g.n = 1 → g.default_step_ratio = 2) ∧ (g.n ≠ 1 → g.default_step_ratio = 8 / 5) := by
  constructor
  · intro h; simp [StepGen.default_step_ratio, h]; norm_num
  · intro h; simp [StepGen.default_step_ratio, h]; norm_num

theorem limit_default_ratio : cGenStepRatio = 4 := by norm_num [cGenStepRatio]

/-! ### the emitted sequence -/
section seq
variable {K : Type} [Field K] [LinearOrder K] [IsStrictOrderedRing K]

theorem numPow_eq (x : K) (n : ℕ) : numPow x n = x ^ n := by
  induction n with
  | zero => simp [numPow]
  | succ n ih => simp [numPow, ih, pow_succ]

theorem zpowK_eq (ρ : K) (e : ℤ) : zpowK ρ e = ρ ^ e := by
  unfold zpowK
  cases e with
  | ofNat k => simp [numPow_eq]
  | negSucc k => simp [numPow_eq, zpow_negSucc]

/-- no step is dropped when base and ratio are non-zero -/
theorem emitSteps_eq (base ρ : K) (hb : base ≠ 0) (hρ : ρ ≠ 0) (exps : List ℤ) :
    emitSteps base ρ exps = exps.map (fun e => base * ρ ^ e) := by
  unfold emitSteps
  rw [List.filter_eq_self.mpr]
  · simp [zpowK_eq]
  · intro s hs
    simp only [List.mem_map] at hs
    obtain ⟨e, _, rfl⟩ := hs
    simp only [num_zero, num_abs, decide_eq_true_eq, abs_pos, zpowK_eq]
    exact mul_ne_zero hb (zpow_ne_zero _ hρ)

/-- a zero base step is dropped entirely -/
theorem emitSteps_zero (ρ : K) (exps : List ℤ) : emitSteps (0 : K) ρ exps = [] := by
  unfold emitSteps
  rw [List.filter_eq_nil_iff]
  intro s hs
  simp only [List.mem_map] at hs
  obtain ⟨e, _, rfl⟩ := hs
  simp

/-- **MaxStepGenerator**: `steps[i] = base * ρ^(-i + offset)`, `i = 0 … num_steps-1` -/
theorem stepsMax_closed_form (base ρ : K) (hb : base ≠ 0) (hρ : ρ ≠ 0) (N : ℕ) (off : ℤ) :
    stepsMax base ρ N off = (List.range N).map (fun (i : ℕ) => base * ρ ^ (-(i : ℤ) + off)) := by
  unfold stepsMax
  rw [emitSteps_eq base ρ hb hρ]
  simp [basicMaxExponents, Function.comp_def]

/-- **MinStepGenerator**: `steps[k] = base * ρ^((num_steps-1-k) + offset)`: the same decreasing order -/
theorem stepsMin_closed_form (base ρ : K) (hb : base ≠ 0) (hρ : ρ ≠ 0) (N : ℕ) (off : ℤ) :
    stepsMin base ρ N off = (List.range N).reverse.map (fun (i : ℕ) => base * ρ ^ ((i : ℤ) + off)) := by
  unfold stepsMin
  rw [emitSteps_eq base ρ hb hρ]
  simp [basicMinExponents, Function.comp_def]

/-- both generators emit a geometric sequence of decreasing magnitude: `steps[k+1] * ρ = steps[k]` -/
theorem steps_geometric_max (base ρ : K) (hb : base ≠ 0) (hρ : ρ ≠ 0) (N : ℕ) (off : ℤ) (k : ℕ) (hk : k + 1 < N) :
    ((stepsMax base ρ N off).getD (k + 1) 0) * ρ = (stepsMax base ρ N off).getD k 0 := by
  rw [stepsMax_closed_form base ρ hb hρ]
  simp only [List.getD_eq_getElem?_getD, List.getElem?_map, List.getElem?_range hk,
    List.getElem?_range (by omega : k < N), Option.map_some, Option.getD_some]
  rw [mul_assoc, ← zpow_add_one₀ hρ]
  congr 2
  push_cast; ring

theorem steps_geometric_min (base ρ : K) (hb : base ≠ 0) (hρ : ρ ≠ 0) (N : ℕ) (off : ℤ) (k : ℕ) (hk : k + 1 < N) :
    ((stepsMin base ρ N off).getD (k + 1) 0) * ρ = (stepsMin base ρ N off).getD k 0 := by
  rw [stepsMin_closed_form base ρ hb hρ]
  have h1 : (List.range N).reverse[k + 1]? = some (N - 1 - (k + 1)) := by
    rw [List.getElem?_reverse (by simpa using hk), List.length_range, List.getElem?_range (by omega)]
  have h0 : (List.range N).reverse[k]? = some (N - 1 - k) := by
    rw [List.getElem?_reverse (by simp; omega), List.length_range, List.getElem?_range (by omega)]
  simp only [List.getD_eq_getElem?_getD, List.getElem?_map, h1, h0, Option.map_some, Option.getD_some]
  rw [mul_assoc, ← zpow_add_one₀ hρ]
  congr 2
  have : ((N - 1 - (k + 1) : ℕ) : ℤ) + 1 = ((N - 1 - k : ℕ) : ℤ) := by omega
  linarith

end seq

/-! ### non-vacuity: the documented examples -/
example : stepsMax (2 : ℚ) 2 4 0 = [2, 1, 1/2, 1/4] := by decide +kernel
example : stepsMin (1/4 : ℚ) 2 4 0 = [2, 1, 1/2, 1/4] := by decide +kernel


theorem ratPow_nonneg (x : Rat) (hx : 0 ≤ x) (k : ℕ) : 0 ≤ ratPow x k := by
  induction k with
  | zero => simp [ratPow]
  | succ k ih => simp only [ratPow]; positivity

/-- **the default scale is at least 1.06**, so the default base step `EPS ** (1 / scale)` is a well-defined number in (0, 1) for
every method, derivative order and approximation order -/
theorem default_scale_pos (m : Method) (n order : ℕ) : (1.06 : Rat) ≤ default_scale m n order := by
  unfold default_scale
  have hc : ∀ k : ℕ, (0 : Rat) ≤ ratPow (1.5 : Rat) k ∧ (0 : Rat) ≤ ratPow (1.7 : Rat) k ∧ (0 : Rat) ≤ ratPow (2.1 : Rat) k :=
    fun k => ⟨ratPow_nonneg _ (by norm_num) k, ratPow_nonneg _ (by norm_num) k, ratPow_nonneg _ (by norm_num) k⟩
  obtain ⟨h15, h17, h21⟩ := hc (n / 4)
  have hn4 : (0 : Rat) ≤ ((n / 4 : ℕ) : Rat) := Nat.cast_nonneg _
  have hn1 : (0 : Rat) ≤ ((n - 1 : ℕ) : Rat) := Nat.cast_nonneg _
  have hlt : n % 4 < 4 := Nat.mod_lt _ (by norm_num)
  simp only []
  have hord : (0 : Rat) ≤ ((max (order / 2 - 1) 0 * 3 : ℕ) : Rat) ∧ (0 : Rat) ≤ ((max (order / 2 - 1) 0 * 2 : ℕ) : Rat)
      ∧ (0 : Rat) ≤ ((max (order / 2 - 1) 0 * 0 : ℕ) : Rat) := ⟨Nat.cast_nonneg _, Nat.cast_nonneg _, Nat.cast_nonneg _⟩
  obtain ⟨ho3, ho2, ho0⟩ := hord
  cases m
  case complex =>
    simp only []
    set L : List Rat := [((n / 4 : ℕ) : Rat) * (((10 : ℕ) : Rat) + (1.5 : Rat) * (((if decide (n > 10) = true then 1 else 0 : ℕ)) : Rat)),
          (3.65 : Rat) + ((n / 4 : ℕ) : Rat) * (((5 : ℕ) : Rat) + ratPow (1.5 : Rat) (n / 4)),
          (3.65 : Rat) + ((n / 4 : ℕ) : Rat) * (((5 : ℕ) : Rat) + ratPow (1.7 : Rat) (n / 4)),
          (7.3 : Rat) + ((n / 4 : ℕ) : Rat) * (((5 : ℕ) : Rat) + ratPow (2.1 : Rat) (n / 4))] with hL
    have hLnn : ∀ x ∈ L, (0 : Rat) ≤ x := by
      intro x hx
      simp only [hL, List.mem_cons, List.mem_nil_iff, or_false] at hx
      rcases hx with rfl | rfl | rfl | rfl <;> positivity
    have hget : (0 : Rat) ≤ L.getD (n % 4) 0 := by
      rw [List.getD_eq_getElem?_getD]
      cases hq : L[n % 4]? with
      | none => simp
      | some v => simpa using hLnn v (List.mem_of_getElem? hq)
    have hcnn : (0 : Rat) ≤ (if decide ((if (decide (n > 1) || decide (order ≥ 4)) = true then 1 else 0) ≠ 0) = true then
        L.getD (n % 4) 0 else ((0 : ℕ) : Rat)) := by
      split_ifs <;> first | exact hget | simp
    norm_num at hcnn ⊢
    try linarith
  all_goals (simp only []; norm_num; try nlinarith [hn1, ho3, ho2, ho0])

/-! ### per-variable base steps -/
section vec
variable {K : Type} [Field K] [LinearOrder K] [IsStrictOrderedRing K]

/-- **A per-variable base step with one vanishing entry leaves no step**: every generated step vector has a zero component and is
dropped by the generators' filter `(np.abs(step) > 0).all()`, so the sequence is empty (and `Derivative._get_steps` raises, by
`no_steps_raises`) -/
theorem emitStepsVec_zero_component (bases : List K) (ρ : K) (exps : List ℤ) (h : (0 : K) ∈ bases) :
    emitStepsVec bases ρ exps = [] := by
  unfold emitStepsVec
  rw [List.filter_eq_nil_iff]
  intro v hv
  simp only [List.mem_map] at hv
  obtain ⟨e, _, rfl⟩ := hv
  simp only [List.all_eq_true, not_forall]
  refine ⟨0 * zpowK ρ e, List.mem_map.mpr ⟨0, h, rfl⟩, ?_⟩
  simp

/-- ... and nothing is dropped when every base step and the ratio are non-zero -/
theorem emitStepsVec_eq (bases : List K) (ρ : K) (exps : List ℤ) (hb : ∀ b ∈ bases, b ≠ 0) (hρ : ρ ≠ 0) :
    emitStepsVec bases ρ exps = exps.map (fun e => bases.map (fun b => b * ρ ^ e)) := by
  unfold emitStepsVec
  rw [List.filter_eq_self.mpr]
  · simp [zpowK_eq]
  · intro v hv
    simp only [List.mem_map] at hv
    obtain ⟨e, _, rfl⟩ := hv
    simp only [List.all_eq_true, List.mem_map]
    rintro s ⟨b, hbm, rfl⟩
    simp only [num_zero, num_abs, decide_eq_true_eq, abs_pos, zpowK_eq]
    exact mul_ne_zero (hb b hbm) (zpow_ne_zero _ hρ)

/-- non-vacuity of the hypothesis: the base steps (1/1000, 0) have a vanishing entry, (1/1000, 1/4) have none -/
example : (0 : ℚ) ∈ [1 / 1000, 0] ∧ ∀ b ∈ ([1 / 1000, 1 / 4] : List ℚ), b ≠ 0 := by
  constructor
  · simp
  · intro b hb; simp at hb; rcases hb with rfl | rfl <;> norm_num
end vec

end Ndt
