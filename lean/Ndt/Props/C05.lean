import Ndt.Model.Points
import Ndt.Proofs.DiffGen
import Ndt.Proofs.FieldNum
import Mathlib.Tactic.Linarith
import Mathlib.Tactic.Positivity
import Mathlib.Tactic.Ring
/-!
# C05 — The function is only evaluated where the chosen method promises

`pointsScalar / pointsJacobian / pointsHessdiag / pointsHessian` list the arguments of every difference
function (compared, as multisets and bit for bit, with the arguments recorded on the real classes).
The theorems state the admissibility of those lists for every `x`, every positive step and every dimension.
-/
namespace Ndt
variable {K : Type} [Field K] [LinearOrder K] [IsStrictOrderedRing K]

/-! ### the quotients depend on `f` only through the listed points -/
theorem dCentral_depends (f g : K → K) (fx x h : K) (h1 : f (x + h) = g (x + h)) (h2 : f (x - h) = g (x - h)) :
    dCentral f fx x h = dCentral g fx x h := by simp [dCentral, h1, h2]
theorem dCentralEven_depends (f g : K → K) (fx x h : K) (h1 : f (x + h) = g (x + h)) (h2 : f (x - h) = g (x - h)) :
    dCentralEven f fx x h = dCentralEven g fx x h := by simp [dCentralEven, h1, h2]
theorem dForward_depends (f g : K → K) (fx x h : K) (h1 : f (x + h) = g (x + h)) :
    dForward f fx x h = dForward g fx x h := by simp [dForward, h1]
theorem dBackward_depends (f g : K → K) (fx x h : K) (h1 : f (x - h) = g (x - h)) :
    dBackward f fx x h = dBackward g fx x h := by simp [dBackward, h1]
theorem dComplex_depends (f g : Cx K → Cx K) (x h : K) (h1 : f ⟨x, h⟩ = g ⟨x, h⟩) :
    dComplex f x h = dComplex g x h := by simp [dComplex, h1]

/-! ### scalar difference functions -/

/-- forward never evaluates below `x`, backward never above (positive step) -/
theorem scalar_onesided (c : PtConsts K) (x h : K) (hh : 0 < h) :
    (∀ p ∈ pointsScalar c .forward x h, x ≤ p.re ∧ p.im = 0 ∧ p.z2re = 0 ∧ p.z2im = 0) ∧
    (∀ p ∈ pointsScalar c .backward x h, p.re ≤ x ∧ p.im = 0 ∧ p.z2re = 0 ∧ p.z2im = 0) := by
  constructor <;> intro p hp <;> simp [pointsScalar, Pt4.real] at hp <;> subst hp <;>
    exact ⟨by linarith, rfl, rfl, rfl⟩

/-- central evaluates at a pair symmetric about `x` -/
theorem scalar_central_symmetric (c : PtConsts K) (x h : K) (d : DiffName) (hd : d = .central ∨ d = .central_even) :
    pointsScalar c d x h = [Pt4.real (x + h), Pt4.real (x - h)] ∧ (x + h) + (x - h) = 2 * x := by
  rcases hd with rfl | rfl <;> exact ⟨rfl, by ring⟩

/-- the default first-derivative complex rule and both multicomplex rules perturb imaginary parts only: the real part
of every argument is exactly `x` -/
theorem scalar_imaginary_only (c : PtConsts K) (x h : K) (d : DiffName)
    (hd : d = .complex ∨ d = .multicomplex ∨ d = .multicomplex2) : ∀ p ∈ pointsScalar c d x h, p.re = x := by
  rcases hd with rfl | rfl | rfl <;> intro p hp <;> simp [pointsScalar] at hp <;> subst hp <;> rfl

/-- which configurations get an imaginary-only rule (on the generated name dispatch): method `complex` with a first derivative
of requested order 1, 2 or 3 (effective order 2) selects the plain rule `_complex`, and `multicomplex` (n = 1, 2) selects
`_multicomplex` / `_multicomplex2` — so that, with `scalar_imaginary_only`, the real part of every argument is exactly `x`. -/
theorem imaginary_only_rule_selected (c : PtConsts K) (x h : K) (n order : ℕ) :
    ((n = 1 ∧ order < 4) → ∃ d, diffName ⟨n, .complex, order⟩ = some d ∧ ∀ p ∈ pointsScalar c d x h, p.re = x) ∧
    ((n = 1 ∨ n = 2) → ∃ d, diffName ⟨n, .multicomplex, order⟩ = some d ∧ ∀ p ∈ pointsScalar c d x h, p.re = x) := by
  refine ⟨?_, ?_⟩
  · rintro ⟨rfl, ho⟩
    refine ⟨.complex, ?_, scalar_imaginary_only c x h .complex (Or.inl rfl)⟩
    have h4 : ¬ (4 ≤ order) := by omega
    simp [diffName, Gen.LogRule._get_middle_name, Gen.LogRule._get_last_name, Gen.LogRule._even_derivative, Gen.LogRule._odd_derivative,
      Gen.LogRule._complex_high_order, Gen.LogRule._multicomplex_middle_name, Gen.LogRule._derivative_mod_four_is_zero,
      Gen.LogRule._derivative_mod_four_is_three, h4]
  · rintro (rfl | rfl)
    · refine ⟨.multicomplex, ?_, scalar_imaginary_only c x h .multicomplex (Or.inr (Or.inl rfl))⟩
      simp [diffName, Gen.LogRule._get_middle_name, Gen.LogRule._get_last_name, Gen.LogRule._even_derivative, Gen.LogRule._odd_derivative,
        Gen.LogRule._complex_high_order, Gen.LogRule._multicomplex_middle_name, Gen.LogRule._derivative_mod_four_is_zero,
        Gen.LogRule._derivative_mod_four_is_three]
    · refine ⟨.multicomplex2, ?_, scalar_imaginary_only c x h .multicomplex2 (Or.inr (Or.inr rfl))⟩
      simp [diffName, Gen.LogRule._get_middle_name, Gen.LogRule._get_last_name, Gen.LogRule._even_derivative, Gen.LogRule._odd_derivative,
        Gen.LogRule._complex_high_order, Gen.LogRule._multicomplex_middle_name, Gen.LogRule._derivative_mod_four_is_zero,
        Gen.LogRule._derivative_mod_four_is_three]

/-- every real-step argument is within one step of `x` -/
theorem scalar_near (c : PtConsts K) (x h : K) (hh : 0 ≤ h) (d : DiffName)
    (hd : d = .central ∨ d = .central_even ∨ d = .forward ∨ d = .backward) :
    ∀ p ∈ pointsScalar c d x h, |p.re - x| ≤ h := by
  rcases hd with rfl | rfl | rfl | rfl <;> intro p hp <;> simp [pointsScalar, Pt4.real] at hp <;>
    (try rcases hp with rfl | rfl) <;> (try subst hp) <;> simp [abs_of_nonneg hh]

/-! ### Gradient / Jacobian: one coordinate at a time -/

/-- every argument of a Jacobian difference function changes exactly one coordinate `k < n`, and that coordinate takes
a value from the scalar list for `(x_k, h_k)` — so the scalar theorems transfer coordinatewise -/
theorem jacobian_one_coordinate (c : PtConsts K) (d : DiffName) (x h : List K) :
    ∀ e ∈ pointsJacobian c d x h, ∃ k p, e = [(k, p)] ∧ k < x.length ∧ p ∈ pointsScalar c d (getK x k) (getK h k) := by
  intro e he
  simp only [pointsJacobian, List.mem_flatMap, List.mem_range, List.mem_map] at he
  obtain ⟨k, hk, p, hp, rfl⟩ := he
  exact ⟨k, p, rfl, hk, hp⟩

/-! ### Hessdiag: one coordinate, stencil width 1 or 2 -/
theorem hessdiag_one_coordinate (c : PtConsts K) (d : String) (x h : List K) :
    ∀ e ∈ pointsHessdiag c d x h, ∃ k p, e = [(k, p)] ∧ k < x.length := by
  intro e he
  simp only [pointsHessdiag, List.mem_flatMap, List.mem_range, List.mem_map] at he
  obtain ⟨k, hk, p, _, rfl⟩ := he
  exact ⟨k, p, rfl, hk⟩

/-- the real-step Hessdiag rules stay within `2 h_k` of `x_k` (width 2 for `_central2`, 1 otherwise), forward never
below, backward never above -/
theorem hessdiag_real_points (c : PtConsts K) (x h : List K) (hpos : ∀ k, 0 < getK h k) :
    (∀ e ∈ pointsHessdiag c "_central2" x h, ∀ kp ∈ e, |kp.2.re - getK x kp.1| ≤ 2 * getK h kp.1) ∧
    (∀ e ∈ pointsHessdiag c "_central_even" x h, ∀ kp ∈ e, |kp.2.re - getK x kp.1| ≤ getK h kp.1) ∧
    (∀ e ∈ pointsHessdiag c "_forward" x h, ∀ kp ∈ e, getK x kp.1 ≤ kp.2.re) ∧
    (∀ e ∈ pointsHessdiag c "_backward" x h, ∀ kp ∈ e, kp.2.re ≤ getK x kp.1) ∧
    (∀ e ∈ pointsHessdiag c "_multicomplex2" x h, ∀ kp ∈ e, kp.2.re = getK x kp.1) := by
  refine ⟨?_, ?_, ?_, ?_, ?_⟩ <;> intro e he kp hkp <;>
    simp only [pointsHessdiag, List.mem_flatMap, List.mem_range, List.mem_map] at he <;>
    obtain ⟨k, _, p, hp, rfl⟩ := he <;>
    simp only [List.mem_singleton] at hkp <;> subst hkp <;>
    have hk := hpos k <;>
    simp [Pt4.real, num_ofNat] at hp
  · rcases hp with rfl | rfl | rfl | rfl <;> simp [abs_of_pos hk] <;> linarith
  · rcases hp with rfl | rfl <;> simp [abs_of_pos hk]
  · subst hp; simp; linarith
  · subst hp; simp; linarith
  · subst hp; rfl

/-! ### Hessian: at most two coordinates -/

/-- the index pairs `i ≤ j < n` the Hessian loops run over -/
theorem mem_pairs (n i j : ℕ)
    (h : (i, j) ∈ (List.range n).flatMap (fun i => (List.range (n - i)).map (fun t => (i, i + t)))) :
    i < n ∧ j < n ∧ i ≤ j := by
  simp only [List.mem_flatMap, List.mem_range, List.mem_map, Prod.mk.injEq] at h
  obtain ⟨a, ha, t, ht, rfl, rfl⟩ := h
  omega

/-- every Hessian argument changes at most two coordinates, both valid indices -/
theorem hessian_two_coordinates (d : String) (x h : List K) :
    ∀ e ∈ pointsHessian d x h, e.length ≤ 2 ∧ ∀ kp ∈ e, kp.1 < x.length := by
  intro e he
  unfold pointsHessian at he
  simp only at he
  split_ifs at he
  · -- _complex_even
    obtain ⟨⟨i, j⟩, hij, he⟩ := List.mem_flatMap.mp he
    obtain ⟨hi, hj, _⟩ := mem_pairs _ _ _ hij
    simp only at he
    split_ifs at he <;> simp only [List.mem_cons, List.not_mem_nil, or_false] at he <;>
      rcases he with rfl | rfl <;> simp [hi, hj]
  · -- _multicomplex2
    obtain ⟨⟨i, j⟩, hij, rfl⟩ := List.mem_map.mp he
    obtain ⟨hi, hj, _⟩ := mem_pairs _ _ _ hij
    simp only
    split_ifs <;> simp [hi, hj]
  · -- _central_even
    obtain ⟨i, hi, he⟩ := List.mem_flatMap.mp he
    have hi' : i < x.length := List.mem_range.mp hi
    rcases List.mem_append.mp he with he | he
    · simp only [List.mem_cons, List.not_mem_nil, or_false] at he
      rcases he with rfl | rfl <;> simp [hi']
    · obtain ⟨t, ht, he⟩ := List.mem_flatMap.mp he
      have ht' : t < x.length - i - 1 := List.mem_range.mp ht
      have hj : i + 1 + t < x.length := by omega
      simp only [List.mem_cons, List.not_mem_nil, or_false] at he
      rcases he with rfl | rfl | rfl | rfl <;> simp [hi', hj]
  · -- _central2
    rcases List.mem_append.mp he with he | he
    · obtain ⟨i, hi, he⟩ := List.mem_flatMap.mp he
      have hi' : i < x.length := List.mem_range.mp hi
      simp only [List.mem_cons, List.not_mem_nil, or_false] at he
      rcases he with rfl | rfl <;> simp [hi']
    · obtain ⟨⟨i, j⟩, hij, he⟩ := List.mem_flatMap.mp he
      obtain ⟨hi, hj, _⟩ := mem_pairs _ _ _ hij
      simp only at he
      split_ifs at he <;> simp only [List.mem_cons, List.not_mem_nil, or_false] at he <;>
        rcases he with rfl | rfl <;> simp [hi, hj]
  · -- _forward / _backward
    rcases List.mem_append.mp he with he | he
    · obtain ⟨i, hi, rfl⟩ := List.mem_map.mp he
      simp [List.mem_range.mp hi]
    · obtain ⟨⟨i, j⟩, hij, rfl⟩ := List.mem_map.mp he
      obtain ⟨hi, hj, _⟩ := mem_pairs _ _ _ hij
      simp only
      split_ifs <;> simp [hi, hj]
  · -- (second case of the inner sign test)
    rcases List.mem_append.mp he with he | he
    · obtain ⟨i, hi, rfl⟩ := List.mem_map.mp he
      simp [List.mem_range.mp hi]
    · obtain ⟨⟨i, j⟩, hij, rfl⟩ := List.mem_map.mp he
      obtain ⟨hi, hj, _⟩ := mem_pairs _ _ _ hij
      simp only
      split_ifs <;> simp [hi, hj]
  · simp at he

/-- Hessian `forward` never evaluates below `x` in any coordinate (positive steps) -/
theorem hessian_forward_onesided (x h : List K) (hpos : ∀ k, 0 < getK h k) :
    ∀ e ∈ pointsHessian "_forward" x h, ∀ kp ∈ e, getK x kp.1 ≤ kp.2.re := by
  intro e he kp hkp
  unfold pointsHessian at he
  simp only [show ("_forward" == "_complex_even") = false by decide, show ("_forward" == "_multicomplex2") = false by decide,
    show ("_forward" == "_central_even") = false by decide, show ("_forward" == "_central2") = false by decide,
    show ("_forward" == "_forward") = true by decide, show ("_forward" == "_backward") = false by decide,
    Bool.false_eq_true, if_false, Bool.true_or, if_true] at he
  rcases List.mem_append.mp he with he | he
  · obtain ⟨i, _, rfl⟩ := List.mem_map.mp he
    simp only [List.mem_singleton] at hkp; subst hkp
    have := hpos i; simp [Pt4.real]; linarith
  · obtain ⟨⟨i, j⟩, _, rfl⟩ := List.mem_map.mp he
    have hi := hpos i; have hj := hpos j
    simp only at hkp
    split_ifs at hkp <;> simp only [List.mem_cons, List.not_mem_nil, or_false] at hkp
    · subst hkp; simp [Pt4.real]; linarith
    · rcases hkp with rfl | rfl <;> simp [Pt4.real] <;> linarith

/-- Hessian `backward` never evaluates above `x` in any coordinate (positive steps) -/
theorem hessian_backward_onesided (x h : List K) (hpos : ∀ k, 0 < getK h k) :
    ∀ e ∈ pointsHessian "_backward" x h, ∀ kp ∈ e, kp.2.re ≤ getK x kp.1 := by
  intro e he kp hkp
  unfold pointsHessian at he
  simp only [show ("_backward" == "_complex_even") = false by decide, show ("_backward" == "_multicomplex2") = false by decide,
    show ("_backward" == "_central_even") = false by decide, show ("_backward" == "_central2") = false by decide,
    show ("_backward" == "_backward") = true by decide, show ("_backward" == "_forward") = false by decide,
    Bool.false_eq_true, if_false, Bool.or_true, if_true] at he
  rcases List.mem_append.mp he with he | he
  · obtain ⟨i, _, rfl⟩ := List.mem_map.mp he
    simp only [List.mem_singleton] at hkp; subst hkp
    have := hpos i; simp [Pt4.real]; linarith
  · obtain ⟨⟨i, j⟩, _, rfl⟩ := List.mem_map.mp he
    have hi := hpos i; have hj := hpos j
    simp only at hkp
    split_ifs at hkp <;> simp only [List.mem_cons, List.not_mem_nil, or_false] at hkp
    · subst hkp; simp [Pt4.real]; linarith
    · rcases hkp with rfl | rfl <;> simp [Pt4.real] <;> linarith

end Ndt
