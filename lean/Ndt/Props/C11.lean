import Ndt.Model.Guards
import Ndt.Props.C10
import Ndt.Model.Fornberg
import Ndt.Model.FdDerivative
import Mathlib.Tactic.SplitIfs
import Mathlib.Data.Nat.Notation
/-!
# C11 — Misuse fails loudly with ValueError instead of returning numbers

`Outcome` is a sum type: `valueError` means no numeric result is returned.
The guard conditions are regenerated from the source on every run (`Ndt.Gen.Guards`).
-/
namespace Ndt
open Ndt.Gen

/-- **Complex misuse raises for every class**: with `complex` or `multicomplex`, a complex `x` or a
complex-valued `f(x)` yields ValueError — for Derivative, Gradient, Jacobian, Hessdiag and Hessian,
every order, sizes and step counts. -/
theorem complex_misuse_raises (c : Call) (hn : c.rule.n ≠ 0)
    (hm : c.method = .complex ∨ c.method = .multicomplex) (hx : c.xComplex = true ∨ c.fComplex = true) :
    c.outcome = .valueError := by
  unfold Call.outcome
  simp only [hn, if_false]
  by_cases hg : c.rule._multicomplex_middle_name_guard0 = true
  · have hcs : isComplexStep c.method = true := by
      rcases hm with h | h <;> simp [isComplexStep, h]
    have hbad : (guard_real_x c.xComplex && guard_real_fx c.fComplex) = false := by
      rcases hx with h | h <;> simp [guard_real_x, guard_real_fx, h]
    simp [hg, hcs, hbad]
  · simp [hg]

/-- multicomplex supports only first and second derivatives -/
theorem multicomplex_high_order_raises (c : Call) (hm : c.method = .multicomplex) (hn : 2 < c.rule.n) :
    c.outcome = .valueError := by
  have hm' : c.rule.method = .multicomplex := by
    unfold Call.rule; split <;> simp [hm]
  have hg : c.rule._multicomplex_middle_name_guard0 = false := by
    simp only [LogRule._multicomplex_middle_name_guard0, hm']
    simp
    omega
  unfold Call.outcome
  have : c.rule.n ≠ 0 := by omega
  simp [this, hg]

/-- fewer steps than the rule needs (every class whose rule is applied) -/
theorem too_few_steps_raises (c : Call) (hn : c.rule.n ≠ 0) (hc : c.cls ≠ .hessian)
    (hs : c.numSteps ≤ ruleLen c.rule - 1) : c.outcome = .valueError := by
  unfold Call.outcome
  simp only [hn, if_false]
  have hg : guard_apply (ruleLen c.rule - 1) c.numSteps = false := by
    simp [guard_apply]; omega
  have hc' : (c.cls != .hessian) = true := by simpa using hc
  simp only [hg, hc', Bool.not_false, Bool.and_self, if_true]
  split_ifs <;> rfl

/-- no step at all (zero steps are dropped by the generators): every class raises, the Hessian included, whose rule checks no count -/
theorem no_steps_raises (c : Call) (hn : c.rule.n ≠ 0) (h0 : c.numSteps = 0) : c.outcome = .valueError := by
  unfold Call.outcome
  simp only [hn, if_false]
  have hg : guard_some_steps c.numSteps = false := by simp [guard_some_steps, h0]
  simp only [hg]
  split_ifs <;> first | rfl | simp_all

/-- a function that does not return one value per input element -/
theorem wrong_size_raises (c : Call) (hs : c.fdelSize ≠ c.hSize) : c.outcome = .valueError := by
  unfold Call.outcome
  have h1 : guard_vstack c.fdelSize c.hSize = false := by simp [guard_vstack, hs]
  have h2 : guard_vstack_jacobian c.fdelSize c.hSize = false := by simp [guard_vstack_jacobian, hs]
  simp only [h1, h2]
  cases c.cls <;> simp <;> split_ifs <;> rfl

/-- a well-formed call is not rejected: no false alarms of the guards -/
theorem valid_call_returns (c : Call) (hn : c.rule.n ≠ 0) (hmc : c.method = .multicomplex → c.rule.n ≤ 2)
    (hx : c.xComplex = false) (hf : c.fComplex = false) (hs : c.fdelSize = c.hSize)
    (hst : ruleLen c.rule - 1 < c.numSteps) : c.outcome = .value := by
  have hm' : c.rule.method = c.method := by unfold Call.rule; split <;> rfl
  have hg : c.rule._multicomplex_middle_name_guard0 = true := by
    simp only [LogRule._multicomplex_middle_name_guard0, hm']
    cases hmeth : c.method <;> simp
    have := hmc hmeth
    omega
  have h0 : 0 < c.numSteps := by omega
  unfold Call.outcome
  simp [hn, hg, guard_real_x, guard_real_fx, hx, hf, guard_vstack, guard_vstack_jacobian, hs, guard_apply, hst, guard_some_steps, h0]
  cases c.cls <;> simp

theorem directionaldiff_mismatch_raises (a b : ℕ) (h : a ≠ b) (inner : Outcome) :
    directionaldiffOutcome a b inner = .valueError := by
  simp [directionaldiffOutcome, guard_directionaldiff, h]

theorem residue_order_guard (order poleOrder : ℕ) (h : order ≤ poleOrder) :
    residueOrder (some order) poleOrder = none := by
  simp [residueOrder, guard_residue]; omega

theorem residue_default_order (poleOrder : ℕ) : residueOrder none poleOrder = some (poleOrder + 2) := by
  simp [residueOrder, guard_residue]

theorem unknown_path_raises : cstepPathOutcome false false = .valueError := by decide

/-- the finite outcome table of the complex-misuse clause, exhaustively (a test of the model against the
theorem above, over all classes × methods × flags) -/
example : ∀ cls ∈ [Cls.derivative, .gradient, .jacobian, .hessdiag, .hessian],
    ∀ m ∈ [Method.complex, .multicomplex], ∀ xc ∈ [true, false], ∀ fc ∈ [true, false], (xc || fc) = true →
      (Call.outcome ⟨cls, m, 1, 2, xc, fc, 3, 3, 20⟩) = .valueError := by decide

end Ndt
