import Ndt.Props.C02
import Ndt.Props.C13
import Ndt.Props.C01
namespace Ndt
open Ndt.Gen
variable {K : Type} [Field K] [LinearOrder K] [IsStrictOrderedRing K]

/-- **the estimate is honest on a single geometric transient (scalar case, ideal guard)**: if the extrapolated sequence handed to the
Wynn stage is `der_t = L + a q^t` (`a ≠ 0`, `q ∉ {0, 1}`, at least three rows, no triple caught by the documented guard of dea3),
every Wynn candidate is exactly `L`, so the selected value is `L` and the reported estimate (non-negative) bounds the true error 0 -/
theorem tailStage_honest_geometric (dc : Consts K) (hT0 : dc.tiny = 0) (hE : 0 ≤ dc.eps) (hten : 0 ≤ dc.ten) (sc : SelConsts K)
    (nrows : ℕ) (h3 : 3 ≤ nrows) (L a q : K) (ha : a ≠ 0) (hq0 : q ≠ 0) (hq1 : q ≠ 1)
    (hguard : ∀ t, t + 2 < nrows → ¬ dea3Converged dc (L + a * q ^ t) (L + a * q ^ t * q) (L + a * q ^ t * q * q))
    (errs steps : List K) :
    let der := (List.range nrows).map (fun t => L + a * q ^ t)
    (∀ y ∈ (tailStage dc sc nrows 1 der errs steps).value, |y - L| = 0) ∧
    (∀ e ∈ (tailStage dc sc nrows 1 der errs steps).err, 0 ≤ e) := by
  intro der
  have hder_get : ∀ j, j < nrows → der.getD j Num.zero = L + a * q ^ j := by
    intro j hj
    simp [der, List.getD_eq_getElem?_getD, List.getElem?_map, List.getElem?_range hj]
  have hw : ∀ y ∈ (wynnTable dc nrows 1 der).1, y = L := by
    intro y hy
    simp only [wynnTable, List.mem_map, List.mem_range, Nat.mul_one] at hy
    obtain ⟨pr, ⟨i, hi, rfl⟩, rfl⟩ := hy
    have hi2 : i + 2 < nrows := by omega
    rw [hder_get i (by omega), hder_get (i + 1) (by omega), hder_get (i + 2 * 1) (by omega)]
    have e1 : L + a * q ^ (i + 1) = L + a * q ^ i * q := by rw [pow_succ]; ring
    have e2 : L + a * q ^ (i + 2 * 1) = L + a * q ^ i * q * q := by rw [Nat.mul_one, pow_succ, pow_succ]; ring
    rw [e1, e2]
    exact dea3_geometric dc hT0 L (a * q ^ i) q (mul_ne_zero ha (pow_ne_zero _ hq0)) hq0 hq1 (hguard i hi2)
  constructor
  · intro y hy
    unfold tailStage at hy
    rw [if_pos (by omega)] at hy
    have hlen : (wynnTable dc nrows 1 der).1.length = (nrows - 2) * 1 := by simp [wynnTable]
    have := bestEstimate_const sc (nrows - 2) 1 (by omega) L _ (wynnTable dc nrows 1 der).2 (steps.drop (2 * 1)) hlen hw y hy
    rw [this, sub_self, abs_zero]
  · intro e he
    unfold tailStage at he
    rw [if_pos (by omega)] at he
    exact bestEstimate_err_nonneg sc _ _ _ _ _ (wynnTable_err_nonneg dc hE hten nrows 1 der) e he

/-- the hypotheses are satisfiable: `1 + (1/2)^t`, three rows, is outside the documented guard -/
example : ¬ @dea3Converged ℚ ratNum ⟨1 / 10 ^ 16, 0, 1 / 10 ^ 4, 10⟩ (1 + 1) (1 + 1 * (1 / 2)) (1 + 1 * (1 / 2) * (1 / 2)) := by
  decide +kernel
end Ndt
