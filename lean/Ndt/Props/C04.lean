import Ndt.Model.Hessian
import Ndt.Proofs.HessGen
import Ndt.Props.C01
/-!
# C04 — Hessian is symmetric and correct; Hessdiag is its diagonal
-/
open Finset
namespace Ndt
open Ndt.Gen

section sym
variable {K : Type}

/-- **per-step symmetry**: the very same cell value is stored at `(i, j)` and `(j, i)` -/
theorem hessian_fdel_symmetric (cell : ℕ → ℕ → K) (i j : ℕ) : hessEntry cell i j = hessEntry cell j i := by
  unfold hessEntry; rw [min_comm, max_comm]

theorem hessFlat_symmetric [Inhabited K] (cell : ℕ → ℕ → K) (n i j : ℕ) (hi : i < n) (hj : j < n) :
    (hessFlat cell n)[i * n + j]? = (hessFlat cell n)[j * n + i]? := by
  have h1 : i * n + j < n * n := by nlinarith
  have h2 : j * n + i < n * n := by nlinarith
  have hn : 0 < n := by omega
  simp only [hessFlat, List.getElem?_map, List.getElem?_range h1, List.getElem?_range h2, Option.map_some]
  congr 1
  have e1 : (i * n + j) / n = i := by rw [Nat.mul_comm, Nat.mul_add_div hn, Nat.div_eq_of_lt hj, Nat.add_zero]
  have e2 : (i * n + j) % n = j := by rw [Nat.mul_comm, Nat.mul_add_mod, Nat.mod_eq_of_lt hj]
  have e3 : (j * n + i) / n = j := by rw [Nat.mul_comm, Nat.mul_add_div hn, Nat.div_eq_of_lt hi, Nat.add_zero]
  have e4 : (j * n + i) % n = i := by rw [Nat.mul_comm, Nat.mul_add_mod, Nat.mod_eq_of_lt hi]
  rw [e1, e2, e3, e4]
  exact hessian_fdel_symmetric cell i j
end sym

section quad
variable {K : Type} [Field K] [CharZero K]

/-- `f` is quadratic along the coordinate pair `(i, j)` at `x`: second-order Taylor expansion with gradient entries
`gi, gj` and Hessian entries `qii, qij, qjj`, exact for all displacements -/
def QuadraticAlong (f : (ℕ → K) → K) (x : ℕ → K) (i j : ℕ) (gi gj qii qij qjj : K) : Prop :=
  ∀ a b : K, f (shift2 x i a j b) = f x + a * gi + b * gj + (a * a * qii + 2 * (a * b * qij) + b * b * qjj) / 2

theorem shift2_comm (x : ℕ → K) (i j : ℕ) (a b : K) : shift2 x i a j b = shift2 x j b i a := by
  funext k; unfold shift2; ring

theorem shift2_zero_right (x : ℕ → K) (i j : ℕ) : shift2 x i 0 j 0 = x := by
  funext k; unfold shift2; split_ifs <;> ring

/-- **exact on quadratics, forward formula (eq. 7)**: for every step the cell is the mixed second derivative -/
theorem hessForward_quadratic (f : (ℕ → K) → K) (x h : ℕ → K) (i j : ℕ) (gi gj qii qij qjj : K)
    (hq : QuadraticAlong f x i j gi gj qii qij qjj) (hij : i ≠ j) (hi : h i ≠ 0) (hj : h j ≠ 0) :
    hessForwardCell f (f x) x h i j = qij := by
  unfold hessForwardCell
  have e1 := hq (h i) (h j)
  have e2 := hq (h i) 0
  have e3 : f (shift2 x j (h j) i 0) = f x + h j * gj + (h j * h j * qjj) / 2 := by
    rw [shift2_comm]; have := hq 0 (h j); simpa using this
  rw [e1, e2, e3]
  field_simp
  ring

/-- forward formula on the diagonal (`i = j`): `x + e_i + e_i` -/
theorem hessForward_quadratic_diag (f : (ℕ → K) → K) (x h : ℕ → K) (i : ℕ) (gi qii : K)
    (hq : ∀ a : K, f (shift2 x i a i 0) = f x + a * gi + (a * a * qii) / 2)
    (hs : ∀ a b : K, shift2 x i a i b = shift2 x i (a + b) i 0) (hi : h i ≠ 0) :
    hessForwardCell f (f x) x h i i = qii := by
  unfold hessForwardCell
  rw [hs (h i) (h i), hq (h i + h i), hq (h i)]
  field_simp
  ring

/-- **exact on quadratics, central formula (eq. 9)**, off-diagonal -/
theorem hessCentral_quadratic (f : (ℕ → K) → K) (x h : ℕ → K) (i j : ℕ) (gi gj qii qij qjj : K)
    (hq : QuadraticAlong f x i j gi gj qii qij qjj) (hij : i ≠ j) (hi : h i ≠ 0) (hj : h j ≠ 0) :
    hessCentralCell f (f x) x h i j = qij := by
  unfold hessCentralCell
  rw [if_neg hij, hq (h i) (h j), hq (h i) (-(h j)), hq (-(h i)) (h j), hq (-(h i)) (-(h j))]
  field_simp
  ring

/-- central formula on the diagonal -/
theorem hessCentral_quadratic_diag (f : (ℕ → K) → K) (x h : ℕ → K) (i : ℕ) (gi qii : K)
    (hq : ∀ a : K, f (shift2 x i a i 0) = f x + a * gi + (a * a * qii) / 2) (hi : h i ≠ 0) :
    hessCentralCell f (f x) x h i i = qii := by
  unfold hessCentralCell
  rw [if_pos rfl, hq (2 * h i), hq (-(2 * h i))]
  field_simp
  ring

/-- **exact on quadratics, central2 formula (eq. 8)**, off-diagonal -/
theorem hessCentral2_quadratic (f : (ℕ → K) → K) (x h : ℕ → K) (i j : ℕ) (gi gj qii qij qjj : K)
    (hq : QuadraticAlong f x i j gi gj qii qij qjj) (hij : i ≠ j) (hi : h i ≠ 0) (hj : h j ≠ 0) :
    hessCentral2Cell f (f x) x h i j = qij := by
  unfold hessCentral2Cell
  have e3 : ∀ b : K, f (shift2 x j b i 0) = f x + b * gj + (b * b * qjj) / 2 := by
    intro b; rw [shift2_comm]; have := hq 0 b; simpa using this
  rw [hq (h i) (h j), hq (-(h i)) (-(h j)), hq (h i) 0, e3 (h j), hq (-(h i)) 0, e3 (-(h j))]
  field_simp
  ring

/-- a genuine quadratic `c + g·x + ½ xᵀQx` (`Q` symmetric, `n` variables) satisfies `QuadraticAlong` with the entries
of `Q` (and the gradient `g + Qx`): the hypothesis of the theorems above is satisfiable for every `n`, `i ≠ j` -/
theorem quadratic_form_along (n : ℕ) (c : K) (g : ℕ → K) (Q : ℕ → ℕ → K) (hQ : ∀ k l, Q k l = Q l k)
    (x : ℕ → K) (i j : ℕ) (hi : i < n) (hj : j < n) (hij : i ≠ j) :
    QuadraticAlong (fun y => c + ∑ k ∈ range n, g k * y k + (∑ k ∈ range n, ∑ l ∈ range n, Q k l * y k * y l) / 2) x i j
      (g i + ∑ l ∈ range n, Q i l * x l) (g j + ∑ l ∈ range n, Q j l * x l) (Q i i) (Q i j) (Q j j) := by
  intro a b
  simp only
  set u : ℕ → K := fun k => (if k = i then a else 0) + (if k = j then b else 0) with hu
  have hy : ∀ k, shift2 x i a j b k = x k + u k := by intro k; simp [shift2, hu]; ring
  simp only [hy]
  have hsum1 : ∀ w : ℕ → K, ∑ k ∈ range n, w k * u k = w i * a + w j * b := by
    intro w
    simp only [hu, mul_add, Finset.sum_add_distrib, mul_ite, mul_zero]
    rw [Finset.sum_ite_eq' (range n) i, Finset.sum_ite_eq' (range n) j]
    simp [hi, hj]
  have hsum1' : ∀ w : ℕ → K, ∑ k ∈ range n, u k * w k = a * w i + b * w j := by
    intro w
    have := hsum1 w
    simp only [mul_comm (u _)] at *
    rw [this]; ring
  -- linear part
  have hlin : ∑ k ∈ range n, g k * (x k + u k) = ∑ k ∈ range n, g k * x k + (g i * a + g j * b) := by
    simp only [mul_add, Finset.sum_add_distrib, hsum1]
  -- quadratic part
  have hquad : ∑ k ∈ range n, ∑ l ∈ range n, Q k l * (x k + u k) * (x l + u l)
      = ∑ k ∈ range n, ∑ l ∈ range n, Q k l * x k * x l
        + 2 * (a * ∑ l ∈ range n, Q i l * x l + b * ∑ l ∈ range n, Q j l * x l)
        + (a * a * Q i i + 2 * (a * b * Q i j) + b * b * Q j j) := by
    have expand : ∀ k l, Q k l * (x k + u k) * (x l + u l)
        = Q k l * x k * x l + (Q k l * x k) * u l + u k * (Q k l * x l) + u k * (Q k l * u l) := by
      intro k l; ring
    simp only [expand, Finset.sum_add_distrib]
    have t2 : ∑ k ∈ range n, ∑ l ∈ range n, (Q k l * x k) * u l
        = a * ∑ l ∈ range n, Q i l * x l + b * ∑ l ∈ range n, Q j l * x l := by
      simp only [hsum1]
      rw [Finset.sum_add_distrib, ← Finset.sum_mul, ← Finset.sum_mul]
      have s1 : ∑ k ∈ range n, Q k i * x k = ∑ l ∈ range n, Q i l * x l :=
        Finset.sum_congr rfl (fun k _ => by rw [hQ k i])
      have s2 : ∑ k ∈ range n, Q k j * x k = ∑ l ∈ range n, Q j l * x l :=
        Finset.sum_congr rfl (fun k _ => by rw [hQ k j])
      rw [s1, s2]; ring
    have t3 : ∑ k ∈ range n, ∑ l ∈ range n, u k * (Q k l * x l)
        = a * ∑ l ∈ range n, Q i l * x l + b * ∑ l ∈ range n, Q j l * x l := by
      simp only [← Finset.mul_sum]
      rw [hsum1']
    have t4 : ∑ k ∈ range n, ∑ l ∈ range n, u k * (Q k l * u l)
        = a * a * Q i i + 2 * (a * b * Q i j) + b * b * Q j j := by
      simp only [← Finset.mul_sum, hsum1]
      rw [hsum1']
      rw [hQ j i]; ring
    rw [t2, t3, t4]; ring
  rw [hlin, hquad]
  ring

end quad

section pipeline
variable {K : Type} [Field K] [LinearOrder K] [IsStrictOrderedRing K]

/-- two columns of a table that carry identical data give identical results: with `hessian_fdel_symmetric` (columns
`(i, j)` and `(j, i)` hold the same values at every step) this is the exact symmetry of the returned Hessian -/
theorem bestEstimate_equal_columns (sc : SelConsts K) (nrows ncols : ℕ) (hn : 0 < nrows) (der errs steps : List K)
    (c1 c2 : ℕ) (h1 : c1 < ncols) (h2 : c2 < ncols)
    (hd : column der nrows ncols c1 = column der nrows ncols c2)
    (he : column errs nrows ncols c1 = column errs nrows ncols c2) :
    (bestEstimate sc nrows ncols der errs steps).value.getD c1 0
      = (bestEstimate sc nrows ncols der errs steps).value.getD c2 0 := by
  obtain ⟨_, v1, _, _⟩ := bestEstimate_columnwise sc nrows ncols der errs steps c1 h1
  obtain ⟨_, v2, _, _⟩ := bestEstimate_columnwise sc nrows ncols der errs steps c2 h2
  have hrow : chosenRow sc nrows ncols der errs c1 = chosenRow sc nrows ncols der errs c2 := by
    unfold chosenRow; rw [hd, he]
  have hr := (chosenRow_valid sc nrows ncols der errs c1 hn).1
  have hentry : ∀ (c r : ℕ), r < nrows → der.getD (r * ncols + c) 0 = (column der nrows ncols c).getD r 0 := by
    intro c r hr
    simp [column, List.getD_eq_getElem?_getD, List.getElem?_map, List.getElem?_range hr]
  rw [v1, v2, hentry c1 _ hr, hentry c2 _ (hrow ▸ hr), hd, hrow]

/-- **Hessian of a quadratic**: every step gives the matrix `Q` itself, so the whole table is constant in each
column and every later stage (Richardson, dea3, selection) returns `Q[i][j]` -/
theorem hessian_constant_table (dc : Consts K) (hE : 0 ≤ dc.eps) (sc : SelConsts K)
    (ρ : K) (hρ : 1 < ρ) (step order : ℕ) (hs : 1 ≤ step) (ho : 1 ≤ order) (richardsonTerms : ℕ)
    (q : K) (seq : List K) (hseq : ∀ y ∈ seq, y = q) :
    let rich := richCall ρ step order richardsonTerms seq
    ∀ errs stepTable, 0 < rich.length → ∀ y ∈ (tailStage dc sc rich.length 1 rich errs stepTable).value, y = q := by
  intro rich errs stepTable hpos y hy
  have hnodes := richNodes_nodup_real ρ hρ step order (richTerms richardsonTerms seq.length) ho hs
  have hrich : ∀ y ∈ rich, y = q := richCall_const ρ step order richardsonTerms q seq hnodes hseq
  exact tailStage_const dc hE sc rich.length 1 hpos q rich errs stepTable (by simp) hrich y hy

/-- **Hessdiag**: entry `k` is the second-derivative pipeline (`n = 2`) applied to the line function
`t ↦ f(x + t e_k)`: exact when that function is a polynomial of degree `< 2 + method_order`
(central, forward, backward; orders 2, 4, 6, …) — in particular equal to the Hessian diagonal on quadratics. -/
theorem hessdiag_exact (dc : Consts K) (hE : 0 ≤ dc.eps) (sc : SelConsts K)
    (ρ : K) (hρ : 1 < ρ) (m : Method) (hm : m = .central ∨ m = .forward ∨ m = .backward)
    (order : ℕ) (ho : 1 ≤ order) (richardsonTerms : ℕ) (a : ℕ → K) (h0 : K) (hh : h0 ≠ 0) (N : ℕ) :
    let r : LogRule := ⟨2, m, order⟩
    let f := polyAt a (2 + r.method_order) 0
    let steps := (List.range N).map (fun s => h0 * (1 / ρ) ^ s)
    ∃ d, diffName r = some d ∧
      let derInit := fdApply ρ r (steps.map (fun h => realQuotient d f (f 0) 0 h)) steps
      let rich := richCall ρ r.richardson_step r.method_order richardsonTerms derInit
      ∀ errs stepTable, 0 < rich.length →
        ∀ y ∈ (tailStage dc sc rich.length 1 rich errs stepTable).value, y = 2 * a 2 := by
  intro r f steps
  obtain ⟨d, hd, hex⟩ := derivative_exact_on_polynomials dc hE sc ρ hρ m hm 2 order (by norm_num) ho richardsonTerms a 0 h0 hh N
  refine ⟨d, hd, ?_⟩
  intro derInit rich errs stepTable hpos y hy
  have := hex errs stepTable hpos y hy
  simpa [Nat.factorial] using this

end pipeline
end Ndt
