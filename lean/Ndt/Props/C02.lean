import Ndt.Props.C08
import Ndt.Props.C13
import Ndt.Props.C07
/-!
# C02 — Reported error estimate is honest; full_output record is self-consistent

What is proved (exact arithmetic): every reported error is non-negative; the record's entries are read at
one row per element, that row minimises the penalised error, and the reported step is one of the generated
steps; under a single geometric residual the Richardson estimate dominates the true error by an explicit
factor.  The statistical honesty of the estimate for general `f` under rounding is explored, not proved.
-/
namespace Ndt
variable {K : Type} [Field K] [LinearOrder K] [IsStrictOrderedRing K]

/-- the `full_output` record of `Derivative.__call__` -/
structure Info (K V : Type) where
  f_value : V
  error_estimate : List K
  final_step : List K
  index : List ℕ

/-- `derivative, self.info(f_xi, *info)` -/
def assembleInfo {V : Type} (fx : V) (b : Best K) : List K × Info K V :=
  (b.value, ⟨fx, b.err, b.step, b.index⟩)

/-- `f_value` is `f(x)`, and every field has one entry per element of the result -/
theorem info_consistent {V : Type} (fx : V) (sc : SelConsts K) (nrows ncols : ℕ) (der errs steps : List K) :
    let r := assembleInfo fx (bestEstimate sc nrows ncols der errs steps)
    r.2.f_value = fx ∧ r.1.length = ncols ∧ r.2.error_estimate.length = ncols ∧
      r.2.final_step.length = ncols ∧ r.2.index.length = ncols := by
  simp [assembleInfo, bestEstimate]

theorem getD_nonneg (l : List K) (h : ∀ x ∈ l, 0 ≤ x) (i : ℕ) : 0 ≤ l.getD i 0 := by
  rw [List.getD_eq_getElem?_getD]
  cases h' : l[i]? with
  | none => simp
  | some w => simp only [Option.getD_some]; exact h w (List.mem_of_getElem? h')

theorem zipWith_add_nonneg (A B : List K) (hA : ∀ a ∈ A, 0 ≤ a) (hB : ∀ b ∈ B, 0 ≤ b) :
    ∀ x ∈ List.zipWith (· + ·) A B, 0 ≤ x := by
  induction A generalizing B with
  | nil => simp
  | cons a A ih =>
    cases B with
    | nil => simp
    | cons b B =>
      intro x hx
      simp only [List.zipWith_cons_cons, List.mem_cons] at hx
      rcases hx with rfl | hx
      · have := hA a (List.mem_cons_self ..); have := hB b (List.mem_cons_self ..); linarith
      · exact ih B (fun a' h => hA a' (List.mem_cons_of_mem _ h)) (fun b' h => hB b' (List.mem_cons_of_mem _ h)) x hx

theorem column_nonneg (X : List K) (h : ∀ x ∈ X, 0 ≤ x) (nrows ncols col : ℕ) :
    ∀ x ∈ column X nrows ncols col, 0 ≤ x := by
  intro x hx
  simp only [column, List.mem_map] at hx
  obtain ⟨r, _, rfl⟩ := hx
  exact getD_nonneg X h _

/-- **errors are non-negative**: whatever the estimates are, if the incoming errors are non-negative then so
is every reported `error_estimate` (incoming error + outlier penalty, read at the chosen row) -/
theorem bestEstimate_err_nonneg (sc : SelConsts K) (nrows ncols : ℕ) (der errs steps : List K)
    (he : ∀ e ∈ errs, 0 ≤ e) : ∀ e ∈ (bestEstimate sc nrows ncols der errs steps).err, 0 ≤ e := by
  intro e hmem
  simp only [bestEstimate, List.mem_map, List.mem_range] at hmem
  obtain ⟨col, _, rfl⟩ := hmem
  simp only [num_zero]
  apply getD_nonneg
  exact zipWith_add_nonneg _ _ (column_nonneg errs he nrows ncols col) (outlierErrors_nonneg sc _)

/-- the Wynn stage reports non-negative errors -/
theorem wynnTable_err_nonneg (dc : Consts K) (hE : 0 ≤ dc.eps) (hT : 0 ≤ dc.ten) (nrows ncols : ℕ) (der : List K) :
    ∀ e ∈ (wynnTable dc nrows ncols der).2, 0 ≤ e := by
  intro e he
  simp only [wynnTable, List.mem_map, List.mem_range] at he
  obtain ⟨p, ⟨i, _, rfl⟩, rfl⟩ := he
  exact dea3_abserr_nonneg dc hE hT _ _ _

/-- **every reported error estimate is non-negative**, on both paths of `_extrapolate` -/
theorem tailStage_err_nonneg (dc : Consts K) (hE : 0 ≤ dc.eps) (hT : 0 ≤ dc.ten) (sc : SelConsts K)
    (nrows ncols : ℕ) (der errs steps : List K) (he : ∀ e ∈ errs, 0 ≤ e) :
    ∀ e ∈ (tailStage dc sc nrows ncols der errs steps).err, 0 ≤ e := by
  unfold tailStage
  split_ifs
  · exact bestEstimate_err_nonneg sc _ _ _ _ _ (wynnTable_err_nonneg dc hE hT nrows ncols der)
  · exact bestEstimate_err_nonneg sc _ _ _ _ _ he

/-- **final_step is one of the generated steps**: it is read from the step table at the chosen row of the
element's own column -/
theorem final_step_is_generated_step (sc : SelConsts K) (nrows ncols : ℕ) (der errs steps : List K)
    (hn : 0 < nrows) (hlen : steps.length = nrows * ncols) (col : ℕ) (hcol : col < ncols) :
    (bestEstimate sc nrows ncols der errs steps).step.getD col 0 ∈ steps := by
  obtain ⟨_, _, h3, _⟩ := bestEstimate_columnwise sc nrows ncols der errs steps col hcol
  rw [h3]
  have hr := (chosenRow_valid sc nrows ncols der errs col hn).1
  have hidx : chosenRow sc nrows ncols der errs col * ncols + col < steps.length := by
    rw [hlen]
    calc chosenRow sc nrows ncols der errs col * ncols + col
        < chosenRow sc nrows ncols der errs col * ncols + ncols := by omega
      _ = (chosenRow sc nrows ncols der errs col + 1) * ncols := by ring
      _ ≤ nrows * ncols := Nat.mul_le_mul_right _ hr
  rw [List.getD_eq_getElem?_getD, List.getElem?_eq_getElem hidx]
  exact List.getElem_mem hidx

/-- the Richardson error estimate of a row is at least `fact · |new[t+1] - new[t]|` -/
theorem richErrGo_ge_diff (eps ten fact : K) (he : 0 ≤ eps) (ht : 0 ≤ ten) (hf : 0 ≤ fact) :
    ∀ (new old : List K) (i : ℕ) (h : i < (richErrGo (Num.abs : K → K) eps ten fact new old).length),
      |new.getD (i + 1) 0 - new.getD i 0| * fact ≤ (richErrGo (Num.abs : K → K) eps ten fact new old)[i]
  | [], _, i, h => by simp [richErrGo] at h
  | [_], _, i, h => by simp [richErrGo] at h
  | _ :: _ :: _, [], i, h => by simp [richErrGo] at h
  | a :: b :: rest, o :: os, 0, _ => by
    simp only [richErrGo, Gen.richErrMainElem, List.getElem_cons_zero, List.getD_cons_succ, List.getD_cons_zero, num_abs]
    have h2 : 0 ≤ Gen.maxNrm (Num.abs : K → K) b a :=
      maxNrm_nonneg _ (fun c => by simp only [num_abs]; exact abs_nonneg c) b a
    have h3 := abs_nonneg (a - o)
    split_ifs
    · have : 0 ≤ Gen.maxNrm (Num.abs : K → K) b a * eps * fact * ten := by positivity
      linarith
    · have : 0 ≤ |a - o| * fact := by positivity
      linarith
  | a :: b :: rest, o :: os, i + 1, h => by
    simp only [richErrGo, List.getElem_cons_succ, List.getD_cons_succ]
    exact richErrGo_ge_diff eps ten fact he ht hf (b :: rest) os i (by simpa [richErrGo] using h)

/-- **Richardson's estimate dominates a geometric residual**: if the extrapolated sequence is
`new[t] = L + c q^t` (`0 ≤ q < 1`: one remaining error term decaying like `ρ^(-p t)`), the estimate of row `t`
is at least `fact · (1 - q)` times the true error `|new[t] - L|`. -/
theorem richErr_dominates_geometric (eps ten fact : K) (he : 0 ≤ eps) (ht : 0 ≤ ten) (hf : 0 ≤ fact)
    (L c q : K) (hq0 : 0 ≤ q) (hq1 : q ≤ 1) (new old : List K)
    (hnew : ∀ t < new.length, new.getD t 0 = L + c * q ^ t) (i : ℕ)
    (h : i < (richErrGo (Num.abs : K → K) eps ten fact new old).length) (hi : i + 1 < new.length) :
    fact * (1 - q) * |new.getD i 0 - L| ≤ (richErrGo (Num.abs : K → K) eps ten fact new old)[i] := by
  have hge := richErrGo_ge_diff eps ten fact he ht hf new old i h
  have e0 := hnew i (by omega)
  have e1 := hnew (i + 1) hi
  have hdiff : new.getD (i + 1) 0 - new.getD i 0 = -(c * q ^ i * (1 - q)) := by
    rw [e0, e1, pow_succ]; ring
  have htrue : new.getD i 0 - L = c * q ^ i := by rw [e0]; ring
  rw [hdiff, abs_neg, abs_mul] at hge
  rw [htrue]
  have h1q : 0 ≤ 1 - q := by linarith
  rw [abs_of_nonneg h1q] at hge
  calc fact * (1 - q) * |c * q ^ i| = |c * q ^ i| * (1 - q) * fact := by ring
    _ ≤ _ := hge

end Ndt
