import Ndt.Props.C12Inv
import Ndt.Gen.Bicomplex
import Ndt.Props.C12Pow
import Mathlib.Tactic.Ring
import Mathlib.Tactic.FieldSimp
import Mathlib.Tactic.LinearCombination
/-!
# C12 — Bicomplex numbers implement the holomorphic extension of every function

`Ndt.Gen.BC` and its methods are regenerated from `multicomplex.py` on every run: the theorems are
about the formulas the code contains now.  `φ₁ z = z1 - i z2`, `φ₂ z = z1 + i z2` are the idempotent
components: `z = e₁ φ₁ z + e₂ φ₂ z`, and the holomorphic extension of `f` is
`F z = e₁ f(φ₁ z) + e₂ f(φ₂ z)`, i.e. `φ_k (F z) = f (φ_k z)`.
-/
open Complex
namespace Ndt
open Ndt.Gen

noncomputable def phi1 (z : BC) : ℂ := z.z1 - I * z.z2
noncomputable def phi2 (z : BC) : ℂ := z.z1 + I * z.z2

/-- the idempotent components determine the number (so identities may be checked componentwise) -/
theorem phi_injective (a b : BC) (h1 : phi1 a = phi1 b) (h2 : phi2 a = phi2 b) : a = b := by
  unfold phi1 at h1
  unfold phi2 at h2
  have hz1 : a.z1 = b.z1 := by linear_combination (1 / 2 : ℂ) * h1 + (1 / 2 : ℂ) * h2
  have hI : (I : ℂ) ≠ 0 := I_ne_zero
  have hz2' : I * a.z2 = I * b.z2 := by linear_combination (1 / 2 : ℂ) * h2 - (1 / 2 : ℂ) * h1
  have hz2 : a.z2 = b.z2 := mul_left_cancel₀ hI hz2'
  cases a; cases b; simp_all

/-! ### ring structure -/
theorem phi1_add (a b : BC) : phi1 (a.add b) = phi1 a + phi1 b := by simp only [phi1, BC.add]; ring
theorem phi2_add (a b : BC) : phi2 (a.add b) = phi2 a + phi2 b := by simp only [phi2, BC.add]; ring
theorem phi1_sub (a b : BC) : phi1 (a.sub b) = phi1 a - phi1 b := by simp only [phi1, BC.sub]; ring
theorem phi2_sub (a b : BC) : phi2 (a.sub b) = phi2 a - phi2 b := by simp only [phi2, BC.sub]; ring
theorem phi1_neg (a : BC) : phi1 a.neg = -phi1 a := by simp only [phi1, BC.neg]; ring
theorem phi2_neg (a : BC) : phi2 a.neg = -phi2 a := by simp only [phi2, BC.neg]; ring
theorem phi1_mul (a b : BC) : phi1 (a.mul b) = phi1 a * phi1 b := by
  simp only [phi1, BC.mul]; ring_nf; rw [I_sq]; ring
theorem phi2_mul (a b : BC) : phi2 (a.mul b) = phi2 a * phi2 b := by
  simp only [phi2, BC.mul]; ring_nf; rw [I_sq]; ring
/-- conjugation swaps the two idempotent components -/
theorem phi_conjugate (a : BC) : phi1 a.conjugate = phi2 a ∧ phi2 a.conjugate = phi1 a := by
  constructor <;> simp only [phi1, phi2, BC.conjugate] <;> ring

/-! ### elementary functions -/
theorem phi1_exp (z : BC) : phi1 z.exp = exp (phi1 z) := by
  simp only [phi1, BC.exp]
  have h : z.z1 - I * z.z2 = z.z1 + (-z.z2) * I := by ring
  rw [h, exp_add, exp_mul_I, cos_neg, sin_neg]; ring
theorem phi2_exp (z : BC) : phi2 z.exp = exp (phi2 z) := by
  simp only [phi2, BC.exp]
  have h : z.z1 + I * z.z2 = z.z1 + z.z2 * I := by ring
  rw [h, exp_add, exp_mul_I]; ring

theorem phi1_sin (z : BC) : phi1 z.sin = sin (phi1 z) := by
  simp only [phi1, BC.sin]
  rw [sin_sub, mul_comm I z.z2, cos_mul_I, sin_mul_I]; ring
theorem phi2_sin (z : BC) : phi2 z.sin = sin (phi2 z) := by
  simp only [phi2, BC.sin]
  rw [sin_add, mul_comm I z.z2, cos_mul_I, sin_mul_I]; ring
theorem phi1_cos (z : BC) : phi1 z.cos = cos (phi1 z) := by
  simp only [phi1, BC.cos]
  rw [cos_sub, mul_comm I z.z2, cos_mul_I, sin_mul_I]; ring_nf; try (rw [I_sq]; ring)
theorem phi2_cos (z : BC) : phi2 z.cos = cos (phi2 z) := by
  simp only [phi2, BC.cos]
  rw [cos_add, mul_comm I z.z2, cos_mul_I, sin_mul_I]; ring_nf; try (rw [I_sq]; ring)

theorem phi1_sinh (z : BC) : phi1 z.sinh = sinh (phi1 z) := by
  simp only [phi1, BC.sinh]
  rw [sinh_sub, mul_comm I z.z2, cosh_mul_I, sinh_mul_I]; ring
theorem phi2_sinh (z : BC) : phi2 z.sinh = sinh (phi2 z) := by
  simp only [phi2, BC.sinh]
  rw [sinh_add, mul_comm I z.z2, cosh_mul_I, sinh_mul_I]; ring
theorem phi1_cosh (z : BC) : phi1 z.cosh = cosh (phi1 z) := by
  simp only [phi1, BC.cosh]
  rw [cosh_sub, mul_comm I z.z2, cosh_mul_I, sinh_mul_I]; ring
theorem phi2_cosh (z : BC) : phi2 z.cosh = cosh (phi2 z) := by
  simp only [phi2, BC.cosh]
  rw [cosh_add, mul_comm I z.z2, cosh_mul_I, sinh_mul_I]; ring

/-- `2 sin²(w/2) = 1 - cos w` -/
theorem two_sin_half_sq (w : ℂ) : 2 * sin (1 / 2 * w) * sin (1 / 2 * w) = 1 - cos w := by
  have h := cos_two_mul (1 / 2 * w)
  have h2 : 2 * (1 / 2 * w) = w := by ring
  rw [h2] at h
  have hs := sin_sq_add_cos_sq (1 / 2 * w)
  rw [h]
  linear_combination (2 : ℂ) * hs

/-- `expm1` is the extension of `w ↦ exp w - 1` -/
theorem phi1_expm1 (z : BC) : phi1 z.expm1 = exp (phi1 z) - 1 := by
  rw [← phi1_exp]
  simp only [phi1, BC.expm1, BC.exp]
  have := two_sin_half_sq z.z2
  linear_combination (-1 : ℂ) * this
theorem phi2_expm1 (z : BC) : phi2 z.expm1 = exp (phi2 z) - 1 := by
  rw [← phi2_exp]
  simp only [phi2, BC.expm1, BC.exp]
  have := two_sin_half_sq z.z2
  linear_combination (-1 : ℂ) * this

/-- the first component of `log1p` is half the logarithm of `φ₁(1+z) φ₂(1+z)` -/
theorem log1p_z1_eq (z : BC) :
    z.log1p_z1 = 1 / 2 * log (phi1 ((⟨1, 0⟩ : BC).add z) * phi2 ((⟨1, 0⟩ : BC).add z)) := by
  simp only [BC.log1p_z1, phi1, phi2, BC.add]
  congr 2
  ring_nf; rw [I_sq]; ring

/-- … hence, where the two arguments do not wrap around, it is the `z1` component of the extension of
`w ↦ log (1 + w)`: `(log φ₁(1+z) + log φ₂(1+z)) / 2` -/
theorem log1p_z1_is_extension (z : BC)
    (h1 : phi1 ((⟨1, 0⟩ : BC).add z) ≠ 0) (h2 : phi2 ((⟨1, 0⟩ : BC).add z) ≠ 0)
    (harg : arg (phi1 ((⟨1, 0⟩ : BC).add z)) + arg (phi2 ((⟨1, 0⟩ : BC).add z)) ∈ Set.Ioc (-Real.pi) Real.pi) :
    z.log1p_z1 = (log (1 + phi1 z) + log (1 + phi2 z)) / 2 := by
  rw [log1p_z1_eq, Complex.log_mul h1 h2 harg]
  have e1 : phi1 ((⟨1, 0⟩ : BC).add z) = 1 + phi1 z := by simp only [phi1, BC.add]; ring
  have e2 : phi2 ((⟨1, 0⟩ : BC).add z) = 1 + phi2 z := by simp only [phi2, BC.add]; ring
  rw [e1, e2]; ring

/-! ### reduction to the ordinary complex function when z2 = 0 -/
theorem reduces_to_complex (w : ℂ) :
    (⟨w, 0⟩ : BC).exp = ⟨exp w, 0⟩ ∧ (⟨w, 0⟩ : BC).sin = ⟨sin w, 0⟩ ∧ (⟨w, 0⟩ : BC).cos = ⟨cos w, 0⟩ ∧
    (⟨w, 0⟩ : BC).sinh = ⟨sinh w, 0⟩ ∧ (⟨w, 0⟩ : BC).cosh = ⟨cosh w, 0⟩ ∧ (⟨w, 0⟩ : BC).expm1 = ⟨exp w - 1, 0⟩ := by
  refine ⟨?_, ?_, ?_, ?_, ?_, ?_⟩ <;> simp [BC.exp, BC.sin, BC.cos, BC.sinh, BC.cosh, BC.expm1]

theorem reduces_to_complex_ring (a b : ℂ) :
    (⟨a, 0⟩ : BC).mul ⟨b, 0⟩ = ⟨a * b, 0⟩ ∧ (⟨a, 0⟩ : BC).add ⟨b, 0⟩ = ⟨a + b, 0⟩ ∧ (⟨a, 0⟩ : BC).sub ⟨b, 0⟩ = ⟨a - b, 0⟩ := by
  refine ⟨?_, ?_, ?_⟩ <;> simp [BC.mul, BC.add, BC.sub]

/-! ### what the multicomplex method relies on -/

/-- Horner evaluation of a real polynomial at a bicomplex point, with the generated `+` and `*` -/
noncomputable def bcEval : List ℝ → BC → BC
  | [], _ => ⟨0, 0⟩
  | c :: cs, z => (⟨(c : ℂ), 0⟩ : BC).add (z.mul (bcEval cs z))

/-- the same polynomial at a complex point -/
noncomputable def cEval : List ℝ → ℂ → ℂ
  | [], _ => 0
  | c :: cs, w => (c : ℂ) + w * cEval cs w

/-- polynomials commute with the idempotent components -/
theorem phi_bcEval (cs : List ℝ) (z : BC) :
    phi1 (bcEval cs z) = cEval cs (phi1 z) ∧ phi2 (bcEval cs z) = cEval cs (phi2 z) := by
  induction cs with
  | nil => simp [bcEval, cEval, phi1, phi2]
  | cons c cs ih =>
    constructor
    · rw [bcEval, phi1_add, phi1_mul, ih.1, cEval]; simp [phi1]
    · rw [bcEval, phi2_add, phi2_mul, ih.2, cEval]; simp [phi2]

theorem cEval_ofReal (cs : List ℝ) (x : ℝ) : ∃ r : ℝ, cEval cs (x : ℂ) = (r : ℂ) := by
  induction cs with
  | nil => exact ⟨0, by simp [cEval]⟩
  | cons c cs ih =>
    obtain ⟨r, hr⟩ := ih
    exact ⟨c + x * r, by simp [cEval, hr]⟩

/-- **Second derivatives**: for a real polynomial `p`, the `imag12` component of `p(x + i h + j h)` is
`(p(x) - Re p(x + 2 i h)) / 2` *exactly* — which is `h² p''(x)` minus the even Taylor terms of order `≥ 4`
in `2h`. -/
theorem multicomplex2_extracts (cs : List ℝ) (x h : ℝ) :
    (bcEval cs ⟨(x : ℂ) + I * h, (h : ℂ)⟩).z2.im
      = ((cEval cs (x : ℂ)).re - (cEval cs ((x : ℂ) + 2 * I * h)).re) / 2 := by
  obtain ⟨h1, h2⟩ := phi_bcEval cs ⟨(x : ℂ) + I * h, (h : ℂ)⟩
  have e1 : phi1 (⟨(x : ℂ) + I * h, (h : ℂ)⟩ : BC) = (x : ℂ) := by simp [phi1]
  have e2 : phi2 (⟨(x : ℂ) + I * h, (h : ℂ)⟩ : BC) = (x : ℂ) + 2 * I * h := by simp only [phi2]; ring
  rw [e1] at h1
  rw [e2] at h2
  set B := bcEval cs ⟨(x : ℂ) + I * h, (h : ℂ)⟩
  -- z2 = (φ₂ - φ₁) / (2 i)
  have hz2 : B.z2 = (phi2 B - phi1 B) / (2 * I) := by
    simp only [phi1, phi2]; field_simp; ring
  rw [hz2, h1, h2]
  obtain ⟨r, hr⟩ := cEval_ofReal cs x
  rw [hr]
  set w := cEval cs ((x : ℂ) + 2 * I * h)
  have : (w - (r : ℂ)) / (2 * I) = -I * (w - r) / 2 := by
    field_simp; ring_nf; rw [I_sq]; ring
  rw [this]
  simp [Complex.div_im, Complex.mul_im, Complex.mul_re]

/-- **First derivatives**: the `imag1` component of `p(x + i h)` (second component zero) is `Im p(x + i h)`,
the classical complex-step quotient numerator. -/
theorem multicomplex1_extracts (cs : List ℝ) (x h : ℝ) :
    (bcEval cs ⟨(x : ℂ) + I * h, 0⟩).z1.im = (cEval cs ((x : ℂ) + I * h)).im ∧
      (bcEval cs ⟨(x : ℂ) + I * h, 0⟩).z2 = 0 := by
  obtain ⟨h1, h2⟩ := phi_bcEval cs ⟨(x : ℂ) + I * h, 0⟩
  have e1 : phi1 (⟨(x : ℂ) + I * h, 0⟩ : BC) = (x : ℂ) + I * h := by simp [phi1]
  have e2 : phi2 (⟨(x : ℂ) + I * h, 0⟩ : BC) = (x : ℂ) + I * h := by simp [phi2]
  rw [e1] at h1
  rw [e2] at h2
  set B := bcEval cs ⟨(x : ℂ) + I * h, 0⟩
  have hz2 : B.z2 = 0 := by
    have : I * B.z2 = 0 := by
      have := h2.trans h1.symm
      simp only [phi1, phi2] at this
      linear_combination (1 / 2 : ℂ) * this
    exact (mul_eq_zero.mp this).resolve_left I_ne_zero
  refine ⟨?_, hz2⟩
  have : B.z1 = cEval cs ((x : ℂ) + I * h) := by
    rw [← h1]; simp [phi1, hz2]
  rw [this]

end Ndt
