import Mathlib.Analysis.SpecialFunctions.Trigonometric.Arctan
import Mathlib.Analysis.SpecialFunctions.Trigonometric.Inverse
import Mathlib.Tactic.FieldSimp
import Mathlib.Tactic.Ring
import Mathlib.Tactic.LinearCombination
import Mathlib.Tactic.Positivity
import Mathlib.Tactic.Linarith
import Mathlib.Algebra.Field.Basic
/-!
# C12 — the inverse trigonometric functions of `Bicomplex` (as repaired)

`Bicomplex.arctan` and `Bicomplex.arcsin` (hence `arccos`) split the argument `w = z1 + j z2` into the ordinary complex function of
`z1` and the same function of a *small* bicomplex argument, which is then evaluated through `log1p`:

    arctan w = arctan z1 + arctan t,   t = j z2 / (1 + z1 w)
    arcsin w = arcsin z1 + arcsin d,   d = w √(1 - z1²) - z1 √(1 - w²) = j z2 (√(1 - z1²) + z1 (2 z1 + j z2) / (√(1 - z1²) + √(1 - w²)))

Proved here: the two algebraic rewritings of the small arguments in any field (bicomplex numbers with invertible denominators
included: every identity is checked componentwise in the idempotent basis, where the carrier is ℂ × ℂ), and the two splitting
identities on the real line (the restriction of the holomorphic identities to the real domain the property starts from).
Not carried: the identities on ℂ away from the real axis (principal branches), which the failing-input search explores.
-/
namespace Ndt

/-- the argument of the small arcsine in the repaired `Bicomplex.arcsin`: with `c1² = 1 - a²`, `cw² = 1 - (a+e)²`
(`a` = z1, `e` = j·z2, `w = a + e`), `w c1 - a cw = e (c1 + a (2a + e) / (c1 + cw))` whenever `c1 + cw` is invertible:
the difference that cancels for small `e` is rewritten as a product with the explicit small factor `e`. -/
theorem arcsin_small_argument {F : Type} [Field F] (a e c1 cw : F) (h1 : c1 ^ 2 = 1 - a ^ 2) (hw : cw ^ 2 = 1 - (a + e) ^ 2)
    (hs : c1 + cw ≠ 0) :
    (a + e) * c1 - a * cw = e * (c1 + a * (2 * a + e) / (c1 + cw)) := by
  field_simp
  linear_combination a * h1 - a * hw

/-- the argument of the small arctangent in the repaired `Bicomplex.arctan`: `t = e / (1 + a (a + e))` satisfies the
tangent subtraction formula `(w - a) = t (1 + a w)` with `w = a + e` -/
theorem arctan_small_argument {F : Type} [Field F] (a e : F) (h : 1 + a * (a + e) ≠ 0) :
    (a + e) - a = (e / (1 + a * (a + e))) * (1 + a * (a + e)) := by
  field_simp
  ring

open Real in
/-- the real-line instance of the repaired `Bicomplex.arctan`: `arctan(a + e) = arctan a + arctan(e / (1 + a (a + e)))`
as long as `1 + a (a + e) > 0` (always true for a perturbation `e` that is small relative to `a`, and for every `e` of the
sign of `a`) -/
theorem arctan_split_real (a e : ℝ) (h : 0 < 1 + a * (a + e)) :
    Real.arctan (a + e) = Real.arctan a + Real.arctan (e / (1 + a * (a + e))) := by
  have hne : 1 + a * (a + e) ≠ 0 := ne_of_gt h
  have hlt : a * (e / (1 + a * (a + e))) < 1 := by
    rw [mul_div_assoc', div_lt_one h]
    nlinarith [sq_nonneg a]
  rw [Real.arctan_add hlt]
  congr 1
  have h2 : (1 : ℝ) + a ^ 2 ≠ 0 := by positivity
  have h3 : 1 - a * (e / (1 + a * (a + e))) ≠ 0 := ne_of_gt (by linarith)
  rw [eq_div_iff h3]
  have key : a * (e / (1 + a * (a + e))) = a * e / (1 + a * (a + e)) := by ring
  have e1 : e / (1 + a * (a + e)) * (1 + a * (a + e)) = e := div_mul_cancel₀ e hne
  have : (a + e) * (1 - a * (e / (1 + a * (a + e)))) * (1 + a * (a + e)) = (a + e / (1 + a * (a + e))) * (1 + a * (a + e)) := by
    have l : (a + e) * (1 - a * (e / (1 + a * (a + e)))) * (1 + a * (a + e))
        = (a + e) * ((1 + a * (a + e)) - a * (e / (1 + a * (a + e)) * (1 + a * (a + e)))) := by ring
    have r : (a + e / (1 + a * (a + e))) * (1 + a * (a + e)) = a * (1 + a * (a + e)) + e / (1 + a * (a + e)) * (1 + a * (a + e)) := by ring
    rw [l, r, e1]; ring
  exact mul_right_cancel₀ hne this

/-- the real-line instance of the repaired `Bicomplex.arcsin`: `arcsin w = arcsin a + arcsin (w √(1-a²) - a √(1-w²))` for
`a, w ∈ [-1, 1]` whose arcsines differ by at most π/2 (a perturbation `w = a + e` of `a`) -/
theorem arcsin_split_real (a w : ℝ) (ha1 : -1 ≤ a) (ha2 : a ≤ 1) (hw1 : -1 ≤ w) (hw2 : w ≤ 1)
    (hd1 : -(Real.pi / 2) ≤ Real.arcsin w - Real.arcsin a) (hd2 : Real.arcsin w - Real.arcsin a ≤ Real.pi / 2) :
    Real.arcsin w = Real.arcsin a + Real.arcsin (w * Real.sqrt (1 - a ^ 2) - a * Real.sqrt (1 - w ^ 2)) := by
  have hs : Real.sin (Real.arcsin w - Real.arcsin a) = w * Real.sqrt (1 - a ^ 2) - a * Real.sqrt (1 - w ^ 2) := by
    rw [Real.sin_sub, Real.sin_arcsin hw1 hw2, Real.sin_arcsin ha1 ha2, Real.cos_arcsin, Real.cos_arcsin]
    ring
  rw [← hs, Real.arcsin_sin hd1 hd2]
  ring

end Ndt
