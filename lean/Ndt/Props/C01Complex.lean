import Ndt.Props.C01
import Ndt.Proofs.ExpansionC
import Mathlib.Analysis.SpecialFunctions.Sqrt
set_option linter.unusedSimpArgs false
namespace Ndt
open Ndt.Gen Finset Complex

/-- the complex-step quotient named `d`, on ℂ with `_SQRT_J = ζ` -/
noncomputable def complexQuotient (ζ : ℂ) (d : DiffName) (f : ℂ → ℂ) (fx x h : ℝ) : ℝ :=
  match d with
  | .complex => qComplex (cstepC ζ) f x h
  | .complex_odd => qComplexOdd (cstepC ζ) f x h
  | .complex_odd_higher => qComplexOddHigher (cstepC ζ) f x h
  | .complex_even => qComplexEven (cstepC ζ) f x h
  | .complex_even_higher => qComplexEvenHigher (cstepC ζ) f fx x h
  | _ => 0

/-- the (generated) name logic and parity row of the complex method -/
theorem complex_names (n order : ℕ) (hn : 1 ≤ n) :
    let r : LogRule := ⟨n, .complex, order⟩
    (n = 1 ∧ order < 4 → diffName r = some .complex ∧ r._parity .complex (n - 1) r.method_order = 1) ∧
    (¬ (n = 1 ∧ order < 4) → n % 4 = 1 → diffName r = some .complex_odd ∧ r._parity .complex (n - 1) r.method_order = 5) ∧
    (n % 4 = 3 → diffName r = some .complex_odd_higher ∧ r._parity .complex (n - 1) r.method_order = 6) ∧
    (n % 4 = 2 → diffName r = some .complex_even ∧ r._parity .complex (n - 1) r.method_order = 3) ∧
    (n % 4 = 0 → diffName r = some .complex_even_higher ∧ r._parity .complex (n - 1) r.method_order = 4) := by
  intro r
  refine ⟨?_, ?_, ?_, ?_, ?_⟩
  · rintro ⟨rfl, ho⟩
    have h4 : ¬ (4 ≤ order) := by omega
    have : order / 2 * 2 ≤ 2 := by omega
    simp [r, diffName, LogRule._get_middle_name, LogRule._get_last_name, LogRule._even_derivative, LogRule._odd_derivative,
      LogRule._complex_high_order, LogRule._multicomplex_middle_name, LogRule._derivative_mod_four_is_zero,
      LogRule._derivative_mod_four_is_three, LogRule._parity, LogRule._parity_complex, LogRule.method_order,
      LogRule.richardson_step, h4]
    omega
  · intro hA h1
    have h2 : n % 2 = 1 := by omega
    by_cases hn1 : n = 1
    · subst hn1
      have h4 : 4 ≤ order := by
        by_contra hc; exact hA ⟨rfl, by omega⟩
      have : 4 ≤ order / 4 * 4 := by omega
      simp [r, diffName, LogRule._get_middle_name, LogRule._get_last_name, LogRule._even_derivative, LogRule._odd_derivative,
      LogRule._complex_high_order, LogRule._multicomplex_middle_name, LogRule._derivative_mod_four_is_zero,
      LogRule._derivative_mod_four_is_three, LogRule._parity, LogRule._parity_complex, LogRule.method_order,
      LogRule.richardson_step, h4]
    · have hgt : 1 < n := by omega
      simp [r, diffName, LogRule._get_middle_name, LogRule._get_last_name, LogRule._even_derivative, LogRule._odd_derivative,
      LogRule._complex_high_order, LogRule._multicomplex_middle_name, LogRule._derivative_mod_four_is_zero,
      LogRule._derivative_mod_four_is_three, LogRule._parity, LogRule._parity_complex, LogRule.method_order,
      LogRule.richardson_step, h1, h2, hn1, hgt]
  · intro h3
    have h2 : n % 2 = 1 := by omega
    have hn1 : n ≠ 1 := by omega
    have hgt : 1 < n := by omega
    simp [r, diffName, LogRule._get_middle_name, LogRule._get_last_name, LogRule._even_derivative, LogRule._odd_derivative,
      LogRule._complex_high_order, LogRule._multicomplex_middle_name, LogRule._derivative_mod_four_is_zero,
      LogRule._derivative_mod_four_is_three, LogRule._parity, LogRule._parity_complex, LogRule.method_order,
      LogRule.richardson_step, h3, h2, hn1, hgt]
  · intro h3
    have h2 : n % 2 = 0 := by omega
    have hn1 : n ≠ 1 := by omega
    have hgt : 1 < n := by omega
    simp [r, diffName, LogRule._get_middle_name, LogRule._get_last_name, LogRule._even_derivative, LogRule._odd_derivative,
      LogRule._complex_high_order, LogRule._multicomplex_middle_name, LogRule._derivative_mod_four_is_zero,
      LogRule._derivative_mod_four_is_three, LogRule._parity, LogRule._parity_complex, LogRule.method_order,
      LogRule.richardson_step, h3, h2, hn1, hgt]
  · intro h3
    have h2 : n % 2 = 0 := by omega
    have hn1 : n ≠ 1 := by omega
    have hgt : 1 < n := by omega
    simp [r, diffName, LogRule._get_middle_name, LogRule._get_last_name, LogRule._even_derivative, LogRule._odd_derivative,
      LogRule._complex_high_order, LogRule._multicomplex_middle_name, LogRule._derivative_mod_four_is_zero,
      LogRule._derivative_mod_four_is_three, LogRule._parity, LogRule._parity_complex, LogRule.method_order,
      LogRule.richardson_step, h3, h2, hn1, hgt]

/-- **Every first-stage candidate is exact (complex-step method).**  For `method='complex'`, every `n ≥ 1`, `order ≥ 1`, every
real ratio with pairwise distinct nodes, every non-zero base step, every number of steps and every real polynomial
`f(t) = Σ_{k < n + method_order} a_k (t - x)^k` (evaluated on ℂ along `1j` resp. `_SQRT_J = ζ`, any square root of `I`): each
entry of `der_init = rule ⋆ quotients / h^n` equals `n! a_n = f^(n)(x)` — for all five quotient functions the (generated) name
logic can select, with the (generated) parity rows 1, 3, 4, 5, 6 and the (generated) sign flip `n % 8 ∈ {3, 4, 5, 6}`. -/
theorem complex_step_candidates_exact (ζ : ℂ) (hζ : ζ * ζ = I) (ρ : ℝ) (hρ : ρ ≠ 0) (n order : ℕ) (hn : 1 ≤ n) (ho : 1 ≤ order)
    (hd : (fdNodes ρ ((⟨n, .complex, order⟩ : LogRule)._parity .complex (n - 1) (⟨n, .complex, order⟩ : LogRule).method_order)
            (⟨n, .complex, order⟩ : LogRule).num_terms).Nodup)
    (a : ℕ → ℝ) (x h0 : ℝ) (hh : h0 ≠ 0) (N : ℕ) :
    let r : LogRule := ⟨n, .complex, order⟩
    let f := polyAtC a (n + r.method_order) x
    let steps := (List.range N).map (fun s => h0 * (1 / ρ) ^ s)
    ∃ d, diffName r = some d ∧
      ∀ y ∈ fdApply ρ r (steps.map (fun h => complexQuotient ζ d f (a 0) x h)) steps, y = (n.factorial : ℝ) * a n := by
  intro r f steps
  have hm4 : Method.complex = .central ∨ Method.complex = .forward ∨ Method.complex = .backward ∨ Method.complex = .complex :=
    Or.inr (Or.inr (Or.inr rfl))
  obtain ⟨hpok, hstep, hidx, hnt, _, hmo1, hnt1, hidxlt⟩ := rule_tables_consistent .complex hm4 n order hn ho
  have hMpos : 0 < n + r.method_order := by omega
  obtain ⟨nA, nB, nC, nD, nE⟩ := complex_names n order hn
  by_cases hA : n = 1 ∧ order < 4
  · -- `_complex`, parity 1
    obtain ⟨hname, hp⟩ := nA hA
    refine ⟨.complex, hname, ?_⟩
    have hexp : ∀ h : ℝ, complexQuotient ζ .complex f (a 0) x h
        = ∑ k ∈ range (n + r.method_order), (if k % 4 = 1 then a k else if k % 4 = 3 then -a k else 0) * h ^ k :=
      fun h => qComplex_expansion ζ a _ x h
    simp only [hexp]
    intro y hy
    have := fdApply_on_expansion ρ hρ .complex hm4 n order hn ho hd (fun k => if k % 4 = 1 then a k else if k % 4 = 3 then -a k else 0)
      (by
        intro k hk hnot
        by_cases hz : (if k % 4 = 1 then a k else if k % 4 = 3 then -a k else 0) = 0
        · exact hz
        · exfalso
          rw [hp] at hnot hnt
          have hk2 : k < fdExponent 1 (⟨n, .complex, order⟩ : LogRule).num_terms := by rw [hnt]; exact hk
          simp only [fdExponent, fd_offset, fd_step] at hk2 hnot
          have hkmod : k % 2 = 1 % 2 ∧ 1 ≤ k := by
            by_contra hc
            apply hz
            have hlt8 : k % 8 < 8 := Nat.mod_lt _ (by norm_num)
            split_ifs <;> first | rfl | (exfalso; omega)
          exact hnot ((k - 1) / 2) (by simp at hk2; omega) (by simp; omega)) h0 hh N y hy
    rw [this, hp]
    obtain ⟨rfl, _⟩ := hA
    simp [flipSign, LogRule._flip_fd_rule, fd_c_0]
  · have h4 : n % 4 = 0 ∨ n % 4 = 1 ∨ n % 4 = 2 ∨ n % 4 = 3 := by omega
    rcases h4 with h4 | h4 | h4 | h4
    · -- `_complex_even_higher`, parity 4
      obtain ⟨hname, hp⟩ := nE h4
      refine ⟨.complex_even_higher, hname, ?_⟩
      have hexp : ∀ h : ℝ, complexQuotient ζ .complex_even_higher f (a 0) x h
          = ∑ k ∈ range (n + r.method_order), (if k % 8 = 0 ∧ k ≠ 0 then 24 * a k else if k % 8 = 4 then -(24 * a k) else 0) * h ^ k :=
        fun h => qComplexEvenHigher_expansion ζ hζ a _ hMpos x h
      simp only [hexp]
      intro y hy
      have := fdApply_on_expansion ρ hρ .complex hm4 n order hn ho hd (fun k => if k % 8 = 0 ∧ k ≠ 0 then 24 * a k else if k % 8 = 4 then -(24 * a k) else 0)
        (by
          intro k hk hnot
          by_cases hz : (if k % 8 = 0 ∧ k ≠ 0 then 24 * a k else if k % 8 = 4 then -(24 * a k) else 0) = 0
          · exact hz
          · exfalso
            rw [hp] at hnot hnt
            have hk2 : k < fdExponent 4 (⟨n, .complex, order⟩ : LogRule).num_terms := by rw [hnt]; exact hk
            simp only [fdExponent, fd_offset, fd_step] at hk2 hnot
            have hkmod : k % 4 = 4 % 4 ∧ 4 ≤ k := by
              by_contra hc
              apply hz
              have hlt8 : k % 8 < 8 := Nat.mod_lt _ (by norm_num)
              split_ifs <;> first | rfl | (exfalso; omega)
            exact hnot ((k - 4) / 4) (by simp at hk2; omega) (by simp; omega)) h0 hh N y hy
      rw [this, hp]
      have h8 : n % 8 = 0 ∨ n % 8 = 4 := by omega
      have hn0 : n ≠ 0 := by omega
      rcases h8 with h8 | h8 <;> simp [flipSign, LogRule._flip_fd_rule, fd_c_0, h8, hn0] <;> ring
    · -- `_complex_odd`, parity 5
      obtain ⟨hname, hp⟩ := nB hA h4
      refine ⟨.complex_odd, hname, ?_⟩
      have hexp : ∀ h : ℝ, complexQuotient ζ .complex_odd f (a 0) x h
          = ∑ k ∈ range (n + r.method_order), (if k % 8 = 1 then a k else if k % 8 = 5 then -a k else 0) * h ^ k :=
        fun h => qComplexOdd_expansion ζ hζ a _ x h
      simp only [hexp]
      intro y hy
      have := fdApply_on_expansion ρ hρ .complex hm4 n order hn ho hd (fun k => if k % 8 = 1 then a k else if k % 8 = 5 then -a k else 0)
        (by
          intro k hk hnot
          by_cases hz : (if k % 8 = 1 then a k else if k % 8 = 5 then -a k else 0) = 0
          · exact hz
          · exfalso
            rw [hp] at hnot hnt
            have hk2 : k < fdExponent 5 (⟨n, .complex, order⟩ : LogRule).num_terms := by rw [hnt]; exact hk
            simp only [fdExponent, fd_offset, fd_step] at hk2 hnot
            have hkmod : k % 4 = 1 % 4 ∧ 1 ≤ k := by
              by_contra hc
              apply hz
              have hlt8 : k % 8 < 8 := Nat.mod_lt _ (by norm_num)
              split_ifs <;> first | rfl | (exfalso; omega)
            exact hnot ((k - 1) / 4) (by simp at hk2; omega) (by simp; omega)) h0 hh N y hy
      rw [this, hp]
      have h8 : n % 8 = 1 ∨ n % 8 = 5 := by omega
      rcases h8 with h8 | h8 <;> simp [flipSign, LogRule._flip_fd_rule, fd_c_0, h8] <;> ring
    · -- `_complex_even`, parity 3
      obtain ⟨hname, hp⟩ := nD h4
      refine ⟨.complex_even, hname, ?_⟩
      have hexp : ∀ h : ℝ, complexQuotient ζ .complex_even f (a 0) x h
          = ∑ k ∈ range (n + r.method_order), (if k % 8 = 2 then 2 * a k else if k % 8 = 6 then -(2 * a k) else 0) * h ^ k :=
        fun h => qComplexEven_expansion ζ hζ a _ x h
      simp only [hexp]
      intro y hy
      have := fdApply_on_expansion ρ hρ .complex hm4 n order hn ho hd (fun k => if k % 8 = 2 then 2 * a k else if k % 8 = 6 then -(2 * a k) else 0)
        (by
          intro k hk hnot
          by_cases hz : (if k % 8 = 2 then 2 * a k else if k % 8 = 6 then -(2 * a k) else 0) = 0
          · exact hz
          · exfalso
            rw [hp] at hnot hnt
            have hk2 : k < fdExponent 3 (⟨n, .complex, order⟩ : LogRule).num_terms := by rw [hnt]; exact hk
            simp only [fdExponent, fd_offset, fd_step] at hk2 hnot
            have hkmod : k % 4 = 2 % 4 ∧ 2 ≤ k := by
              by_contra hc
              apply hz
              have hlt8 : k % 8 < 8 := Nat.mod_lt _ (by norm_num)
              split_ifs <;> first | rfl | (exfalso; omega)
            exact hnot ((k - 2) / 4) (by simp at hk2; omega) (by simp; omega)) h0 hh N y hy
      rw [this, hp]
      have h8 : n % 8 = 2 ∨ n % 8 = 6 := by omega
      rcases h8 with h8 | h8 <;> simp [flipSign, LogRule._flip_fd_rule, fd_c_0, h8] <;> ring
    · -- `_complex_odd_higher`, parity 6
      obtain ⟨hname, hp⟩ := nC h4
      refine ⟨.complex_odd_higher, hname, ?_⟩
      have hexp : ∀ h : ℝ, complexQuotient ζ .complex_odd_higher f (a 0) x h
          = ∑ k ∈ range (n + r.method_order), (if k % 8 = 3 then -(6 * a k) else if k % 8 = 7 then 6 * a k else 0) * h ^ k :=
        fun h => qComplexOddHigher_expansion ζ hζ a _ x h
      simp only [hexp]
      intro y hy
      have := fdApply_on_expansion ρ hρ .complex hm4 n order hn ho hd (fun k => if k % 8 = 3 then -(6 * a k) else if k % 8 = 7 then 6 * a k else 0)
        (by
          intro k hk hnot
          by_cases hz : (if k % 8 = 3 then -(6 * a k) else if k % 8 = 7 then 6 * a k else 0) = 0
          · exact hz
          · exfalso
            rw [hp] at hnot hnt
            have hk2 : k < fdExponent 6 (⟨n, .complex, order⟩ : LogRule).num_terms := by rw [hnt]; exact hk
            simp only [fdExponent, fd_offset, fd_step] at hk2 hnot
            have hkmod : k % 4 = 3 % 4 ∧ 3 ≤ k := by
              by_contra hc
              apply hz
              have hlt8 : k % 8 < 8 := Nat.mod_lt _ (by norm_num)
              split_ifs <;> first | rfl | (exfalso; omega)
            exact hnot ((k - 3) / 4) (by simp at hk2; omega) (by simp; omega)) h0 hh N y hy
      rw [this, hp]
      have h8 : n % 8 = 3 ∨ n % 8 = 7 := by omega
      rcases h8 with h8 | h8 <;> simp [flipSign, LogRule._flip_fd_rule, fd_c_0, h8] <;> ring

/-- **C01, exact-arithmetic core, complex-step method.**  `Derivative(f, n, method='complex', order)(x)` for any `n ≥ 1`,
`order ≥ 1`, any real ratio `ρ > 1`, any non-zero base step, any number of generated steps and of Richardson terms: if `f` is
a real polynomial of degree `< n + method_order`, every candidate of every stage of the pipeline (generated name logic →
complex-step quotient along `1j` / `_SQRT_J` → generated parity row and sign flip → division by `h^n` → Richardson with the
generated step `richardson_step` → dea3 → selection) equals `n! a_n = f^(n)(x)`. -/
theorem derivative_exact_on_polynomials_complex (ζ : ℂ) (hζ : ζ * ζ = I) (dc : Consts ℝ) (hE : 0 ≤ dc.eps) (sc : SelConsts ℝ)
    (ρ : ℝ) (hρ : 1 < ρ) (n order : ℕ) (hn : 1 ≤ n) (ho : 1 ≤ order) (richardsonTerms : ℕ)
    (a : ℕ → ℝ) (x h0 : ℝ) (hh : h0 ≠ 0) (N : ℕ) :
    let r : LogRule := ⟨n, .complex, order⟩
    let f := polyAtC a (n + r.method_order) x
    let steps := (List.range N).map (fun s => h0 * (1 / ρ) ^ s)
    ∃ d, diffName r = some d ∧
      let derInit := fdApply ρ r (steps.map (fun h => complexQuotient ζ d f (a 0) x h)) steps
      let rich := richCall ρ r.richardson_step r.method_order richardsonTerms derInit
      ∀ errs stepTable, 0 < rich.length →
        ∀ y ∈ (tailStage dc sc rich.length 1 rich errs stepTable).value, y = (n.factorial : ℝ) * a n := by
  intro r f steps
  have hm4 : Method.complex = .central ∨ Method.complex = .forward ∨ Method.complex = .backward ∨ Method.complex = .complex :=
    Or.inr (Or.inr (Or.inr rfl))
  obtain ⟨hpok, _, _, _, _, hmo1, _, _⟩ := rule_tables_consistent .complex hm4 n order hn ho
  have hρ0 : ρ ≠ 0 := by positivity
  have hd := fdNodes_nodup_real ρ hρ (r._parity .complex (n - 1) r.method_order) r.num_terms hpok
  obtain ⟨d, hdn, hcand⟩ := complex_step_candidates_exact ζ hζ ρ hρ0 n order hn ho hd a x h0 hh N
  refine ⟨d, hdn, ?_⟩
  intro derInit rich errs stepTable hpos y hy
  have hstep1 : 1 ≤ r.richardson_step := by
    simp only [r, LogRule.richardson_step]; split_ifs <;> norm_num
  have hnodes := richNodes_nodup_real ρ hρ r.richardson_step r.method_order
    (richTerms richardsonTerms derInit.length) hmo1 hstep1
  have hrich : ∀ y ∈ rich, y = (n.factorial : ℝ) * a n :=
    richCall_const ρ _ _ richardsonTerms _ derInit hnodes hcand
  exact tailStage_const dc hE sc rich.length 1 hpos _ rich errs stepTable (by simp) hrich y hy

/-- a square root of `I` exists (`(1 + I)/√2`), so the hypotheses on `ζ` are satisfiable -/
example : ∃ ζ : ℂ, ζ * ζ = I := by
  refine ⟨((Real.sqrt 2)⁻¹ : ℝ) * (1 + I), ?_⟩
  have h2 : ((Real.sqrt 2)⁻¹ : ℝ) * ((Real.sqrt 2)⁻¹ : ℝ) = 1 / 2 := by
    rw [← mul_inv, Real.mul_self_sqrt (by norm_num)]; norm_num
  have h2c : (((Real.sqrt 2)⁻¹ : ℝ) : ℂ) * (((Real.sqrt 2)⁻¹ : ℝ) : ℂ) = 1 / 2 := by
    rw [← Complex.ofReal_mul, h2]; push_cast; ring
  calc (((Real.sqrt 2)⁻¹ : ℝ) : ℂ) * (1 + I) * ((((Real.sqrt 2)⁻¹ : ℝ) : ℂ) * (1 + I))
      = ((((Real.sqrt 2)⁻¹ : ℝ) : ℂ) * (((Real.sqrt 2)⁻¹ : ℝ) : ℂ)) * ((1 + I) * (1 + I)) := by ring
    _ = I := by rw [h2c]; linear_combination (1 / 2 : ℂ) * I_sq

end Ndt
