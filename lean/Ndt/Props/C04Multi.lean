import Ndt.Props.C04Complex
import Ndt.Props.C12
import Ndt.Props.C01Complex
namespace Ndt
open Ndt.Gen Complex

/-- `y ^ e` with the generated Bicomplex multiplication -/
noncomputable def bcPow (y : BC) : ℕ → BC
  | 0 => ⟨1, 0⟩
  | e + 1 => y.mul (bcPow y e)

/-- a monomial `Π_k y_k ^ e_k` (exponent list `es`, variables `y 0, y 1, …`) over BC resp. ℂ -/
noncomputable def bcMono (y : ℕ → BC) : ℕ → List ℕ → BC
  | _, [] => ⟨1, 0⟩
  | k, e :: es => (bcPow (y k) e).mul (bcMono y (k + 1) es)
noncomputable def cMono (y : ℕ → ℂ) : ℕ → List ℕ → ℂ
  | _, [] => 1
  | k, e :: es => y k ^ e * cMono y (k + 1) es

/-- a real polynomial in several variables, evaluated with the generated Bicomplex `+` and `*` resp. in ℂ -/
noncomputable def bcMPoly (ms : List (ℝ × List ℕ)) (y : ℕ → BC) : BC :=
  ms.foldr (fun m acc => ((⟨(m.1 : ℂ), 0⟩ : BC).mul (bcMono y 0 m.2)).add acc) ⟨0, 0⟩
noncomputable def cMPoly (ms : List (ℝ × List ℕ)) (y : ℕ → ℂ) : ℂ :=
  ms.foldr (fun m acc => (m.1 : ℂ) * cMono y 0 m.2 + acc) 0

theorem phi_bcPow (y : BC) (e : ℕ) : phi1 (bcPow y e) = phi1 y ^ e ∧ phi2 (bcPow y e) = phi2 y ^ e := by
  induction e with
  | zero => simp [bcPow, phi1, phi2]
  | succ e ih => simp [bcPow, phi1_mul, phi2_mul, ih.1, ih.2, pow_succ, mul_comm]

theorem phi_bcMono (y : ℕ → BC) (es : List ℕ) : ∀ k,
    phi1 (bcMono y k es) = cMono (fun t => phi1 (y t)) k es ∧ phi2 (bcMono y k es) = cMono (fun t => phi2 (y t)) k es := by
  induction es with
  | nil => intro k; simp [bcMono, cMono, phi1, phi2]
  | cons e es ih =>
    intro k
    simp [bcMono, cMono, phi1_mul, phi2_mul, (phi_bcPow (y k) e).1, (phi_bcPow (y k) e).2, (ih (k + 1)).1, (ih (k + 1)).2]

/-- polynomials in several variables commute with the idempotent components -/
theorem phi_bcMPoly (ms : List (ℝ × List ℕ)) (y : ℕ → BC) :
    phi1 (bcMPoly ms y) = cMPoly ms (fun t => phi1 (y t)) ∧ phi2 (bcMPoly ms y) = cMPoly ms (fun t => phi2 (y t)) := by
  induction ms with
  | nil => simp [bcMPoly, cMPoly, phi1, phi2]
  | cons m ms ih =>
    have h1 := ih.1
    have h2 := ih.2
    unfold bcMPoly cMPoly at *
    simp only [List.foldr_cons]
    rw [phi1_add, phi2_add, phi1_mul, phi2_mul, h1, h2, (phi_bcMono y m.2 0).1, (phi_bcMono y m.2 0).2]
    simp [phi1, phi2]

/-- `HessianDifferenceFunctions._multicomplex2`, one cell: `imag12(f(Bicomplex(x + 1j h_i e_i, h_j e_j))) / (h_j h_i)` for a real
polynomial `f` evaluated with the generated Bicomplex operations -/
noncomputable def hessMulticomplexCell (ms : List (ℝ × List ℕ)) (x h : ℕ → ℝ) (i j : ℕ) : ℝ :=
  (bcMPoly ms (fun k => ⟨(x k : ℂ) + (if k = i then I * (h i : ℂ) else 0), if k = j then (h j : ℂ) else 0⟩)).z2.im / (h j * h i)

/-- **exact on quadratics, bicomplex formula**: if the polynomial is quadratic along `(i, j)` at `x`, every step gives the mixed
second derivative -/
theorem hessMulticomplex_quadratic (ms : List (ℝ × List ℕ)) (x h : ℕ → ℝ) (i j : ℕ) (gi gj qii qij qjj : ℝ)
    (hq : QuadraticAlongC (cMPoly ms) x i j gi gj qii qij qjj) (hi : h i ≠ 0) (hj : h j ≠ 0) :
    hessMulticomplexCell ms x h i j = qij := by
  unfold hessMulticomplexCell
  set y : ℕ → BC := fun k => ⟨(x k : ℂ) + (if k = i then I * (h i : ℂ) else 0), if k = j then (h j : ℂ) else 0⟩ with hy
  obtain ⟨h1, h2⟩ := phi_bcMPoly ms y
  have e1 : (fun t => phi1 (y t)) = shift2 (fun k => (x k : ℂ)) i (I * (h i : ℂ)) j (-(I * (h j : ℂ))) := by
    funext k; simp only [hy, phi1, shift2]; split_ifs <;> ring
  have e2 : (fun t => phi2 (y t)) = shift2 (fun k => (x k : ℂ)) i (I * (h i : ℂ)) j (I * (h j : ℂ)) := by
    funext k; simp only [hy, phi2, shift2]; split_ifs <;> ring
  rw [e1, hq] at h1
  rw [e2, hq] at h2
  set B := bcMPoly ms y
  have hz2 : B.z2 = (phi2 B - phi1 B) / (2 * I) := by
    simp only [phi1, phi2]; field_simp; ring
  rw [hz2, h1, h2]
  have : (cMPoly ms (fun k => (x k : ℂ)) + I * (h i : ℂ) * gi + I * (h j : ℂ) * gj
        + (I * (h i : ℂ) * (I * (h i : ℂ)) * qii + 2 * (I * (h i : ℂ) * (I * (h j : ℂ)) * qij) + I * (h j : ℂ) * (I * (h j : ℂ)) * qjj) / 2
      - (cMPoly ms (fun k => (x k : ℂ)) + I * (h i : ℂ) * gi + -(I * (h j : ℂ)) * gj
        + (I * (h i : ℂ) * (I * (h i : ℂ)) * qii + 2 * (I * (h i : ℂ) * -(I * (h j : ℂ)) * qij)
            + -(I * (h j : ℂ)) * -(I * (h j : ℂ)) * qjj) / 2)) / (2 * I)
      = ((h j * gj : ℝ) : ℂ) + ((h i * h j * qij : ℝ) : ℂ) * I := by
    have hI : (2 * I : ℂ) ≠ 0 := mul_ne_zero two_ne_zero I_ne_zero
    rw [div_eq_iff hI]
    push_cast
    ring
  rw [this, im_form]
  field_simp
/-- the Hessian rule pairs the complex-step formula (eq. 10) with a Richardson stage in powers of `h²` (the override
`LogHessianRule._complex_high_order = False`, regenerated from the source): its truncation error is `c₂ h² + c₄ h⁴ + …`, unlike the
scalar complex-step rules for `n > 1`, which are built on `h⁴` -/
theorem hessian_complex_not_high_order : hessianRuleComplexHighOrder = false := rfl

/-- **Hessdiag, complex-step**: entry `k` is the `method='complex'`, `n = 2` pipeline (`_complex_even` along `_SQRT_J`) on the line
function `t ↦ f(x + t e_k)`: exact when that function is a real polynomial of degree `< 2 + method_order` -/
theorem hessdiag_exact_complex (ζ : ℂ) (hζ : ζ * ζ = I) (dc : Consts ℝ) (hE : 0 ≤ dc.eps) (sc : SelConsts ℝ)
    (ρ : ℝ) (hρ : 1 < ρ) (order : ℕ) (ho : 1 ≤ order) (richardsonTerms : ℕ) (a : ℕ → ℝ) (h0 : ℝ) (hh : h0 ≠ 0) (N : ℕ) :
    let r : LogRule := ⟨2, .complex, order⟩
    let f := polyAtC a (2 + r.method_order) 0
    let steps := (List.range N).map (fun s => h0 * (1 / ρ) ^ s)
    ∃ d, diffName r = some d ∧
      let derInit := fdApply ρ r (steps.map (fun h => complexQuotient ζ d f (a 0) 0 h)) steps
      let rich := richCall ρ r.richardson_step r.method_order richardsonTerms derInit
      ∀ errs stepTable, 0 < rich.length →
        ∀ y ∈ (tailStage dc sc rich.length 1 rich errs stepTable).value, y = 2 * a 2 := by
  intro r f steps
  obtain ⟨d, hd, hex⟩ := derivative_exact_on_polynomials_complex ζ hζ dc hE sc ρ hρ 2 order (by norm_num) ho richardsonTerms a 0 h0 hh N
  refine ⟨d, hd, ?_⟩
  intro derInit rich errs stepTable hpos y hy
  have := hex errs stepTable hpos y hy
  simpa [Nat.factorial] using this

end Ndt
