import Ndt.Model.Jacobian
import Ndt.Props.C01
/-!
# C03 — Jacobian, Gradient, directionaldiff: right entries and shapes for any R^n → R^m
-/
open Finset
namespace Ndt
open Ndt.Gen

section layout
variable {K : Type} [Field K] [LinearOrder K] [IsStrictOrderedRing K]

theorem jacRavel2_length (n m : ℕ) (r : ℕ → ℕ → K) : (jacRavel2 n m r).length = m * n := by
  unfold jacRavel2
  rw [List.length_flatten]
  simp [Function.comp_def]

/-- **layout, vector-valued `f`**: after transpose + ravel the entry at flat position `i·n + j` — which the final
reshape to `(m, n)` presents as `[i, j]` — is the quotient of output `i` with respect to coordinate `j` -/
theorem jacobian_layout2 (n m : ℕ) (r : ℕ → ℕ → K) (i j : ℕ) (hi : i < m) (hj : j < n) :
    (jacRavel2 n m r).getD (i * n + j) 0 = r j i := by
  unfold jacRavel2
  rw [flat_gather _ n (by intro row hrow; simp only [List.mem_map] at hrow; obtain ⟨a, _, rfl⟩ := hrow; simp) i j hj]
  simp [List.getD_eq_getElem?_getD, List.getElem?_map, List.getElem?_range hi, List.getElem?_range hj]

/-- the step stored at the same flat position is the step of the *differentiated* coordinate `j`
(`_expand_steps` builds `one * h[j]` on axis 0, then the same transpose + ravel) -/
theorem jacobian_step_layout (n m : ℕ) (h : ℕ → K) (i j : ℕ) (hi : i < m) (hj : j < n) :
    (jacRavel2 n m (fun j _ => h j)).getD (i * n + j) 0 = h j :=
  jacobian_layout2 n m (fun j _ => h j) i j hi hj

/-- **layout, matrix-valued `f`** of shape `(m, k)`: flat position `(i·n + j)·k + l` ↦ `[i, j, l]` holds the
derivative of `f[i, l]` with respect to `x_j` -/
theorem jacobian_layout3 (n m k : ℕ) (r : ℕ → ℕ → ℕ → K) (i j l : ℕ) (hi : i < m) (hj : j < n) (hl : l < k) :
    (jacRavel3 n m k r).getD ((i * n + j) * k + l) 0 = r j i l := by
  unfold jacRavel3
  have hrow : ∀ row ∈ (List.range m).map (fun i => ((List.range n).map (fun j => (List.range k).map (fun l => r j i l))).flatten),
      row.length = n * k := by
    intro row hrow
    simp only [List.mem_map] at hrow
    obtain ⟨a, _, rfl⟩ := hrow
    rw [List.length_flatten]; simp [Function.comp_def]
  have hidx : (i * n + j) * k + l = i * (n * k) + (j * k + l) := by ring
  have hlt : j * k + l < n * k := by
    calc j * k + l < j * k + k := by omega
      _ = (j + 1) * k := by ring
      _ ≤ n * k := Nat.mul_le_mul_right _ hj
  rw [hidx, flat_gather _ (n * k) hrow i (j * k + l) hlt]
  simp only [List.getD_eq_getElem?_getD, List.getElem?_map, List.getElem?_range hi, Option.map_some, Option.getD_some]
  have := flat_gather ((List.range n).map (fun j => (List.range k).map (fun l => r j i l))) k
    (by intro row hrow; simp only [List.mem_map] at hrow; obtain ⟨a, _, rfl⟩ := hrow; simp) j l hl
  rw [List.getD_eq_getElem?_getD] at this
  rw [this]
  simp [List.getD_eq_getElem?_getD, List.getElem?_map, List.getElem?_range hj, List.getElem?_range hl]

/-- shapes: `(m, n)`, `(m, n, k)`, `(1, n)` for a 0-d `f`; Gradient: `(n,)`, 0-d for a single variable -/
theorem jacobian_shapes (n m k : ℕ) :
    jacShape n [m] = [m, n] ∧ jacShape n [m, k] = [m, n, k] ∧ jacShape n [] = [1, n] ∧
    gradShape 1 = [] ∧ (n ≠ 1 → gradShape n = [n]) := by
  refine ⟨rfl, rfl, rfl, rfl, fun h => by simp [gradShape, h]⟩

/-- **affine maps are differentiated exactly**: entry `(i, j)` of the Jacobian of `f(x) = A x + b` is the derivative
pipeline applied to the line function `t ↦ f_i(x + t e_j) = (A x + b)_i + A_ij t`, a polynomial of degree 1; by
`derivative_exact_on_polynomials` (n = 1, any order ≥ 1) every candidate equals `A_ij`, for central, forward and
backward alike. -/
theorem jacobian_affine_exact (dc : Consts K) (hE : 0 ≤ dc.eps) (sc : SelConsts K)
    (ρ : K) (hρ : 1 < ρ) (m : Method) (hm : m = .central ∨ m = .forward ∨ m = .backward)
    (order : ℕ) (ho : 1 ≤ order) (richardsonTerms : ℕ) (fxi Aij h0 : K) (hh : h0 ≠ 0) (N : ℕ) :
    let r : LogRule := ⟨1, m, order⟩
    -- the line function through x along e_j, in the displacement t
    let a : ℕ → K := fun k => if k = 0 then fxi else if k = 1 then Aij else 0
    let f := polyAt a (1 + r.method_order) 0
    let steps := (List.range N).map (fun s => h0 * (1 / ρ) ^ s)
    ∃ d, diffName r = some d ∧
      let derInit := fdApply ρ r (steps.map (fun h => realQuotient d f (f 0) 0 h)) steps
      let rich := richCall ρ r.richardson_step r.method_order richardsonTerms derInit
      ∀ errs stepTable, 0 < rich.length →
        ∀ y ∈ (tailStage dc sc rich.length 1 rich errs stepTable).value, y = Aij := by
  intro r a f steps
  obtain ⟨d, hd, hex⟩ := derivative_exact_on_polynomials dc hE sc ρ hρ m hm 1 order le_rfl ho richardsonTerms a 0 h0 hh N
  refine ⟨d, hd, ?_⟩
  intro derInit rich errs stepTable hpos y hy
  have := hex errs stepTable hpos y hy
  simpa [a] using this

end layout
end Ndt
