import Ndt.Props.C01Complex
import Ndt.Props.C12
namespace Ndt
open Ndt.Gen Finset Complex

/-- the multicomplex quotients on a real polynomial `p = Σ c_k z^k` evaluated with the generated Bicomplex operations:
`_multicomplex` is `imag` of `p(x + i h)` (second component 0), `_multicomplex2` is `imag12` of `p(x + i h + j h)` -/
noncomputable def multicomplexQuotient (d : DiffName) (cs : List ℝ) (x h : ℝ) : ℝ :=
  match d with
  | .multicomplex => (bcEval cs ⟨(x : ℂ) + I * h, 0⟩).z1.im
  | .multicomplex2 => (bcEval cs ⟨(x : ℂ) + I * h, (h : ℂ)⟩).z2.im
  | _ => 0

/-- first derivative: for a polynomial of degree ≤ 2 the quotient is exactly `h p'(x)` -/
theorem multicomplex1_quadratic (c0 c1 c2 x h : ℝ) :
    multicomplexQuotient .multicomplex [c0, c1, c2] x h = h * (c1 + 2 * c2 * x) := by
  unfold multicomplexQuotient
  simp only []
  rw [(multicomplex1_extracts [c0, c1, c2] x h).1]
  simp [cEval]
  ring

/-- second derivative: for a polynomial of degree ≤ 3 the quotient is exactly `h² p''(x)` -/
theorem multicomplex2_cubic (c0 c1 c2 c3 x h : ℝ) :
    multicomplexQuotient .multicomplex2 [c0, c1, c2, c3] x h = h ^ 2 * (2 * c2 + 6 * c3 * x) := by
  unfold multicomplexQuotient
  simp only []
  rw [multicomplex2_extracts [c0, c1, c2, c3] x h]
  simp [cEval]
  ring

theorem correlate_one (seq : List ℝ) : correlate [1] seq = seq := by
  apply List.ext_getElem
  · simp [correlate_length]
  · intro t h1 h2
    rw [correlate_getElem _ _ _ h1]
    simp [dotF, List.getD_eq_getElem?_getD, List.getElem?_eq_getElem h2]

/-- the rule of the multicomplex method is `[1]`: `LogRule._apply` only divides by `h^n` -/
theorem fdApply_multicomplex (ρ : ℝ) (n order : ℕ) (diffs steps : List ℝ) :
    fdApply ρ ⟨n, .multicomplex, order⟩ diffs steps = List.zipWith (fun d h => d / h ^ n) diffs steps := by
  unfold fdApply fdRule
  simp only [beq_self_eq_true, Bool.true_or, if_true, correlate_one, npow_eq]

/-- **C01, exact-arithmetic core, multicomplex method.**  For `n = 1` (polynomials of degree ≤ 2) and `n = 2` (degree ≤ 3), every
order, every real ratio > 1, every non-zero base step and number of steps: the generated name logic selects `_multicomplex` /
`_multicomplex2`, the quotient formed with the *generated* Bicomplex `+` and `*` divided by `h^n` is `p^(n)(x)` at every step,
and Richardson (generated step 2), dea3 and the selection return it. -/
theorem derivative_exact_on_polynomials_multicomplex (dc : Consts ℝ) (hE : 0 ≤ dc.eps) (sc : SelConsts ℝ)
    (ρ : ℝ) (hρ : 1 < ρ) (order : ℕ) (richardsonTerms : ℕ) (c0 c1 c2 c3 x h0 : ℝ) (hh : h0 ≠ 0) (N : ℕ) :
    let steps := (List.range N).map (fun s => h0 * (1 / ρ) ^ s)
    (diffName ⟨1, .multicomplex, order⟩ = some .multicomplex ∧
      let r : LogRule := ⟨1, .multicomplex, order⟩
      let derInit := fdApply ρ r (steps.map (fun h => multicomplexQuotient .multicomplex [c0, c1, c2] x h)) steps
      let rich := richCall ρ r.richardson_step r.method_order richardsonTerms derInit
      ∀ errs stepTable, 0 < rich.length →
        ∀ y ∈ (tailStage dc sc rich.length 1 rich errs stepTable).value, y = c1 + 2 * c2 * x) ∧
    (diffName ⟨2, .multicomplex, order⟩ = some .multicomplex2 ∧
      let r : LogRule := ⟨2, .multicomplex, order⟩
      let derInit := fdApply ρ r (steps.map (fun h => multicomplexQuotient .multicomplex2 [c0, c1, c2, c3] x h)) steps
      let rich := richCall ρ r.richardson_step r.method_order richardsonTerms derInit
      ∀ errs stepTable, 0 < rich.length →
        ∀ y ∈ (tailStage dc sc rich.length 1 rich errs stepTable).value, y = 2 * c2 + 6 * c3 * x) := by
  intro steps
  have hρ0 : ρ ≠ 0 := by positivity
  have hstepne : ∀ h ∈ steps, h ≠ 0 := by
    intro h hm
    simp only [steps, List.mem_map, List.mem_range] at hm
    obtain ⟨s, _, rfl⟩ := hm
    exact mul_ne_zero hh (pow_ne_zero _ (one_div_ne_zero hρ0))
  have hmo : ∀ n, 1 ≤ (⟨n, .multicomplex, order⟩ : LogRule).method_order ∧ (⟨n, .multicomplex, order⟩ : LogRule).richardson_step = 2 := by
    intro n
    simp [LogRule.method_order, LogRule.richardson_step]
  constructor
  · refine ⟨by simp [diffName, LogRule._get_middle_name, LogRule._get_last_name, LogRule._even_derivative, LogRule._odd_derivative,
      LogRule._complex_high_order, LogRule._multicomplex_middle_name, LogRule._derivative_mod_four_is_zero,
      LogRule._derivative_mod_four_is_three], ?_⟩
    intro r derInit rich errs stepTable hpos y hy
    have hcand : ∀ y ∈ derInit, y = c1 + 2 * c2 * x := by
      intro y hy
      have hy' : y ∈ fdApply ρ ⟨1, .multicomplex, order⟩ (steps.map (fun h => multicomplexQuotient .multicomplex [c0, c1, c2] x h)) steps := hy
      rw [fdApply_multicomplex, List.mem_iff_getElem] at hy'
      obtain ⟨t, ht, rfl⟩ := hy'
      simp only [List.getElem_zipWith, List.getElem_map]
      rw [multicomplex1_quadratic]
      have ht' : t < steps.length := by simp at ht; omega
      have := hstepne steps[t] (List.getElem_mem ht')
      field_simp
    have hnodes := richNodes_nodup_real ρ hρ r.richardson_step r.method_order
      (richTerms richardsonTerms derInit.length) (hmo 1).1 (by rw [(hmo 1).2]; norm_num)
    have hrich : ∀ y ∈ rich, y = c1 + 2 * c2 * x := richCall_const ρ _ _ richardsonTerms _ derInit hnodes hcand
    exact tailStage_const dc hE sc rich.length 1 hpos _ rich errs stepTable (by simp) hrich y hy
  · refine ⟨by simp [diffName, LogRule._get_middle_name, LogRule._get_last_name, LogRule._even_derivative, LogRule._odd_derivative,
      LogRule._complex_high_order, LogRule._multicomplex_middle_name, LogRule._derivative_mod_four_is_zero,
      LogRule._derivative_mod_four_is_three], ?_⟩
    intro r derInit rich errs stepTable hpos y hy
    have hcand : ∀ y ∈ derInit, y = 2 * c2 + 6 * c3 * x := by
      intro y hy
      have hy' : y ∈ fdApply ρ ⟨2, .multicomplex, order⟩ (steps.map (fun h => multicomplexQuotient .multicomplex2 [c0, c1, c2, c3] x h)) steps := hy
      rw [fdApply_multicomplex, List.mem_iff_getElem] at hy'
      obtain ⟨t, ht, rfl⟩ := hy'
      simp only [List.getElem_zipWith, List.getElem_map]
      rw [multicomplex2_cubic]
      have ht' : t < steps.length := by simp at ht; omega
      have := hstepne steps[t] (List.getElem_mem ht')
      field_simp
    have hnodes := richNodes_nodup_real ρ hρ r.richardson_step r.method_order
      (richTerms richardsonTerms derInit.length) (hmo 2).1 (by rw [(hmo 2).2]; norm_num)
    have hrich : ∀ y ∈ rich, y = 2 * c2 + 6 * c3 * x := richCall_const ρ _ _ richardsonTerms _ derInit hnodes hcand
    exact tailStage_const dc hE sc rich.length 1 hpos _ rich errs stepTable (by simp) hrich y hy
end Ndt
