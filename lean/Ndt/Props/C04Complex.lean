import Ndt.Props.C04
import Ndt.Proofs.ExpansionC
namespace Ndt
open Complex

/-- `f` (on ℂⁿ) is a real quadratic along the coordinate pair `(i, j)` at the real point `x`: gradient entries `gi, gj` and
Hessian entries `qii, qij, qjj` are real, the expansion holds for all complex displacements -/
def QuadraticAlongC (f : (ℕ → ℂ) → ℂ) (x : ℕ → ℝ) (i j : ℕ) (gi gj qii qij qjj : ℝ) : Prop :=
  ∀ a b : ℂ, f (shift2 (fun k => (x k : ℂ)) i a j b)
    = f (fun k => (x k : ℂ)) + a * gi + b * gj + (a * a * qii + 2 * (a * b * qij) + b * b * qjj) / 2

/-- **exact on quadratics, complex-step formula (Ridout eq. 10)**: for every step the cell is the mixed second derivative -/
theorem hessComplex_quadratic (ζ : ℂ) (f : (ℕ → ℂ) → ℂ) (x h : ℕ → ℝ) (i j : ℕ) (gi gj qii qij qjj : ℝ)
    (hq : QuadraticAlongC f x i j gi gj qii qij qjj) (hi : h i ≠ 0) (hj : h j ≠ 0) :
    hessComplexCell (cstepC ζ) f x h i j = qij := by
  unfold hessComplexCell cstepC
  simp only []
  rw [hq, hq]
  have : (f (fun k => (x k : ℂ)) + I * (h i : ℂ) * gi + (h j : ℂ) * gj
        + (I * (h i : ℂ) * (I * (h i : ℂ)) * qii + 2 * (I * (h i : ℂ) * (h j : ℂ) * qij) + (h j : ℂ) * (h j : ℂ) * qjj) / 2
      - (f (fun k => (x k : ℂ)) + I * (h i : ℂ) * gi + ((-(h j) : ℝ) : ℂ) * gj
        + (I * (h i : ℂ) * (I * (h i : ℂ)) * qii + 2 * (I * (h i : ℂ) * ((-(h j) : ℝ) : ℂ) * qij)
            + ((-(h j) : ℝ) : ℂ) * ((-(h j) : ℝ) : ℂ) * qjj) / 2))
      = ((2 * h j * gj : ℝ) : ℂ) + ((2 * (h i * h j * qij) : ℝ) : ℂ) * I := by
    push_cast; ring
  rw [this, im_form]
  field_simp

/-- the hypothesis is satisfiable: `f(y) = y₀ y₁` is quadratic along `(0, 1)` with mixed derivative 1 -/
example (x : ℕ → ℝ) : QuadraticAlongC (fun y => y 0 * y 1) x 0 1 (x 1) (x 0) 0 1 0 := by
  intro a b
  simp [shift2]
  ring
end Ndt
