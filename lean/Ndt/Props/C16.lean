import Ndt.Model.FdDerivative
import Ndt.Props.C15
/-!
# C16 — fd_derivative is exact on polynomials at every point of any grid
-/
open Polynomial Finset

namespace Ndt

/-- the stencils are always larger than the derivative order: the inner `fd_weights_all` guard
`n < len(window)` can never fire (`mm = n // 2 + m`, `m ≥ 1`) -/
theorem fd_order_guard (n m : ℕ) (hm : 1 ≤ m) : n < 2 * (n / 2 + m) + 1 := by omega

/-- a store that is the only one writing index `i` is the last store to `i` -/
theorem lastStore_unique (stores : List FdStore) (i : ℕ) (s : FdStore) (hs : s ∈ stores) (hi : s.idx = i)
    (huniq : ∀ s' ∈ stores, s'.idx = i → s' = s) : lastStore stores i = some s := by
  unfold lastStore
  cases h : stores.reverse.find? (fun s => s.idx == i) with
  | none =>
    rw [List.find?_eq_none] at h
    exact absurd (by simpa using hi) (h s (List.mem_reverse.mpr hs))
  | some s' =>
    have hm := List.mem_of_find?_eq_some h
    have hp := List.find?_some h
    rw [huniq s' (List.mem_reverse.mp hm) (by simpa using hp)]

theorem mem_fdStores (numX n m : ℕ) (s : FdStore) :
    s ∈ fdStores numX n m ↔
      (∃ i < n / 2 + m, s = ⟨i, 0, min (2 * (n / 2 + m) + 2) numX, i⟩ ∨
        s = ⟨numX - 1 - i, numX - min (2 * (n / 2 + m) + 2) numX, numX, numX - 1 - i⟩) ∨
      (∃ t < numX - (n / 2 + m) - (n / 2 + m),
        s = ⟨n / 2 + m + t, n / 2 + m + t - (n / 2 + m), n / 2 + m + t + (n / 2 + m) + 1, n / 2 + m + t⟩) := by
  unfold fdStores
  simp only [List.mem_append, List.mem_flatMap, List.mem_range, List.mem_cons, List.mem_map,
    List.not_mem_nil, or_false]
  constructor
  · rintro (⟨i, hi, h⟩ | ⟨t, ht, h⟩)
    · exact Or.inl ⟨i, hi, h⟩
    · exact Or.inr ⟨t, ht, h.symm⟩
  · rintro (⟨i, hi, h⟩ | ⟨t, ht, h⟩)
    · exact Or.inl ⟨i, hi, h⟩
    · exact Or.inr ⟨t, ht, h.symm⟩

section windows
variable (numX n m : ℕ) (hN : 2 * (n / 2 + m) + 2 ≤ numX)
include hN

/-- interior points use the centred window `x[i-mm .. i+mm]`, expanded at `x[i]` -/
theorem fdStores_interior (i : ℕ) (h1 : n / 2 + m ≤ i) (h2 : i < numX - (n / 2 + m)) :
    lastStore (fdStores numX n m) i = some ⟨i, i - (n / 2 + m), i + (n / 2 + m) + 1, i⟩ := by
  refine lastStore_unique _ i ⟨i, i - (n / 2 + m), i + (n / 2 + m) + 1, i⟩ ?_ rfl ?_
  · rw [mem_fdStores]
    refine Or.inr ⟨i - (n / 2 + m), by omega, ?_⟩
    have : n / 2 + m + (i - (n / 2 + m)) = i := by omega
    simp [this]
  · intro s' hs' hidx
    rw [mem_fdStores] at hs'
    rcases hs' with ⟨j, hj, rfl | rfl⟩ | ⟨t, ht, rfl⟩
    · simp only at hidx; omega
    · simp only at hidx; omega
    · simp only at hidx
      have : n / 2 + m + t = i := hidx
      simp [this]

/-- the first `mm` points use the first `2mm+2` nodes, expanded at their own node -/
theorem fdStores_left (i : ℕ) (h : i < n / 2 + m) :
    lastStore (fdStores numX n m) i = some ⟨i, 0, 2 * (n / 2 + m) + 2, i⟩ := by
  have hmin : min (2 * (n / 2 + m) + 2) numX = 2 * (n / 2 + m) + 2 := by omega
  refine lastStore_unique _ i ⟨i, 0, 2 * (n / 2 + m) + 2, i⟩ ?_ rfl ?_
  · rw [mem_fdStores]
    exact Or.inl ⟨i, h, Or.inl (by rw [hmin])⟩
  · intro s' hs' hidx
    rw [mem_fdStores] at hs'
    rcases hs' with ⟨j, hj, rfl | rfl⟩ | ⟨t, ht, rfl⟩
    · simp only at hidx; subst hidx; rw [hmin]
    · simp only at hidx; omega
    · simp only at hidx; omega

/-- the last `mm` points use the last `2mm+2` nodes, expanded at their own node -/
theorem fdStores_right (i : ℕ) (h1 : numX - (n / 2 + m) ≤ i) (h2 : i < numX) :
    lastStore (fdStores numX n m) i
      = some ⟨i, numX - (2 * (n / 2 + m) + 2), numX, i⟩ := by
  have hmin : min (2 * (n / 2 + m) + 2) numX = 2 * (n / 2 + m) + 2 := by omega
  refine lastStore_unique _ i ⟨i, numX - (2 * (n / 2 + m) + 2), numX, i⟩ ?_ rfl ?_
  · rw [mem_fdStores]
    refine Or.inl ⟨numX - 1 - i, by omega, Or.inr ?_⟩
    have : numX - 1 - (numX - 1 - i) = i := by omega
    rw [hmin, this]
  · intro s' hs' hidx
    rw [mem_fdStores] at hs'
    rcases hs' with ⟨j, hj, rfl | rfl⟩ | ⟨t, ht, rfl⟩
    · simp only at hidx; omega
    · simp only at hidx; rw [hmin, hidx]
    · simp only at hidx; omega

/-- every index is written by exactly one of the three kinds of store, whose window contains its
expansion node and has more than `n` nodes -/
theorem fdStores_cover (hm : 1 ≤ m) (i : ℕ) (hi : i < numX) :
    ∃ s, lastStore (fdStores numX n m) i = some s ∧ s.idx = i ∧ s.c = i ∧ s.lo ≤ i ∧ i < s.hi ∧
      s.hi ≤ numX ∧ n < s.hi - s.lo := by
  by_cases h1 : i < n / 2 + m
  · refine ⟨_, fdStores_left numX n m hN i h1, rfl, rfl, ?_, ?_, ?_, ?_⟩ <;> dsimp only <;> omega
  · by_cases h2 : i < numX - (n / 2 + m)
    · refine ⟨_, fdStores_interior numX n m hN i (by omega) h2, rfl, rfl, ?_, ?_, ?_, ?_⟩ <;> dsimp only <;> omega
    · refine ⟨_, fdStores_right numX n m hN i (by omega) hi, rfl, rfl, ?_, ?_, ?_, ?_⟩ <;> dsimp only <;> omega
end windows

section exact
variable {K : Type} [Field K]

theorem wsum_eq_sum (w s : List K) (h : w.length = s.length) :
    wsum w s = ∑ v ∈ range w.length, w.getD v 0 * s.getD v 0 := by
  induction w generalizing s with
  | nil => simp [wsum]
  | cons a w ih =>
    cases s with
    | nil => simp at h
    | cons b s =>
      simp only [wsum, List.length_cons, sum_range_succ', List.getD_cons_zero, List.getD_cons_succ]
      rw [ih s (by simpa using h)]
      ring

/-- **one store is exact**: on pairwise distinct nodes, a window with more than `n` nodes, and samples of
a polynomial of degree below the window length, the stored value is the exact `n`-th derivative at the
expansion node. -/
theorem fdStoreValue_exact (x : List K) (hd : x.Nodup) (p : K[X]) (n : ℕ) (s : FdStore)
    (hhi : s.hi ≤ x.length) (hn : n < s.hi - s.lo) (hp : p.degree < ((s.hi - s.lo : ℕ) : WithBot ℕ)) :
    fdStoreValue (x.map (fun t => p.eval t)) x n s = eval (x.getD s.c 0) (derivative^[n] p) := by
  simp only [fdStoreValue]
  set xw := (x.drop s.lo).take (s.hi - s.lo) with hxw
  have hlen : xw.length = s.hi - s.lo := by simp [hxw]; omega
  have hdw : xw.Nodup := by
    exact List.Nodup.sublist ((List.take_sublist _ _).trans (List.drop_sublist _ _)) hd
  have hfw : ((x.map (fun t => p.eval t)).drop s.lo).take (s.hi - s.lo) = xw.map (fun t => p.eval t) := by
    simp [hxw, List.map_drop, List.map_take]
  rw [hfw]
  obtain ⟨rows, h1, h2⟩ := fdWeights_is_last_row xw (x.getD s.c 0) n (by omega)
  obtain ⟨rows', h1', hl, hrl, hex⟩ := fdWeightsAll_exact xw hdw (x.getD s.c 0) n (by omega)
  rw [h1] at h1'
  cases Option.some.inj h1'
  rw [h2]
  simp only
  have hrow : (rows.getD n []).length = xw.length := hrl n le_rfl
  rw [wsum_eq_sum _ _ (by rw [hrow]; simp), hrow]
  have := hex n le_rfl p (by rw [hlen]; exact hp)
  rw [← this]
  refine sum_congr rfl (fun v hv => ?_)
  have hv' : v < xw.length := by simpa using hv
  simp [List.getD_eq_getElem?_getD, List.getElem?_map, List.getElem?_eq_getElem hv']

theorem fdDerivative_length (fx x : List K) (n m : ℕ) (du : List K)
    (h : fdDerivative fx x n m = .ok du) : du.length = x.length := by
  simp only [fdDerivative] at h
  split_ifs at h
  simp only [FdOutcome.ok.injEq] at h
  rw [← h]; simp

/-- **C16**: on a grid of pairwise distinct nodes (in particular any strictly monotone grid) that is
long enough for the stencil, and samples of a polynomial of degree at most `2 (n/2 + m)`,
`fd_derivative` returns the exact `n`-th derivative at every grid point — interior and both
boundaries — and the output has the input's length. -/
theorem fdDerivative_exact (x : List K) (hd : x.Nodup) (n m : ℕ) (hm : 1 ≤ m)
    (hN : 2 * (n / 2 + m) + 2 ≤ x.length) (p : K[X]) (hp : p.natDegree ≤ 2 * (n / 2 + m)) :
    fdDerivative (x.map (fun t => p.eval t)) x n m
      = .ok (x.map (fun t => eval t (derivative^[n] p))) := by
  unfold fdDerivative
  have h1 : n < x.length := by omega
  have h3 : ¬ x.length < n / 2 + m := by omega
  simp only [h1, not_true_eq_false, if_false, List.length_map, ne_eq, not_true, h3]
  congr 1
  apply List.ext_getElem (by simp)
  intro i hi1 hi2
  have hi : i < x.length := by simpa using hi1
  simp only [List.getElem_map, List.getElem_range]
  obtain ⟨s, hs, _, hc, _, _, hhi, hn⟩ := fdStores_cover x.length n m hN hm i hi
  rw [hs]
  simp only
  have hdeg : p.degree < ((s.hi - s.lo : ℕ) : WithBot ℕ) := by
    have hsz : 2 * (n / 2 + m) + 1 ≤ s.hi - s.lo := by
      -- each of the three windows has at least 2mm+1 nodes
      by_cases a1 : i < n / 2 + m
      · rw [fdStores_left x.length n m hN i a1] at hs; cases Option.some.inj hs; simp
      · by_cases a2 : i < x.length - (n / 2 + m)
        · rw [fdStores_interior x.length n m hN i (by omega) a2] at hs; cases Option.some.inj hs; simp; omega
        · rw [fdStores_right x.length n m hN i (by omega) hi] at hs; cases Option.some.inj hs; simp; omega
    calc p.degree ≤ (p.natDegree : WithBot ℕ) := degree_le_natDegree
      _ < ((s.hi - s.lo : ℕ) : WithBot ℕ) := by exact_mod_cast (by omega : p.natDegree < s.hi - s.lo)
  rw [fdStoreValue_exact x hd p n s hhi hn hdeg, hc]
  simp [List.getD_eq_getElem?_getD, List.getElem?_eq_getElem hi]

end exact

/-! ### non-vacuity: samples of t^2 on a non-uniform grid -/
example : fdDerivative [(0 : ℚ), 1, 9, 16, 36, 49] [0, 1, 3, 4, 6, 7] 1 1
    = .ok [0, 2, 6, 8, 12, 14] := by decide +kernel

end Ndt
