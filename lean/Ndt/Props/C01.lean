import Ndt.Proofs.Expansion
import Ndt.Proofs.DiffGen
import Ndt.Props.C07
import Ndt.Props.C08
import Ndt.Props.C13
import Ndt.Model.Richardson
/-!
# C01 — Derivative returns the true n-th derivative (exact-arithmetic core)

For the real-step methods the whole pipeline

  difference quotient → finite-difference rule (generated tables) → division by `h^n`
  → Richardson → Wynn (dea3) → selection

is exact on polynomials of degree `< n + method_order`: *every* candidate the selection can choose
equals `n! · a_n = f^(n)(x)`, hence so does the returned value, whatever the selection does.
Rounding, truncation error of non-polynomial `f` and the complex-step quotients with `√i`
are not carried by these theorems (see DESIGN.md, C01).
-/
open Finset
namespace Ndt
open Ndt.Gen

section
variable {K : Type} [Field K] [CharZero K]

theorem dotF_map_neg (w : List K) (g : ℕ → K) : dotF (w.map (fun x => -x)) g = -dotF w g := by
  induction w generalizing g with
  | nil => simp [dotF]
  | cons a w ih => simp only [List.map_cons, dotF, ih]; ring

/-- the sign the rule is given -/
def flipSign (r : LogRule) : K := if r._flip_fd_rule then -1 else 1

theorem natFactorial_eq (n : ℕ) : natFactorial n = n.factorial := by
  induction n with
  | zero => rfl
  | succ n ih => simp [natFactorial, Nat.factorial_succ, ih]

theorem fdRow_length (ρ : K) (p nt r : ℕ) (hr : r < nt) : (fdRow ρ p nt r).length = nt := by
  unfold fdRow pscale
  rw [List.length_map, lagrangeCoeffs_length _ _ (by rw [fdNodes_length]; exact hr), fdNodes_length]

/-- **Rule + division by `h^n` on an expansion with support in the rule's exponents**: every entry of
`LogRule._apply` is `± c_n · n! / c_0` when the quotient is `Σ_{k < n + method_order} c_k h^k`. -/
theorem fdApply_on_expansion (ρ : K) (hρ : ρ ≠ 0) (m : Method)
    (hm : m = .central ∨ m = .forward ∨ m = .backward ∨ m = .complex) (n order : ℕ) (hn : 1 ≤ n) (ho : 1 ≤ order)
    (hd : (fdNodes ρ ((⟨n, m, order⟩ : LogRule)._parity m (n - 1) (⟨n, m, order⟩ : LogRule).method_order)
            (⟨n, m, order⟩ : LogRule).num_terms).Nodup)
    (c : ℕ → K)
    (hc : ∀ k < n + (⟨n, m, order⟩ : LogRule).method_order,
      (∀ j < (⟨n, m, order⟩ : LogRule).num_terms,
        k ≠ fdExponent ((⟨n, m, order⟩ : LogRule)._parity m (n - 1) (⟨n, m, order⟩ : LogRule).method_order) j) → c k = 0)
    (h0 : K) (hh : h0 ≠ 0) (N : ℕ) :
    let r : LogRule := ⟨n, m, order⟩
    let p := r._parity m (n - 1) r.method_order
    let steps := (List.range N).map (fun s => h0 * (1 / ρ) ^ s)
    let diffs := steps.map (fun h => ∑ k ∈ range (n + r.method_order), c k * h ^ k)
    ∀ y ∈ fdApply ρ r diffs steps, y = flipSign r * c n * (n.factorial : K) / (fd_c_0 p : K) := by
  intro r p steps diffs y hy
  obtain ⟨hpok, hstep, hidx, hnt, _, _, hnt1, hidxlt⟩ := rule_tables_consistent m hm n order hn ho
  -- unfold the rule
  have hnotmc : (r.method == Method.multicomplex || r.n == 0) = false := by
    rcases hm with rfl | rfl | rfl | rfl <;> simp [r] <;> omega
  have hrule : fdRule ρ r = if r._flip_fd_rule then (fdRow ρ p r.num_terms r.rule_index).map (fun x => -x)
      else fdRow ρ p r.num_terms r.rule_index := by
    unfold fdRule; rw [hnotmc]; rfl
  unfold fdApply at hy
  rw [List.mem_iff_getElem] at hy
  obtain ⟨t, ht, rfl⟩ := hy
  simp only [List.getElem_zipWith]
  have ht1 : t < (correlate (fdRule ρ r) diffs).length := by simp at ht; omega
  have ht2 : t < steps.length := by simp at ht; omega
  have htN : t < N := by simpa [steps] using ht2
  rw [correlate_getElem _ _ _ ht1]
  have hstept : steps[t] = h0 * (1 / ρ) ^ t := by simp [steps]
  have hrn : r.n = n := rfl
  rw [hstept, npow_eq, hrn]
  -- window entries are the expansion at geometric steps
  have hwl : (fdRule ρ r).length = r.num_terms := by
    rw [hrule]; split_ifs <;> simp [fdRow_length ρ p r.num_terms r.rule_index hidxlt]
  have hlen : t + r.num_terms ≤ N := by
    have := ht1; rw [correlate_length, hwl] at this; simp [diffs, steps] at this; omega
  have hwin : ∀ i < (fdRule ρ r).length, diffs.getD (t + i) 0
      = ∑ k ∈ range (n + r.method_order), c k * (h0 * (1 / ρ) ^ (t + i)) ^ k := by
    intro i hi
    have : t + i < N := by rw [hwl] at hi; omega
    simp [diffs, steps, List.getD_eq_getElem?_getD, List.getElem?_map, List.getElem?_range this]
  rw [dotF_congr _ _ _ hwin]
  have hcore := fdRow_apply_k ρ p r.num_terms r.rule_index (n + r.method_order) hpok hd hidxlt (le_of_eq hnt) c
    (by rw [hnt]; exact hc) h0 t
  rw [hnt, Finset.Ico_self, Finset.sum_empty, add_zero, hidx] at hcore
  have hfdC : (fdC p r.rule_index : K) = (fd_c_0 p : K) / (n.factorial : K) := by
    unfold fdC; rw [hidx, natFactorial_eq]
  have hpow : (h0 * (1 / ρ) ^ t) ^ n ≠ 0 := pow_ne_zero _ (mul_ne_zero hh (pow_ne_zero _ (one_div_ne_zero hρ)))
  have hc0 : (fd_c_0 p : K) ≠ 0 := by
    have := (fd_tables_pos p hpok).2.2
    exact_mod_cast (by omega : fd_c_0 p ≠ 0)
  have hfact : (n.factorial : K) ≠ 0 := by exact_mod_cast Nat.factorial_ne_zero n
  rw [hrule]
  unfold flipSign
  split_ifs with hflip
  · rw [dotF_map_neg, hcore, hfdC]
    field_simp
  · rw [hcore, hfdC]; field_simp

end

/-! ### the four real-step quotients have their support in the rule's exponents -/
section real
variable {K : Type} [Field K] [CharZero K]

/-- the (generated) name logic selects the odd central quotient for odd `n`, the even one for even `n`,
and the one-sided quotients for forward / backward, for every order -/
theorem diffName_real (n order : ℕ) :
    diffName ⟨n, .central, order⟩ = (if n % 2 = 0 then some .central_even else some .central) ∧
    diffName ⟨n, .forward, order⟩ = some .forward ∧ diffName ⟨n, .backward, order⟩ = some .backward := by
  refine ⟨?_, ?_, ?_⟩
  · rcases Nat.mod_two_eq_zero_or_one n with h | h <;>
      simp [diffName, LogRule._get_middle_name, LogRule._get_last_name, LogRule._even_derivative, LogRule._odd_derivative,
        LogRule._complex_high_order, LogRule._multicomplex_middle_name, LogRule._derivative_mod_four_is_zero,
        LogRule._derivative_mod_four_is_three, h]
  · simp [diffName, LogRule._get_middle_name, LogRule._get_last_name, LogRule._even_derivative, LogRule._odd_derivative,
      LogRule._complex_high_order, LogRule._multicomplex_middle_name, LogRule._derivative_mod_four_is_zero,
      LogRule._derivative_mod_four_is_three]
  · simp [diffName, LogRule._get_middle_name, LogRule._get_last_name, LogRule._even_derivative, LogRule._odd_derivative,
      LogRule._complex_high_order, LogRule._multicomplex_middle_name, LogRule._derivative_mod_four_is_zero,
      LogRule._derivative_mod_four_is_three]

/-- the real-step quotient named `d` -/
def realQuotient (d : DiffName) (f : K → K) (fx x h : K) : K :=
  match d with
  | .central => dCentral f fx x h
  | .central_even => dCentralEven f fx x h
  | .forward => dForward f fx x h
  | .backward => dBackward f fx x h
  | _ => 0

/-- facts about the parity row of the three real-step methods -/
theorem parity_real (n order : ℕ) :
    (⟨n, .central, order⟩ : LogRule)._parity .central (n - 1) (⟨n, .central, order⟩ : LogRule).method_order = (n - 1) % 2 + 1 ∧
    (⟨n, .forward, order⟩ : LogRule)._parity .forward (n - 1) (⟨n, .forward, order⟩ : LogRule).method_order = 0 ∧
    (⟨n, .backward, order⟩ : LogRule)._parity .backward (n - 1) (⟨n, .backward, order⟩ : LogRule).method_order = 0 := by
  simp [LogRule._parity]

/-- **Every first-stage candidate is exact (real-step methods).**  For `central`, `forward`, `backward`, every
`n ≥ 1`, `order ≥ 1`, every ratio with pairwise distinct nodes (e.g. real `ρ > 1`), every non-zero base step,
every number of steps and every polynomial `f(t) = Σ_{k < n + method_order} a_k (t - x)^k`: each entry of
`der_init = rule ⋆ quotients / h^n` equals `n! a_n = f^(n)(x)`. -/
theorem real_step_candidates_exact (ρ : K) (hρ : ρ ≠ 0) (m : Method)
    (hm : m = .central ∨ m = .forward ∨ m = .backward) (n order : ℕ) (hn : 1 ≤ n) (ho : 1 ≤ order)
    (hd : (fdNodes ρ ((⟨n, m, order⟩ : LogRule)._parity m (n - 1) (⟨n, m, order⟩ : LogRule).method_order)
            (⟨n, m, order⟩ : LogRule).num_terms).Nodup)
    (a : ℕ → K) (x h0 : K) (hh : h0 ≠ 0) (N : ℕ) :
    let r : LogRule := ⟨n, m, order⟩
    let f := polyAt a (n + r.method_order) x
    let steps := (List.range N).map (fun s => h0 * (1 / ρ) ^ s)
    ∃ d, diffName r = some d ∧
      ∀ y ∈ fdApply ρ r (steps.map (fun h => realQuotient d f (f x) x h)) steps, y = (n.factorial : K) * a n := by
  intro r f steps
  have hm4 : m = .central ∨ m = .forward ∨ m = .backward ∨ m = .complex := by
    rcases hm with h | h | h <;> simp [h]
  obtain ⟨hpok, hstep, hidx, hnt, _, hmo1, hnt1, hidxlt⟩ := rule_tables_consistent m hm4 n order hn ho
  have hMpos : 0 < n + r.method_order := by omega
  obtain ⟨hpc, hpf, hpb⟩ := parity_real n order
  obtain ⟨hdc, hdf, hdb⟩ := diffName_real n order
  rcases hm with rfl | rfl | rfl
  · -- central
    rcases Nat.mod_two_eq_zero_or_one n with hpar | hpar
    · -- even n: parity 2
      refine ⟨.central_even, by rw [hdc, if_pos hpar], ?_⟩
      have hp2 : (⟨n, .central, order⟩ : LogRule)._parity .central (n - 1) (⟨n, .central, order⟩ : LogRule).method_order = 2 := by
        rw [hpc]; omega
      have hexp : ∀ h : K, realQuotient .central_even f (f x) x h
          = ∑ k ∈ range (n + r.method_order), (if k % 2 = 0 ∧ 2 ≤ k then a k else 0) * h ^ k :=
        fun h => dCentralEven_expansion a _ hMpos x h
      simp only [hexp]
      intro y hy
      have := fdApply_on_expansion ρ hρ .central hm4 n order hn ho hd (fun k => if k % 2 = 0 ∧ 2 ≤ k then a k else 0)
        (by
          intro k hk hnot
          split_ifs with hcond
          · exfalso
            rw [hp2] at hnot hnt
            have hk2 : k < fdExponent 2 (⟨n, .central, order⟩ : LogRule).num_terms := by rw [hnt]; exact hk
            simp only [fdExponent, fd_offset, fd_step] at hk2 hnot
            exact hnot ((k - 2) / 2) (by simp at hk2; omega) (by simp; omega)
          · rfl) h0 hh N y hy
      rw [this, hp2]
      have hn2 : 2 ≤ n := by omega
      simp [flipSign, LogRule._flip_fd_rule, fd_c_0, hpar, hn2]; ring
    · -- odd n: parity 1
      refine ⟨.central, by rw [hdc, if_neg (by omega)], ?_⟩
      have hp1 : (⟨n, .central, order⟩ : LogRule)._parity .central (n - 1) (⟨n, .central, order⟩ : LogRule).method_order = 1 := by
        rw [hpc]; omega
      have hexp : ∀ h : K, realQuotient .central f (f x) x h
          = ∑ k ∈ range (n + r.method_order), (if k % 2 = 1 then a k else 0) * h ^ k :=
        fun h => dCentral_expansion a _ x h (f x)
      simp only [hexp]
      intro y hy
      have := fdApply_on_expansion ρ hρ .central hm4 n order hn ho hd (fun k => if k % 2 = 1 then a k else 0)
        (by
          intro k hk hnot
          split_ifs with hcond
          · exfalso
            rw [hp1] at hnot hnt
            have hk2 : k < fdExponent 1 (⟨n, .central, order⟩ : LogRule).num_terms := by rw [hnt]; exact hk
            simp only [fdExponent, fd_offset, fd_step] at hk2 hnot
            exact hnot ((k - 1) / 2) (by simp at hk2; omega) (by simp; omega)
          · rfl) h0 hh N y hy
      rw [this, hp1]
      simp [flipSign, LogRule._flip_fd_rule, fd_c_0, hpar]; ring
  · -- forward: parity 0
    refine ⟨.forward, hdf, ?_⟩
    have hexp : ∀ h : K, realQuotient .forward f (f x) x h
        = ∑ k ∈ range (n + r.method_order), (if 1 ≤ k then a k else 0) * h ^ k :=
      fun h => dForward_expansion a _ hMpos x h
    simp only [hexp]
    intro y hy
    have := fdApply_on_expansion ρ hρ .forward hm4 n order hn ho hd (fun k => if 1 ≤ k then a k else 0)
      (by
        intro k hk hnot
        split_ifs with hcond
        · exfalso
          rw [hpf] at hnot hnt
          have hk2 : k < fdExponent 0 (⟨n, .forward, order⟩ : LogRule).num_terms := by rw [hnt]; exact hk
          simp only [fdExponent, fd_offset, fd_step] at hk2 hnot
          exact hnot (k - 1) (by simp at hk2; omega) (by simp; omega)
        · rfl) h0 hh N y hy
    rw [this, hpf]
    simp [flipSign, LogRule._flip_fd_rule, fd_c_0, hn]; ring
  · -- backward: parity 0, sign (-1)^(k+1), flipped for even n
    refine ⟨.backward, hdb, ?_⟩
    have hexp : ∀ h : K, realQuotient .backward f (f x) x h
        = ∑ k ∈ range (n + r.method_order), (if 1 ≤ k then (-1) ^ (k + 1) * a k else 0) * h ^ k :=
      fun h => dBackward_expansion a _ hMpos x h
    simp only [hexp]
    intro y hy
    have := fdApply_on_expansion ρ hρ .backward hm4 n order hn ho hd (fun k => if 1 ≤ k then (-1) ^ (k + 1) * a k else 0)
      (by
        intro k hk hnot
        split_ifs with hcond
        · exfalso
          rw [hpb] at hnot hnt
          have hk2 : k < fdExponent 0 (⟨n, .backward, order⟩ : LogRule).num_terms := by rw [hnt]; exact hk
          simp only [fdExponent, fd_offset, fd_step] at hk2 hnot
          exact hnot (k - 1) (by simp at hk2; omega) (by simp; omega)
        · rfl) h0 hh N y hy
    rw [this, hpb]
    rcases Nat.mod_two_eq_zero_or_one n with hpar | hpar
    · have hev : Even n := Nat.even_iff.mpr hpar
      simp [flipSign, LogRule._flip_fd_rule, LogRule._even_derivative, fd_c_0, hn, hpar, pow_succ, hev.neg_one_pow]; ring
    · have hod : Odd n := Nat.odd_iff.mpr hpar
      simp [flipSign, LogRule._flip_fd_rule, LogRule._even_derivative, fd_c_0, hn, hpar, pow_succ, hod.neg_one_pow]; ring

end real

/-! ### the later stages return the common value of their candidates -/
section stages
variable {K : Type} [Field K]

/-- Richardson maps a constant sequence to the same constant (the weights sum to one) -/
theorem richCall_const (ρ : K) (step order numTerms : ℕ) (V : K) (seq : List K)
    (hd : (richNodes ρ step order (richTerms numTerms seq.length)).Nodup) (hseq : ∀ y ∈ seq, y = V) :
    ∀ y ∈ richCall ρ step order numTerms seq, y = V := by
  refine richardson_annihilates ρ step order numTerms V 0 (fun _ => 0) seq hd ?_
  intro s hs
  rw [List.getElem?_eq_getElem hs]
  simp [hseq _ (List.getElem_mem hs)]

end stages

section ordered
variable {K : Type} [Field K] [LinearOrder K] [IsStrictOrderedRing K]

/-- the Wynn stage maps a constant table to the same constant -/
theorem wynnTable_const (dc : Consts K) (hE : 0 ≤ dc.eps) (nrows ncols : ℕ) (V : K) (der : List K)
    (hlen : der.length = nrows * ncols) (hder : ∀ y ∈ der, y = V) :
    ∀ y ∈ (wynnTable dc nrows ncols der).1, y = V := by
  intro y hy
  simp only [wynnTable, List.mem_map, List.mem_range] at hy
  obtain ⟨pr, ⟨i, hi, rfl⟩, rfl⟩ := hy
  have hbound : i + 2 * ncols < der.length := by
    rw [hlen]
    have h2 : 2 ≤ nrows := by
      by_contra hcon
      have : nrows - 2 = 0 := by omega
      rw [this, Nat.zero_mul] at hi; omega
    have : (nrows - 2) * ncols + 2 * ncols = nrows * ncols := by
      rw [← Nat.add_mul]; congr 1; omega
    omega
  have hget : ∀ j, j < der.length → der.getD j Num.zero = V := by
    intro j hj
    rw [List.getD_eq_getElem?_getD, List.getElem?_eq_getElem hj]
    exact hder _ (List.getElem_mem hj)
  rw [hget i (by omega), hget (i + ncols) (by omega), hget (i + 2 * ncols) hbound]
  exact dea3_constant dc hE V V

/-- the selection returns entries of its table: on a constant table, that constant -/
theorem bestEstimate_const (sc : SelConsts K) (nrows ncols : ℕ) (hn : 0 < nrows) (V : K) (der errs steps : List K)
    (hlen : der.length = nrows * ncols) (hder : ∀ y ∈ der, y = V) :
    ∀ y ∈ (bestEstimate sc nrows ncols der errs steps).value, y = V := by
  intro y hy
  rw [List.mem_iff_getElem] at hy
  obtain ⟨col, hcol, rfl⟩ := hy
  have hcol' : col < ncols := by simpa [bestEstimate] using hcol
  obtain ⟨_, h2, _, _⟩ := bestEstimate_columnwise sc nrows ncols der errs steps col hcol'
  have hr := (chosenRow_valid sc nrows ncols der errs col hn).1
  have hidx : chosenRow sc nrows ncols der errs col * ncols + col < der.length := by
    rw [hlen]
    calc chosenRow sc nrows ncols der errs col * ncols + col
        < chosenRow sc nrows ncols der errs col * ncols + ncols := by omega
      _ = (chosenRow sc nrows ncols der errs col + 1) * ncols := by ring
      _ ≤ nrows * ncols := Nat.mul_le_mul_right _ hr
  have : (bestEstimate sc nrows ncols der errs steps).value[col] = (bestEstimate sc nrows ncols der errs steps).value.getD col 0 := by
    rw [List.getD_eq_getElem?_getD, List.getElem?_eq_getElem hcol]; rfl
  rw [this, h2, List.getD_eq_getElem?_getD, List.getElem?_eq_getElem hidx]
  exact hder _ (List.getElem_mem hidx)

/-- **the stages after Richardson return the common value of their candidates** -/
theorem tailStage_const (dc : Consts K) (hE : 0 ≤ dc.eps) (sc : SelConsts K) (nrows ncols : ℕ) (hn : 0 < nrows) (V : K)
    (der errs steps : List K) (hlen : der.length = nrows * ncols) (hder : ∀ y ∈ der, y = V) :
    ∀ y ∈ (tailStage dc sc nrows ncols der errs steps).value, y = V := by
  unfold tailStage
  split_ifs with h2
  · apply bestEstimate_const sc (nrows - 2) ncols (by omega) V
    · simp [wynnTable]
    · exact wynnTable_const dc hE nrows ncols V der hlen hder
  · exact bestEstimate_const sc nrows ncols hn V der errs steps hlen hder

/-- **C01, exact-arithmetic core.**  `Derivative(f, n, method, order)(x)` for `method ∈ {central, forward,
backward}`, any `n ≥ 1`, `order ≥ 1`, any real ratio `ρ > 1`, any non-zero base step, any number `N` of generated
steps and any number of Richardson terms: if `f` is a polynomial of degree `< n + method_order`, the value the
pipeline returns is `f^(n)(x) = n! a_n` — every candidate of every stage equals it, so the selection cannot
pick anything else. -/
theorem derivative_exact_on_polynomials (dc : Consts K) (hE : 0 ≤ dc.eps) (sc : SelConsts K)
    (ρ : K) (hρ : 1 < ρ) (m : Method) (hm : m = .central ∨ m = .forward ∨ m = .backward)
    (n order : ℕ) (hn : 1 ≤ n) (ho : 1 ≤ order) (richardsonTerms : ℕ)
    (a : ℕ → K) (x h0 : K) (hh : h0 ≠ 0) (N : ℕ) :
    let r : LogRule := ⟨n, m, order⟩
    let f := polyAt a (n + r.method_order) x
    let steps := (List.range N).map (fun s => h0 * (1 / ρ) ^ s)
    ∃ d, diffName r = some d ∧
      let derInit := fdApply ρ r (steps.map (fun h => realQuotient d f (f x) x h)) steps
      let rich := richCall ρ r.richardson_step r.method_order richardsonTerms derInit
      ∀ errs stepTable, 0 < rich.length →
        ∀ y ∈ (tailStage dc sc rich.length 1 rich errs stepTable).value, y = (n.factorial : K) * a n := by
  intro r f steps
  have hm4 : m = .central ∨ m = .forward ∨ m = .backward ∨ m = .complex := by
    rcases hm with h | h | h <;> simp [h]
  obtain ⟨hpok, _, _, _, _, hmo1, _, _⟩ := rule_tables_consistent m hm4 n order hn ho
  have hρ0 : ρ ≠ 0 := by positivity
  have hd := fdNodes_nodup_real ρ hρ (r._parity m (n - 1) r.method_order) r.num_terms hpok
  obtain ⟨d, hdn, hcand⟩ := real_step_candidates_exact ρ hρ0 m hm n order hn ho hd a x h0 hh N
  refine ⟨d, hdn, ?_⟩
  intro derInit rich errs stepTable hpos y hy
  have hstep1 : 1 ≤ r.richardson_step := by
    rcases hm with rfl | rfl | rfl <;> simp [r, LogRule.richardson_step]
  have hnodes := richNodes_nodup_real ρ hρ r.richardson_step r.method_order
    (richTerms richardsonTerms derInit.length) hmo1 hstep1
  have hrich : ∀ y ∈ rich, y = (n.factorial : K) * a n :=
    richCall_const ρ _ _ richardsonTerms _ derInit hnodes hcand
  exact tailStage_const dc hE sc rich.length 1 hpos _ rich errs stepTable (by simp) hrich y hy

/-- **`n = 0` returns `f(x)` itself**: `_derivative_zero_order` hands `[f(x)]` with a zero step to a Richardson
rule with no terms, and the selection over that single row returns it. -/
theorem zero_order_is_f (dc : Consts K) (hE : 0 ≤ dc.eps) (sc : SelConsts K) (ρ : K) (step order : ℕ) (fx : K)
    (errs stepTable : List K) :
    richCall ρ step order 0 [fx] = [fx] ∧
      ∀ y ∈ (tailStage dc sc 1 1 (richCall ρ step order 0 [fx]) errs stepTable).value, y = fx := by
  have h1 : richCall ρ step order 0 [fx] = [fx] := by
    simp [richCall, richRule, richTerms, correlate, wsum]
  refine ⟨h1, ?_⟩
  rw [h1]
  exact tailStage_const dc hE sc 1 1 (by norm_num) fx [fx] errs stepTable (by simp) (by simp)

end ordered
end Ndt
