import Ndt.Props.C03
import Ndt.Props.C01Multi
/-!
# C03, complex-step methods: affine maps and directional derivatives
-/
namespace Ndt
open Ndt.Gen Complex

/-- **affine maps are differentiated exactly by the complex-step Jacobian**: entry `(i, j)` is the `method='complex'`, `n = 1`
pipeline on the line function `t ↦ (A x + b)_i + A_ij t` (evaluated at complex `t`), for every order — the analogue of
`jacobian_affine_exact` -/
theorem jacobian_affine_exact_complex (ζ : ℂ) (hζ : ζ * ζ = I) (dc : Consts ℝ) (hE : 0 ≤ dc.eps) (sc : SelConsts ℝ)
    (ρ : ℝ) (hρ : 1 < ρ) (order : ℕ) (ho : 1 ≤ order) (richardsonTerms : ℕ) (fxi Aij h0 : ℝ) (hh : h0 ≠ 0) (N : ℕ) :
    let r : LogRule := ⟨1, .complex, order⟩
    let a : ℕ → ℝ := fun k => if k = 0 then fxi else if k = 1 then Aij else 0
    let f := polyAtC a (1 + r.method_order) 0
    let steps := (List.range N).map (fun s => h0 * (1 / ρ) ^ s)
    ∃ d, diffName r = some d ∧
      let derInit := fdApply ρ r (steps.map (fun h => complexQuotient ζ d f (a 0) 0 h)) steps
      let rich := richCall ρ r.richardson_step r.method_order richardsonTerms derInit
      ∀ errs stepTable, 0 < rich.length →
        ∀ y ∈ (tailStage dc sc rich.length 1 rich errs stepTable).value, y = Aij := by
  intro r a f steps
  obtain ⟨d, hd, hex⟩ := derivative_exact_on_polynomials_complex ζ hζ dc hE sc ρ hρ 1 order le_rfl ho richardsonTerms a 0 h0 hh N
  refine ⟨d, hd, ?_⟩
  intro derInit rich errs stepTable hpos y hy
  have := hex errs stepTable hpos y hy
  simpa [a] using this

/-- **`directionaldiff(f, x, v)` is `∇f(x) · v/|v|` when f is affine (or quadratic, for order ≥ 2) along the line**: the function
differentiates `t ↦ f(x + t v/|v|)` at `t = 0` with the scalar pipeline; if that line function is the polynomial
`a₀ + a₁ t + … ` of degree below `1 + method_order`, the result is `a₁` — the directional derivative — for central, forward and
backward steps, every order and ratio. -/
theorem directionaldiff_exact {K : Type} [Field K] [LinearOrder K] [IsStrictOrderedRing K]
    (dc : Consts K) (hE : 0 ≤ dc.eps) (sc : SelConsts K) (ρ : K) (hρ : 1 < ρ) (m : Method)
    (hm : m = .central ∨ m = .forward ∨ m = .backward) (order : ℕ) (ho : 1 ≤ order) (richardsonTerms : ℕ)
    (a : ℕ → K) (h0 : K) (hh : h0 ≠ 0) (N : ℕ) :
    let r : LogRule := ⟨1, m, order⟩
    let line := polyAt a (1 + r.method_order) 0
    let steps := (List.range N).map (fun s => h0 * (1 / ρ) ^ s)
    ∃ d, diffName r = some d ∧
      let derInit := fdApply ρ r (steps.map (fun h => realQuotient d line (line 0) 0 h)) steps
      let rich := richCall ρ r.richardson_step r.method_order richardsonTerms derInit
      ∀ errs stepTable, 0 < rich.length →
        ∀ y ∈ (tailStage dc sc rich.length 1 rich errs stepTable).value, y = a 1 := by
  intro r line steps
  obtain ⟨d, hd, hex⟩ := derivative_exact_on_polynomials dc hE sc ρ hρ m hm 1 order le_rfl ho richardsonTerms a 0 h0 hh N
  refine ⟨d, hd, ?_⟩
  intro derInit rich errs stepTable hpos y hy
  have := hex errs stepTable hpos y hy
  simpa using this

end Ndt
