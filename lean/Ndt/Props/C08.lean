import Ndt.Model.Select
import Ndt.Proofs.Select
import Ndt.Proofs.SelectNan
/-!
# C08 — Array inputs are handled elementwise and keep their shape

The selection stage works on flat row-major tables and addresses them with
`row * ncols + col` (`ravel_multi_index`, `.flat[idx]`).  The theorems show that this bookkeeping
never mixes columns: the output for element `col` is a function of column `col` alone.
-/
namespace Ndt
variable {K : Type} [Field K] [LinearOrder K] [IsStrictOrderedRing K]

/-- `(ravel M)[r · ncols + c] = M[r][c]` for a matrix given as a list of rows of length `ncols` -/
theorem flat_gather (rows : List (List K)) (ncols : ℕ) (hrows : ∀ row ∈ rows, row.length = ncols)
    (r c : ℕ) (hc : c < ncols) :
    rows.flatten.getD (r * ncols + c) 0 = (rows.getD r []).getD c 0 := by
  induction rows generalizing r with
  | nil => simp
  | cons row rest ih =>
    have hlen : row.length = ncols := hrows row (List.mem_cons_self ..)
    cases r with
    | zero =>
      simp only [List.flatten_cons, Nat.zero_mul, Nat.zero_add, List.getD_cons_zero]
      rw [List.getD_eq_getElem?_getD, List.getElem?_append_left (by omega), ← List.getD_eq_getElem?_getD]
    | succ r =>
      simp only [List.flatten_cons, List.getD_cons_succ]
      rw [List.getD_eq_getElem?_getD, List.getElem?_append_right (by rw [hlen]; nlinarith [Nat.succ_mul r ncols])]
      have : (r + 1) * ncols + c - row.length = r * ncols + c := by
        rw [hlen, Nat.succ_mul]; omega
      rw [this, ← List.getD_eq_getElem?_getD]
      exact ih (fun row' h' => hrows row' (List.mem_cons_of_mem _ h')) r

/-- a column of a table, viewed as a one-column table, is itself -/
theorem column_of_column (X : List K) (nrows ncols col : ℕ) :
    column (column X nrows ncols col) nrows 1 0 = column X nrows ncols col := by
  unfold column
  apply List.map_congr_left
  intro r hr
  have hr' : r < nrows := List.mem_range.mp hr
  simp [List.getD_eq_getElem?_getD, List.getElem?_map, List.getElem?_range hr']

theorem bestEstimate_lengths (sc : SelConsts K) (nrows ncols : ℕ) (der errs steps : List K) :
    (bestEstimate sc nrows ncols der errs steps).value.length = ncols ∧
    (bestEstimate sc nrows ncols der errs steps).err.length = ncols ∧
    (bestEstimate sc nrows ncols der errs steps).step.length = ncols ∧
    (bestEstimate sc nrows ncols der errs steps).index.length = ncols := by
  simp [bestEstimate]

/-- the row chosen for column `col` -/
noncomputable def chosenRow (sc : SelConsts K) (nrows ncols : ℕ) (der errs : List K) (col : ℕ) : ℕ :=
  argMinRow (List.zipWith (· + ·) (column errs nrows ncols col) (outlierErrors sc (column der nrows ncols col)))

/-- **The selection is column-wise**: value, error, final step and chosen row of element `col` are read at
one and the same row of column `col`, and that row is determined by column `col` of `der` and `errs`
alone.  In particular it equals what the same routine returns for the one-column table made of column
`col` — evaluating the element alone gives the same result — and altering other elements cannot change it. -/
theorem bestEstimate_columnwise (sc : SelConsts K) (nrows ncols : ℕ) (der errs steps : List K) (col : ℕ)
    (hcol : col < ncols) :
    let b := bestEstimate sc nrows ncols der errs steps
    let r := chosenRow sc nrows ncols der errs col
    b.index.getD col 0 = r * ncols + col ∧
    b.value.getD col 0 = der.getD (r * ncols + col) 0 ∧
    b.step.getD col 0 = steps.getD (r * ncols + col) 0 ∧
    b.err.getD col 0 = (List.zipWith (· + ·) (column errs nrows ncols col)
        (outlierErrors sc (column der nrows ncols col))).getD r 0 := by
  simp only [bestEstimate, chosenRow, List.getD_eq_getElem?_getD, List.getElem?_map, List.getElem?_range hcol,
    Option.map_some, Option.getD_some, num_zero]
  exact ⟨trivial, trivial, trivial, trivial⟩

/-- evaluating the element alone (the one-column table of column `col`) chooses the same row -/
theorem chosenRow_single (sc : SelConsts K) (nrows ncols : ℕ) (der errs : List K) (col : ℕ) :
    chosenRow sc nrows 1 (column der nrows ncols col) (column errs nrows ncols col) 0
      = chosenRow sc nrows ncols der errs col := by
  unfold chosenRow
  rw [column_of_column, column_of_column]

/-- two tables that agree on column `col` give the same result for element `col` -/
theorem bestEstimate_depends_on_column (sc : SelConsts K) (nrows ncols : ℕ)
    (der errs steps der' errs' steps' : List K) (col : ℕ) (hcol : col < ncols)
    (hd : column der nrows ncols col = column der' nrows ncols col)
    (he : column errs nrows ncols col = column errs' nrows ncols col)
    (hs : column steps nrows ncols col = column steps' nrows ncols col)
    (hr : chosenRow sc nrows ncols der errs col < nrows) :
    (bestEstimate sc nrows ncols der errs steps).value.getD col 0
        = (bestEstimate sc nrows ncols der' errs' steps').value.getD col 0 ∧
    (bestEstimate sc nrows ncols der errs steps).step.getD col 0
        = (bestEstimate sc nrows ncols der' errs' steps').step.getD col 0 ∧
    (bestEstimate sc nrows ncols der errs steps).err.getD col 0
        = (bestEstimate sc nrows ncols der' errs' steps').err.getD col 0 := by
  have hrow : chosenRow sc nrows ncols der errs col = chosenRow sc nrows ncols der' errs' col := by
    unfold chosenRow; rw [hd, he]
  obtain ⟨_, h2, h3, h4⟩ := bestEstimate_columnwise sc nrows ncols der errs steps col hcol
  obtain ⟨_, h2', h3', h4'⟩ := bestEstimate_columnwise sc nrows ncols der' errs' steps' col hcol
  -- an entry of a table at (row, col) is an entry of its column
  have hentry : ∀ (X : List K) (r : ℕ), r < nrows → X.getD (r * ncols + col) 0 = (column X nrows ncols col).getD r 0 := by
    intro X r hr
    simp [column, List.getD_eq_getElem?_getD, List.getElem?_map, List.getElem?_range hr]
  refine ⟨?_, ?_, ?_⟩
  · rw [h2, h2', hentry der _ hr, hentry der' _ (hrow ▸ hr), hd, hrow]
  · rw [h3, h3', hentry steps _ hr, hentry steps' _ (hrow ▸ hr), hs, hrow]
  · rw [h4, h4', hd, he, hrow]

/-- the chosen row is a row of the table, and its penalised error is minimal in its column -/
theorem chosenRow_valid (sc : SelConsts K) (nrows ncols : ℕ) (der errs : List K) (col : ℕ) (hn : 0 < nrows) :
    chosenRow sc nrows ncols der errs col < nrows ∧
    ∀ x ∈ List.zipWith (· + ·) (column errs nrows ncols col) (outlierErrors sc (column der nrows ncols col)),
      (List.zipWith (· + ·) (column errs nrows ncols col) (outlierErrors sc (column der nrows ncols col))).getD
        (chosenRow sc nrows ncols der errs col) 0 ≤ x := by
  set tot := List.zipWith (· + ·) (column errs nrows ncols col) (outlierErrors sc (column der nrows ncols col)) with htot
  have hlen : tot.length = nrows := by
    simp [htot, outlierErrors_length, column]
  have hne : tot ≠ [] := by
    intro h; rw [h] at hlen; simp at hlen; omega
  obtain ⟨m, ties, _, hmin, _, _, _, hlt, hget⟩ := argMinRow_spec tot hne
  unfold chosenRow
  rw [← htot]
  exact ⟨hlen ▸ hlt, fun x hx => hget ▸ hmin x hx⟩

/-- the Wynn stage never mixes columns either: cell `i` of its output is `dea3` of cells `i`, `i + ncols`,
`i + 2 ncols`, which lie in the same column -/
theorem wynnTable_cell (dc : Consts K) (nrows ncols : ℕ) (der : List K) (i : ℕ) (hi : i < (nrows - 2) * ncols) :
    (wynnTable dc nrows ncols der).1.getD i 0 = (dea3 dc (der.getD i 0) (der.getD (i + ncols) 0) (der.getD (i + 2 * ncols) 0)).1 ∧
    (wynnTable dc nrows ncols der).2.getD i 0 = (dea3 dc (der.getD i 0) (der.getD (i + ncols) 0) (der.getD (i + 2 * ncols) 0)).2 ∧
    (i + ncols) % ncols = i % ncols ∧ (i + 2 * ncols) % ncols = i % ncols := by
  refine ⟨?_, ?_, by simp, by simp⟩ <;>
    simp [wynnTable, List.getD_eq_getElem?_getD, List.getElem?_map, List.getElem?_range hi]

/-- extra positional and keyword arguments: the callable handed to the difference functions is
`x ↦ fun(x, *args, **kwds)` on every evaluation (`Derivative._get_functions`) -/
def exportFun {X A V : Type} (f : X → A → V) (args : A) : X → V := fun x => f x args

theorem args_forwarded {X A V : Type} (f : X → A → V) (args : A) (x : X) : exportFun f args x = f x args := rfl

end Ndt
