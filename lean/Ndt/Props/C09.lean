import Ndt.Model.History
import Mathlib.Tactic.SplitIfs
import Mathlib.Data.Nat.Notation
/-!
# C09 — Results depend only on (function, point, configuration), not on history
-/
namespace Ndt
open Ndt.Gen
variable {V O X S R : Type}

/-! ### the cache -/
theorem Cache.get?_mem (c : Cache V) (k : RuleKey) (v : V) (h : c.get? k = some v) : (k, v) ∈ c := by
  unfold Cache.get? at h
  cases hf : c.find? (fun e => e.1 == k) with
  | none => rw [hf] at h; simp at h
  | some e =>
    rw [hf] at h
    simp only [Option.map_some, Option.some.injEq] at h
    have hm := List.mem_of_find?_eq_some hf
    have hp := List.find?_some hf
    have hk : e.1 = k := by simpa using hp
    have : e = (k, v) := by cases e; simp_all
    rw [← this]; exact hm

/-- **cache invariant**: a lookup-or-compute returns `compute key` and leaves a correct cache, whatever correct
entries the cache held before (stale entries are impossible: every write stores `compute key`) -/
theorem lookupOrCompute_correct (compute : RuleKey → V) (c : Cache V) (k : RuleKey) (hinv : Cache.Inv compute c) :
    (c.lookupOrCompute compute k).2 = compute k ∧ Cache.Inv compute (c.lookupOrCompute compute k).1 := by
  unfold Cache.lookupOrCompute
  cases h : c.get? k with
  | none =>
    refine ⟨rfl, ?_⟩
    intro e he
    rcases List.mem_cons.mp he with rfl | he
    · rfl
    · exact hinv e he
  | some v =>
    exact ⟨hinv (k, v) (Cache.get?_mem c k v h), hinv⟩

theorem inv_nil (compute : RuleKey → V) : Cache.Inv compute ([] : Cache V) := by intro e he; cases he

/-- any number of writes by *other* threads (each of the form `(k', compute k')`) keeps the invariant -/
theorem inv_foreign_puts (compute : RuleKey → V) (c : Cache V) (hinv : Cache.Inv compute c) (ks : List RuleKey) :
    Cache.Inv compute (ks.foldl (fun acc k => (k, compute k) :: acc) c) := by
  induction ks generalizing c with
  | nil => exact hinv
  | cons k ks ih =>
    apply ih
    intro e he
    rcases List.mem_cons.mp he with rfl | he
    · rfl
    · exact hinv e he

/-- **concurrent use**: a thread that reads the cache at one moment and (on a miss) writes at a later moment, with
arbitrary writes of other threads before, between and after, still obtains `compute key` and leaves a correct cache -/
theorem interleaved_lookup_correct (compute : RuleKey → V) (c : Cache V) (hinv : Cache.Inv compute c) (k : RuleKey)
    (before between : List RuleKey) :
    let c1 := before.foldl (fun acc k => (k, compute k) :: acc) c            -- others ran
    let got := match Cache.get? c1 k with | some v => v | none => compute k          -- cacheGet (+ compute on a miss)
    let c2 := between.foldl (fun acc k => (k, compute k) :: acc) c1           -- others ran again
    let c3 := match Cache.get? c1 k with | some _ => c2 | none => (k, compute k) :: c2   -- cachePut on a miss
    got = compute k ∧ Cache.Inv compute c3 := by
  intro c1 got c2 c3
  have h1 : Cache.Inv compute c1 := inv_foreign_puts compute c hinv before
  have h2 : Cache.Inv compute c2 := inv_foreign_puts compute c1 h1 between
  cases h : Cache.get? c1 k with
  | none =>
    simp only [got, c3, h]
    refine ⟨trivial, ?_⟩
    intro e he
    rcases List.mem_cons.mp he with rfl | he
    · rfl
    · exact h2 e he
  | some v =>
    simp only [got, c3, h]
    exact ⟨h1 (k, v) (Cache.get?_mem c1 k v h), h2⟩

/-! ### a call -/

/-- **a call returns the pure function of (configuration, generator options, point)**, whatever the cache holds (if
correct) and whatever state earlier calls left in the generator; it keeps the cache correct and does not touch any
configuration -/
theorem call_is_pure (p : Pipeline V O X S R) (w : World V O X) (hinv : Cache.Inv p.compute w.cache)
    (i : ℕ) (x : X) (cfg : ObjCfg) (g : ℕ) (opts : O) (old : GenSt X)
    (hobj : w.objs[i]? = some (cfg, g)) (hgen : w.gens[g]? = some (opts, old)) :
    ∃ w', w.call p i x = some (w', pureCall p cfg opts x) ∧ Cache.Inv p.compute w'.cache ∧ w'.objs = w.objs ∧
      w'.gens = w.gens.set g (opts, stateOf cfg x) := by
  unfold World.call pureCall
  simp only [hobj, hgen]
  cases hk : keyOf cfg (p.ratioOf opts (stateOf cfg x)) with
  | none =>
    exact ⟨{ w with gens := w.gens.set g (opts, stateOf cfg x) }, rfl, hinv, rfl, rfl⟩
  | some k =>
    obtain ⟨hv, hc⟩ := lookupOrCompute_correct p.compute w.cache k hinv
    simp only [Option.map_some]
    refine ⟨{ w with gens := w.gens.set g (opts, stateOf cfg x), cache := (w.cache.lookupOrCompute p.compute k).1 }, ?_, hc, rfl, rfl⟩
    rw [← hv]

/-- every operation preserves the cache invariant -/
theorem step_inv (p : Pipeline V O X S R) (w : World V O X) (hinv : Cache.Inv p.compute w.cache) (op : Op O X) :
    Cache.Inv p.compute (w.step p op).1.cache := by
  cases op with
  | call i x =>
    simp only [World.step]
    cases hc : w.call p i x with
    | none => exact hinv
    | some wr =>
      obtain ⟨w', r⟩ := wr
      simp only
      cases ho : w.objs[i]? with
      | none => simp [World.call, ho] at hc
      | some cg =>
        obtain ⟨cfg, g⟩ := cg
        cases hg : w.gens[g]? with
        | none => simp [World.call, ho, hg] at hc
        | some og =>
          obtain ⟨opts, old⟩ := og
          obtain ⟨w'', hcall, hinv', _, _⟩ := call_is_pure p w hinv i x cfg g opts old ho hg
          rw [hcall] at hc
          cases hc
          exact hinv'
  | clearCache => simp only [World.step]; exact inv_nil _
  | construct cfg opts x0 => simp only [World.step]; exact hinv
  | setN i n => simp only [World.step]; exact hinv
  | setOrder i o => simp only [World.step]; exact hinv
  | setMethod i m => simp only [World.step]; exact hinv
  | shareGen i j =>
    simp only [World.step]
    cases w.objs[j]? <;> exact hinv

/-- the invariant holds in every reachable state -/
theorem reachable_inv (p : Pipeline V O X S R) (ops : List (Op O X)) :
    Cache.Inv p.compute (ops.foldl (fun w op => (w.step p op).1) (⟨[], [], []⟩ : World V O X)).cache := by
  suffices h : ∀ (w : World V O X), Cache.Inv p.compute w.cache →
      Cache.Inv p.compute (ops.foldl (fun w op => (w.step p op).1) w).cache from h _ (inv_nil _)
  induction ops with
  | nil => intro w h; exact h
  | cons op ops ih => intro w h; exact ih _ (step_inv p w h op)

/-- **history independence**: after *any* finite sequence of operations (constructions, calls at other points, changes
of n / order / method, sharing of generators, clearing or warming of the cache), a call on an object returns
`pureCall` of the object's *current* configuration, its generator's constructor options and the point. -/
theorem history_independent (p : Pipeline V O X S R) (ops : List (Op O X)) (i : ℕ) (x : X) :
    let w := ops.foldl (fun w op => (w.step p op).1) (⟨[], [], []⟩ : World V O X)
    ∀ cfg g opts old, w.objs[i]? = some (cfg, g) → w.gens[g]? = some (opts, old) →
      (w.step p (.call i x)).2 = some (pureCall p cfg opts x) := by
  intro w cfg g opts old ho hg
  obtain ⟨w', hcall, _, _, _⟩ := call_is_pure p w (reachable_inv p ops) i x cfg g opts old ho hg
  simp [World.step, hcall]

/-- changing `n`, `order` or the method and restoring it leaves the configuration unchanged -/
theorem set_restore_identity (l : List (ObjCfg × ℕ)) (i : ℕ) (o : ObjCfg × ℕ) (h : l[i]? = some o) (n' : ℕ) :
    updObj (updObj l i (fun o => ({ o.1 with n := n' }, o.2))) i (fun o' => ({ o'.1 with n := o.1.n }, o'.2)) = l := by
  have hi : i < l.length := by
    rcases Nat.lt_or_ge i l.length with hlt | hge
    · exact hlt
    · rw [List.getElem?_eq_none hge] at h; cases h
  have hget : l[i] = o := by
    rw [List.getElem?_eq_getElem hi] at h; exact Option.some.inj h
  unfold updObj
  simp only [h]
  rw [List.getElem?_set_self (by simpa using hi)]
  simp only [List.set_set]
  have : (({ ({ o.1 with n := n' } : ObjCfg) with n := o.1.n } : ObjCfg), o.2) = o := by cases o; rfl
  rw [this, ← hget]
  exact List.set_getElem_self hi

end Ndt
