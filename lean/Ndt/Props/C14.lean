import Ndt.Model.Dea
import Ndt.Proofs.FieldNum
import Ndt.Proofs.DeaTotal
import Mathlib.Tactic.Ring
import Mathlib.Tactic.FieldSimp
import Mathlib.Tactic.Linarith
/-!
# C14 — Streaming epsilon algorithms: EpsAlg matches the Shanks table; Dea is total
-/
namespace Ndt
variable {K : Type} [Field K] [LinearOrder K] [IsStrictOrderedRing K]

/-! ## EpsAlg -/

/-- Wynn's table with a shifted first index: `wynn s k j = ε_{k-1}^{(j)}`
(`ε_{-1} = 0`, `ε_0^{(j)} = s_j`, `ε_{r+1}^{(j)} = ε_{r-1}^{(j+1)} + 1/(ε_r^{(j+1)} - ε_r^{(j)})`). -/
def wynn (s : ℕ → K) : ℕ → ℕ → K
  | 0, _ => 0
  | 1, j => s j
  | k + 2, j => wynn s k (j + 1) + 1 / (wynn s (k + 1) (j + 1) - wynn s (k + 1) j)

/-- the anti-diagonal held after n terms: position i holds `ε_{n-1-i}^{(i)}` -/
def diag (s : ℕ → K) (n : ℕ) : List K := (List.range n).map (fun i => wynn s (n - i) i)

/-- no table difference is caught by the `|delta| <= 1e-60` guard -/
def NoGuard (g : K) (s : ℕ → K) : Prop := ∀ k j, g < |wynn s (k + 1) (j + 1) - wynn s (k + 1) j|

theorem sweepAux_diag (g big : K) (s : ℕ → K) (hg : NoGuard g s) (n : ℕ) :
    ∀ i, i ≤ n →
      sweepAux g big ((List.range i).reverse.map (fun t => wynn s (n - t) t))
          (wynn s (n + 1 - i) i) (wynn s (n - i) i)
        = (List.range i).reverse.map (fun t => wynn s (n + 1 - t) t) := by
  intro i
  induction i with
  | zero => intro _; simp [sweepAux]
  | succ i ih =>
    intro hi
    have hi' : i ≤ n := by omega
    simp only [List.range_succ, List.reverse_append, List.reverse_cons, List.reverse_nil, List.nil_append,
      List.singleton_append, List.map_cons, sweepAux]
    have hk : n - i = (n - (i + 1)) + 1 := by omega
    have hk2 : n + 1 - i = (n - (i + 1)) + 2 := by omega
    have hk1 : n + 1 - (i + 1) = (n - (i + 1)) + 1 := by omega
    have hcell : epsUpd g big (wynn s (n - (i + 1)) (i + 1)) (wynn s (n + 1 - (i + 1)) (i + 1)) (wynn s (n - i) i)
        = wynn s (n + 1 - i) i := by
      rw [hk, hk2, hk1]
      unfold epsUpd
      simp only [num_abs, num_one]
      rw [if_neg (not_le.mpr (hg _ _))]
      rfl
    rw [hcell]
    congr 1
    exact ih hi'

/-- **One call of EpsAlg is one new anti-diagonal of Wynn's table**: feeding term `s n` to the table
of the first `n` terms yields the table of `n + 1` terms (as long as no difference vanishes). -/
theorem epsStep_diag (g big : K) (s : ℕ → K) (hg : NoGuard g s) (n : ℕ) :
    epsStep g big (diag s n) (s n) = diag s (n + 1) := by
  unfold epsStep diag
  have h := sweepAux_diag g big s hg n n le_rfl
  have e1 : wynn s (n + 1 - n) n = s n := by
    rw [show n + 1 - n = 1 by omega]; rfl
  have e0 : wynn s (n - n) n = 0 := by
    rw [Nat.sub_self]; rfl
  rw [e1, e0] at h
  rw [← List.map_reverse, num_zero, h, List.range_succ, List.map_append, List.map_cons, List.map_nil, e1]
  simp [List.map_reverse]

/-- the table after feeding `s 0 … s (n-1)` one at a time to an empty `EpsAlg` -/
noncomputable def epsRun (g big : K) (s : ℕ → K) : ℕ → List K
  | 0 => []
  | n + 1 => epsStep g big (epsRun g big s n) (s n)

theorem epsRun_diag (g big : K) (s : ℕ → K) (hg : NoGuard g s) (n : ℕ) :
    epsRun g big s n = diag s n := by
  induction n with
  | zero => simp [epsRun, diag]
  | succ n ih => rw [epsRun, ih, epsStep_diag g big s hg n]

/-- **The returned value is the entry of highest even order**: after the `(n+1)`-th term
(`n` terms were in the table), `EpsAlg` returns `ε_{n - n%2}^{(n%2)}`. -/
theorem epsalg_returns_even_order (g big : K) (s : ℕ → K) (hg : NoGuard g s) (n : ℕ) :
    epsEstimate (epsRun g big s (n + 1)) n = wynn s (n + 1 - n % 2) (n % 2) := by
  rw [epsRun_diag g big s hg]
  unfold epsEstimate diag
  have h : n % 2 < n + 1 := by omega
  simp [List.getD_eq_getElem?_getD, List.getElem?_map, List.getElem?_range h]

omit [LinearOrder K] [IsStrictOrderedRing K] in
/-- **One geometric transient is recovered from three terms**: `ε_2^{(0)} = L` for `s_k = L + a q^k`,
and none of the three divisions involved divides by zero. -/
theorem epsalg_one_transient (L a q : K) (ha : a ≠ 0) (hq0 : q ≠ 0) (hq1 : q ≠ 1) :
    wynn (fun k => L + a * q ^ k) 3 0 = L ∧
      (L + a * q ^ 1) - (L + a * q ^ 0) ≠ 0 ∧ (L + a * q ^ 2) - (L + a * q ^ 1) ≠ 0 ∧
      1 / ((L + a * q ^ 2) - (L + a * q ^ 1)) - 1 / ((L + a * q ^ 1) - (L + a * q ^ 0)) ≠ 0 := by
  have hq1' : q - 1 ≠ 0 := sub_ne_zero.mpr hq1
  have e1 : L + a * q ^ 1 - (L + a * q ^ 0) = a * (q - 1) := by ring
  have e2 : L + a * q ^ 2 - (L + a * q ^ 1) = a * q * (q - 1) := by ring
  refine ⟨?_, ?_, ?_, ?_⟩
  · simp only [wynn, zero_add]
    rw [e1, e2]
    field_simp
    ring
  · rw [e1]; exact mul_ne_zero ha hq1'
  · rw [e2]; exact mul_ne_zero (mul_ne_zero ha hq0) hq1'
  · rw [e1, e2]
    have : (1 : K) / (a * q * (q - 1)) - 1 / (a * (q - 1)) = -(1 / (a * q)) := by
      field_simp
      ring
    rw [this]
    exact neg_ne_zero.mpr (one_div_ne_zero (mul_ne_zero ha hq0))

/-! ## Dea -/

theorem pyMax_ge_right (a b : K) : b ≤ pyMax a b := by
  unfold pyMax; split_ifs with h
  · exact le_rfl
  · exact not_lt.mp h

theorem bind_ok {α β : Type} {x : PyM α} {f : α → PyM β} {v : β} (h : x.bind f = .ok v) :
    ∃ a, x = .ok a ∧ f a = .ok v := by
  cases x with
  | error e => simp [Except.bind] at h
  | ok a => exact ⟨a, rfl, h⟩

/-- **abserr floor of `_dea`**: every successful pass through `_dea` (i.e. every call made with at least
two earlier terms in the table) reports `abserr ≥ 5 eps |result|`, on every path. -/
theorem dea_abserr_floor (c : DeaConsts K) (st st' : DeaState K) (n : ℕ) (r e : K)
    (h : deaCore c st n = .ok (r, e, st')) : c.five * c.eps * |r| ≤ e := by
  unfold deaCore at h
  obtain ⟨s, _, h⟩ := bind_ok h
  obtain ⟨p, _, h⟩ := bind_ok h
  simp only [pure, Except.pure, Except.ok.injEq, Prod.mk.injEq] at h
  obtain ⟨rfl, rfl, _⟩ := h
  exact pyMax_ge_right _ _

/-- the first two calls: `abserr = |s|`, then `6 |s_1 - s_0|`; from then on `_dea` decides -/
theorem deaCall_first (c : DeaConsts K) (st : DeaState K) (sv : K) (h0 : st.n = 0)
    (hs : 0 < st.epstab.size) :
    ∃ st', deaCall c st sv = .ok (sv, |sv|, st') ∧ st'.n = 1 := by
  unfold deaCall aset
  simp [h0, hs, bind, Except.bind, pure, Except.pure]

/-- **abserr floor on every call**: with the floor kept on the table-restart path (the `n == 1`
branch of `__call__`), *every* successful call reports `abserr ≥ 5 eps |result|` — in particular from
the third term on, whatever resets happened in between. -/
theorem dea_abserr_floor_every_call (c : DeaConsts K) (h5 : c.five * c.eps ≤ 1) (st st' : DeaState K)
    (sv r e : K) (h : deaCall c st sv = .ok (r, e, st')) : c.five * c.eps * |r| ≤ e := by
  unfold deaCall at h
  obtain ⟨t, _, h⟩ := bind_ok h
  simp only at h
  split at h
  · simp only [pure, Except.pure, Except.ok.injEq, Prod.mk.injEq] at h
    obtain ⟨rfl, rfl, _⟩ := h
    simp only [num_abs]
    calc c.five * c.eps * |sv| ≤ 1 * |sv| := mul_le_mul_of_nonneg_right h5 (abs_nonneg _)
      _ = |sv| := one_mul _
  · split at h
    · obtain ⟨e0, _, h⟩ := bind_ok h
      simp only [pure, Except.pure, Except.ok.injEq, Prod.mk.injEq] at h
      obtain ⟨rfl, rfl, _⟩ := h
      exact pyMax_ge_right _ _
    · obtain ⟨p, hp, h⟩ := bind_ok h
      obtain ⟨r', e', st''⟩ := p
      simp only [pure, Except.pure, Except.ok.injEq, Prod.mk.injEq] at h
      obtain ⟨rfl, rfl, _⟩ := h
      exact dea_abserr_floor c _ _ _ _ _ hp

/-! ## Dea is total (proved in `Ndt/Proofs/DeaTotal.lean` for every carrier) -/

/-- the constructor accepts `limexp = 3` (and the invariant holds there): the hypotheses of `dea_total` are satisfiable -/
example : ∃ st : DeaState ℚ, deaInit 3 = some st ∧ DeaInv st :=
  ⟨_, rfl, deaInit_inv 3 _ rfl⟩

/-- **C14, totality**: restated for the record next to the other property theorems -/
theorem dea_never_fails {K : Type} [Num K] (c : DeaConsts K) (limexp : ℕ) (st0 : DeaState K)
    (h0 : deaInit limexp = some st0) (seq : List K) :
    ∃ outs stf, deaRun c st0 seq = .ok (outs, stf) ∧ outs.length = seq.length :=
  let ⟨o, s, h, hl, _⟩ := dea_total c limexp st0 h0 seq
  ⟨o, s, h, hl⟩

end Ndt
