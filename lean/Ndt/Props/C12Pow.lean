import Ndt.Gen.BicomplexRing
import Mathlib.Analysis.Complex.Basic
import Mathlib.Tactic.Ring
import Mathlib.Tactic.FieldSimp
import Mathlib.Tactic.LinearCombination
namespace Ndt
open Ndt.Gen Complex

/-- the idempotent components of the generic (driver) representation instantiated at ℂ -/
noncomputable def psi1 (z : Bc ℂ) : ℂ := z.z1 - I * z.z2
noncomputable def psi2 (z : Bc ℂ) : ℂ := z.z1 + I * z.z2

theorem psi1_mul (a b : Bc ℂ) : psi1 (a.mul b) = psi1 a * psi1 b := by
  simp only [psi1, Bc.mul]; linear_combination (-(a.z2 * b.z2)) * I_sq
theorem psi2_mul (a b : Bc ℂ) : psi2 (a.mul b) = psi2 a * psi2 b := by
  simp only [psi2, Bc.mul]; linear_combination (-(a.z2 * b.z2)) * I_sq

theorem psi_injective (a b : Bc ℂ) (h1 : psi1 a = psi1 b) (h2 : psi2 a = psi2 b) : a = b := by
  cases a with | mk a1 a2 => cases b with | mk b1 b2 =>
  simp only [psi1, psi2] at h1 h2
  have e1 : a1 = b1 := by linear_combination (1 / 2 : ℂ) * h1 + (1 / 2 : ℂ) * h2
  have e2 : a2 = b2 := by
    have : I * a2 = I * b2 := by linear_combination (1 / 2 : ℂ) * h2 - (1 / 2 : ℂ) * h1
    exact mul_left_cancel₀ I_ne_zero this
  rw [e1, e2]

/-- the loop of `_pow_integer` multiplies `out` by `base ^ n` (in each idempotent component), for every fuel above n -/
theorem psi1_powLoop : ∀ (fuel : ℕ) (out base : Bc ℂ) (n : ℕ), n < fuel →
    psi1 (Bc.powLoop fuel out base n) = psi1 out * psi1 base ^ n
  | 0, _, _, n, h => absurd h (Nat.not_lt_zero n)
  | fuel + 1, out, base, n, h => by
    unfold Bc.powLoop
    by_cases hn : n > 0
    · simp only [hn, if_true]
      have hlt : n / 2 < fuel := by omega
      rw [psi1_powLoop fuel _ _ _ hlt, psi1_mul]
      have hpow : psi1 base ^ n = (psi1 base * psi1 base) ^ (n / 2) * psi1 base ^ (n % 2) := by
        conv_lhs => rw [← Nat.div_add_mod n 2]
        rw [pow_add, pow_mul, pow_two]
      rw [hpow]
      by_cases hodd : n % 2 = 1
      · simp only [hodd, beq_self_eq_true, if_true, psi1_mul, pow_one]
        ring
      · have h0 : n % 2 = 0 := by omega
        simp only [h0, pow_zero, mul_one]
        rfl
    · have : n = 0 := by omega
      simp [this]
theorem psi2_powLoop : ∀ (fuel : ℕ) (out base : Bc ℂ) (n : ℕ), n < fuel →
    psi2 (Bc.powLoop fuel out base n) = psi2 out * psi2 base ^ n
  | 0, _, _, n, h => absurd h (Nat.not_lt_zero n)
  | fuel + 1, out, base, n, h => by
    unfold Bc.powLoop
    by_cases hn : n > 0
    · simp only [hn, if_true]
      have hlt : n / 2 < fuel := by omega
      rw [psi2_powLoop fuel _ _ _ hlt, psi2_mul]
      have hpow : psi2 base ^ n = (psi2 base * psi2 base) ^ (n / 2) * psi2 base ^ (n % 2) := by
        conv_lhs => rw [← Nat.div_add_mod n 2]
        rw [pow_add, pow_mul, pow_two]
      rw [hpow]
      by_cases hodd : n % 2 = 1
      · simp only [hodd, beq_self_eq_true, if_true, psi2_mul, pow_one]
        ring
      · have h0 : n % 2 = 0 := by omega
        simp only [h0, pow_zero, mul_one]
        rfl
    · have : n = 0 := by omega
      simp [this]

theorem psi_modsq (z : Bc ℂ) : z.z1 * z.z1 + z.z2 * z.z2 = psi1 z * psi2 z := by
  simp only [psi1, psi2]; linear_combination (z.z2 * z.z2) * I_sq

/-- `_inverse` is the inverse in each idempotent component (whenever `z1² + z2² ≠ 0`, i.e. z is no zero divisor) -/
theorem psi1_inverse (z : Bc ℂ) (h : z.z1 * z.z1 + z.z2 * z.z2 ≠ 0) : psi1 z.inverse = (psi1 z)⁻¹ := by
  have hm := psi_modsq z
  have h1 : psi1 z ≠ 0 := fun h0 => h (by rw [hm, h0, zero_mul])
  have h2 : psi2 z ≠ 0 := fun h0 => h (by rw [hm, h0, mul_zero])
  apply eq_inv_of_mul_eq_one_left
  simp only [Bc.inverse]
  rw [hm]
  simp only [psi1] at h1 ⊢
  simp only [psi2] at h2 ⊢
  field_simp
  ring

theorem psi2_inverse (z : Bc ℂ) (h : z.z1 * z.z1 + z.z2 * z.z2 ≠ 0) : psi2 z.inverse = (psi2 z)⁻¹ := by
  have hm := psi_modsq z
  have h1 : psi1 z ≠ 0 := fun h0 => h (by rw [hm, h0, zero_mul])
  have h2 : psi2 z ≠ 0 := fun h0 => h (by rw [hm, h0, mul_zero])
  apply eq_inv_of_mul_eq_one_left
  simp only [Bc.inverse]
  rw [hm]
  simp only [psi1] at h1 ⊢
  simp only [psi2] at h2 ⊢
  field_simp
  ring

/-- **`_pow_integer` is the holomorphic extension of `w ↦ w ^ n`**: in each idempotent component it is the n-th power, for
every integer n ≥ 0 and, away from the zero divisors, every negative n. -/
theorem psi1_pow_integer (z : Bc ℂ) (n : ℤ) (h : 0 ≤ n ∨ z.z1 * z.z1 + z.z2 * z.z2 ≠ 0) :
    psi1 (z.pow_integer n) = psi1 z ^ n := by
  unfold Bc.pow_integer
  simp only []
  rw [psi1_powLoop _ _ _ _ (Nat.lt_succ_self _)]
  have hone : psi1 (⟨1, 0⟩ : Bc ℂ) = 1 := by simp [psi1]
  rw [hone, one_mul]
  by_cases hn : n < 0
  · simp only [hn, if_true]
    have hz := h.resolve_left (by omega)
    rw [psi1_inverse z hz, inv_pow]
    have : n = -((n.natAbs : ℕ) : ℤ) := by omega
    conv_rhs => rw [this, zpow_neg, zpow_natCast]
  · simp only [hn, if_false]
    have : n = ((n.natAbs : ℕ) : ℤ) := by omega
    conv_rhs => rw [this, zpow_natCast]

theorem psi2_pow_integer (z : Bc ℂ) (n : ℤ) (h : 0 ≤ n ∨ z.z1 * z.z1 + z.z2 * z.z2 ≠ 0) :
    psi2 (z.pow_integer n) = psi2 z ^ n := by
  unfold Bc.pow_integer
  simp only []
  rw [psi2_powLoop _ _ _ _ (Nat.lt_succ_self _)]
  have hone : psi2 (⟨1, 0⟩ : Bc ℂ) = 1 := by simp [psi2]
  rw [hone, one_mul]
  by_cases hn : n < 0
  · simp only [hn, if_true]
    have hz := h.resolve_left (by omega)
    rw [psi2_inverse z hz, inv_pow]
    have : n = -((n.natAbs : ℕ) : ℤ) := by omega
    conv_rhs => rw [this, zpow_neg, zpow_natCast]
  · simp only [hn, if_false]
    have : n = ((n.natAbs : ℕ) : ℤ) := by omega
    conv_rhs => rw [this, zpow_natCast]

/-- for z2 = 0 integer powers reduce to the complex power -/
theorem pow_integer_reduces (a : ℂ) (n : ℤ) (h : 0 ≤ n ∨ a ≠ 0) :
    (⟨a, 0⟩ : Bc ℂ).pow_integer n = ⟨a ^ n, 0⟩ := by
  have hz : 0 ≤ n ∨ (⟨a, 0⟩ : Bc ℂ).z1 * (⟨a, 0⟩ : Bc ℂ).z1 + (⟨a, 0⟩ : Bc ℂ).z2 * (⟨a, 0⟩ : Bc ℂ).z2 ≠ 0 := by
    rcases h with h | h
    · exact Or.inl h
    · exact Or.inr (by simpa using h)
  apply psi_injective
  · rw [psi1_pow_integer _ _ hz]; simp [psi1]
  · rw [psi2_pow_integer _ _ hz]; simp [psi2]

/-- in particular `z ** 0 = 1` and `z ** 1 = z` -/
example (z : Bc ℂ) : psi1 (z.pow_integer 0) = 1 ∧ psi1 (z.pow_integer 1) = psi1 z := by
  constructor
  · rw [psi1_pow_integer z 0 (Or.inl le_rfl)]; simp
  · rw [psi1_pow_integer z 1 (Or.inl (by norm_num))]; simp
end Ndt
