import Ndt.Model.Limit
import Ndt.Props.C01
/-!
# C18 — Limit and Residue recover removable singularities and poles
-/
open Finset
namespace Ndt

section anyfield
variable {K : Type} [Field K]

/-- **Limit is exact on the terms it models**: if `f(z0 + h) = L + Σ_{k=1}^{order+1} a_k h^k` for the sampled `h`,
sampled at `h_t = h0 ρ^(-t)` (any non-zero `h0`: from above or below, real or complex; any ratio with pairwise distinct
Richardson nodes: real `ρ > 1` radial, complex `|ρ| > 1` spiral) and there are at least `order + 2` samples, every
extrapolant equals `L`. -/
theorem limit_exact_on_polynomials (ρ : K) (order : ℕ) (L h0 : K) (a : ℕ → K) (seq : List K)
    (hlen : order + 2 ≤ seq.length)
    (hd : (richNodes ρ 1 1 (order + 1)).Nodup)
    (hseq : ∀ s < seq.length, seq[s]? = some (L + ∑ c ∈ range (order + 1), a c * (h0 * (1 / ρ) ^ s) ^ (1 + 1 * c))) :
    ∀ y ∈ limitExtrapolate ρ order seq, y = L := by
  unfold limitExtrapolate
  have hnt : richTerms (order + 1) seq.length = order + 1 := by unfold richTerms; omega
  apply richardson_annihilates ρ 1 1 (order + 1) L h0 a seq
  · rw [hnt]; exact hd
  · rw [hnt]; exact hseq

/-- the number of extrapolants: `len - (order + 1)`, at least one -/
theorem limitExtrapolate_length (ρ : K) (order : ℕ) (seq : List K) (hlen : order + 2 ≤ seq.length) :
    (limitExtrapolate ρ order seq).length = seq.length - (order + 1) := by
  unfold limitExtrapolate
  rw [richCall_length]
  unfold richTerms
  omega

/-- **Residue multiplies the pole away**: for `f(z) = g(z) / (z - z0)^p` and `dz ≠ 0`, `Residue._fun(z0, dz) = g(z0 + dz)` -/
theorem residue_fun (g : K → K) (p : ℕ) (z0 dz : K) (hdz : dz ≠ 0) :
    residueFun (fun z => g z / (z - z0) ^ p) p z0 dz = g (z0 + dz) := by
  unfold residueFun
  rw [npow_eq]
  have : z0 + dz - z0 = dz := by ring
  show g (z0 + dz) / (z0 + dz - z0) ^ p * dz ^ p = g (z0 + dz)
  rw [this]
  field_simp

/-- with the default `order = pole_order + 2`, a polynomial `g` of degree `≤ pole_order + 3` is within the modelled
terms: `Residue` returns `g(z0)` in every extrapolant -/
theorem residue_exact (ρ : K) (p : ℕ) (z0 h0 : K) (b : ℕ → K) (N : ℕ) (hN : p + 2 + 2 ≤ N) (hh : h0 ≠ 0) (hρ : ρ ≠ 0)
    (hd : (richNodes ρ 1 1 (p + 2 + 1)).Nodup) :
    let g : K → K := fun z => ∑ k ∈ range (p + 2 + 2), b k * (z - z0) ^ k
    let f : K → K := fun z => g z / (z - z0) ^ p
    let seq := (List.range N).map (fun s => residueFun f p z0 (h0 * (1 / ρ) ^ s))
    ∀ y ∈ limitExtrapolate ρ (p + 2) seq, y = b 0 := by
  intro g f seq
  have hstep : ∀ s : ℕ, h0 * (1 / ρ) ^ s ≠ 0 := fun s => mul_ne_zero hh (pow_ne_zero _ (one_div_ne_zero hρ))
  apply limit_exact_on_polynomials ρ (p + 2) (b 0) h0 (fun c => b (c + 1)) seq (by simp [seq]; omega) hd
  intro s hs
  have hsN : s < N := by simpa [seq] using hs
  simp only [seq, List.getElem?_map, List.getElem?_range hsN, Option.map_some]
  congr 1
  rw [residue_fun g p z0 _ (hstep s)]
  simp only [g]
  have e : z0 + h0 * (1 / ρ) ^ s - z0 = h0 * (1 / ρ) ^ s := by ring
  rw [e, Finset.sum_range_succ' _ (p + 2 + 1)]
  simp only [pow_zero, mul_one]
  rw [add_comm]
  congr 1
  apply Finset.sum_congr rfl
  intro c _
  congr 2
  omega

end anyfield

section keep
variable {K : Type}

theorem callLim_length (fz : List (Option K)) (lims : List K) : (callLim fz lims).length = fz.length := by
  induction fz generalizing lims with
  | nil => rfl
  | cons a rest ih =>
    cases a with
    | some v => simp [callLim, ih]
    | none => cases lims <;> simp [callLim, ih]

/-- **finite values are returned unchanged**: wherever `f(z0[i])` is not NaN, the output is that very value, whatever
limits were computed for the other positions -/
theorem limit_keeps_finite_values (fz : List (Option K)) (lims : List K) (i : ℕ) (v : K)
    (h : fz[i]? = some (some v)) : (callLim fz lims)[i]? = some (some v) := by
  induction fz generalizing lims i with
  | nil => simp at h
  | cons a rest ih =>
    cases i with
    | zero =>
      simp only [List.getElem?_cons_zero, Option.some.injEq] at h
      subst h
      simp [callLim]
    | succ i =>
      simp only [List.getElem?_cons_succ] at h
      cases a with
      | some w => simp only [callLim, List.getElem?_cons_succ]; exact ih lims i h
      | none =>
        cases lims with
        | nil => simp only [callLim, List.getElem?_cons_succ]; exact ih [] i h
        | cons l ls => simp only [callLim, List.getElem?_cons_succ]; exact ih ls i h

/-- **the NaN positions receive the limits in order**: the NaN entry at position `i`, preceded by `j` other NaN entries,
receives the `j`-th computed limit -/
theorem callLim_fills_in_order (fz : List (Option K)) (lims : List K) (i : ℕ) (h : fz[i]? = some none)
    (hj : ((fz.take i).filter Option.isNone).length < lims.length) :
    (callLim fz lims)[i]? = some (some (lims[((fz.take i).filter Option.isNone).length]'hj)) := by
  induction fz generalizing lims i with
  | nil => simp at h
  | cons a rest ih =>
    cases i with
    | zero =>
      simp only [List.getElem?_cons_zero, Option.some.injEq] at h
      subst h
      cases lims with
      | nil => simp at hj
      | cons l ls => simp [callLim]
    | succ i =>
      simp only [List.getElem?_cons_succ] at h
      cases a with
      | some w =>
        simp only [callLim, List.getElem?_cons_succ]
        have := ih lims i h (by simpa using hj)
        simpa using this
      | none =>
        cases lims with
        | nil => simp at hj
        | cons l ls =>
          simp only [callLim, List.getElem?_cons_succ]
          have hj' : ((rest.take i).filter Option.isNone).length < ls.length := by
            simp at hj; omega
          have := ih ls i h hj'
          simpa using this

theorem callLim_all_some (fz : List (Option K)) (lims : List K)
    (hcount : (fz.filter Option.isNone).length ≤ lims.length) : ∀ e ∈ callLim fz lims, e.isSome = true := by
  induction fz generalizing lims with
  | nil => simp [callLim]
  | cons a rest ih =>
    cases a with
    | some v =>
      intro e he
      simp only [callLim, List.mem_cons] at he
      rcases he with rfl | he
      · rfl
      · exact ih lims (by simpa using hcount) e he
    | none =>
      cases lims with
      | nil => simp at hcount
      | cons l ls =>
        intro e he
        simp only [callLim, List.mem_cons] at he
        rcases he with rfl | he
        · rfl
        · exact ih ls (by simp at hcount; omega) e he

end keep
end Ndt
