import Ndt.Model.Taylor
import Mathlib.RingTheory.RootsOfUnity.PrimitiveRoots
import Mathlib.Algebra.Field.GeomSum
import Mathlib.Algebra.BigOperators.Ring.Finset
import Mathlib.Tactic.FieldSimp
import Mathlib.Tactic.Ring
import Mathlib.Tactic.Linarith
import Mathlib.Tactic.SplitIfs
/-!
# C17 — FFT Taylor coefficients are accurate within their reported error (the parts that are logic)
-/
open Finset
namespace Ndt

/-- **at least n + 1 coefficients**: for every accepted `n` the number of coefficients computed is a power of two in
`{8, …, 256}` and exceeds `n`; `n ≥ 193` raises -/
theorem num_coefficients (n : ℕ) :
    (n < 193 → ∃ m, numTaylor n = some m ∧ n + 1 ≤ m ∧ m ∈ [8, 16, 32, 64, 128, 256]) ∧ (193 ≤ n → numTaylor n = none) := by
  constructor
  · intro h
    unfold numTaylor
    split_ifs <;> first | omega | (refine ⟨_, rfl, by omega, by simp⟩)
  · intro h
    unfold numTaylor
    rw [if_pos (by omega)]

section dft
variable {K : Type} [Field K]

/-- sum of the `m` powers of an `m`-th root of unity that is not 1 -/
theorem root_pow_sum (ζ : K) (m : ℕ) (hm : 0 < m) (hζ : IsPrimitiveRoot ζ m) (d : ℕ) :
    ∑ j ∈ range m, (ζ ^ d) ^ j = if m ∣ d then (m : K) else 0 := by
  split_ifs with hd
  · have : ζ ^ d = 1 := (hζ.pow_eq_one_iff_dvd d).mpr hd
    simp [this]
  · have hne : ζ ^ d ≠ 1 := fun h => hd ((hζ.pow_eq_one_iff_dvd d).mp h)
    rw [geom_sum_eq hne]
    have : (ζ ^ d) ^ m = 1 := by rw [← pow_mul, mul_comm, pow_mul, hζ.pow_eq_one, one_pow]
    rw [this, sub_self, zero_div]

/-- **DFT aliasing identity** behind the method: sampling the polynomial `f(z0 + w) = Σ_{l<D} a_l w^l` at the `m` points
`w_j = r ζ^j` of a circle and taking the discrete Fourier coefficient `k` gives
`bn_k = (1/m) Σ_j f(z0 + r ζ^j) ζ^(-jk) = Σ_{l ≡ k (mod m)} a_l r^l`,
so `bs_k = bn_k r^(-k) = a_k + a_{k+m} r^m + a_{k+2m} r^(2m) + …` (what `_extrapolate` then removes). -/
theorem dft_aliasing (ζ : K) (m : ℕ) (hm : 0 < m) (hζ : IsPrimitiveRoot ζ m) [CharZero K]
    (a : ℕ → K) (D : ℕ) (r : K) (k : ℕ) (hk : k < m) :
    (1 / (m : K)) * ∑ j ∈ range m, (∑ l ∈ range D, a l * (r * ζ ^ j) ^ l) * ζ ^ (j * (m - k))
      = ∑ l ∈ range D, if l % m = k then a l * r ^ l else 0 := by
  have hm0 : (m : K) ≠ 0 := by exact_mod_cast (by omega : m ≠ 0)
  -- exchange the two sums
  have hswap : ∑ j ∈ range m, (∑ l ∈ range D, a l * (r * ζ ^ j) ^ l) * ζ ^ (j * (m - k))
      = ∑ l ∈ range D, a l * r ^ l * ∑ j ∈ range m, (ζ ^ (l + (m - k))) ^ j := by
    simp only [Finset.sum_mul]
    rw [Finset.sum_comm]
    apply Finset.sum_congr rfl
    intro l _
    rw [Finset.mul_sum]
    apply Finset.sum_congr rfl
    intro j _
    rw [mul_pow, ← pow_mul, ← pow_mul]
    have : ζ ^ ((l + (m - k)) * j) = ζ ^ (j * l) * ζ ^ (j * (m - k)) := by
      rw [← pow_add]; congr 1; ring
    rw [this]; ring
  rw [hswap, Finset.mul_sum]
  apply Finset.sum_congr rfl
  intro l _
  rw [root_pow_sum ζ m hm hζ]
  have hiff : m ∣ (l + (m - k)) ↔ l % m = k := by
    constructor
    · intro h
      have h1 : (l + (m - k)) % m = 0 := Nat.mod_eq_zero_of_dvd h
      have h2 : (l % m + (m - k)) % m = 0 := by rw [← h1, Nat.add_mod, Nat.mod_mod_of_dvd _ (dvd_refl m)]; simp [Nat.add_mod]
      have hl : l % m < m := Nat.mod_lt _ hm
      by_cases hlk : l % m + (m - k) < m
      · rw [Nat.mod_eq_of_lt hlk] at h2; omega
      · have : l % m + (m - k) - m < m := by omega
        have h3 : (l % m + (m - k)) % m = l % m + (m - k) - m := by
          rw [Nat.mod_eq_sub_mod (by omega), Nat.mod_eq_of_lt this]
        omega
    · intro h
      have : l + (m - k) = m * (l / m + 1) := by
        have := Nat.div_add_mod l m
        rw [h] at this
        rw [Nat.mul_add, Nat.mul_one]; omega
      rw [this]; exact Dvd.intro _ rfl
  by_cases hc : l % m = k
  · rw [if_pos (hiff.mpr hc), if_pos hc]; field_simp
  · rw [if_neg (fun h => hc (hiff.mp h)), if_neg hc]; ring

/-- **the two Richardson passes over the radii remove the first two aliasing terms**: if
`bs_t = a + β u_t + γ u_t²` with `u_t = r_t^m` (non-zero, consecutive radii distinct), every entry of
`_extrapolate(bs, rs, m)` is exactly `a` -/
theorem extrapolate_removes_two_terms (a β γ : K) (u : ℕ → K) (nk : ℕ)
    (hu : ∀ t, u t ≠ 0) (hd1 : ∀ t, u (t + 1) ≠ u t) (hd2 : ∀ t, u (t + 2) ≠ u t) :
    let bs : ℕ → K := fun t => a + β * u t + γ * u t * u t
    let e0 : ℕ → K := fun i => rich1 (bs (i + 1)) (bs i) (1 - u i / u (i + 1))
    (∀ i, e0 i = a - γ * u (i + 1) * u i) ∧ ∀ y ∈ extrapPass2 e0 u nk, y = a := by
  intro bs e0
  have he0 : ∀ i, e0 i = a - γ * u (i + 1) * u i := by
    intro i
    simp only [e0, bs, rich1]
    have h1 := hu (i + 1)
    have h2 : u (i + 1) - u i ≠ 0 := sub_ne_zero.mpr (hd1 i)
    have hc : (1 : K) - u i / u (i + 1) ≠ 0 := by
      rw [sub_ne_zero]; intro h; apply hd1 i; field_simp at h; exact h
    field_simp
    ring
  refine ⟨he0, ?_⟩
  intro y hy
  simp only [extrapPass2, List.mem_map, List.mem_range] at hy
  obtain ⟨i, _, rfl⟩ := hy
  rw [he0 (i + 1), he0 i]
  unfold rich1
  have h1 := hu (i + 2)
  have h2 : u (i + 2) - u i ≠ 0 := sub_ne_zero.mpr (hd2 i)
  have hc : (1 : K) - u i / u (i + 2) ≠ 0 := by
    rw [sub_ne_zero]; intro h; apply hd2 i; field_simp at h; exact h
  have e : i + 1 + 1 = i + 2 := rfl
  rw [e]
  field_simp
  ring

end dft

/-! ### the iteration -/

theorem taylorLoop_spec (converged : ℕ → Bool) (fuel i : ℕ) :
    ((taylorLoop converged fuel i).2 = true ↔ ∃ t, i ≤ t ∧ t < i + fuel ∧ converged t = true) ∧
    ((taylorLoop converged fuel i).2 = false → (taylorLoop converged fuel i).1 = i + fuel) := by
  induction fuel generalizing i with
  | zero =>
    refine ⟨⟨fun h => by simp [taylorLoop] at h, fun ⟨t, h1, h2, _⟩ => by omega⟩, fun _ => by simp [taylorLoop]⟩
  | succ fuel ih =>
    by_cases hc : converged i = true
    · have e : taylorLoop converged (fuel + 1) i = (i + 1, true) := by simp [taylorLoop, hc]
      rw [e]
      exact ⟨⟨fun _ => ⟨i, le_rfl, by omega, hc⟩, fun _ => rfl⟩, fun h => by cases h⟩
    · have e : taylorLoop converged (fuel + 1) i = taylorLoop converged fuel (i + 1) := by simp [taylorLoop, hc]
      rw [e]
      obtain ⟨h1, h2⟩ := ih (i + 1)
      constructor
      · rw [h1]
        constructor
        · rintro ⟨t, ht1, ht2, ht3⟩; exact ⟨t, by omega, by omega, ht3⟩
        · rintro ⟨t, ht1, ht2, ht3⟩
          have : t ≠ i := fun h => hc (h ▸ ht3)
          exact ⟨t, by omega, by omega, ht3⟩
      · intro h; rw [h2 h]; omega

/-- **`failed` is set exactly when the iteration cap was reached**: no iteration below `max_iter` reported convergence,
and then all `max_iter` iterations were executed -/
theorem failed_iff_cap (converged : ℕ → Bool) (maxIter : ℕ) :
    (taylorFailed converged maxIter = true ↔ ∀ t < maxIter, converged t = false) ∧
    (taylorFailed converged maxIter = true → (taylorLoop converged maxIter 0).1 = maxIter) := by
  obtain ⟨h1, h2⟩ := taylorLoop_spec converged maxIter 0
  unfold taylorFailed
  constructor
  · constructor
    · intro hf t ht
      by_contra hne
      have hct : converged t = true := by simpa using hne
      have : (taylorLoop converged maxIter 0).2 = true := h1.mpr ⟨t, Nat.zero_le _, by omega, hct⟩
      simp [this] at hf
    · intro hall
      have : ¬ (taylorLoop converged maxIter 0).2 = true := by
        intro h
        obtain ⟨t, _, ht, hc⟩ := h1.mp h
        rw [hall t (by omega)] at hc; cases hc
      simpa using this
  · intro hf
    have : (taylorLoop converged maxIter 0).2 = false := by simpa using hf
    simpa using h2 this

/-! ## the radius search -/

def RadState.bracket (s : RadState) : Bool := decide (s.dirChanges > 1) || s.degenerate

/-- a call reports convergence exactly when the range has been found (two direction changes, or degenerate) and this is the
`(1 + num_extrap)`-th call since then -/
theorem radStep_converged_iff (ne : Nat) (s : RadState) (i : Nat) (inp : RadIn) :
    (radStep ne s i inp).1 = true ↔ (s.bracket = true ∧ s.numChanges + 1 ≥ 1 + ne) := by
  unfold radStep RadState.bracket
  by_cases hb : (decide (s.dirChanges > 1) || s.degenerate) = true
  · simp only [hb, if_true, Bool.true_and]
    by_cases hc : s.numChanges + 1 ≥ 1 + ne
    · simp [hc]
    · simp [hc]
  · simp [hb]

/-- once the range has been found it stays found, and every further call counts -/
theorem radStep_bracket_mono (ne : Nat) (s : RadState) (i : Nat) (inp : RadIn) (hb : s.bracket = true)
    (hnc : (radStep ne s i inp).1 = false) :
    (radStep ne s i inp).2.1.bracket = true ∧ (radStep ne s i inp).2.1.numChanges = s.numChanges + 1 := by
  unfold RadState.bracket at hb ⊢
  unfold radStep at hnc ⊢
  simp only [hb, if_true, Bool.true_and] at hnc ⊢
  by_cases hc : s.numChanges + 1 ≥ 1 + ne
  · simp [hc] at hnc
  · simp only [hc, decide_false, Bool.false_eq_true, if_false]
    refine ⟨?_, trivial⟩
    rcases Bool.or_eq_true_iff.mp hb with h | h
    · have h1 : s.dirChanges > 1 := of_decide_eq_true h
      simp only [Bool.or_eq_true, decide_eq_true_eq]
      left
      cases s.prevDir with
      | none => exact h1
      | some d => simp only []; split_ifs <;> omega
    · simp [h]

/-- **after the range has been found, exactly `num_extrap` further circles are computed**: from a state in which the range is found
and `c ≤ num_extrap` calls have been counted, the loop stops after exactly `1 + num_extrap - c` more iterations (given that many
remain before the cap), reporting convergence -/
theorem radRun_after_bracket (ne : Nat) : ∀ (inputs : List RadIn) (s : RadState) (i c : Nat), s.bracket = true → s.numChanges = c →
    c ≤ ne → 1 + ne - c ≤ inputs.length →
    (radRun ne s i inputs).1 = i + (1 + ne - c) ∧ (radRun ne s i inputs).2.1 = true
  | [], s, i, c, _, _, hc, hl => by simp at hl; omega
  | inp :: rest, s, i, c, hb, hn, hc, hl => by
    unfold radRun
    by_cases hconv : (radStep ne s i inp).1 = true
    · simp only [hconv, if_true]
      have := (radStep_converged_iff ne s i inp).mp hconv
      have : c = ne := by omega
      subst this
      constructor <;> simp
    · have hnc : (radStep ne s i inp).1 = false := by simpa using hconv
      simp only [hnc, Bool.false_eq_true, if_false]
      obtain ⟨hb', hn'⟩ := radStep_bracket_mono ne s i inp hb hnc
      have hlt : c < ne := by
        rcases Nat.lt_or_ge c ne with h | hge
        · exact h
        · have : (radStep ne s i inp).1 = true := (radStep_converged_iff ne s i inp).mpr ⟨hb, by omega⟩
          rw [this] at hnc; exact Bool.noConfusion hnc
      have ih := radRun_after_bracket ne rest (radStep ne s i inp).2.1 (i + 1) (c + 1) hb' (by rw [hn', hn]) (by omega)
        (by simp at hl; omega)
      constructor
      · rw [ih.1]; omega
      · exact ih.2

end Ndt
