import Ndt.Proofs.Fornberg
/-!
# C15 — fd_weights equal the exact Lagrange-derivative weights for any nodes
-/
open Polynomial Finset

namespace Ndt
variable {K : Type} [Field K]

/-- nodes as a function on indices -/
def nodeFn (xs : List K) : ℕ → K := fun i => xs.getD i 0

theorem nodeFn_injOn (xs : List K) (hd : xs.Nodup) (i : ℕ) (hi : i + 1 ≤ xs.length) :
    Set.InjOn (nodeFn xs) (range (i + 1) : Finset ℕ) := by
  intro a ha b hb hab
  simp only [coe_range, Set.mem_Iio] at ha hb
  have ha' : a < xs.length := by omega
  have hb' : b < xs.length := by omega
  simp only [nodeFn, List.getD_eq_getElem?_getD, List.getElem?_eq_getElem ha', List.getElem?_eq_getElem hb',
    Option.getD_some] at hab
  exact (List.Nodup.getElem_inj_iff hd).mp hab

/-- **Every entry is a Lagrange-basis derivative**: after the run, `W v k` is the `k`-th derivative at
`x0` of the Lagrange basis polynomial of node `v` (function-level and table-level runs alike). -/
theorem fornberg_entries (x : ℕ → K) (x0 : K) (n i : ℕ) (hx : Set.InjOn x (range (i + 1) : Finset ℕ))
    (v k : ℕ) (hv : v ≤ i) (hk : k ≤ n) :
    (frunT x x0 n i).W v k = eval x0 (derivative^[k] (Lagrange.basis (range (i + 1)) x v)) := by
  rw [(frunT_eq_frun x x0 n i).1 v hv k hk]
  exact (inv_run x x0 n i hx).1 v hv k hk

/-- **Exactness on polynomials** (function level): for pairwise distinct nodes `x 0 … x i` (any order,
any spacing), any `x0`, any `k ≤ n`, any polynomial of degree `< i + 1`:
`Σ_v W[v][k] p(x_v) = p^(k)(x0)`. -/
theorem fornberg_weights_exact (x : ℕ → K) (x0 : K) (n i k : ℕ) (hk : k ≤ n)
    (hx : Set.InjOn x (range (i + 1) : Finset ℕ)) (p : K[X]) (hp : p.degree < (i + 1 : ℕ)) :
    ∑ v ∈ range (i + 1), (frunT x x0 n i).W v k * p.eval (x v) = eval x0 (derivative^[k] p) := by
  have hp' : p.degree < #(range (i + 1)) := by simpa using hp
  conv_rhs => rw [Lagrange.eq_interpolate hx hp']
  rw [Lagrange.interpolate_apply, iterate_derivative_sum, eval_finset_sum]
  refine sum_congr rfl (fun v hv => ?_)
  rw [iterate_derivative_C_mul, eval_mul, eval_C,
    fornberg_entries x x0 n i hx v k (by simp at hv; omega) hk]
  ring

/-- the guard: `fd_weights_all` raises exactly when `n ≥ len(x)` -/
theorem fdWeightsAll_guard (xs : List K) (x0 : K) (n : ℕ) :
    fdWeightsAll xs x0 n = none ↔ xs.length ≤ n := by
  unfold fdWeightsAll
  split_ifs with h
  · simp; omega
  · simp; omega

/-- **C15, list level**: `fd_weights_all(x, x0, n)` returns `n + 1` rows of `len(x)` weights, and row `k`
applied to the samples of any polynomial of degree `< len(x)` gives its exact `k`-th derivative at `x0`. -/
theorem fdWeightsAll_exact (xs : List K) (hd : xs.Nodup) (x0 : K) (n : ℕ) (hn : n < xs.length) :
    ∃ rows, fdWeightsAll xs x0 n = some rows ∧ rows.length = n + 1 ∧
      (∀ k ≤ n, (rows.getD k []).length = xs.length) ∧
      ∀ k ≤ n, ∀ p : K[X], p.degree < (xs.length : ℕ) →
        ∑ v ∈ range xs.length, (rows.getD k []).getD v 0 * p.eval (xs.getD v 0)
          = eval x0 (derivative^[k] p) := by
  unfold fdWeightsAll
  rw [if_pos hn]
  refine ⟨_, rfl, by simp, ?_, ?_⟩
  · intro k hk
    simp [List.getD_eq_getElem?_getD, List.getElem?_map, List.getElem?_range (by omega : k < n + 1)]
  · intro k hk p hp
    obtain ⟨i, hi⟩ : ∃ i, xs.length = i + 1 := ⟨xs.length - 1, by omega⟩
    have hx := nodeFn_injOn xs hd i (by omega)
    have := fornberg_weights_exact (nodeFn xs) x0 n i k hk hx p (by rw [hi] at hp; exact_mod_cast hp)
    rw [hi]
    rw [← this]
    refine sum_congr rfl (fun v hv => ?_)
    have hv' : v < i + 1 := by simpa using hv
    have hfn : (fun i => xs.getD i 0) = nodeFn xs := rfl
    rw [hfn]
    have e1 : (((List.range (n + 1)).map (fun k => (List.range (i + 1)).map
        (fun v => (frunT (nodeFn xs) x0 n (i + 1 - 1)).W v k))).getD k []).getD v 0
        = (frunT (nodeFn xs) x0 n i).W v k := by
      simp [List.getD_eq_getElem?_getD, List.getElem?_map, List.getElem?_range (by omega : k < n + 1), hv']
    rw [e1]
    rfl

/-- row 0 interpolates -/
theorem fdWeightsAll_row0_interpolates (xs : List K) (hd : xs.Nodup) (x0 : K) (n : ℕ) (hn : n < xs.length)
    (p : K[X]) (hp : p.degree < (xs.length : ℕ)) :
    ∃ rows, fdWeightsAll xs x0 n = some rows ∧
      ∑ v ∈ range xs.length, (rows.getD 0 []).getD v 0 * p.eval (xs.getD v 0) = p.eval x0 := by
  obtain ⟨rows, h1, _, _, h4⟩ := fdWeightsAll_exact xs hd x0 n hn
  exact ⟨rows, h1, by simpa using h4 0 (by omega) p hp⟩

/-- rows `k ≥ 1` sum to zero -/
theorem fdWeightsAll_rows_sum_zero (xs : List K) (hd : xs.Nodup) (x0 : K) (n : ℕ) (hn : n < xs.length)
    (k : ℕ) (hk1 : 1 ≤ k) (hk : k ≤ n) :
    ∃ rows, fdWeightsAll xs x0 n = some rows ∧
      ∑ v ∈ range xs.length, (rows.getD k []).getD v 0 = 0 := by
  obtain ⟨rows, h1, _, _, h4⟩ := fdWeightsAll_exact xs hd x0 n hn
  refine ⟨rows, h1, ?_⟩
  have hdeg : (1 : K[X]).degree < (xs.length : ℕ) := by
    rw [degree_one]; exact_mod_cast (by omega : 0 < xs.length)
  have := h4 k hk 1 hdeg
  rw [iterate_derivative_one (by omega)] at this
  simpa using this

/-- `fd_weights` returns row `n` -/
theorem fdWeights_is_last_row (xs : List K) (x0 : K) (n : ℕ) (hn : n < xs.length) :
    ∃ rows, fdWeightsAll xs x0 n = some rows ∧ fdWeights xs x0 n = some (rows.getD n []) := by
  unfold fdWeights fdWeightsAll
  rw [if_pos hn]
  refine ⟨_, rfl, ?_⟩
  simp only [Option.map_some]
  congr 1
  rw [List.getLastD_eq_getLast?, List.getLast?_eq_getElem?]
  simp [List.getD_eq_getElem?_getD]

/-! ### non-vacuity / regression: the classical three-point weights -/
example : fdWeightsAll [(-1 : ℚ), 0, 1] 0 2 = some [[0, 1, 0], [-1/2, 0, 1/2], [1, -2, 1]] := by
  decide +kernel

end Ndt
