import Ndt.Model.Rule
import Ndt.Proofs.Poly
import Mathlib.Tactic.Linarith
import Mathlib.Tactic.Positivity
import Mathlib.Algebra.Order.Field.Power
import Mathlib.Algebra.CharZero.Defs
import Mathlib.Data.Nat.Cast.Order.Field
import Mathlib.Tactic.IntervalCases
import Mathlib.Algebra.BigOperators.Intervals
/-!
# C06 — Finite-difference rules are exact to their stated order and match Richardson

`Ndt.Gen.LogRule` is regenerated from `finite_difference.py` on every run; the theorems below are
therefore re-checked against what the code says now.
-/
namespace Ndt
open Ndt.Gen Finset

/-! ### the integer tables are mutually consistent, for every n and order (unbounded) -/

/-- For all `n ≥ 1`, `order ≥ 1` and the four rule-based methods: the parity row is admissible
(the `_assert(0 <= parity <= 6)` guard cannot fire), its spacing equals `richardson_step`, the
selected row `rule_index` is the one whose exponent is `n`, the first exponent *not* covered by
the rule is `n + method_order`, `method_order` is a positive multiple of `richardson_step`, and
there is at least one term. -/
theorem rule_tables_consistent (m : Method)
    (hm : m = .central ∨ m = .forward ∨ m = .backward ∨ m = .complex)
    (n order : Nat) (hn : 1 ≤ n) (ho : 1 ≤ order) :
    let r : LogRule := ⟨n, m, order⟩
    let p := r._parity m (n - 1) r.method_order
    fd_parity_ok p = true ∧
    fd_step p = r.richardson_step ∧
    fdExponent p r.rule_index = n ∧
    fdExponent p r.num_terms = n + r.method_order ∧
    r.richardson_step ∣ r.method_order ∧ 1 ≤ r.method_order ∧ 1 ≤ r.num_terms ∧
    r.rule_index < r.num_terms := by
  intro r p
  have h4 : n % 4 = 0 ∨ n % 4 = 1 ∨ n % 4 = 2 ∨ n % 4 = 3 := by omega
  have h2 : (n - 1) % 2 = 0 ∨ (n - 1) % 2 = 1 := by omega
  rcases hm with rfl | rfl | rfl | rfl
  · -- central
    rcases h2 with h2 | h2 <;>
    simp [r, p, fdExponent, fd_parity_ok, LogRule.num_terms, LogRule.rule_index, LogRule._parity,
      LogRule.richardson_step, LogRule.method_order, LogRule._complex_high_order, fd_step, fd_offset, h2] <;> omega
  · -- forward
    simp [r, p, fdExponent, fd_parity_ok, LogRule.num_terms, LogRule.rule_index, LogRule._parity,
      LogRule.richardson_step, LogRule.method_order, LogRule._complex_high_order, fd_step, fd_offset] <;> omega
  · -- backward
    simp [r, p, fdExponent, fd_parity_ok, LogRule.num_terms, LogRule.rule_index, LogRule._parity,
      LogRule.richardson_step, LogRule.method_order, LogRule._complex_high_order, fd_step, fd_offset] <;> omega
  · -- complex
    have hp2 : n % 2 = 0 ∨ n % 2 = 1 := by omega
    by_cases hn1 : n = 1 <;> by_cases ho4 : 4 ≤ order
    all_goals
      have hmo4 : ¬ (max (order / 4 * 4) 4 < 4) := by omega
      have hmo2 : (max (order / 2 * 2) 2 < 4) ↔ ¬ 4 ≤ order := by omega
      have i1 : (1 < n) ↔ ¬ n = 1 := by omega
      have i2 : (order < 4) ↔ ¬ 4 ≤ order := by omega
      rcases h4 with h | h | h | h <;> rcases hp2 with g | g <;>
      first
        | omega
        | (simp [r, p, fdExponent, fd_parity_ok, LogRule.num_terms, LogRule.rule_index, LogRule._parity,
            LogRule._parity_complex, LogRule.richardson_step,
            LogRule.method_order, LogRule._complex_high_order, LogRule._odd_derivative,
            LogRule._derivative_mod_four_is_three, LogRule._derivative_mod_four_is_zero, fd_step, fd_offset,
            i1, i2, hn1, ho4, h, g, hmo4, hmo2] <;> omega)

/-- the order a rule delivers (generated `LogRule.method_order`): the requested order rounded down to a multiple of the spacing of
the method's error terms (generated `richardson_step`: 2, 1, or 2 / 4 for complex), at least one multiple — never less than the request
by a whole step, never capped -/
theorem method_order_spec (r : LogRule) :
    r.method_order % r.richardson_step = 0 ∧ r.richardson_step ≤ r.method_order ∧
    r.method_order ≤ max r.order r.richardson_step ∧ r.order < r.method_order + r.richardson_step ∧
    (r.richardson_step = 1 ∨ r.richardson_step = 2 ∨ r.richardson_step = 4) := by
  have hs : r.richardson_step = 1 ∨ r.richardson_step = 2 ∨ r.richardson_step = 4 := by
    unfold LogRule.richardson_step
    cases r.method <;> simp
  have hmo : r.method_order = max ((r.order / r.richardson_step) * r.richardson_step) r.richardson_step := by
    unfold LogRule.method_order; rfl
  rcases hs with h | h | h <;> rw [hmo, h] <;> refine ⟨?_, ?_, ?_, ?_, ?_⟩ <;> omega


/-- the tables have positive spacing, offset and scale on the admissible parities -/
theorem fd_tables_pos (p : Nat) (hp : fd_parity_ok p = true) :
    1 ≤ fd_step p ∧ 1 ≤ fd_offset p ∧ 1 ≤ fd_c_0 p := by
  have : p ≤ 6 := by simpa [fd_parity_ok] using hp
  interval_cases p <;> simp [fd_step, fd_offset, fd_c_0]

/-- `set_richardson_rule` hands Richardson exactly `(ρ, richardson_step, method_order)`: the residual
powers of the rule (`fdExponent p (num_terms + q) = n + method_order + q · richardson_step`) are the
ones C07's rule annihilates. -/
theorem rule_residual_exponents (m : Method)
    (hm : m = .central ∨ m = .forward ∨ m = .backward ∨ m = .complex)
    (n order : Nat) (hn : 1 ≤ n) (ho : 1 ≤ order) (q : Nat) :
    let r : LogRule := ⟨n, m, order⟩
    let p := r._parity m (n - 1) r.method_order
    fdExponent p (r.num_terms + q) = n + (r.method_order + r.richardson_step * q) := by
  intro r p
  obtain ⟨_, h1, _, h3, _⟩ := rule_tables_consistent m hm n order hn ho
  simp only [fdExponent] at h3 ⊢
  calc fd_offset p + fd_step p * (r.num_terms + q)
      = (fd_offset p + fd_step p * r.num_terms) + fd_step p * q := by rw [Nat.mul_add, Nat.add_assoc]
    _ = (n + r.method_order) + r.richardson_step * q := by rw [h3, h1]
    _ = n + (r.method_order + r.richardson_step * q) := Nat.add_assoc _ _ _

section field
variable {K : Type} [Field K]

theorem natFactorial_pos (n : ℕ) : 0 < natFactorial n := by
  induction n with
  | zero => simp [natFactorial]
  | succ n ih => simp [natFactorial]; positivity

theorem fdNodes_length (ρ : K) (p nt : ℕ) : (fdNodes ρ p nt).length = nt := by simp [fdNodes]

theorem fdNodes_getElem (ρ : K) (p nt j : ℕ) (hj : j < nt) :
    (fdNodes ρ p nt)[j]'(by simp [fdNodes]; exact hj) = (1 / ρ) ^ fdExponent p j := by
  simp [fdNodes]

variable [CharZero K]

theorem fdC_ne_zero (p j : ℕ) (hp : fd_parity_ok p = true) : (fdC p j : K) ≠ 0 := by
  unfold fdC
  have h0 := (fd_tables_pos p hp).2.2
  have hf := natFactorial_pos (fdExponent p j)
  apply div_ne_zero
  · exact_mod_cast (by omega : fd_c_0 p ≠ 0)
  · exact_mod_cast (by omega : natFactorial (fdExponent p j) ≠ 0)

/-- **Moment identities of the rule**: `Σ_i w_i c_j τ_j^i = δ_{j r}` — `fdRow` is row `r` of the
inverse of `_fd_matrix`, for pairwise distinct nodes. -/
theorem fdRow_moments (ρ : K) (p nt r j : ℕ) (hp : fd_parity_ok p = true)
    (hd : (fdNodes ρ p nt).Nodup) (hr : r < nt) (hj : j < nt) :
    evalP (fdRow ρ p nt r) ((1 / ρ) ^ fdExponent p j) * fdC p j = if j = r then 1 else 0 := by
  unfold fdRow
  rw [evalP_pscale]
  have hl := fdNodes_length ρ p nt
  have := evalP_lagrangeCoeffs _ hd r j (by omega) (by omega)
  rw [fdNodes_getElem ρ p nt j hj] at this
  rw [this]
  split_ifs with h
  · subst h
    have := fdC_ne_zero (K := K) p j hp
    field_simp
  · simp

/-- **What the rule does to a difference quotient.**  If the quotient at step `h` expands as
`D(h) = Σ_{j<M} d_j h^(k_j)` (`k_j = offset + step·j`, any coefficients `d_j`, `M ≥ nt`) and is
sampled at the geometric steps `h_s = h0 ρ^(-s)`, then output `t` of the correlation with row `r` is
`d_r h_t^(k_r) / c_r + Σ_{nt ≤ j < M} d_j h_t^(k_j) p_w(τ_j)`: the selected power comes out exactly,
all other powers below `k_nt` are annihilated, and only the powers `k_j`, `j ≥ nt`, remain. -/
theorem fdRow_apply (ρ : K) (p nt r M : ℕ) (hp : fd_parity_ok p = true)
    (hd : (fdNodes ρ p nt).Nodup) (hr : r < nt) (hM : nt ≤ M) (d : ℕ → K) (h0 : K) (t : ℕ) :
    dotF (fdRow ρ p nt r) (fun i => ∑ j ∈ range M, d j * (h0 * (1 / ρ) ^ (t + i)) ^ fdExponent p j)
      = d r * (h0 * (1 / ρ) ^ t) ^ fdExponent p r / fdC p r
        + ∑ j ∈ Ico nt M, d j * (h0 * (1 / ρ) ^ t) ^ fdExponent p j
            * evalP (fdRow ρ p nt r) ((1 / ρ) ^ fdExponent p j) := by
  rw [dotF_geometric]
  rw [← Finset.sum_range_add_sum_Ico _ hM]
  congr 1
  rw [Finset.sum_eq_single r]
  · have h1 := fdRow_moments ρ p nt r r hp hd hr hr
    rw [if_pos rfl] at h1
    have hc := fdC_ne_zero (K := K) p r hp
    have : evalP (fdRow ρ p nt r) ((1 / ρ) ^ fdExponent p r) = 1 / fdC p r := by
      field_simp; exact h1
    rw [this]; ring
  · intro j hj hjr
    have h1 := fdRow_moments ρ p nt r j hp hd hr (Finset.mem_range.mp hj)
    rw [if_neg hjr] at h1
    have hc := fdC_ne_zero (K := K) p j hp
    have : evalP (fdRow ρ p nt r) ((1 / ρ) ^ fdExponent p j) = 0 := by
      rcases mul_eq_zero.mp h1 with h | h
      · exact h
      · exact absurd h hc
    rw [this, mul_zero]
  · intro h; exact absurd (Finset.mem_range.mpr hr) h

/-- **Exact below the order**: when the expansion has no power beyond the ones the rule covers
(`M = nt`, i.e. polynomial degree `< n + method_order` by `rule_tables_consistent`), the rule returns
`d_r h_t^(k_r) / c_r` exactly, in every output slot. -/
theorem fdRow_exact (ρ : K) (p nt r : ℕ) (hp : fd_parity_ok p = true)
    (hd : (fdNodes ρ p nt).Nodup) (hr : r < nt) (d : ℕ → K) (h0 : K) (t : ℕ) :
    dotF (fdRow ρ p nt r) (fun i => ∑ j ∈ range nt, d j * (h0 * (1 / ρ) ^ (t + i)) ^ fdExponent p j)
      = d r * (h0 * (1 / ρ) ^ t) ^ fdExponent p r / fdC p r := by
  rw [fdRow_apply ρ p nt r nt hp hd hr le_rfl]
  simp

end field

section ordered
variable {K : Type} [Field K] [LinearOrder K] [IsStrictOrderedRing K]

/-- the nodes `ρ^(-k_j)` are pairwise distinct for a real ratio above one -/
theorem fdNodes_nodup_real (ρ : K) (hρ : 1 < ρ) (p nt : ℕ) (hp : fd_parity_ok p = true) :
    (fdNodes ρ p nt).Nodup := by
  have h0 : (0 : K) < 1 / ρ := by positivity
  have h1 : 1 / ρ < 1 := by rw [div_lt_one (by linarith)]; exact hρ
  have hanti : StrictAnti (fun k : ℕ => (1 / ρ) ^ k) := pow_right_strictAnti₀ h0 h1
  have hs := (fd_tables_pos p hp).1
  unfold fdNodes
  refine (List.nodup_range).map_on ?_
  intro c _ c' _ h
  have h' : (1 / ρ) ^ fdExponent p c = (1 / ρ) ^ fdExponent p c' := by simpa using h
  have hinj := hanti.injective h'
  unfold fdExponent at hinj
  have : fd_step p * c = fd_step p * c' := by omega
  exact Nat.eq_of_mul_eq_mul_left (by omega) this
end ordered

/-! ### non-vacuity / regression: the documented rules -/
example : fdRule (2 : ℚ) ⟨1, .central, 4⟩ = [-1/3, 8/3] := by decide +kernel
example : fdRule (2 : ℚ) ⟨1, .forward, 2⟩ = [-1, 4] := by decide +kernel
example : fdRule (2 : ℚ) ⟨2, .forward, 2⟩ = [-4, 40, -64] := by decide +kernel

end Ndt
