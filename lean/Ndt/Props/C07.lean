import Ndt.Model.Richardson
import Ndt.Proofs.Poly
import Ndt.Proofs.FieldNum
import Mathlib.Tactic.Linarith
import Mathlib.Tactic.Positivity
import Mathlib.Algebra.Order.Field.Power
import Mathlib.Analysis.Complex.Norm
/-!
# C07 — Richardson extrapolation removes exactly the modelled error terms
-/
namespace Ndt
open Finset

section field
variable {K : Type} [Field K]

/-! ### lengths -/
theorem padd_length (p q : List K) : (padd p q).length = max p.length q.length := by
  induction p generalizing q with
  | nil => simp [padd]
  | cons a p ih =>
    cases q with
    | nil => simp [padd]
    | cons b q => simp only [padd, List.length_cons, ih]; omega

theorem mulLinear_length (p : List K) (a : K) : (mulLinear p a).length = p.length + 1 := by
  simp [mulLinear, padd_length]

theorem lagrangeAux_length (tr : K) (rest acc : List K) :
    (lagrangeAux tr rest acc).length = acc.length + rest.length := by
  induction rest generalizing acc with
  | nil => simp [lagrangeAux]
  | cons tj rest ih => simp [lagrangeAux, ih, pscale, mulLinear_length]; omega

theorem lagrangeCoeffs_length (nodes : List K) (r : ℕ) (hr : r < nodes.length) :
    (lagrangeCoeffs nodes r).length = nodes.length := by
  unfold lagrangeCoeffs
  rw [List.getElem?_eq_getElem hr]
  simp only [lagrangeAux_length, List.length_eraseIdx, hr, if_true, List.length_singleton]
  omega

theorem richNodes_length (ρ : K) (step order nt : ℕ) : (richNodes ρ step order nt).length = nt + 1 := by
  simp [richNodes]

/-- the rule has one more entry than the number of terms actually used -/
theorem richRule_length (ρ : K) (step order numTerms len : ℕ) :
    (richRule ρ step order numTerms len).length = richTerms numTerms len + 1 := by
  unfold richRule
  simp only
  split_ifs with h
  · simp [h]
  · rw [lagrangeCoeffs_length _ _ (by simp [richNodes]), richNodes_length]

/-- **number of outputs** = sequence length − number of terms used; at least one for a non-empty
sequence, so short sequences are handled with fewer terms instead of failing. -/
theorem richCall_length (ρ : K) (step order numTerms : ℕ) (seq : List K) :
    (richCall ρ step order numTerms seq).length = seq.length - richTerms numTerms seq.length := by
  unfold richCall
  rw [correlate_length, richRule_length]
  omega

theorem richTerms_le (numTerms len : ℕ) : richTerms numTerms len ≤ len - 1 := by
  unfold richTerms; omega

theorem richCall_nonempty (ρ : K) (step order numTerms : ℕ) (seq : List K) (h : 1 ≤ seq.length) :
    1 ≤ (richCall ρ step order numTerms seq).length := by
  rw [richCall_length]
  have := richTerms_le numTerms seq.length
  omega

/-! ### the weights -/

/-- node `c+1` of the rule -/
theorem richNodes_getElem_succ (ρ : K) (step order nt c : ℕ) (hc : c < nt) :
    (richNodes ρ step order nt)[c + 1]'(by simp [richNodes]; omega) = (1 / ρ) ^ (order + step * c) := by
  simp [richNodes]

/-- **The weights sum to one and annihilate each modelled error power** (any field, pairwise
distinct nodes): `Σ_i w_i = 1` and `Σ_i w_i ρ^(-i k_c) = 0` for `k_c = order + step c`, `c < nt`. -/
theorem richRule_moments (ρ : K) (step order numTerms len : ℕ)
    (hd : (richNodes ρ step order (richTerms numTerms len)).Nodup) :
    evalP (richRule ρ step order numTerms len) 1 = 1 ∧
    ∀ c < richTerms numTerms len,
      evalP (richRule ρ step order numTerms len) ((1 / ρ) ^ (order + step * c)) = 0 := by
  unfold richRule
  simp only
  split_ifs with h
  · refine ⟨by simp, fun c hc => by omega⟩
  · set nt := richTerms numTerms len
    have hlen := richNodes_length ρ step order nt
    constructor
    · have := evalP_lagrangeCoeffs _ hd 0 0 (by omega) (by omega)
      simpa [richNodes] using this
    · intro c hc
      have := evalP_lagrangeCoeffs _ hd 0 (c + 1) (by omega) (by omega)
      rw [richNodes_getElem_succ ρ step order nt c hc] at this
      simpa using this

/-- output `t` of `Richardson.__call__` is `Σ_j rule[j] * seq[t+j]` (orientation, origin, trimming) -/
theorem richCall_getElem? (ρ : K) (step order numTerms : ℕ) (seq : List K) (t : ℕ)
    (ht : t < seq.length - richTerms numTerms seq.length) :
    (richCall ρ step order numTerms seq)[t]?
      = some (dotF (richRule ρ step order numTerms seq.length) (fun j => seq.getD (t + j) 0)) := by
  have hl : t < (richCall ρ step order numTerms seq).length := by rw [richCall_length]; exact ht
  rw [List.getElem?_eq_getElem hl]
  unfold richCall at hl ⊢
  rw [correlate_getElem _ _ _ hl]

/-- **Richardson annihilates the modelled terms**: a sequence `L + Σ_{c<nt} a_c h_t^(order+step c)`
sampled at `h_t = h0 ρ^(-t)` is mapped to `L` in every output slot. -/
theorem richardson_annihilates (ρ : K) (step order numTerms : ℕ) (L h0 : K) (a : ℕ → K) (seq : List K)
    (hd : (richNodes ρ step order (richTerms numTerms seq.length)).Nodup)
    (hseq : ∀ s < seq.length, seq[s]? = some (L + ∑ c ∈ range (richTerms numTerms seq.length),
          a c * (h0 * (1 / ρ) ^ s) ^ (order + step * c))) :
    ∀ y ∈ richCall ρ step order numTerms seq, y = L := by
  intro y hy
  obtain ⟨t, ht, rfl⟩ := List.mem_iff_getElem.mp hy
  have htl : t < seq.length - richTerms numTerms seq.length := by rwa [richCall_length] at ht
  have hsome := richCall_getElem? ρ step order numTerms seq t htl
  rw [List.getElem?_eq_getElem ht] at hsome
  rw [Option.some.inj hsome]
  set N := seq.length with hN
  set nt := richTerms numTerms N with hnt
  set w := richRule ρ step order numTerms N with hw
  have hwl : w.length = nt + 1 := richRule_length ρ step order numTerms N
  obtain ⟨hm1, hm0⟩ := richRule_moments ρ step order numTerms N hd
  -- rewrite the sampled values inside the window
  have hcongr : dotF w (fun j => seq.getD (t + j) 0)
      = dotF w (fun j => L * 1 ^ j + ∑ c ∈ range nt,
          (a c * (h0 * (1 / ρ) ^ t) ^ (order + step * c)) * ((1 / ρ) ^ (order + step * c)) ^ j) := by
    apply dotF_congr
    intro j hj
    have hjN : t + j < N := by omega
    rw [List.getD_eq_getElem?_getD, hseq (t + j) hjN]
    simp only [Option.getD_some, one_pow, mul_one]
    congr 1
    apply Finset.sum_congr rfl
    intro c _
    rw [pow_add, ← pow_mul]
    ring
  rw [hcongr, dotF_add, dotF_pow, dotF_finset_sum]
  rw [hm1, mul_one]
  have : ∑ c ∈ range nt, dotF w (fun j =>
      (a c * (h0 * (1 / ρ) ^ t) ^ (order + step * c)) * ((1 / ρ) ^ (order + step * c)) ^ j) = 0 := by
    apply Finset.sum_eq_zero
    intro c hc
    rw [dotF_pow, hm0 c (Finset.mem_range.mp hc), mul_zero]
  rw [this, add_zero]

/-- columns of a 2-d sequence are treated independently -/
theorem richardson_columnwise (ρ : K) (step order numTerms : ℕ) (cols : List (List K)) (c : ℕ)
    (hc : c < cols.length) :
    (richCall2 ρ step order numTerms cols)[c]'(by simp [richCall2]; exact hc)
      = richCall ρ step order numTerms cols[c] := by
  simp [richCall2]

end field

/-! ### the nodes are pairwise distinct -/
section ordered
variable {K : Type} [Field K] [LinearOrder K] [IsStrictOrderedRing K]

theorem richNodes_nodup_real (ρ : K) (hρ : 1 < ρ) (step order nt : ℕ) (ho : 1 ≤ order) (hs : 1 ≤ step) :
    (richNodes ρ step order nt).Nodup := by
  have h0 : (0 : K) < 1 / ρ := by positivity
  have h1 : 1 / ρ < 1 := by
    rw [div_lt_one (by linarith)]; exact hρ
  have hanti : StrictAnti (fun k : ℕ => (1 / ρ) ^ k) := pow_right_strictAnti₀ h0 h1
  unfold richNodes
  rw [List.nodup_cons]
  constructor
  · simp only [List.mem_map, List.mem_range, not_exists, not_and]
    intro c _ h
    have h' : (1 / ρ) ^ (order + step * c) = 1 := by simpa using h
    have : (1 / ρ) ^ (order + step * c) < (1 / ρ) ^ 0 := hanti (by omega)
    rw [h', pow_zero] at this
    exact lt_irrefl _ this
  · refine (List.nodup_range).map_on ?_
    intro c _ c' _ h
    have h' : (1 / ρ) ^ (order + step * c) = (1 / ρ) ^ (order + step * c') := by simpa using h
    have hinj := hanti.injective h'
    have : step * c = step * c' := by omega
    exact Nat.eq_of_mul_eq_mul_left (by omega) this

/-! The error estimates are stated for a sequence over any carrier `C` (real or complex numbers) with a
non-negative "absolute value" `nrm : C → K` into the ordered field of the estimates. -/
section carrier
variable {C : Type} [Sub C] (nrm : C → K)

theorem maxNrm_nonneg (hn : ∀ c, 0 ≤ nrm c) (a b : C) : 0 ≤ maxNrm nrm a b := by
  unfold maxNrm Gen.maxNrm
  dsimp only
  split_ifs
  · exact hn b
  · exact hn a

/-- error estimates of the first branch are non-negative — for every sequence and for every steps,
negative and complex ones included (`|steps|` is what enters since the repair recorded in
known_findings.json; before it the statement needed `0 ≤ s` for every step, and the implementation
returned negative estimates for the negative steps of a limit from below) -/
theorem richErrShort_nonneg (hn : ∀ c, 0 ≤ nrm c) (eps fact : K) (he : 0 ≤ eps) (hf : 0 ≤ fact)
    (new steps : List C) : ∀ e ∈ richErrShort nrm eps fact new steps, 0 ≤ e := by
  intro e he'
  unfold richErrShort at he'
  rw [List.mem_iff_getElem] at he'
  obtain ⟨i, hi, rfl⟩ := he'
  simp only [List.getElem_zipWith, Gen.richErrShortElem]
  have hi' : i < steps.length := by simp at hi; omega
  have hi'' : i < new.length := by simp at hi; omega
  have := hn steps[i]
  have := hn new[i]
  positivity

theorem richFact_nonneg (t95 eps10 s : K) (h10 : 0 ≤ eps10) : 0 ≤ richFact t95 eps10 s := by
  unfold richFact pyMax
  split_ifs with h
  · exact h10
  · exact le_trans h10 (not_lt.mp h)

/-- error estimates of the main branch are non-negative, for every input -/
theorem richErrGo_nonneg (hn : ∀ c, 0 ≤ nrm c) (eps ten fact : K) (he : 0 ≤ eps) (ht : 0 ≤ ten) (hf : 0 ≤ fact) :
    ∀ (new old : List C), ∀ e ∈ richErrGo nrm eps ten fact new old, 0 ≤ e
  | [], _ => by simp [richErrGo]
  | [_], _ => by simp [richErrGo]
  | _ :: _ :: _, [] => by simp [richErrGo]
  | a :: b :: rest, o :: os => by
    intro e he'
    simp only [richErrGo, List.mem_cons] at he'
    rcases he' with rfl | h
    · have h1 := hn (b - a)
      have h2 : 0 ≤ Gen.maxNrm nrm b a := maxNrm_nonneg nrm hn b a
      have h3 := hn (a - o)
      simp only [Gen.richErrMainElem]
      split_ifs <;> positivity
    · exact richErrGo_nonneg hn eps ten fact he ht hf (b :: rest) os e h

theorem richErrMain_nonneg (hn : ∀ c, 0 ≤ nrm c) (eps ten fact : K) (he : 0 ≤ eps) (ht : 0 ≤ ten) (hf : 0 ≤ fact)
    (new old : List C) : ∀ e ∈ richErrMain nrm eps ten fact new old, 0 ≤ e :=
  richErrGo_nonneg nrm hn eps ten fact he ht hf _ _

end carrier

/-- real sequences: `nrm = |·|` -/
theorem richErrMain_nonneg_real (eps ten fact : K) (he : 0 ≤ eps) (ht : 0 ≤ ten) (hf : 0 ≤ fact)
    (new old : List K) : ∀ e ∈ richErrMain (Num.abs : K → K) eps ten fact new old, 0 ≤ e :=
  richErrMain_nonneg _ (fun c => by simp only [num_abs]; exact abs_nonneg c) eps ten fact he ht hf new old

end ordered

/-! ### complex ratios with modulus above one -/
section cplx
/-- complex sequences (complex step ratio, spiral path): the estimates are non-negative reals -/
theorem richErr_nonneg_complex (eps ten fact : ℝ) (he : 0 ≤ eps) (ht : 0 ≤ ten) (hf : 0 ≤ fact) (new old steps : List ℂ) :
    (∀ e ∈ richErrMain (fun z : ℂ => ‖z‖) eps ten fact new old, 0 ≤ e) ∧
    (∀ e ∈ richErrShort (fun z : ℂ => ‖z‖) eps fact new steps, 0 ≤ e) :=
  ⟨richErrMain_nonneg _ (fun c => norm_nonneg c) eps ten fact he ht hf new old,
   richErrShort_nonneg _ (fun c => norm_nonneg c) eps fact he hf new steps⟩

theorem richNodes_nodup_complex (ρ : ℂ) (hρ : 1 < ‖ρ‖) (step order nt : ℕ) (ho : 1 ≤ order) (hs : 1 ≤ step) :
    (richNodes ρ step order nt).Nodup := by
  -- the moduli of the nodes are the (distinct) real nodes for ratio ‖ρ‖
  have hreal := richNodes_nodup_real (‖ρ‖) hρ step order nt ho hs
  have hmap : (richNodes ρ step order nt).map (fun z => ‖z‖) = richNodes (‖ρ‖) step order nt := by
    simp only [richNodes, List.map_cons, List.map_map, Function.comp_def, npow_eq]
    have h1 : ‖(1 : ℂ)‖ = 1 := by simpa using Complex.norm_natCast 1
    refine congrArg₂ _ h1 (List.map_congr_left fun c _ => ?_)
    rw [Complex.norm_pow, Complex.norm_div, h1]
  exact List.Nodup.of_map _ (hmap ▸ hreal)
end cplx

/-! ### non-vacuity -/
example : (richNodes (2 : ℚ) 2 2 2).Nodup := by decide +kernel
example : richRule (2 : ℚ) 1 1 2 3 = [1/3, -2, 8/3] := by decide +kernel

end Ndt
