/-!
# Number systems for the executable models (core Lean only, no Mathlib)

Every model in `Ndt/Model` is written once against the small class `Num` (or
against the plain core classes `Add Sub Mul Div Neg` when no order is needed)
and is then instantiated

* at `Float`   – run by the driver and compared bit for bit with numpy,
* at `Rat`     – run by the driver on dyadic / rational inputs (exact),
* at an arbitrary ordered field – inside the proof files (Mathlib there only).
-/
namespace Ndt

/-- The operations a model may use on its number type. -/
class Num (K : Type) extends Add K, Sub K, Mul K, Div K, Neg K, LT K, LE K where
  abs : K → K
  zero : K
  one : K
  ofNat : Nat → K
  decLt : ∀ a b : K, Decidable (a < b)
  decLe : ∀ a b : K, Decidable (a ≤ b)

instance {K} [Num K] (a b : K) : Decidable (a < b) := Num.decLt a b
instance {K} [Num K] (a b : K) : Decidable (a ≤ b) := Num.decLe a b

instance floatNum : Num Float where
  abs := Float.abs
  zero := 0.0
  one := 1.0
  ofNat := Float.ofNat
  decLt := fun a b => Float.decLt a b
  decLe := fun a b => Float.decLe a b

instance ratNum : Num Rat where
  abs := fun a => if a < 0 then -a else a
  zero := 0
  one := 1
  ofNat := fun n => (n : Rat)
  decLt := fun _ _ => inferInstance
  decLe := fun _ _ => inferInstance

/-- numpy's `np.maximum(np.abs a, np.abs b)` for non-NaN arguments. -/
def maxAbs {K} [Num K] (a b : K) : K :=
  let x := Num.abs a; let y := Num.abs b; if x < y then y else x

/-- `max a b` as Python's builtin computes it: `b if b > a else a`. -/
def pyMax {K} [Num K] (a b : K) : K := if a < b then b else a

end Ndt
