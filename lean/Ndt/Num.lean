/-!
# Number systems for the executable models (core Lean only, no Mathlib)

Every model in `Ndt/Model` is written once against the small class `Num` (or
against the plain core classes `Add Sub Mul Div Neg` when no order is needed)
and is then instantiated

* at `Float`   – run by the driver and compared bit for bit with numpy,
* at `Rat`     – run by the driver on dyadic / rational inputs (exact),
* at an arbitrary ordered field – inside the proof files (Mathlib there only).
-/
namespace Ndt

/-- The operations a model may use on its number type. -/
class Num (K : Type) extends Add K, Sub K, Mul K, Div K, Neg K, LT K, LE K where
  abs : K → K
  zero : K
  one : K
  ofNat : Nat → K
  decLt : ∀ a b : K, Decidable (a < b)
  decLe : ∀ a b : K, Decidable (a ≤ b)
  /-- IEEE not-a-number test (constantly `false` for exact number types) -/
  isNan : K → Bool := fun _ => false
  /-- the value numpy returns for an empty / all-NaN reduction (`nan`; unreachable for exact types) -/
  nan : K := zero

instance {K} [Num K] (a b : K) : Decidable (a < b) := Num.decLt a b
instance {K} [Num K] (a b : K) : Decidable (a ≤ b) := Num.decLe a b

instance floatNum : Num Float where
  abs := Float.abs
  zero := 0.0
  one := 1.0
  ofNat := Float.ofNat
  decLt := fun a b => Float.decLt a b
  decLe := fun a b => Float.decLe a b
  isNan := Float.isNaN
  nan := 0.0 / 0.0

instance ratNum : Num Rat where
  abs := fun a => if a < 0 then -a else a
  zero := 0
  one := 1
  ofNat := fun n => (n : Rat)
  decLt := fun _ _ => inferInstance
  decLe := fun _ _ => inferInstance

/-- numpy's `np.maximum(np.abs a, np.abs b)` for non-NaN arguments. -/
def maxAbs {K} [Num K] (a b : K) : K :=
  let x := Num.abs a; let y := Num.abs b; if x < y then y else x

/-- `max a b` as Python's builtin computes it: `b if b > a else a`. -/
def pyMax {K} [Num K] (a b : K) : K := if a < b then b else a

end Ndt

namespace Ndt
/-- complex numbers over `K` (Gaussian rationals for `K = Rat`): the carrier of `x + 1j*h`, of
complex step ratios and of complex-valued sequences in the exact runs. -/
structure Cx (K : Type) where
  re : K
  im : K
deriving Repr, BEq, DecidableEq

namespace Cx
variable {K : Type} [Add K] [Sub K] [Mul K] [Div K] [Neg K] [OfNat K 0] [OfNat K 1]
instance : Add (Cx K) := ⟨fun a b => ⟨a.re + b.re, a.im + b.im⟩⟩
instance : Sub (Cx K) := ⟨fun a b => ⟨a.re - b.re, a.im - b.im⟩⟩
instance : Neg (Cx K) := ⟨fun a => ⟨-a.re, -a.im⟩⟩
instance : Mul (Cx K) := ⟨fun a b => ⟨a.re * b.re - a.im * b.im, a.re * b.im + a.im * b.re⟩⟩
instance : Div (Cx K) := ⟨fun a b =>
  let d := b.re * b.re + b.im * b.im
  ⟨(a.re * b.re + a.im * b.im) / d, (a.im * b.re - a.re * b.im) / d⟩⟩
instance : OfNat (Cx K) 0 := ⟨⟨0, 0⟩⟩
instance : OfNat (Cx K) 1 := ⟨⟨1, 0⟩⟩
def ofReal (x : K) : Cx K := ⟨x, 0⟩
def I : Cx K := ⟨0, 1⟩
end Cx
end Ndt

namespace Ndt
instance : NatCast Float := ⟨Float.ofNat⟩
end Ndt
