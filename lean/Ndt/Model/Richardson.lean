import Ndt.Num
import Ndt.Model.Poly
import Ndt.Gen.RichErr
/-!
Model of `numdifftools.extrapolation.Richardson` (extrapolation.py:456-576).

* `rule(sequence_length)`: `pinv(r_mat)[0]` with `r_mat[i, 0] = 1`, `r_mat[i, c+1] =
  (1/ρ)^(i (step c + order))`, i.e. row 0 of the inverse of the Vandermonde matrix of the nodes
  `1, ρ^-(order), ρ^-(order+step), …` — the coefficient list of the Lagrange basis polynomial of
  node 0 (`pinv` ≙ exact inverse is an assumption recorded in the trusted base).
* `__call__`: `convolve(sequence, rule[::-1], axis=0, origin=n_r//2)[:m]`, `m = len - n_r`.
* `_estimate_error`: the two branches reachable from `__call__`.
-/
namespace Ndt
section alg
variable {K : Type} [Add K] [Sub K] [Mul K] [Div K] [Neg K] [OfNat K 0] [OfNat K 1]

/-- the nodes `t_0 = 1, t_{c+1} = (1/ρ)^(order + step c)` -/
def richNodes (ρ : K) (step order nt : Nat) : List K :=
  1 :: (List.range nt).map (fun c => npow (1 / ρ) (order + step * c))

/-- `num_terms = min(self.num_terms, sequence_length - 1)` -/
def richTerms (numTerms len : Nat) : Nat := min numTerms (len - 1)

/-- `Richardson.rule(sequence_length)` -/
def richRule (ρ : K) (step order numTerms len : Nat) : List K :=
  let nt := richTerms numTerms len
  if nt = 0 then [1] else lagrangeCoeffs (richNodes ρ step order nt) 0

/-- `Richardson.__call__` on one column: the extrapolated sequence -/
def richCall (ρ : K) (step order numTerms : Nat) (seq : List K) : List K :=
  correlate (richRule ρ step order numTerms seq.length) seq

/-- a 2-d sequence is a list of columns; `axis=0` treats them independently -/
def richCall2 (ρ : K) (step order numTerms : Nat) (cols : List (List K)) : List (List K) :=
  cols.map (richCall ρ step order numTerms)
end alg

section err
variable {K : Type} [Num K] {C : Type} [Sub C]

/-- `np.sum(np.abs(rule) ** 2)`; `nrm` is `np.abs` on the carrier of the weights (real or complex) -/
def sumSqN (nrm : C → K) (l : List C) : K := l.foldl (fun acc x => acc + nrm x * nrm x) Num.zero

/-- `fact = max(12.7062047361747 * sqrt(cov1), EPS * 10)`; `sqrtCov` is passed in because `sqrt` is
not a field operation (the Float driver computes it with `Float.sqrt`; the theorems only need
`0 ≤ sqrtCov`). -/
def richFact (t95 eps10 sqrtCov : K) : K := pyMax (t95 * sqrtCov) eps10

/-- `max_abs(a, b) = np.maximum(np.abs a, np.abs b)` on a normed carrier (generated) -/
abbrev maxNrm (nrm : C → K) (a b : C) : K := Gen.maxNrm nrm a b

/-- first branch of `_estimate_error` (`m_old < 2`): `(|new| * EPS + |steps|) * fact`, elementwise with the *generated* element
function.  The sequence and the steps live in a carrier `C` (real or complex numbers), the estimates in the ordered field `K`;
`nrm = np.abs`. -/
def richErrShort (nrm : C → K) (eps fact : K) (new steps : List C) : List K :=
  List.zipWith (fun n s => Gen.richErrShortElem nrm eps fact n s) new steps

/-- `np.diff` -/
def diffs : List C → List C
  | a :: b :: rest => (b - a) :: diffs (b :: rest)
  | _ => []

/-- the elementwise loop of the last branch of `_estimate_error`: the *generated* element function on the aligned slices
`new[:-1]`, `new[1:]`, `old[-m+1:]` -/
def richErrGo (nrm : C → K) (eps ten fact : K) : List C → List C → List K
  | a :: b :: rest, o :: os =>
    Gen.richErrMainElem nrm eps ten fact a b o :: richErrGo nrm eps ten fact (b :: rest) os
  | _, _ => []

/-- last branch of `_estimate_error`: `new` has `m ≥ 2` entries, the result `m - 1`:
`err + where(err <= tol, tol*10, |new[:-1] - old[-m+1:]| * fact)` -/
def richErrMain (nrm : C → K) (eps ten fact : K) (new old : List C) : List K :=
  richErrGo nrm eps ten fact new (old.drop (old.length - (new.length - 1)))

end err

section errReal
variable {K : Type} [Num K]
/-- `np.sum(np.abs(rule) ** 2)` for real weights -/
def sumSq (l : List K) : K := sumSqN (Num.abs : K → K) l
end errReal
end Ndt
