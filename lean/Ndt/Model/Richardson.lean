import Ndt.Num
import Ndt.Model.Poly
/-!
Model of `numdifftools.extrapolation.Richardson` (extrapolation.py:456-576).

* `rule(sequence_length)`: `pinv(r_mat)[0]` with `r_mat[i, 0] = 1`, `r_mat[i, c+1] =
  (1/ρ)^(i (step c + order))`, i.e. row 0 of the inverse of the Vandermonde matrix of the nodes
  `1, ρ^-(order), ρ^-(order+step), …` — the coefficient list of the Lagrange basis polynomial of
  node 0 (`pinv` ≙ exact inverse is an assumption recorded in the trusted base).
* `__call__`: `convolve(sequence, rule[::-1], axis=0, origin=n_r//2)[:m]`, `m = len - n_r`.
* `_estimate_error`: the two branches reachable from `__call__`.
-/
namespace Ndt
section alg
variable {K : Type} [Add K] [Sub K] [Mul K] [Div K] [Neg K] [OfNat K 0] [OfNat K 1]

/-- the nodes `t_0 = 1, t_{c+1} = (1/ρ)^(order + step c)` -/
def richNodes (ρ : K) (step order nt : Nat) : List K :=
  1 :: (List.range nt).map (fun c => npow (1 / ρ) (order + step * c))

/-- `num_terms = min(self.num_terms, sequence_length - 1)` -/
def richTerms (numTerms len : Nat) : Nat := min numTerms (len - 1)

/-- `Richardson.rule(sequence_length)` -/
def richRule (ρ : K) (step order numTerms len : Nat) : List K :=
  let nt := richTerms numTerms len
  if nt = 0 then [1] else lagrangeCoeffs (richNodes ρ step order nt) 0

/-- `Richardson.__call__` on one column: the extrapolated sequence -/
def richCall (ρ : K) (step order numTerms : Nat) (seq : List K) : List K :=
  correlate (richRule ρ step order numTerms seq.length) seq

/-- a 2-d sequence is a list of columns; `axis=0` treats them independently -/
def richCall2 (ρ : K) (step order numTerms : Nat) (cols : List (List K)) : List (List K) :=
  cols.map (richCall ρ step order numTerms)
end alg

section err
variable {K : Type} [Num K]

def sumSq (l : List K) : K := l.foldl (fun acc x => acc + Num.abs x * Num.abs x) Num.zero

/-- `fact = max(12.7062047361747 * sqrt(cov1), EPS * 10)`; `sqrtCov` is passed in because `sqrt` is
not a field operation (the Float driver computes it with `Float.sqrt`; the theorems only need
`0 ≤ sqrtCov`). -/
def richFact (t95 eps10 sqrtCov : K) : K := pyMax (t95 * sqrtCov) eps10

/-- first branch of `_estimate_error` (`m_old < 2`): `(|new| * EPS + steps) * fact` -/
def richErrShort (eps fact : K) (new steps : List K) : List K :=
  List.zipWith (fun n s => (Num.abs n * eps + s) * fact) new steps

/-- `np.diff` -/
def diffs : List K → List K
  | a :: b :: rest => (b - a) :: diffs (b :: rest)
  | _ => []

/-- the elementwise loop of the last branch of `_estimate_error` -/
def richErrGo (eps ten fact : K) : List K → List K → List K
  | a :: b :: rest, o :: os =>
    let err := Num.abs (b - a) * fact
    let tol := maxAbs b a * eps * fact
    (err + (if err ≤ tol then tol * ten else Num.abs (a - o) * fact)) :: richErrGo eps ten fact (b :: rest) os
  | _, _ => []

/-- last branch of `_estimate_error`: `new` has `m ≥ 2` entries, the result `m - 1`:
`err + where(err <= tol, tol*10, |new[:-1] - old[-m+1:]| * fact)` -/
def richErrMain (eps ten fact : K) (new old : List K) : List K :=
  richErrGo eps ten fact new (old.drop (old.length - (new.length - 1)))

end err
end Ndt
