import Ndt.Num
import Ndt.Gen.NdScipy
/-!
Model of `nd_scipy.Jacobian` / `Gradient` (nd_scipy.py).  `scipy.optimize._numdiff.approx_derivative` is an
*external* function: it is a parameter of the model, with its documented contract
(`'cs'`: `Im f(x + i h e_j) / h`; with bounds every evaluation point stays in the box).
-/
namespace Ndt
open Ndt.Gen

/-- the keyword arguments `Jacobian.__call__` hands to `approx_derivative` -/
structure ScipyOptions (A B S : Type) where
  method : ScipyMethod
  relStep : S
  args : A
  bounds : B

/-- `Jacobian.__call__(x, *args, **kwds)`: the options handed on, or `none` (KeyError) for an unknown method -/
def ndScipyOptions {A B S : Type} (m : Method) (step : S) (bounds : B) (args : A) : Option (ScipyOptions A B S) :=
  (ndScipyMethod m).map (fun sm => ⟨sm, step, args, bounds⟩)

/-- the complex-step quotient of the contract of `'cs'`, entry `(i, j)` -/
def csEntry {K : Type} [Add K] [Mul K] [Div K] [OfNat K 0]
    (f : (Nat → Cx K) → Nat → Cx K) (x : Nat → K) (h : K) (i j : Nat) : K :=
  (f (fun k => ⟨x k, if k = j then h else 0⟩) i).im / h

/-- `Gradient.__call__`: the `(1, n)` Jacobian of a scalar function, squeezed -/
def ndScipyGradShape (n : Nat) : List Nat := if n = 1 then [] else [n]

end Ndt
