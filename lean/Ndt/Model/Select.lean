import Ndt.Num
import Ndt.Model.Dea3
/-!
Model of the selection stage shared by every derivative class and by `Limit`
(limits.py: `_add_error_to_outliers`, `_get_arg_min`, `_get_best_estimate`), after the `fix:` commits.

Tables are flat row-major lists with `ncols` columns (row = step index, column = element), exactly the
layout the code indexes with `ravel_multi_index` / `.flat[idx]`.
-/
namespace Ndt
variable {K : Type} [Num K]

structure SelConsts (K : Type) where
  trim : K      -- 10
  tinyMed : K   -- 1e-8
  iqrFact : K   -- 1.5
  half : K      -- 0.5

/-- column `c` of a flat row-major table -/
def column (flat : List K) (nrows ncols c : Nat) : List K :=
  (List.range nrows).map (fun r => flat.getD (r * ncols + c) Num.zero)

def insertSorted (x : K) : List K → List K
  | [] => [x]
  | y :: ys => if x ≤ y then x :: y :: ys else y :: insertSorted x ys

def sortK (l : List K) : List K := l.foldr insertSorted []

/-- `numpy._lerp(a, b, t)` -/
def lerp (half : K) (a b t : K) : K :=
  let d := b - a
  if half ≤ t then b - d * (Num.one - t) else a + d * t

/-- `np.(nan)percentile(col, 25·k)` with the default linear method, on the NaN-free sorted column:
virtual index `(n-1)·k/4`, neighbours `floor` and `floor+1` (clipped), weight = fractional part -/
def quartile (half : K) (sorted : List K) (k : Nat) : K :=
  let n := sorted.length
  if n = 0 then Num.nan
  else
    let v := k * (n - 1)
    let prev := v / 4
    let next := min (prev + 1) (n - 1)
    let gamma : K := Num.ofNat (v % 4) / Num.ofNat 4
    lerp half (sorted.getD prev Num.zero) (sorted.getD next Num.zero) gamma

/-- `_add_error_to_outliers` for one (real) column -/
def outlierErrors (c : SelConsts K) (col : List K) : List K :=
  let clean := sortK (col.filter (fun x => !Num.isNan x))
  let p25 := quartile c.half clean 1
  let median := quartile c.half clean 2
  let p75 := quartile c.half clean 3
  let iqr := Num.abs (p75 - p25)
  let amed := Num.abs median
  col.map (fun d =>
    let wild : Bool := (decide (Num.abs d < amed / c.trim) || decide (amed * c.trim < Num.abs d)) && decide (c.tinyMed < amed)
    let far : Bool := decide (d < p25 - c.iqrFact * iqr) || decide (p75 + c.iqrFact * iqr < d)
    (if wild || far then Num.one else Num.zero) * Num.abs (d - median))

/-- minimum of the non-NaN entries (`np.nanmin`) -/
def nanMin (l : List K) : Option K :=
  (l.filter (fun x => !Num.isNan x)).foldl (fun acc x => match acc with
    | none => some x
    | some m => if x < m then some x else some m) none

/-- `_get_arg_min` for one column: the middle one of the rows attaining the minimum; row 0 for an all-NaN
column -/
def argMinRow (errs : List K) : Nat :=
  match nanMin errs with
  | none => 0
  | some m =>
    let idx := (List.range errs.length).filter (fun i => decide (errs.getD i Num.zero ≤ m) && decide (m ≤ errs.getD i Num.zero))
    idx.getD (idx.length / 2) 0

structure Best (K : Type) where
  value : List K
  err : List K
  step : List K
  index : List Nat      -- flat indices `row * ncols + col`
deriving Repr

/-- `_get_best_estimate(der, errors, steps, shape)` on flat row-major tables -/
def bestEstimate (c : SelConsts K) (nrows ncols : Nat) (der errs steps : List K) : Best K :=
  let total : Nat → List K := fun col =>
    List.zipWith (· + ·) (column errs nrows ncols col) (outlierErrors c (column der nrows ncols col))
  let rows := (List.range ncols).map (fun col => argMinRow (total col))
  let idx := (List.range ncols).map (fun col => rows.getD col 0 * ncols + col)
  { value := idx.map (fun i => der.getD i Num.zero)
    err := (List.range ncols).map (fun col => (total col).getD (rows.getD col 0) Num.zero)
    step := idx.map (fun i => steps.getD i Num.zero)
    index := idx }

end Ndt

namespace Ndt
variable {K : Type} [Num K]

/-- `_wynn_extrapolate` on a flat row-major table: `dea3(der[0:-2], der[1:-1], der[2:])`, cell `i` of the
result uses cells `i`, `i + ncols`, `i + 2 ncols`; returns the new estimates and their error estimates
(`nrows - 2` rows) -/
def wynnTable (dc : Consts K) (nrows ncols : Nat) (der : List K) : List K × List K :=
  let cells := (List.range ((nrows - 2) * ncols)).map (fun i =>
    dea3 dc (der.getD i Num.zero) (der.getD (i + ncols) Num.zero) (der.getD (i + 2 * ncols) Num.zero))
  (cells.map Prod.fst, cells.map Prod.snd)

/-- `_Limit._extrapolate` after the Richardson stage: Wynn's dea3 when more than two rows remain, then the
selection of the best estimate per column -/
def tailStage (dc : Consts K) (sc : SelConsts K) (nrows ncols : Nat) (der errs steps : List K) : Best K :=
  if 2 < nrows then
    let w := wynnTable dc nrows ncols der
    bestEstimate sc (nrows - 2) ncols w.1 w.2 (steps.drop (2 * ncols))
  else bestEstimate sc nrows ncols der errs steps

end Ndt
