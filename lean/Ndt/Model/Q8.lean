import Ndt.Num
import Ndt.Model.Diff
import Ndt.Model.Poly
/-!
`ℚ(ζ₈)` over any field-like `K`: `a + b ζ + c ζ² + d ζ³` with `ζ⁴ = -1` (`ζ = _SQRT_J`, `ζ² = 1j`), the exact carrier
of the complex-step quotients in the driver.  Real and imaginary parts lie in `K(√2)`; they are returned as their
rational part and their coefficient of `√2` (`Re ζ = Im ζ = √2/2`, `Re ζ³ = -√2/2`, `Im ζ³ = √2/2`).
-/
namespace Ndt
structure Q8 (K : Type) where
  a : K
  b : K
  c : K
  d : K
deriving Repr, BEq, DecidableEq

namespace Q8
variable {K : Type} [Add K] [Sub K] [Mul K] [Div K] [Neg K] [OfNat K 0] [OfNat K 1] [OfNat K 2]
instance : Add (Q8 K) := ⟨fun u v => ⟨u.a + v.a, u.b + v.b, u.c + v.c, u.d + v.d⟩⟩
instance : Sub (Q8 K) := ⟨fun u v => ⟨u.a - v.a, u.b - v.b, u.c - v.c, u.d - v.d⟩⟩
instance : Neg (Q8 K) := ⟨fun u => ⟨-u.a, -u.b, -u.c, -u.d⟩⟩
/-- multiplication modulo `ζ⁴ = -1` -/
instance : Mul (Q8 K) := ⟨fun u v =>
  ⟨u.a * v.a - u.b * v.d - u.c * v.c - u.d * v.b,
   u.a * v.b + u.b * v.a - u.c * v.d - u.d * v.c,
   u.a * v.c + u.b * v.b + u.c * v.a - u.d * v.d,
   u.a * v.d + u.b * v.c + u.c * v.b + u.d * v.a⟩⟩
instance : OfNat (Q8 K) 0 := ⟨⟨0, 0, 0, 0⟩⟩
instance : OfNat (Q8 K) 1 := ⟨⟨1, 0, 0, 0⟩⟩
def ofReal (x : K) : Q8 K := ⟨x, 0, 0, 0⟩

/-- the operations the quotients need, reading off the rational part of `re` / `im` -/
def cstepRat : CStep K (Q8 K) := ⟨ofReal, ⟨0, 0, 1, 0⟩, ⟨0, 1, 0, 0⟩, fun u => u.a, fun u => u.c⟩
/-- the same, reading off the coefficient of `√2` (which must vanish for real polynomials) -/
def cstepSqrt2 : CStep K (Q8 K) := ⟨ofReal, ⟨0, 0, 1, 0⟩, ⟨0, 1, 0, 0⟩, fun u => (u.b - u.d) / 2, fun u => (u.b + u.d) / 2⟩
end Q8
end Ndt
