import Ndt.Num
import Ndt.Model.Diff
/-!
Where the user function is evaluated: the argument lists of every difference function of the four classes
(finite_difference.py:46-333), written with the same floating-point operations as the code so that the
`Float` instance reproduces the arguments bit for bit.

A coordinate of an argument is `Pt4 = (z1.re, z1.im, z2.re, z2.im)`: real arguments are `(t, 0, 0, 0)`,
`x + 1j*h` is `(x, h, 0, 0)`, `Bicomplex(x + 1j*h, h)` is `(x, h, h, 0)`.
A vector argument is given by its *changed* coordinates `[(k, value)]`; every other coordinate is exactly `x_k`.
-/
namespace Ndt
variable {K : Type} [Num K]

structure Pt4 (K : Type) where
  re : K
  im : K
  z2re : K
  z2im : K
deriving Repr, DecidableEq

def Pt4.real (t : K) : Pt4 K := ⟨t, Num.zero, Num.zero, Num.zero⟩

/-- platform constants: the two floats of `_SQRT_J`, and `np.sqrt(2)` -/
structure PtConsts (K : Type) where
  sjre : K
  sjim : K
  sqrt2 : K

/-- arguments of the scalar `DifferenceFunctions.<name>(f, fx, x, h)` for one element, in call order -/
def pointsScalar (c : PtConsts K) (d : DiffName) (x h : K) : List (Pt4 K) :=
  let ihre := h * c.sjre
  let ihim := h * c.sjim
  let zeta : List (Pt4 K) := [⟨x + ihre, ihim, Num.zero, Num.zero⟩, ⟨x - ihre, Num.zero - ihim, Num.zero, Num.zero⟩]
  match d with
  | .central | .central_even => [Pt4.real (x + h), Pt4.real (x - h)]
  | .forward => [Pt4.real (x + h)]
  | .backward => [Pt4.real (x - h)]
  | .complex => [⟨x, h, Num.zero, Num.zero⟩]
  | .complex_odd | .complex_odd_higher | .complex_even | .complex_even_higher => zeta
  | .multicomplex => [⟨x, h, Num.zero, Num.zero⟩]
  | .multicomplex2 => [⟨x, h, h, Num.zero⟩]

/-- an argument of a function of several variables: the changed coordinates -/
abbrev EvalPt (K : Type) := List (Nat × Pt4 K)

def getK (l : List K) (i : Nat) : K := l.getD i Num.zero

/-- `JacobianDifferenceFunctions.<name>(f, fx, x, h)`: one coordinate at a time -/
def pointsJacobian (c : PtConsts K) (d : DiffName) (x h : List K) : List (EvalPt K) :=
  (List.range x.length).flatMap (fun k =>
    (pointsScalar c d (getK x k) (getK h k)).map (fun p => [(k, p)]))

/-- `HessdiagDifferenceFunctions.<name>`; `_central2` also evaluates at `x ± 2 h_k e_k`; `_complex_even` divides by
`np.sqrt(2)` instead of multiplying by `_SQRT_J` -/
def pointsHessdiag (c : PtConsts K) (d : String) (x h : List K) : List (EvalPt K) :=
  (List.range x.length).flatMap (fun k =>
    let xk := getK x k; let hk := getK h k
    let two : K := Num.ofNat 2
    let pts : List (Pt4 K) :=
      if d == "_central2" then [Pt4.real (xk + two * hk), Pt4.real (xk - two * hk), Pt4.real (xk + hk), Pt4.real (xk - hk)]
      else if d == "_central_even" then [Pt4.real (xk + hk), Pt4.real (xk - hk)]
      else if d == "_forward" then [Pt4.real (xk + hk)]
      else if d == "_backward" then [Pt4.real (xk - hk)]
      else if d == "_multicomplex2" then [⟨xk, hk, hk, Num.zero⟩]
      else if d == "_complex_even" then
        -- numpy divides a complex number by a real one by multiplying with the reciprocal
        let s := hk * (Num.one / c.sqrt2)
        [⟨xk + s, s, Num.zero, Num.zero⟩, ⟨xk - s, Num.zero - s, Num.zero, Num.zero⟩]
      else []
    pts.map (fun p => [(k, p)]))

/-- `HessianDifferenceFunctions.<name>`: pairs `i ≤ j` -/
def pointsHessian (d : String) (x h : List K) : List (EvalPt K) :=
  let n := x.length
  let xi := getK x; let hi := getK h
  let two : K := Num.ofNat 2
  let pairs := (List.range n).flatMap (fun i => (List.range (n - i)).map (fun t => (i, i + t)))
  if d == "_complex_even" then
    pairs.flatMap (fun (i, j) =>
      if i == j then [[(i, ⟨xi i + hi i, hi i, Num.zero, Num.zero⟩)], [(i, ⟨xi i - hi i, hi i, Num.zero, Num.zero⟩)]]
      else [[(i, ⟨xi i, hi i, Num.zero, Num.zero⟩), (j, Pt4.real (xi j + hi j))],
            [(i, ⟨xi i, hi i, Num.zero, Num.zero⟩), (j, Pt4.real (xi j - hi j))]])
  else if d == "_multicomplex2" then
    pairs.map (fun (i, j) =>
      if i == j then [(i, ⟨xi i, hi i, hi i, Num.zero⟩)]
      else [(i, ⟨xi i, hi i, Num.zero, Num.zero⟩), (j, ⟨xi j, Num.zero, hi j, Num.zero⟩)])
  else if d == "_central_even" then
    (List.range n).flatMap (fun i =>
      [[(i, Pt4.real (xi i + two * hi i))], [(i, Pt4.real (xi i - two * hi i))]] ++
      (List.range (n - i - 1)).flatMap (fun t =>
        let j := i + 1 + t
        [[(i, Pt4.real (xi i + hi i)), (j, Pt4.real (xi j + hi j))], [(i, Pt4.real (xi i + hi i)), (j, Pt4.real (xi j - hi j))],
         [(i, Pt4.real (xi i - hi i)), (j, Pt4.real (xi j + hi j))], [(i, Pt4.real (xi i - hi i)), (j, Pt4.real (xi j - hi j))]]))
  else if d == "_central2" then
    (List.range n).flatMap (fun i => [[(i, Pt4.real (xi i + hi i))], [(i, Pt4.real (xi i - hi i))]]) ++
    pairs.flatMap (fun (i, j) =>
      if i == j then [[(i, Pt4.real (xi i + hi i + hi i))], [(i, Pt4.real (xi i - hi i - hi i))]]
      else [[(i, Pt4.real (xi i + hi i)), (j, Pt4.real (xi j + hi j))], [(i, Pt4.real (xi i - hi i)), (j, Pt4.real (xi j - hi j))]])
  else if d == "_forward" || d == "_backward" then
    -- `_backward` is `_forward` with `-h`: `x + (-h)`
    let s : Nat → K := fun i => if d == "_backward" then Num.zero - hi i else hi i
    (List.range n).map (fun i => [(i, Pt4.real (xi i + s i))]) ++
    pairs.map (fun (i, j) =>
      if i == j then [(i, Pt4.real (xi i + s i + s i))]
      else [(i, Pt4.real (xi i + s i)), (j, Pt4.real (xi j + s j))])
  else []

end Ndt
