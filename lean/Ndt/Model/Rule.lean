import Ndt.Gen.LogRule
import Ndt.Model.Poly
/-!
Model of `LogRule.rule` / `LogRule._fd_matrix` (finite_difference.py:455-559).

`_fd_matrix(ρ, parity, nterms)[i][j] = c_j (1/ρ)^(i k_j)` with `k_j = offset + step j`,
`c_j = c_0 / k_j!`; `rule = ± pinv(matrix)[rule_index]`.  Row `r` of the inverse is
`(1/c_r) ·` (coefficients of the Lagrange basis polynomial of node `τ_r` among `τ_j = ρ^-k_j`).
The integer logic (parity, number of terms, index, flip, tables) is the *generated* code in
`Ndt.Gen.LogRule`; `pinv` ≙ exact inverse is an assumption of the trusted base.
-/
namespace Ndt
open Ndt.Gen
variable {K : Type} [Add K] [Sub K] [Mul K] [Div K] [Neg K] [OfNat K 0] [OfNat K 1] [NatCast K]

/-- exponent of column `j` of the moment matrix -/
def fdExponent (parity j : Nat) : Nat := fd_offset parity + fd_step parity * j

def fdNodes (ρ : K) (parity nterms : Nat) : List K :=
  (List.range nterms).map (fun j => npow (1 / ρ) (fdExponent parity j))

def natFactorial : Nat → Nat
  | 0 => 1
  | n + 1 => (n + 1) * natFactorial n

/-- `c_j = c_0 / k_j!` -/
def fdC (parity j : Nat) : K := (fd_c_0 parity : K) / (natFactorial (fdExponent parity j) : K)

/-- row `r` of the inverse of `_fd_matrix(ρ, parity, nterms)` -/
def fdRow (ρ : K) (parity nterms r : Nat) : List K :=
  pscale (1 / fdC parity r) (lagrangeCoeffs (fdNodes ρ parity nterms) r)

/-- `LogRule.rule(step_ratio)` (the ratio already passed through `make_exact`) -/
def fdRule (ρ : K) (r : LogRule) : List K :=
  if r.method == .multicomplex || r.n == 0 then [1]
  else
    let parity := r._parity r.method (r.n - 1) r.method_order
    let w := fdRow ρ parity r.num_terms r.rule_index
    if r._flip_fd_rule then w.map (fun x => -x) else w

/-- `LogRule._apply` on one column: `convolve(f_del, rule[::-1], origin=n_r//2) / h**n`, first
`max(num_steps - n_r, 1)` entries (the `_assert(n_r < num_steps)` guard is modelled in `Guards`). -/
def fdApply (ρ : K) (r : LogRule) (fdel steps : List K) : List K :=
  List.zipWith (fun d h => d / npow h r.n) (correlate (fdRule ρ r) fdel) steps

end Ndt
