/-!
Coefficient-list polynomials (low degree first), Lagrange basis coefficients, weighted sums.
Executable, core only.  These are the closed forms behind both the finite-difference rule
(`LogRule.rule`, row `r` of the inverse of the moment matrix) and the Richardson rule
(`Richardson.rule`, row 0 of the inverse of a Vandermonde matrix).
-/
namespace Ndt
variable {K : Type} [Add K] [Sub K] [Mul K] [Div K] [Neg K] [OfNat K 0] [OfNat K 1]

/-- natural power by repeated multiplication -/
def npow (x : K) : Nat → K
  | 0 => 1
  | n + 1 => npow x n * x

/-- add coefficient lists, padding with the longer tail -/
def padd : List K → List K → List K
  | [], q => q
  | p, [] => p
  | a :: p, b :: q => (a + b) :: padd p q

/-- `p(t) * (t - a)` -/
def mulLinear (p : List K) (a : K) : List K := padd (0 :: p) (p.map (fun c => (-a) * c))

def pscale (c : K) (p : List K) : List K := p.map (fun x => c * x)

/-- Horner evaluation -/
def evalP (p : List K) (t : K) : K := p.foldr (fun c acc => c + t * acc) 0

/-- coefficients of `Π_j (t - t_j)/(tr - t_j)` accumulated onto `acc` -/
def lagrangeAux (tr : K) : List K → List K → List K
  | [], acc => acc
  | tj :: rest, acc => lagrangeAux tr rest (pscale (1 / (tr - tj)) (mulLinear acc tj))

/-- coefficients of the Lagrange basis polynomial of node `r` among `nodes` -/
def lagrangeCoeffs (nodes : List K) (r : Nat) : List K :=
  match nodes[r]? with
  | none => []
  | some tr => lagrangeAux tr (nodes.eraseIdx r) [1]

/-- `Σ_i w[i] * s[i]` over the common prefix -/
def wsum : List K → List K → K
  | a :: as, b :: bs => a * b + wsum as bs
  | _, _ => 0

/-- `Σ_i w[i] * g i` -/
def dotF : List K → (Nat → K) → K
  | [], _ => 0
  | a :: as, g => a * g 0 + dotF as (fun i => g (i + 1))

/-- the correlation used by `LogRule._apply` and `Richardson.__call__`:
`convolve(seq, w[::-1], axis=0, origin=n_r//2)[:m]`, output `t` is `Σ_j w[j] * seq[t+j]`;
`m = len - n_r` outputs are untouched by the reflecting boundary. -/
def correlate (w : List K) (seq : List K) : List K :=
  (List.range (seq.length + 1 - w.length)).map (fun t => wsum w (seq.drop t))

end Ndt
