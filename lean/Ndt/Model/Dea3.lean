import Ndt.Num
/-!
Model of `numdifftools.extrapolation.dea3` (extrapolation.py:378-453), one
element of the vectorised computation.  `Consts` carries the platform
constants (`_EPS`, `_TINY`, the literal `1.0e-4`, the literal `10`).
-/
namespace Ndt

structure Consts (K : Type) where
  eps : K
  tiny : K
  small : K
  ten : K

/-- one element of `dea3(v0, v1, v2)`: `(result, abserr)` -/
def dea3 {K} [Num K] (c : Consts K) (e0 e1 e2 : K) : K × K :=
  let delta2 := e2 - e1
  let delta1 := e1 - e0
  let err2 := Num.abs delta2
  let err1 := Num.abs delta1
  let tol2 := maxAbs e2 e1 * c.eps
  let tol1 := maxAbs e1 e0 * c.eps
  let delta1 := if err1 < c.tiny then c.tiny else delta1
  let delta2 := if err2 < c.tiny then c.tiny else delta2
  let sss := Num.one / delta2 - Num.one / delta1 + c.tiny
  let smalle2 := Num.abs (sss * e1) ≤ c.small
  let converged := err1 ≤ tol1 ∨ err2 ≤ tol2 ∨ smalle2
  let result := if converged then e2 * Num.one else e1 + Num.one / sss
  let abserr := err1 + err2 + (if converged then tol2 * c.ten else Num.abs (result - e2))
  (result, abserr)

/-- the vectorised call on three equally long lists -/
def dea3List {K} [Num K] (c : Consts K) : List K → List K → List K → List (K × K)
  | a :: as, b :: bs, d :: ds => dea3 c a b d :: dea3List c as bs ds
  | _, _, _ => []

/-- `dea3(v0, v1, v2, symmetric)`: with `symmetric` and more than one element the last result
and the first error are dropped (extrapolation.py:451-453). -/
def dea3Call {K} [Num K] (c : Consts K) (sym : Bool) (v0 v1 v2 : List K) : List K × List K :=
  let r := dea3List c v0 v1 v2
  let res := r.map Prod.fst
  let err := r.map Prod.snd
  if sym && decide (1 < res.length) then (res.dropLast, err.drop 1) else (res, err)

end Ndt

namespace Ndt
/-- the guarded `sss` of `dea3` -/
def dea3Sss {K} [Num K] (c : Consts K) (e0 e1 e2 : K) : K :=
  let delta2 := e2 - e1
  let delta1 := e1 - e0
  let delta1 := if Num.abs delta1 < c.tiny then c.tiny else delta1
  let delta2 := if Num.abs delta2 < c.tiny then c.tiny else delta2
  Num.one / delta2 - Num.one / delta1 + c.tiny

/-- the documented convergence / irregular-behaviour guard of `dea3` -/
def dea3Converged {K} [Num K] (c : Consts K) (e0 e1 e2 : K) : Prop :=
  Num.abs (e1 - e0) ≤ maxAbs e1 e0 * c.eps ∨ Num.abs (e2 - e1) ≤ maxAbs e2 e1 * c.eps ∨
    Num.abs (dea3Sss c e0 e1 e2 * e1) ≤ c.small

instance {K} [Num K] (c : Consts K) (e0 e1 e2 : K) : Decidable (dea3Converged c e0 e1 e2) := by
  unfold dea3Converged; exact inferInstance
end Ndt
