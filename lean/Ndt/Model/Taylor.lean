import Ndt.Num
/-!
Model of `fornberg.Taylor` / `taylor` / `derivative` (fornberg.py:183-674), the parts that are logic:

* `_num_taylor_coefficients(n)`: the number `m` of coefficients computed, as the threshold table the installed
  floating-point `log2` actually produces (validated exhaustively for `n = 1 … 192`), `n ≥ 193` raises;
* `_extrapolate(bs, rs, m)`: two Richardson passes over the radii;
* the iteration of `Taylor.__call__`: `failed = not converged`, where `converged` is what the last executed
  `_check_convergence` returned; the state is re-initialised by every call;
* `derivative`: coefficients and error estimates times `k!`.
-/
namespace Ndt

/-- `_num_taylor_coefficients(n)`; `none` = ValueError (`n ≥ 193`) -/
def numTaylor (n : Nat) : Option Nat :=
  if ¬ n < 193 then none
  else if n ≤ 6 then some 8 else if n ≤ 13 then some 16 else if n ≤ 27 then some 32
  else if n ≤ 52 then some 64 else if n ≤ 103 then some 128 else some 256

section extrap
variable {K : Type} [Add K] [Sub K] [Mul K] [Div K] [OfNat K 1]

/-- `richardson(vals, k, c) = vals[k] - (vals[k] - vals[k-1]) / c` -/
def rich1 (vk vk1 c : K) : K := vk - (vk - vk1) / c

/-- first pass of `_extrapolate`: `c = 1 - (rs[k-1]/rs[k])**m`, `k = 1 … nk-1`; `u t = rs[t]**m` is passed in -/
def extrapPass1 (bs u : Nat → K) (nk : Nat) : List K :=
  (List.range (nk - 1)).map (fun i => rich1 (bs (i + 1)) (bs i) (1 - u i / u (i + 1)))

/-- second pass: `c = 1 - (rs[k-1]/rs[k+1])**m`, `k = 1 … nk-2` on the first-pass values -/
def extrapPass2 (e0 : Nat → K) (u : Nat → K) (nk : Nat) : List K :=
  (List.range (nk - 2)).map (fun i => rich1 (e0 (i + 1)) (e0 i) (1 - u i / u (i + 2)))
end extrap

/-- the `for i in range(max_iter)` loop of `Taylor.__call__` with an abstract per-iteration convergence test:
returns `(iterations executed, converged)` -/
def taylorLoop (converged : Nat → Bool) : Nat → Nat → Nat × Bool
  | 0, i => (i, false)
  | fuel + 1, i => if converged i then (i + 1, true) else taylorLoop converged fuel (i + 1)

/-- `failed = not converged` -/
def taylorFailed (converged : Nat → Bool) (maxIter : Nat) : Bool := !(taylorLoop converged maxIter 0).2

/-! ### the radius search of `Taylor._check_convergence` as a state machine

What the numerics contribute per iteration (the outputs of `_check_fft` and `_poor_convergence`) is the input; the bookkeeping
(`_direction_changes`, `_degenerate`, `_num_changes`, `_previous_direction`, the number of square roots applied to the growth factor)
is the state. -/
structure RadState where
  dirChanges : Nat
  degenerate : Bool
  numChanges : Nat
  prevDir : Option Bool
  sqrtCount : Nat
deriving Repr, DecidableEq

/-- `fftDegenerate`, `fftSmaller`: the pair `_check_fft` returns; `poor`: `_poor_convergence` (consulted only when `fftSmaller` is false) -/
structure RadIn where
  fftDegenerate : Bool
  fftSmaller : Bool
  poor : Bool
deriving Repr, DecidableEq

def radInit : RadState := ⟨0, false, 0, none, 0⟩

/-- one call of `_check_convergence(i, …)`: `(converged, new state, direction taken)`; direction `some true` = the radius shrinks -/
def radStep (numExtrap : Nat) (s : RadState) (i : Nat) (inp : RadIn) : Bool × RadState × Option Bool :=
  let bracket := decide (s.dirChanges > 1) || s.degenerate
  let numChanges := if bracket then s.numChanges + 1 else s.numChanges
  if bracket && decide (numChanges ≥ 1 + numExtrap) then (true, { s with numChanges := numChanges }, none)
  else
    let degenerate := if s.degenerate then true else inp.fftDegenerate
    let needsSmaller0 := if s.degenerate then false else (inp.fftSmaller || inp.poor)
    let needsSmaller := if degenerate then i % 2 == 0 else needsSmaller0
    let dirChanges := match s.prevDir with
      | some d => if needsSmaller != d then s.dirChanges + 1 else s.dirChanges
      | none => s.dirChanges
    let sqrtCount := if dirChanges > 0 then s.sqrtCount + 1 else s.sqrtCount
    (false, ⟨dirChanges, degenerate, numChanges, some needsSmaller, sqrtCount⟩, some needsSmaller)

/-- the loop of `Taylor.__call__` over the inputs of successive iterations: `(iterations executed, converged, final state)` -/
def radRun (numExtrap : Nat) : RadState → Nat → List RadIn → Nat × Bool × RadState
  | s, i, [] => (i, false, s)
  | s, i, inp :: rest =>
    let r := radStep numExtrap s i inp
    if r.1 then (i + 1, true, r.2.1) else radRun numExtrap r.2.1 (i + 1) rest

end Ndt
