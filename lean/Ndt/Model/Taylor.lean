import Ndt.Num
/-!
Model of `fornberg.Taylor` / `taylor` / `derivative` (fornberg.py:183-674), the parts that are logic:

* `_num_taylor_coefficients(n)`: the number `m` of coefficients computed, as the threshold table the installed
  floating-point `log2` actually produces (validated exhaustively for `n = 1 … 192`), `n ≥ 193` raises;
* `_extrapolate(bs, rs, m)`: two Richardson passes over the radii;
* the iteration of `Taylor.__call__`: `failed = not converged`, where `converged` is what the last executed
  `_check_convergence` returned; the state is re-initialised by every call;
* `derivative`: coefficients and error estimates times `k!`.
-/
namespace Ndt

/-- `_num_taylor_coefficients(n)`; `none` = ValueError (`n ≥ 193`) -/
def numTaylor (n : Nat) : Option Nat :=
  if ¬ n < 193 then none
  else if n ≤ 6 then some 8 else if n ≤ 13 then some 16 else if n ≤ 27 then some 32
  else if n ≤ 52 then some 64 else if n ≤ 103 then some 128 else some 256

section extrap
variable {K : Type} [Add K] [Sub K] [Mul K] [Div K] [OfNat K 1]

/-- `richardson(vals, k, c) = vals[k] - (vals[k] - vals[k-1]) / c` -/
def rich1 (vk vk1 c : K) : K := vk - (vk - vk1) / c

/-- first pass of `_extrapolate`: `c = 1 - (rs[k-1]/rs[k])**m`, `k = 1 … nk-1`; `u t = rs[t]**m` is passed in -/
def extrapPass1 (bs u : Nat → K) (nk : Nat) : List K :=
  (List.range (nk - 1)).map (fun i => rich1 (bs (i + 1)) (bs i) (1 - u i / u (i + 1)))

/-- second pass: `c = 1 - (rs[k-1]/rs[k+1])**m`, `k = 1 … nk-2` on the first-pass values -/
def extrapPass2 (e0 : Nat → K) (u : Nat → K) (nk : Nat) : List K :=
  (List.range (nk - 2)).map (fun i => rich1 (e0 (i + 1)) (e0 i) (1 - u i / u (i + 2)))
end extrap

/-- the `for i in range(max_iter)` loop of `Taylor.__call__` with an abstract per-iteration convergence test:
returns `(iterations executed, converged)` -/
def taylorLoop (converged : Nat → Bool) : Nat → Nat → Nat × Bool
  | 0, i => (i, false)
  | fuel + 1, i => if converged i then (i + 1, true) else taylorLoop converged fuel (i + 1)

/-- `failed = not converged` -/
def taylorFailed (converged : Nat → Bool) (maxIter : Nat) : Bool := !(taylorLoop converged maxIter 0).2

end Ndt
