import Ndt.Model.Fornberg
import Ndt.Model.Poly
/-!
Model of `numdifftools.fornberg.fd_derivative` (fornberg.py:126-180).

The routine is a sequence of stores `du[idx] = dot(fd_weights(x[lo:hi], x0=x[c], n), fx[lo:hi])`.
`fdStores` lists them in program order with Python's slice clamping and negative-index
wrap-around made explicit; the array after the stores holds, at each index, the value of the *last*
store to it (0 where nothing was stored: `np.zeros_like`).
-/
namespace Ndt

/-- one store: target index, window `[lo, hi)`, index of the expansion node -/
structure FdStore where
  idx : Nat
  lo : Nat
  hi : Nat
  c : Nat
deriving Repr, DecidableEq

/-- the stores of `fd_derivative` in program order, for `num_x` points -/
def fdStores (numX n m : Nat) : List FdStore :=
  let mm := n / 2 + m
  let size := 2 * mm + 2
  let sz := min size numX                -- `x[:size]`, `x[-size:]` clamp to the array
  let boundary := (List.range mm).flatMap (fun i =>
    [ { idx := i, lo := 0, hi := sz, c := i },
      -- `du[-i-1]`, `x[-i-1]`: index `num_x - 1 - i`
      { idx := numX - 1 - i, lo := numX - sz, hi := numX, c := numX - 1 - i } ])
  let interior := (List.range (numX - mm - mm)).map (fun t =>
    let i := mm + t
    { idx := i, lo := i - mm, hi := i + mm + 1, c := i : FdStore })
  boundary ++ interior

/-- the last store to index `i`, if any -/
def lastStore (stores : List FdStore) (i : Nat) : Option FdStore :=
  stores.reverse.find? (fun s => s.idx == i)

inductive FdOutcome (K : Type) where
  | ok (du : List K)
  | valueError
  | indexError
deriving Repr, DecidableEq

variable {K : Type} [Add K] [Sub K] [Mul K] [Div K] [OfNat K 0] [OfNat K 1] [NatCast K]

/-- value of one store -/
def fdStoreValue (fx x : List K) (n : Nat) (s : FdStore) : K :=
  let xw := (x.drop s.lo).take (s.hi - s.lo)
  let fw := (fx.drop s.lo).take (s.hi - s.lo)
  match fdWeights xw (x.getD s.c 0) n with
  | some w => wsum w fw
  | none => 0

/-- `fd_derivative(fx, x, n, m)` -/
def fdDerivative (fx x : List K) (n m : Nat) : FdOutcome K :=
  let numX := x.length
  if ¬ n < numX then .valueError            -- _assert(n < num_x, ...)
  else if numX ≠ fx.length then .valueError -- _assert(num_x == len(fx), ...)
  else if numX < n / 2 + m then .indexError -- du[-i-1] with i ≥ num_x
  else
    let stores := fdStores numX n m
    .ok ((List.range numX).map (fun i =>
      match lastStore stores i with
      | some s => fdStoreValue fx x n s
      | none => 0))

end Ndt
