import Ndt.Num
/-!
Model of `numdifftools.extrapolation.Dea` (extrapolation.py:33-219), the QUADPACK `DQELG`
translation, with *checked* array accesses: an out-of-range index is the outcome `indexError`, a
slice assignment whose two sides differ in length (and the source is not of length 1) is
`valueError`; negative indices wrap and slices clamp as in numpy.

And of `EpsAlg` (extrapolation.py:222-265).
-/
namespace Ndt

inductive PyErr | indexError | valueError
deriving Repr, DecidableEq

abbrev PyM := Except PyErr

structure DeaConsts (K : Type) where
  eps : K
  huge : K
  small : K    -- 1e-4
  five : K
  six : K

structure DeaState (K : Type) where
  limexp : Nat          -- the odd value stored by the `limexp` setter
  epstab : Array K      -- size limexp + 5; the last three entries are `res3la`
  n : Nat               -- `_n`
  nres : Nat            -- `_nres`

variable {K : Type} [Num K]

/-- `Dea(limexp)`; `none` when `_assert(n >= 3)` fails -/
def deaInit (limexp : Nat) : Option (DeaState K) :=
  let n := 2 * (limexp / 2) + 1
  if 3 ≤ n then some ⟨n, Array.replicate (n + 5) Num.zero, 0, 0⟩ else none

/-- Python `a[i]` for an integer index (negative indices wrap) -/
def aget (a : Array K) (i : Int) : PyM K :=
  let j := if i < 0 then i + (a.size : Int) else i
  if 0 ≤ j ∧ j < (a.size : Int) then pure (a.getD j.toNat Num.zero) else throw .indexError

def aset (a : Array K) (i : Int) (v : K) : PyM (Array K) :=
  let j := if i < 0 then i + (a.size : Int) else i
  if 0 ≤ j ∧ j < (a.size : Int) then pure (a.setIfInBounds j.toNat v) else throw .indexError

/-- indices of the slice `lo:hi:step` (non-negative bounds) of an array of the given size -/
def sliceIdx (size lo hi step : Nat) : List Nat :=
  let hi := min hi size
  if lo < hi then (List.range ((hi - lo + step - 1) / step)).map (fun k => lo + step * k) else []

/-- `a[dst] = a[src]` for two slices of the same array (numpy copies on overlap; a length-1 source
broadcasts) -/
def sliceAssign (a : Array K) (dst src : List Nat) : PyM (Array K) :=
  let vals := src.map (fun i => a.getD i Num.zero)
  if vals.length = dst.length then
    pure ((dst.zip vals).foldl (fun acc p => acc.setIfInBounds p.1 p.2) a)
  else if vals.length = 1 then
    pure (dst.foldl (fun acc i => acc.setIfInBounds i (vals.headD Num.zero)) a)
  else throw .valueError

/-- `_shift_table(epstab, n, newelm, old_n)` -/
def shiftTable (t : Array K) (n newelm oldN : Nat) : PyM (Array K) := do
  let i0 := oldN % 2
  let iN := 2 * newelm + 2
  let t ← sliceAssign t (sliceIdx t.size i0 iN 2) (sliceIdx t.size (i0 + 2) (iN + 2) 2)
  if oldN ≠ n then
    let d := oldN - n
    sliceAssign t (sliceIdx t.size 0 (n + 1) 1) (sliceIdx t.size d (d + n + 1) 1)
  else pure t

/-- `_update_res3la(res3la, result, nres)`; `res3la` is the view `epstab[-3:]` -/
def updateRes3la (t : Array K) (result : K) (nres : Nat) : PyM (Array K) := do
  let b := t.size - 3
  if 2 < nres then
    let t ← sliceAssign t [b, b + 1] [b + 1, b + 2]
    aset t ((b + 2 : Nat) : Int) result
  else aset t ((b + nres : Nat) : Int) result

/-- loop state of the `for i in range(newelm)` loop of `_dea` -/
structure DeaLoop (K : Type) where
  t : Array K
  k1 : Nat
  result : K
  abserr : K
  n : Nat
  allConverged : Bool
  stop : Bool

def deaIter (c : DeaConsts K) (s : DeaLoop K) (i : Nat) : PyM (DeaLoop K) := do
  if s.stop then return s
  let res ← aget s.t ((s.k1 : Int) + 2)
  let e0 ← aget s.t ((s.k1 : Int) - 2)
  let e1 ← aget s.t ((s.k1 : Int) - 1)
  let e2 := res
  let delta2 := e2 - e1
  let delta3 := e1 - e0
  let err2 := Num.abs delta2
  let err3 := Num.abs delta3
  let e1abs := Num.abs e1
  let tol2 := pyMax (Num.abs e2) e1abs * c.eps
  let tol3 := pyMax e1abs (Num.abs e0) * c.eps
  let allConv := ¬ (tol2 < err2 ∨ tol3 < err3)
  if allConv then
    return { s with result := res, abserr := err2 + err3, allConverged := true, stop := true }
  let e3 ← aget s.t (s.k1 : Int)
  let t ← aset s.t (s.k1 : Int) e1
  let delta1 := e1 - e3
  let err1 := Num.abs delta1
  let tol1 := pyMax e1abs (Num.abs e3) * c.eps
  let anyConv0 : Bool := err1 ≤ tol1 ∨ err2 ≤ tol2 ∨ err3 ≤ tol3
  let sss := Num.one / delta1 + Num.one / delta2 - Num.one / delta3
  let anyConv : Bool := if anyConv0 then true else decide (Num.abs (sss * e1) ≤ c.small)
  if anyConv then
    return { s with t := t, n := 2 * i, allConverged := false, stop := true }
  let res := e1 + Num.one / sss
  let t ← aset t (s.k1 : Int) res
  let error := err2 + Num.abs (res - e2) + err3
  let s' := { s with t := t, k1 := s.k1 - 2, allConverged := false }
  if ¬ (s.abserr < error) then return { s' with abserr := error, result := res }
  return s'

/-- `np.abs(result - res3la[:nres]).sum()` -/
def res3laSpread (t : Array K) (result : K) (nres : Nat) : K :=
  let b := t.size - 3
  ((List.range (min nres 3)).map (fun i => Num.abs (result - t.getD (b + i) Num.zero))).foldl (· + ·) Num.zero

/-- the head of `_dea` and its `for i in range(newelm)` loop -/
def deaLoopRun (c : DeaConsts K) (st : DeaState K) (n : Nat) : PyM (DeaLoop K) := do
  let t := st.epstab
  let result ← aget t (n : Int)
  let v ← aget t (n : Int)
  let t ← aset t ((n : Int) + 2) v
  let t ← aset t (n : Int) c.huge
  (List.range (n / 2)).foldlM (deaIter c) ⟨t, n, result, c.huge, n, false, false⟩

/-- the tail of `_dea` (label 50): cap `n`, shift the table, spread of the last results, `res3la` -/
def deaPost (st : DeaState K) (s : DeaLoop K) (newelm oldN : Nat) : PyM (Array K × Nat × K) :=
  let n := if s.n = st.limexp - 1 then st.limexp - 2 else s.n
  if s.allConverged then pure (s.t, n, s.abserr)
  else
    (shiftTable s.t n newelm oldN).bind fun t =>
    let abserr := if 1 < st.nres then res3laSpread t s.result st.nres else s.abserr
    (updateRes3la t s.result st.nres).bind fun t => pure (t, n, abserr)

/-- `_dea(epstab, n)`: returns `(result, abserr)` and the new state (`n` as returned, `_nres + 1`) -/
def deaCore (c : DeaConsts K) (st : DeaState K) (n : Nat) : PyM (K × K × DeaState K) :=
  (deaLoopRun c st n).bind fun s =>
  (deaPost st s (n / 2) n).bind fun p =>
  pure (s.result, pyMax p.2.2 (c.five * c.eps * Num.abs s.result),
    { st with epstab := p.1, n := p.2.1, nres := st.nres + 1 })

/-- `Dea.__call__(s_value)` -/
def deaCall (c : DeaConsts K) (st : DeaState K) (sv : K) : PyM (K × K × DeaState K) := do
  let n := st.n
  let t ← aset st.epstab (n : Int) sv
  let st := { st with epstab := t }
  if n = 0 then
    return (sv, Num.abs sv, { st with n := 1 })
  else if n = 1 then
    let e0 ← aget t 0
    return (sv, pyMax (c.six * Num.abs (sv - e0)) (c.five * c.eps * Num.abs sv), { st with n := 2 })
  else
    let (r, e, st') ← deaCore c st n
    return (r, e, { st' with n := st'.n + 1 })

/-! ### EpsAlg -/

/-- one cell update of `EpsAlg.__call__` -/
def epsUpd (g big aux1 cur o : K) : K :=
  if Num.abs (cur - o) ≤ g then big else aux1 + Num.one / (cur - o)

/-- the downward in-place loop, on the reversed old table -/
def sweepAux (g big : K) : List K → K → K → List K
  | [], _, _ => []
  | o :: rest, cur, aux1 =>
      let nv := epsUpd g big aux1 cur o
      nv :: sweepAux g big rest nv o

/-- `EpsAlg.__call__`: append `s`, sweep; returns the new table -/
def epsStep (g big : K) (old : List K) (s : K) : List K :=
  (s :: sweepAux g big old.reverse s Num.zero).reverse

/-- the value returned after feeding a term to a table that held `n` terms: `epstab[n % 2]` -/
def epsEstimate (tab : List K) (n : Nat) : K := tab.getD (n % 2) Num.zero

end Ndt
