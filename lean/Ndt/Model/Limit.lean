import Ndt.Num
import Ndt.Model.Richardson
/-!
Model of `limits.Limit` / `Residue` (limits.py:220-515).

* `_lim`: steps `sign * step` (`sign = +1` for `above`/`forward`, `-1` for `below`/`backward`), the sampled sequence
  `f(z + h)`, Richardson with `step = 1`, `order = 1`, `num_terms = order + 1` and the generator's ratio;
* `_call_lim`: only the NaN entries of `f(z)` are replaced, in order, by the limits computed for those points
  (`flatnonzero(isnan)` / `np.put`); `none` stands for NaN;
* `Residue._fun`: `fun(z + dz) * dz ** pole_order`.
-/
namespace Ndt
variable {K : Type}

/-- `sign = dict(forward=1, above=1, backward=-1, below=-1)[method]` -/
inductive LimMethod | above | below | forward | backward
deriving DecidableEq, Repr

def limSign [Neg K] [OfNat K 1] : LimMethod → K
  | .above | .forward => 1
  | .below | .backward => -1

/-- the Richardson rule `Limit._lim` installs: `Richardson(step_ratio, step=1, order=1, num_terms=order+1)` -/
def limitExtrapolate [Add K] [Sub K] [Mul K] [Div K] [Neg K] [OfNat K 0] [OfNat K 1]
    (ρ : K) (order : Nat) (seq : List K) : List K :=
  richCall ρ 1 1 (order + 1) seq

/-- `_call_lim`: replace the NaN (`none`) entries of `f(z)`, in order, by the computed limits -/
def callLim : List (Option K) → List K → List (Option K)
  | [], _ => []
  | some v :: rest, lims => some v :: callLim rest lims
  | none :: rest, l :: lims => some l :: callLim rest lims
  | none :: rest, [] => none :: callLim rest []

/-- `Residue._fun(z, dz) = fun(z + dz) * dz ** pole_order` -/
def residueFun [Add K] [Mul K] [OfNat K 1] (f : K → K) (p : Nat) (z dz : K) : K :=
  f (z + dz) * npow dz p

end Ndt
