import Ndt.Num
/-!
Layout model of `Jacobian` / `Gradient` (core.py:344-493, finite_difference.LogJacobianRule._vstack):

* `diff` returns `np.array([... for hi in steps])`: axis 0 is the differentiated coordinate `j`, the remaining
  axes are those of `f(x)` (`(n,)`, `(n, m)` or `(n, m, k)`);
* `_vstack` swaps the first two axes and ravels; `_expand_steps` builds a step array of the same shape whose entry
  is `h[j]`; the final reshape uses `(m, n)` / `(m, n, k)` (or `(1, n)` for a 0-d `f`).
-/
namespace Ndt
variable {K : Type}

/-- shape of the result for an `n`-vector `x` and `f(x)` of shape `fshape` -/
def jacShape (n : Nat) (fshape : List Nat) : List Nat :=
  match fshape with
  | [] => [1, n]
  | [m] => [m, n]
  | [m, k] => [m, n, k]
  | _ => []

/-- one row of the stacked table for `f : R^n → R^m`: `r j i` (axis 0 = coordinate) transposed and raveled -/
def jacRavel2 (n m : Nat) (r : Nat → Nat → K) : List K :=
  ((List.range m).map (fun i => (List.range n).map (fun j => r j i))).flatten

/-- the same for matrix-valued `f` of shape `(m, k)`: `r j i l` with axes `(1, 0, 2)` -/
def jacRavel3 (n m k : Nat) (r : Nat → Nat → Nat → K) : List K :=
  ((List.range m).map (fun i => ((List.range n).map (fun j => (List.range k).map (fun l => r j i l))).flatten)).flatten

/-- `Gradient.__call__`: `squeeze` of the `(1, n)` Jacobian of a scalar function -/
def gradShape (n : Nat) : List Nat := if n = 1 then [] else [n]

end Ndt
