import Ndt.Num
/-!
Model of `numdifftools.fornberg._fd_weights_all`, `fd_weights_all`, `fd_weights`
(fornberg.py:33-123).

`FState` mirrors the loop state after node `i`: the rows `W v j` (`weights[v, j]`), the running
product `c1` and `c4 = x[i] - x0`.  `fstep` is one pass of the outer loop, written with the same
operation order as the Python (so the `Float` instance is bit-comparable):

* old node `v < i`:  `weights[v, j] = (c_4 * c_7 - c_6) / c_3`, `c_6 = j * weights[v, j-1]` (for
  `j = 0` the wrap-around read is multiplied by `0`), `c_7 = weights[v, j]`, both *old* values;
* new node `i`:       `weights[i, j] = c_1 * (c_6 - c_5 * c_7) / c_2` with `c_6, c_7` left over from
  `v = i-1` (old row `i-1`), `c_2 = Π_{v<i} (x[i] - x[v])` accumulated left to right;
* only columns `j ≤ min(i, n)` are touched.

`frunT` materialises the rows as a table after every node (what the driver runs);
`frun` is the function-level recursion the invariant is proved about; they agree (`Proofs/Fornberg`).
-/
namespace Ndt
variable {K : Type} [Add K] [Sub K] [Mul K] [Div K] [OfNat K 0] [OfNat K 1] [NatCast K]

structure FState (K : Type) where
  W : Nat → Nat → K
  c1 : K
  c4 : K

def finit (x : Nat → K) (x0 : K) : FState K :=
  { W := fun v j => if v = 0 ∧ j = 0 then 1 else 0, c1 := 1, c4 := x 0 - x0 }

/-- `c_2` after the inner loop: `((1 * (x i - x 0)) * (x i - x 1)) * …` -/
def fc2 (x : Nat → K) (i : Nat) : K := (List.range i).foldl (fun acc v => acc * (x i - x v)) 1

/-- one pass of the outer loop for node `i ≥ 1` -/
def fstep (x : Nat → K) (x0 : K) (n : Nat) (s : FState K) (i : Nat) : FState K :=
  let mn := min i n
  let c5 := s.c4
  let c4 := x i - x0
  let c2 := fc2 x i
  { W := fun v j =>
      if v < i then
        (if j ≤ mn then (c4 * s.W v j - (j : K) * s.W v (j - 1)) / (x i - x v) else s.W v j)
      else if v = i then
        (if j ≤ mn then s.c1 * ((j : K) * s.W (i - 1) (j - 1) - c5 * s.W (i - 1) j) / c2 else 0)
      else s.W v j
    c1 := c2
    c4 := c4 }

/-- function-level run: state after node `i` -/
def frun (x : Nat → K) (x0 : K) (n : Nat) : Nat → FState K
  | 0 => finit x x0
  | i + 1 => fstep x x0 n (frun x x0 n i) (i + 1)

/-- the rows `0..i`, columns `0..n` of a state, as a table -/
def ftab (s : FState K) (i n : Nat) : List (List K) :=
  (List.range (i + 1)).map (fun v => (List.range (n + 1)).map (fun j => s.W v j))

def ofTab (T : List (List K)) (v j : Nat) : K := (T.getD v []).getD j 0

/-- table-level run (executable in linear time): materialise the rows after every node -/
def frunT (x : Nat → K) (x0 : K) (n : Nat) : Nat → FState K
  | 0 => finit x x0
  | i + 1 =>
    let s := frunT x x0 n i
    let s' := fstep x x0 n s (i + 1)
    { s' with W := ofTab (ftab s' (i + 1) n) }

/-- `fd_weights_all(x, x0, n)`: row `k` (0 ≤ k ≤ n) holds the weights of the `k`-th derivative, one per
node; `none` when the guard `n < len(x)` fails (ValueError). -/
def fdWeightsAll (xs : List K) (x0 : K) (n : Nat) : Option (List (List K)) :=
  if n < xs.length then
    let s := frunT (fun i => xs.getD i 0) x0 n (xs.length - 1)
    some ((List.range (n + 1)).map (fun k => (List.range xs.length).map (fun v => s.W v k)))
  else none

/-- `fd_weights(x, x0, n) = fd_weights_all(x, x0, n)[-1]` -/
def fdWeights (xs : List K) (x0 : K) (n : Nat) : Option (List K) :=
  (fdWeightsAll xs x0 n).map (fun rows => rows.getLastD [])

end Ndt
