import Ndt.Gen.Guards
import Ndt.Gen.LogRule
import Ndt.Gen.Steps
/-!
Call-path model of the guards of the public API (which `_assert` lies on which path).
The guard *conditions* are the generated predicates of `Ndt.Gen.Guards`; this file only records
where they sit:

* `Derivative.__call__` (n ≥ 1): `fd_rule.diff` (name resolution → multicomplex `n ≤ 2`),
  `_eval_first` (complex check for the complex-step methods), `_vstack` (size), `_apply` (steps);
* `Jacobian`/`Gradient`: the same, with the complex check done in `_derivative_nonzero_order`;
* `Hessdiag`: rule with `n = 2`; `Hessian`: rule with `n = 2`, fixed order, `apply` is a pass-through;
* `directionaldiff`, `Residue.__init__`, `CStepGenerator._check_path`.
-/
namespace Ndt
open Ndt.Gen

inductive Cls | derivative | gradient | jacobian | hessdiag | hessian
deriving DecidableEq, Repr

inductive Outcome | value | valueError
deriving DecidableEq, Repr

structure Call where
  cls : Cls
  method : Method
  n : Nat              -- requested derivative order (ignored by Hessdiag/Hessian)
  order : Nat
  xComplex : Bool      -- np.any(np.iscomplex(x))
  fComplex : Bool      -- np.any(np.iscomplex(f(x)))
  fdelSize : Nat       -- total size of the stacked difference quotients
  hSize : Nat          -- total size of the stacked steps (equal iff fun returns one value per element)
  numSteps : Nat       -- number of steps the generator produced
deriving Repr

/-- the rule object the class builds -/
def Call.rule (c : Call) : LogRule :=
  match c.cls with
  | .hessdiag => ⟨2, c.method, c.order⟩
  | .hessian => ⟨2, c.method, hessianRuleOrder c.method⟩
  | _ => ⟨c.n, c.method, c.order⟩

def ruleLen (r : LogRule) : Nat :=
  if r.method == .multicomplex || r.n == 0 then 1 else r.num_terms

def isComplexStep (m : Method) : Bool := m == .complex || m == .multicomplex

/-- outcome class of `cls(fun, method=…, n=…, order=…)(x)` -/
def Call.outcome (c : Call) : Outcome :=
  let r := c.rule
  if r.n = 0 then
    (if guard_vstack c.fdelSize c.hSize then .value else .valueError)
  else if !r._multicomplex_middle_name_guard0 then .valueError
  else if !guard_some_steps c.numSteps then .valueError          -- `_get_steps`: zero steps are dropped, none may be left
  else if isComplexStep c.method && !(guard_real_x c.xComplex && guard_real_fx c.fComplex) then .valueError
  else if !(match c.cls with
            | .jacobian | .gradient => guard_vstack_jacobian c.fdelSize c.hSize
            | _ => guard_vstack c.fdelSize c.hSize) then .valueError
  else if c.cls != .hessian && !guard_apply (ruleLen r - 1) c.numSteps then .valueError
  else .value

/-- `directionaldiff(f, x0, vec)` -/
def directionaldiffOutcome (x0Size vecSize : Nat) (inner : Outcome) : Outcome :=
  if guard_directionaldiff x0Size vecSize then inner else .valueError

/-- `Residue(f, order=…, pole_order=…)`: the order used, or ValueError -/
def residueOrder (order : Option Nat) (poleOrder : Nat) : Option Nat :=
  let o := match order with
    | none => poleOrder + 2
    | some o => o
  if guard_residue poleOrder o then some o else none

/-- `CStepGenerator(path=…)` -/
def cstepPathOutcome (isSpiral isRadial : Bool) : Outcome :=
  if guard_path isSpiral isRadial then .value else .valueError

end Ndt
