import Ndt.Num
import Ndt.Model.Diff
import Ndt.Gen.HessCells
/-!
Model of the real-step `HessianDifferenceFunctions` (finite_difference.py:229-333): the double loop fills the
upper triangle `i ≤ j` and mirrors it (`hess[j, i] = hess[i, j]`).  Vectors are functions `Nat → K`.
-/
namespace Ndt
variable {K : Type} [Add K] [Sub K] [Mul K] [Div K] [Neg K] [OfNat K 0] [OfNat K 1] [OfNat K 2] [OfNat K 4]

-- `shift2 x i a j b` = `x + a e_i + b e_j` is declared next to the generated cells, `Ndt.Gen.shift2`
export Ndt.Gen (shift2)

/-- `_forward` (Ridout eq. 7): `(f(x+e_i+e_j) - f(x+e_i) - f(x+e_j) + f(x)) / (h_j h_i)` -/
def hessForwardCell (f : (Nat → K) → K) (fx : K) (x h : Nat → K) (i j : Nat) : K :=
  (f (shift2 x i (h i) j (h j)) - f (shift2 x i (h i) j 0) - f (shift2 x j (h j) i 0) + fx) / (h j * h i)

/-- `_central_even` (eq. 9), off-diagonal and diagonal entries -/
def hessCentralCell (f : (Nat → K) → K) (fx : K) (x h : Nat → K) (i j : Nat) : K :=
  if i = j then (f (shift2 x i (2 * h i) i 0) - 2 * fx + f (shift2 x i (-(2 * h i)) i 0)) / (4 * (h i * h i))
  else (f (shift2 x i (h i) j (h j)) - f (shift2 x i (h i) j (-(h j))) - f (shift2 x i (-(h i)) j (h j))
        + f (shift2 x i (-(h i)) j (-(h j)))) / (4 * (h j * h i))

/-- `_central2` (eq. 8) -/
def hessCentral2Cell (f : (Nat → K) → K) (fx : K) (x h : Nat → K) (i j : Nat) : K :=
  (f (shift2 x i (h i) j (h j)) + f (shift2 x i (-(h i)) j (-(h j)))
    - f (shift2 x i (h i) j 0) - f (shift2 x j (h j) i 0) + fx
    - f (shift2 x i (-(h i)) j 0) - f (shift2 x j (-(h j)) i 0) + fx) / (2 * (h j * h i))

/-- `_complex_even` (Ridout eq. 10): `(f(x + 1j h_i e_i + h_j e_j) - f(x + 1j h_i e_i - h_j e_j)).imag / (2 h_j h_i)` on a complex
carrier `C` (ℂ in the theorem, Gaussian rationals in the driver) -/
def hessComplexCell {C : Type} [Add C] [Sub C] [Mul C] [OfNat C 0] (s : CStep K C) (f : (Nat → C) → C) (x h : Nat → K)
    (i j : Nat) : K :=
  let xc : Nat → C := fun k => s.ofReal (x k)
  s.im (f (shift2 xc i (s.i * s.ofReal (h i)) j (s.ofReal (h j)))
        - f (shift2 xc i (s.i * s.ofReal (h i)) j (s.ofReal (-(h j))))) / (2 * (h j * h i))

/-- the mirrored fill: entry `(i, j)` of the matrix is the cell computed for `(min i j, max i j)` -/
def hessEntry (cell : Nat → Nat → K) (i j : Nat) : K := cell (min i j) (max i j)

/-- the per-step matrix, row-major flat (`np.ravel`), as the pass-through `LogHessianRule.apply` stacks it -/
def hessFlat (cell : Nat → Nat → K) (n : Nat) : List K :=
  (List.range (n * n)).map (fun p => hessEntry cell (p / n) (p % n))

end Ndt
