import Ndt.Gen.LogRule
import Ndt.Gen.Steps
/-!
State-machine model of what persists between calls (finite_difference.FD_RULES, MinStepGenerator._state,
the fields of the derivative objects) — C09.

* the global rule cache: an association list `key ↦ value`; the only write is `FD_RULES[key] = pinv(_fd_matrix key)`,
  i.e. `(key, compute key)` for a pure `compute`;
* a step generator: constructor options (immutable) + `_state = (x, method, n, order)`, overwritten by
  `step_generator_function` at the start of every call, before anything reads it;
* a derivative object: `(n, method, order)` in its rule, `richardson_terms`, `full_output`, a reference to a generator.

`call` is split into the atomic steps the interpreter can interleave with other threads:
`setState → readSteps → cacheGet → (compute → cachePut)? → finish`.
-/
namespace Ndt
open Ndt.Gen

structure RuleKey where
  ratio : Rat
  parity : Nat
  nterms : Nat
deriving DecidableEq, Repr

abbrev Cache (V : Type) := List (RuleKey × V)

def Cache.get? {V} (c : Cache V) (k : RuleKey) : Option V := (c.find? (fun e => e.1 == k)).map Prod.snd

/-- `fd_rules = FD_RULES.get(key); if fd_rules is None: fd_rules = pinv(...); FD_RULES[key] = fd_rules` -/
def Cache.lookupOrCompute {V} (compute : RuleKey → V) (c : Cache V) (k : RuleKey) : Cache V × V :=
  match c.get? k with
  | some v => (c, v)
  | none => ((k, compute k) :: c, compute k)

/-- the cache holds only correct entries -/
def Cache.Inv {V} (compute : RuleKey → V) (c : Cache V) : Prop := ∀ e ∈ c, e.2 = compute e.1

/-- configuration of a derivative object that a call reads -/
structure ObjCfg where
  n : Nat
  method : Method
  order : Nat
  richardsonTerms : Nat
  fullOutput : Bool
  usesRule : Bool       -- false for Hessian (pass-through apply)
deriving DecidableEq, Repr

structure GenSt (X : Type) where
  x : X
  method : Method
  n : Nat
  order : Nat
deriving Repr

/-- the `_state` a call installs: `(x, method, n, method_order)` -/
def stateOf {X} (cfg : ObjCfg) (x : X) : GenSt X :=
  ⟨x, cfg.method, cfg.n, (⟨cfg.n, cfg.method, cfg.order⟩ : LogRule).method_order⟩

/-- the cache key a call with step ratio `ρ` (after `make_exact`) uses; `none` when no rule is looked up
(`multicomplex`, `n = 0`, Hessian) -/
def keyOf (cfg : ObjCfg) (ρ : Rat) : Option RuleKey :=
  let r : LogRule := ⟨cfg.n, cfg.method, cfg.order⟩
  if !cfg.usesRule || cfg.method == .multicomplex || cfg.n == 0 then none
  else some ⟨ρ, r._parity cfg.method (cfg.n - 1) r.method_order, r.num_terms⟩

/-- the world: cache, generators (options + state), objects (configuration + generator index) -/
structure World (V O X : Type) where
  cache : Cache V
  gens : List (O × GenSt X)
  objs : List (ObjCfg × Nat)

/-- parameters of the abstract pipeline: how a generator turns options and state into steps and a ratio, and the pure
function of (configuration, point, steps, rule) the rest of the call computes -/
structure Pipeline (V O X S R : Type) where
  compute : RuleKey → V
  stepsOf : O → GenSt X → S
  ratioOf : O → GenSt X → Rat
  eval : ObjCfg → X → S → Option V → R

/-- the one-line specification: what a call must return -/
def pureCall {V O X S R} (p : Pipeline V O X S R) (cfg : ObjCfg) (opts : O) (x : X) : R :=
  let st := stateOf cfg x
  p.eval cfg x (p.stepsOf opts st) ((keyOf cfg (p.ratioOf opts st)).map p.compute)

/-- a whole call on object `i` (sequential semantics): returns the new world and the result -/
def World.call {V O X S R} (p : Pipeline V O X S R) (w : World V O X) (i : Nat) (x : X) : Option (World V O X × R) :=
  match w.objs[i]? with
  | none => none
  | some (cfg, g) =>
    match w.gens[g]? with
    | none => none
    | some (opts, _old) =>
      let st := stateOf cfg x                                    -- step_generator_function overwrites _state
      let gens := w.gens.set g (opts, st)
      let steps := p.stepsOf opts st
      match keyOf cfg (p.ratioOf opts st) with
      | none => some ({ w with gens := gens }, p.eval cfg x steps none)
      | some k =>
        let (c', v) := w.cache.lookupOrCompute p.compute k
        some ({ w with gens := gens, cache := c' }, p.eval cfg x steps (some v))

inductive Op (O X : Type)
  | construct (cfg : ObjCfg) (opts : O) (x0 : X)      -- new object with its own generator
  | call (i : Nat) (x : X)
  | setN (i n : Nat)
  | setOrder (i order : Nat)
  | setMethod (i : Nat) (m : Method)
  | shareGen (i j : Nat)                               -- objs[i].step = objs[j].step
  | clearCache

def updObj (l : List (ObjCfg × Nat)) (i : Nat) (f : ObjCfg × Nat → ObjCfg × Nat) : List (ObjCfg × Nat) :=
  match l[i]? with
  | none => l
  | some o => l.set i (f o)

/-- one operation; the result is present for `call` -/
def World.step {V O X S R} (p : Pipeline V O X S R) (w : World V O X) : Op O X → World V O X × Option R
  | .construct cfg opts x0 =>
    ({ w with gens := w.gens ++ [(opts, ⟨x0, .forward, 1, 2⟩)], objs := w.objs ++ [(cfg, w.gens.length)] }, none)
  | .call i x =>
    match w.call p i x with
    | none => (w, none)
    | some (w', r) => (w', some r)
  | .setN i n => ({ w with objs := updObj w.objs i (fun o => ({ o.1 with n := n }, o.2)) }, none)
  | .setOrder i order => ({ w with objs := updObj w.objs i (fun o => ({ o.1 with order := order }, o.2)) }, none)
  | .setMethod i m => ({ w with objs := updObj w.objs i (fun o => ({ o.1 with method := m }, o.2)) }, none)
  | .shareGen i j =>
    match w.objs[j]? with
    | none => (w, none)
    | some oj => ({ w with objs := updObj w.objs i (fun o => (o.1, oj.2)) }, none)
  | .clearCache => ({ w with cache := [] }, none)

end Ndt
