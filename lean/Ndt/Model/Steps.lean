import Ndt.Num
import Ndt.Gen.Steps
import Ndt.Gen.LogRule
import Ndt.Model.Poly
/-!
Model of the step generators (step_generators.py, limits.CStepGenerator).

The integer logic (`_num_step_divisor`, `min_num_steps`, `num_steps`, the default ratio, the
constructor defaults, the exponent ranges of the two basic generators) is *generated* from the
source (`Ndt.Gen.Steps`).  Here: the emitted list `base * ρ^e` over those exponents with zero steps
dropped, and the way `Derivative._get_steps` instantiates the generator state.

`base` stands for the product `base_step * step_nom(x)` (after `make_exact` when enabled); its
defaults `EPS**(1/scale)` and `log(1.718…+|x|)` are transcendental and are inputs of the model.
-/
namespace Ndt
open Ndt.Gen

variable {K : Type} [Num K]

def numPow (x : K) : Nat → K
  | 0 => Num.one
  | n + 1 => numPow x n * x

/-- integer power `ρ ** e` -/
def zpowK (ρ : K) (e : Int) : K :=
  match e with
  | Int.ofNat k => numPow ρ k
  | Int.negSucc k => Num.one / numPow ρ (k + 1)

/-- `BasicMaxStepGenerator.__call__` / `BasicMinStepGenerator.__call__`: `base * ρ ** (±i + offset)`
in the generator's order, steps that are zero dropped -/
def emitSteps (base ρ : K) (exps : List Int) : List K :=
  (exps.map (fun e => base * zpowK ρ e)).filter (fun s => decide (Num.zero < Num.abs s))

/-- the same for a per-variable base step (`base_step` array-like): a step is the vector `bases * ρ ** e`, kept only if **all** of
its components are non-zero (`if (np.abs(step) > 0).all(): yield step`) -/
def emitStepsVec (bases : List K) (ρ : K) (exps : List Int) : List (List K) :=
  (exps.map (fun e => bases.map (fun b => b * zpowK ρ e))).filter
    (fun v => v.all (fun s => decide (Num.zero < Num.abs s)))

def stepsMax (base ρ : K) (numSteps : Nat) (offset : Int) : List K :=
  emitSteps base ρ (basicMaxExponents numSteps offset)

def stepsMin (base ρ : K) (numSteps : Nat) (offset : Int) : List K :=
  emitSteps base ρ (basicMinExponents numSteps offset)

/-- the generator state `Derivative._get_steps` installs: `(method, n, order := method_order)` -/
def withRule (g : StepGen) (r : LogRule) : StepGen :=
  { g with method := r.method, n := r.n, order := r.method_order }

/-- which generator `Derivative._step_generator` builds when `step` is not callable:
`none` step and a real-step method → `MaxStepGenerator(**options)`, else `MinStepGenerator` -/
def defaultGenIsMax (stepGiven : Bool) (m : Method) : Bool :=
  !stepGiven && !(m == .complex || m == .multicomplex)

end Ndt
