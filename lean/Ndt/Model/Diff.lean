import Ndt.Num
import Ndt.Gen.LogRule
import Ndt.Gen.DiffFuns
/-!
Model of the scalar difference quotients `finite_difference.DifferenceFunctions`
(finite_difference.py:46-103) as functionals of the user function, and of the name resolution
`LogRule.diff` (`'_' + method + middle + last`, with the *generated* `_get_middle_name` /
`_get_last_name`).

Real-step quotients take `f : K → K`; complex-step ones take `f : Cx K → Cx K`
(`x + 1j*h` is `⟨x, h⟩`; `_SQRT_J` is the parameter `sj`).
-/
namespace Ndt
open Ndt.Gen
variable {K : Type} [Add K] [Sub K] [Mul K] [Div K] [Neg K] [OfNat K 0] [OfNat K 1] [OfNat K 2]

def dCentral (f : K → K) (_fx x h : K) : K := (f (x + h) - f (x - h)) / 2
def dCentralEven (f : K → K) (fx x h : K) : K := (f (x + h) + f (x - h)) / 2 - fx
def dForward (f : K → K) (fx x h : K) : K := f (x + h) - fx
def dBackward (f : K → K) (fx x h : K) : K := fx - f (x - h)
/-- `f(x + 1j*h).imag` -/
def dComplex (f : Cx K → Cx K) (x h : K) : K := (f ⟨x, h⟩).im

/-! ### the complex-step quotients that leave the real axis along `_SQRT_J = 1j ** 0.5`

The carrier `C` of the complex values and its operations are parameters (`CStep`): ℂ in the theorems
(`sj` any square root of `I`), `ℚ(ζ₈)` in the exact runs of the driver. -/
-- `CStep K C` (ofReal, i, sj, re, im) is declared next to the generated quotients, `Ndt.Gen.CStep`
export Ndt.Gen (CStep)

section cstep
variable {C : Type} [Add C] [Sub C] [Mul C] [OfNat K 3] [OfNat K 12]

/-- `f(x + 1j*h).imag` on the carrier `C` -/
def qComplex (s : CStep K C) (f : C → C) (x h : K) : K := s.im (f (s.ofReal x + s.i * s.ofReal h))

/-- `((_SQRT_J / 2.) * (f(x + i_h) - f(x - i_h))).imag` with `i_h = h * _SQRT_J` -/
def qComplexOdd (s : CStep K C) (f : C → C) (x h : K) : K :=
  let ih := s.ofReal h * s.sj
  s.im ((s.sj * s.ofReal (1 / 2)) * (f (s.ofReal x + ih) - f (s.ofReal x - ih)))

/-- `((3 * _SQRT_J) * (f(x + i_h) - f(x - i_h))).real` -/
def qComplexOddHigher (s : CStep K C) (f : C → C) (x h : K) : K :=
  let ih := s.ofReal h * s.sj
  s.re ((s.ofReal 3 * s.sj) * (f (s.ofReal x + ih) - f (s.ofReal x - ih)))

/-- `(f(x + i_h) + f(x - i_h)).imag` -/
def qComplexEven (s : CStep K C) (f : C → C) (x h : K) : K :=
  let ih := s.ofReal h * s.sj
  s.im (f (s.ofReal x + ih) + f (s.ofReal x - ih))

/-- `12.0 * (f(x + i_h) + f(x - i_h) - 2 * f_x).real` -/
def qComplexEvenHigher (s : CStep K C) (f : C → C) (fx x h : K) : K :=
  let ih := s.ofReal h * s.sj
  12 * s.re (f (s.ofReal x + ih) + f (s.ofReal x - ih) - s.ofReal (2 * fx))

end cstep

/-- the scalar difference functions by name -/
inductive DiffName
  | central | central_even | forward | backward | complex | complex_odd | complex_odd_higher | complex_even
  | complex_even_higher | multicomplex | multicomplex2
deriving DecidableEq, Repr

/-- `getattr(self._difference_functions, '_' + method + middle + last)`; `none` = AttributeError -/
def diffName (r : LogRule) : Option DiffName :=
  match r.method, r._get_middle_name, r._get_last_name with
  | .central, .none, .none => some .central
  | .central, .even, .none => some .central_even
  | .forward, .none, .none => some .forward
  | .backward, .none, .none => some .backward
  | .complex, .none, .none => some .complex
  | .complex, .odd, .none => some .complex_odd
  | .complex, .odd, .higher => some .complex_odd_higher
  | .complex, .even, .none => some .complex_even
  | .complex, .even, .higher => some .complex_even_higher
  | .multicomplex, .none, .none => some .multicomplex
  | .multicomplex, .two, .none => some .multicomplex2
  | _, _, _ => none

def DiffName.toString : DiffName → String
  | .central => "_central" | .central_even => "_central_even" | .forward => "_forward" | .backward => "_backward"
  | .complex => "_complex" | .complex_odd => "_complex_odd" | .complex_odd_higher => "_complex_odd_higher"
  | .complex_even => "_complex_even" | .complex_even_higher => "_complex_even_higher"
  | .multicomplex => "_multicomplex" | .multicomplex2 => "_multicomplex2"

end Ndt
