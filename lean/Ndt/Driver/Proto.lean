import Ndt.Num
/-! Line protocol helpers: floats travel as hex bit patterns, rationals as `p/q`. -/
namespace Ndt.Proto

def hexDigit (c : Char) : Nat :=
  if c.isDigit then c.toNat - '0'.toNat
  else if 'a' ≤ c ∧ c ≤ 'f' then c.toNat - 'a'.toNat + 10
  else if 'A' ≤ c ∧ c ≤ 'F' then c.toNat - 'A'.toNat + 10 else 0

def hexToNat (s : String) : Nat := s.foldl (fun acc c => acc * 16 + hexDigit c) 0

/-- float from its IEEE-754 bit pattern in hex -/
def fb (s : String) : Float := if s == "nan" then 0.0 / 0.0 else Float.ofBits (UInt64.ofNat (hexToNat s))

def toHex (f : Float) : String :=
  if f.isNaN then "nan" else String.ofList (Nat.toDigits 16 f.toBits.toNat)

def parseInt (s : String) : Int :=
  if s.startsWith "-" then -((s.drop 1).toString.toNat!) else s.toNat!

/-- rational from `p/q` or `p` -/
def rq (s : String) : Rat :=
  match s.splitOn "/" with
  | [p] => (parseInt p : Rat)
  | [p, q] => (parseInt p : Rat) / (parseInt q : Rat)
  | _ => 0

def ratStr (r : Rat) : String :=
  if r.den == 1 then toString r.num else s!"{r.num}/{r.den}"

def joinSp (l : List String) : String := " ".intercalate l

def floats (l : List String) : List Float := l.map fb
def rats (l : List String) : List Rat := l.map rq

end Ndt.Proto
