import Ndt.Driver.Proto
import Ndt.Model.Dea3
/-! The line-protocol driver: one operation per input line, one output line per input line. -/
namespace Ndt.Driver
open Ndt.Proto

def floatConsts (eps tiny : Float) : Consts Float := ⟨eps, tiny, 1.0e-4, 10.0⟩

def handle (w : List String) : String :=
  match w with
  -- dea3 <eps> <tiny> e0 e1 e2  (Float, bit patterns)
  | ["dea3", eps, tiny, a, b, c] =>
    let (r, e) := dea3 (floatConsts (fb eps) (fb tiny)) (fb a) (fb b) (fb c)
    s!"{toHex r} {toHex e}"
  -- dea3q <eps> <tiny> e0 e1 e2  (Rat)
  | ["dea3q", eps, tiny, a, b, c] =>
    let (r, e) := dea3 (⟨rq eps, rq tiny, (1 : Rat) / 10000, 10⟩ : Consts Rat) (rq a) (rq b) (rq c)
    s!"{ratStr r} {ratStr e}"
  | _ => "bad-op"

partial def loop (h : IO.FS.Stream) (out : IO.FS.Stream) : IO Unit := do
  let line ← h.getLine
  if line.isEmpty then return ()
  let w := (line.trimAscii.toString.splitOn " ").filter (· ≠ "")
  out.putStrLn (handle w)
  loop h out

def main : IO Unit := do
  let out ← IO.getStdout
  loop (← IO.getStdin) out
  out.flush

end Ndt.Driver
