import Ndt.Driver.Proto
import Ndt.Model.Dea3
import Ndt.Gen.Dea3
import Ndt.Model.Richardson
import Ndt.Model.Rule
import Ndt.Model.Fornberg
import Ndt.Model.FdDerivative
import Ndt.Model.Dea
import Ndt.Model.Steps
import Ndt.Model.Guards
import Ndt.Model.Select
import Ndt.Model.Diff
import Ndt.Model.Q8
import Ndt.Model.Points
import Ndt.Model.Jacobian
import Ndt.Model.Hessian
import Ndt.Model.History
import Ndt.Model.Limit
import Ndt.Model.Taylor
import Ndt.Gen.BicomplexRing
/-! The line-protocol driver: one operation per input line, one output line per input line. -/
namespace Ndt.Driver
open Ndt.Proto Ndt.Gen

def b2s (b : Bool) : String := if b then "1" else "0"
def fragStr : Frag → String
  | .even => "_even" | .odd => "_odd" | .two => "2" | .none => "-" | .higher => "_higher"

def floatConsts (eps tiny : Float) : Consts Float := ⟨eps, tiny, 1.0e-4, 10.0⟩

/-- split a word list at `|` separators -/
def splitBar (w : List String) : List (List String) :=
  let rec go : List String → List String → List (List String)
    | [], cur => [cur.reverse]
    | "|" :: rest, cur => cur.reverse :: go rest []
    | x :: rest, cur => go rest (x :: cur)
  go w []

/-- complex rationals travel as two words -/
def cxs : List String → List (Cx Rat)
  | a :: b :: rest => ⟨rq a, rq b⟩ :: cxs rest
  | _ => []
/-- complex floats as pairs of bit patterns -/
def cxfs : List String → List (Cx Float)
  | a :: b :: rest => ⟨fb a, fb b⟩ :: cxfs rest
  | _ => []
/-- `np.abs` of a complex double (numpy uses `hypot`; agreement is within an ulp or two away from over/underflow) -/
def cabsF (z : Cx Float) : Float := Float.sqrt (z.re * z.re + z.im * z.im)

def cxStr (z : Cx Rat) : String := s!"{ratStr z.re} {ratStr z.im}"

def rowsStr {α} (f : α → String) (rows : List (List α)) : String :=
  " | ".intercalate (rows.map (fun r => joinSp (r.map f)))

/-- run `Dea(limexp)` over a sequence; per term `result abserr n nres`, then the final table -/
def runDea (c : DeaConsts Float) (limexp : Nat) (seq : List Float) : String :=
  match (deaInit limexp : Option (DeaState Float)) with
  | none => "ValueError"
  | some st0 =>
    let rec go (st : DeaState Float) (seq : List Float) (acc : List String) : List String × DeaState Float :=
      match seq with
      | [] => (acc.reverse, st)
      | sv :: rest =>
        match deaCall c st sv with
        | .ok (r, e, st') => go st' rest (s!"{toHex r} {toHex e} {st'.n} {st'.nres}" :: acc)
        | .error .indexError => (("IndexError" :: acc).reverse, st)
        | .error .valueError => (("ValueError" :: acc).reverse, st)
    let (outs, st) := go st0 seq []
    " | ".intercalate (outs ++ [joinSp (st.epstab.toList.map toHex)])

def runEps (seq : List Float) : String :=
  let rec go (tab : List Float) (seq : List Float) (acc : List String) : List String × List Float :=
    match seq with
    | [] => (acc.reverse, tab)
    | sv :: rest =>
      let n := tab.length
      let tab' := epsStep (1.0e-60 : Float) (1.0e+60 : Float) tab sv
      go tab' rest (toHex (epsEstimate tab' n) :: acc)
  let (outs, tab) := go [] seq []
  joinSp outs ++ " | " ++ joinSp (tab.map toHex)

def optNat (s : String) : Option Nat := if s == "-" then none else some s.toNat!

def clsOf : String → Cls
  | "Gradient" => .gradient | "Jacobian" => .jacobian | "Hessdiag" => .hessdiag | "Hessian" => .hessian | _ => .derivative
def outStr : Outcome → String
  | .value => "value" | .valueError => "ValueError"

def bcOf : List String → Bc (Cx Rat)
  | [a, b, c, d] => ⟨⟨rq a, rq b⟩, ⟨rq c, rq d⟩⟩
  | _ => ⟨⟨0, 0⟩, ⟨0, 0⟩⟩
def bcStr (z : Bc (Cx Rat)) : String := cxStr z.z1 ++ " " ++ cxStr z.z2

def selConsts : SelConsts Float := ⟨10.0, 1.0e-8, 1.5, 0.5⟩

def bestStr (b : Best Float) : String :=
  joinSp (b.value.map toHex) ++ " | " ++ joinSp (b.err.map toHex) ++ " | " ++ joinSp (b.step.map toHex) ++ " | " ++
    joinSp (b.index.map toString)

instance : OfNat Rat 2 := ⟨2⟩

/-- the scalar difference quotient `name` of the polynomial with rational coefficients `cs` (in `t`) -/
def quotRat (name : String) (cs : List Rat) (x h : Rat) : Option Rat :=
  let f : Rat → Rat := fun t => evalP cs t
  let fc : Cx Rat → Cx Rat := fun z => evalP (cs.map Cx.ofReal) z
  match name with
  | "_central" => some (dCentral f (f x) x h)
  | "_central_even" => some (dCentralEven f (f x) x h)
  | "_forward" => some (dForward f (f x) x h)
  | "_backward" => some (dBackward f (f x) x h)
  | "_complex" => some (dComplex fc x h)
  | _ => none

/-- the complex-step quotients off the real axis, exactly, over ℚ(ζ₈): (rational part, coefficient of √2) -/
def quotQ8 (name : String) (cs : List Rat) (x h : Rat) : Option (Rat × Rat) :=
  let f : Q8 Rat → Q8 Rat := fun z => evalP (cs.map Q8.ofReal) z
  let fx : Rat := evalP cs x
  let both (q : CStep Rat (Q8 Rat) → Rat) : Option (Rat × Rat) := some (q Q8.cstepRat, q Q8.cstepSqrt2)
  match name with
  | "_complex" => both (fun s => qComplex s f x h)
  | "_complex_odd" => both (fun s => qComplexOdd s f x h)
  | "_complex_odd_higher" => both (fun s => qComplexOddHigher s f x h)
  | "_complex_even" => both (fun s => qComplexEven s f x h)
  | "_complex_even_higher" => both (fun s => qComplexEvenHigher s f fx x h)
  | _ => none

def diffOfString : String → Option DiffName
  | "_central" => some .central | "_central_even" => some .central_even | "_forward" => some .forward
  | "_backward" => some .backward | "_complex" => some .complex | "_complex_odd" => some .complex_odd
  | "_complex_odd_higher" => some .complex_odd_higher | "_complex_even" => some .complex_even
  | "_complex_even_higher" => some .complex_even_higher | "_multicomplex" => some .multicomplex
  | "_multicomplex2" => some .multicomplex2 | _ => none

def pt4Str (p : Pt4 Float) : String := s!"{toHex p.re},{toHex p.im},{toHex p.z2re},{toHex p.z2im}"
def evalPtStr (e : EvalPt Float) : String := ";".intercalate (e.map (fun (k, p) => s!"{k}:{pt4Str p}"))

instance : OfNat Rat 4 := ⟨4⟩

/-- a multivariate polynomial with rational coefficients: monomials `c:e0,e1,…` -/
def parseMono (s : String) : Rat × List Nat :=
  match s.splitOn ":" with
  | [c, es] => (rq c, (es.splitOn ",").map String.toNat!)
  | _ => (0, [])
def evalMPoly (ms : List (Rat × List Nat)) (y : Nat → Rat) : Rat :=
  ms.foldl (fun acc (c, es) => acc + c * ((List.range es.length).foldl (fun p k => p * npow (y k) (es.getD k 0)) 1)) 0

/-- the same polynomial on a carrier `C` with the rational coefficients embedded -/
def evalMPolyG {C : Type} [Add C] [Mul C] [Div C] [OfNat C 0] [OfNat C 1] (emb : Rat → C) (ms : List (Rat × List Nat)) (y : Nat → C) : C :=
  ms.foldl (fun acc (c, es) => acc + emb c * ((List.range es.length).foldl (fun p k => p * npow (y k) (es.getD k 0)) 1)) 0

/-- the generated Bicomplex ring operations as instances, for polynomial evaluation over `Bc (Cx Rat)` -/
instance : Add (Bc (Cx Rat)) := ⟨Bc.add⟩
instance : Mul (Bc (Cx Rat)) := ⟨Bc.mul⟩
instance : OfNat (Bc (Cx Rat)) 0 := ⟨⟨0, 0⟩⟩
instance : OfNat (Bc (Cx Rat)) 1 := ⟨⟨1, 0⟩⟩
def bcPowNat (y : Bc (Cx Rat)) : Nat → Bc (Cx Rat)
  | 0 => 1
  | e + 1 => y * bcPowNat y e
/-- a rational polynomial in several variables over `Bc (Cx Rat)` -/
def evalMPolyBc (ms : List (Rat × List Nat)) (y : Nat → Bc (Cx Rat)) : Bc (Cx Rat) :=
  ms.foldr (fun (c, es) acc => ((⟨Cx.ofReal c, 0⟩ : Bc (Cx Rat)) * ((List.range es.length).foldr (fun k p => bcPowNat (y k) (es.getD k 0) * p) 1)) + acc) 0
/-- `HessianDifferenceFunctions._multicomplex2`, one cell -/
def hessMulticomplexCellQ (ms : List (Rat × List Nat)) (x h : Nat → Rat) (i j : Nat) : Rat :=
  (evalMPolyBc ms (fun k => ⟨⟨x k, if k = i then h i else 0⟩, ⟨if k = j then h j else 0, 0⟩⟩)).z2.im / (h j * h i)

/-- Gaussian rationals as the complex carrier of the Hessian complex-step formula (`sj` is not used there) -/
def cstepGauss : CStep Rat (Cx Rat) := ⟨Cx.ofReal, Cx.I, ⟨0, 0⟩, fun z => z.re, fun z => z.im⟩

/-- concrete instance of the history model for the trace correspondence: values are the keys themselves, generator
options = optional fixed ratio, points are opaque tokens -/
def histPipeline (ratio1 ratioN : Rat) : Pipeline RuleKey (Option Rat) String Unit Unit where
  compute := id
  stepsOf := fun _ _ => ()
  ratioOf := fun o st => match o with
    | some r => r
    | none => if st.n == 1 then ratio1 else ratioN
  eval := fun _ _ _ _ => ()

def keyStr (k : RuleKey) : String := s!"{ratStr k.ratio},{k.parity},{k.nterms}"
def methStr : Method → String
  | .central => "central" | .central2 => "central2" | .forward => "forward" | .backward => "backward"
  | .complex => "complex" | .multicomplex => "multicomplex" | .other => "other"

def histOp (tok : String) : Option (Op (Option Rat) String) :=
  match tok.splitOn "," with
  | ["C", m, n, o, uses, r] =>
    some (.construct ⟨n.toNat!, Method.ofString m, o.toNat!, 2, false, uses == "1"⟩ (if r == "-" then none else some (rq r)) "init")
  | ["K", i, x] => some (.call i.toNat! x)
  | ["N", i, n] => some (.setN i.toNat! n.toNat!)
  | ["O", i, o] => some (.setOrder i.toNat! o.toNat!)
  | ["M", i, m] => some (.setMethod i.toNat! (Method.ofString m))
  | ["S", i, j] => some (.shareGen i.toNat! j.toNat!)
  | ["X"] => some .clearCache
  | _ => none

def runHistory (ratio1 ratioN : Rat) (toks : List String) : String :=
  let p := histPipeline ratio1 ratioN
  let rec go (w : World RuleKey (Option Rat) String) (toks : List String) (acc : List String) : List String :=
    match toks with
    | [] => acc.reverse
    | t :: rest =>
      match histOp t with
      | none => ("bad-op" :: acc).reverse
      | some op =>
        let w' := (w.step p op).1
        let keys := (w'.cache.map (fun e => keyStr e.1))
        let sorted := keys.toArray.qsort (· < ·) |>.toList
        let st := match op with
          | .call i _ => match w'.objs[i]? with
            | some (_, g) => match w'.gens[g]? with
              | some (_, s) => s!"{g}:{s.x}:{methStr s.method}:{s.n}:{s.order}"
              | none => "-"
            | none => "-"
          | _ => "-"
        go w' rest (s!"{";".intercalate sorted}|{st}" :: acc)
  " ".intercalate (go ⟨[], [], []⟩ toks [])

def optStr (o : Option Rat) : String := match o with | some v => ratStr v | none => "nan"
def optOf (s : String) : Option Rat := if s == "nan" then none else some (rq s)

def handle (w : List String) : String :=
  match w with
  -- numtaylor n : _num_taylor_coefficients(n)
  | ["numtaylor", n] => match numTaylor n.toNat! with | some m => toString m | none => "ValueError"
  -- textrap m | bs… | rs… : fornberg._extrapolate on one coefficient column (exact)
  | "textrap" :: m :: rest =>
    match splitBar rest with
    | [_, bs, rs] =>
      let b := rats bs; let r := rats rs
      let u : Nat → Rat := fun t => npow (r.getD t 0) m.toNat!
      let e0l := extrapPass1 (fun t => b.getD t 0) u r.length
      joinSp ((extrapPass2 (fun i => e0l.getD i 0) u r.length).map ratStr)
    | _ => "bad-op"
  -- tloop maxIter c0 c1 … : the iteration loop with the recorded convergence flags
  | "tloop" :: mi :: flags =>
    let conv : Nat → Bool := fun i => flags.getD i "0" == "1"
    let r := taylorLoop conv mi.toNat! 0
    s!"{r.1} {b2s (taylorFailed conv mi.toNat!)}"
  -- limext ρ order seq… : the Richardson stage of Limit._lim (exact); limextc for complex ratios / sequences
  | "limext" :: rho :: order :: seq => joinSp ((limitExtrapolate (rq rho) order.toNat! (rats seq)).map ratStr)
  | "limextc" :: rre :: rim :: order :: seq =>
    joinSp ((limitExtrapolate (⟨rq rre, rq rim⟩ : Cx Rat) order.toNat! (cxs seq)).map cxStr)
  -- calllim | f(z) entries (nan for NaN) | limits… : Limit._call_lim
  | "calllim" :: rest =>
    match splitBar rest with
    | [_, fz, lims] => joinSp ((callLim (fz.map optOf) (rats lims)).map optStr)
    | _ => "bad-op"
  -- history ratio1 ratioN ops… : the trace of cache keys and generator states
  | "history" :: r1 :: rn :: toks => runHistory (rq r1) (rq rn) toks
  -- jacravel n m [k]: the layout of one stacked row, with the symbolic entries 10000 j + 100 i + l
  | ["jacravel", n, m] =>
    joinSp ((jacRavel2 n.toNat! m.toNat! (fun j i => ((10000 * j + 100 * i : Nat) : Rat))).map ratStr) ++ " | " ++
      joinSp ((jacShape n.toNat! [m.toNat!]).map toString)
  | ["jacravel", n, m, k] =>
    joinSp ((jacRavel3 n.toNat! m.toNat! k.toNat! (fun j i l => ((10000 * j + 100 * i + l : Nat) : Rat))).map ratStr) ++ " | " ++
      joinSp ((jacShape n.toNat! [m.toNat!, k.toNat!]).map toString)
  -- hesscell name n | x… | h… | monomials… : the per-step Hessian matrix (row-major) of a rational polynomial, exact
  | "hesscell" :: name :: n :: rest =>
    match splitBar rest with
    | [_, xs, hs, ms] =>
      let x := rats xs; let h := rats hs
      let f : (Nat → Rat) → Rat := evalMPoly (ms.map parseMono)
      let xf : Nat → Rat := fun k => x.getD k 0
      let hf : Nat → Rat := fun k => h.getD k 0
      let fx := f xf
      let fc : (Nat → Cx Rat) → Cx Rat := evalMPolyG Cx.ofReal (ms.map parseMono)
      let cell : Nat → Nat → Rat :=
        if name == "_multicomplex2" then hessMulticomplexCellQ (ms.map parseMono) xf hf
        else if name == "_complex_even" then hessComplexCell cstepGauss fc xf hf
        else if name == "_forward" then hessForwardCell f fx xf hf
        else if name == "_backward" then hessForwardCell f fx xf (fun k => -(hf k))
        else if name == "_central_even" then hessCentralCell f fx xf hf
        else hessCentral2Cell f fx xf hf
      joinSp ((hessFlat cell n.toNat!).map ratStr)
    | _ => "bad-op"
  -- pts <class> <name> sjre sjim sqrt2 | x… | h…  (Float): the arguments handed to the user function
  | "pts" :: cls :: name :: a :: b :: c :: rest =>
    let pc : PtConsts Float := ⟨fb a, fb b, fb c⟩
    match splitBar rest with
    | [_, xs, hs] =>
      let x := floats xs; let h := floats hs
      if cls == "scalar" then
        match diffOfString name with
        | some d => joinSp ((pointsScalar pc d (x.headD 0.0) (h.headD 0.0)).map pt4Str)
        | none => "unsupported"
      else if cls == "jacobian" then
        match diffOfString name with
        | some d => joinSp ((pointsJacobian pc d x h).map evalPtStr)
        | none => "unsupported"
      else if cls == "hessdiag" then joinSp ((pointsHessdiag pc name x h).map evalPtStr)
      else if cls == "hessian" then joinSp ((pointsHessian name x h).map evalPtStr)
      else "bad-op"
    | _ => "bad-op"
  -- diffname method n order: the name LogRule.diff resolves to
  | ["diffname", m, n, o] =>
    match diffName ⟨n.toNat!, Method.ofString m, o.toNat!⟩ with
    | some d => d.toString
    | none => "AttributeError"
  -- quot name x h | coeffs… : a scalar difference quotient of a rational polynomial (exact)
  | "quot" :: name :: x :: h :: "|" :: cs =>
    match quotRat name (rats cs) (rq x) (rq h) with
    | some v => ratStr v
    | none => "unsupported"
  | "quotc" :: name :: x :: h :: "|" :: cs =>
    match quotQ8 name (rats cs) (rq x) (rq h) with
    | some (v, w) => s!"{ratStr v} {ratStr w}"
    | none => "unsupported"
  -- fdapply ρ method n order | diffs… | steps… : LogRule._apply on one column (exact)
  | "fdapply" :: rho :: m :: n :: o :: rest =>
    match splitBar rest with
    | [_, diffs, steps] => joinSp ((fdApply (rq rho) ⟨n.toNat!, Method.ofString m, o.toNat!⟩ (rats diffs) (rats steps)).map ratStr)
    | _ => "bad-op"
  -- select nrows ncols | der… | errs… | steps…   (Float): _get_best_estimate
  | "select" :: nr :: nc :: rest =>
    match splitBar rest with
    | [_, der, errs, steps] => bestStr (bestEstimate selConsts nr.toNat! nc.toNat! (floats der) (floats errs) (floats steps))
    | _ => "bad-op"
  -- tail eps tiny nrows ncols | der… | errs… | steps… : the stages after Richardson (dea3 if > 2 rows, selection)
  | "tail" :: eps :: tiny :: nr :: nc :: rest =>
    match splitBar rest with
    | [_, der, errs, steps] =>
      bestStr (tailStage (floatConsts (fb eps) (fb tiny)) selConsts nr.toNat! nc.toNat! (floats der) (floats errs) (floats steps))
    | _ => "bad-op"
  -- outliers | col… : _add_error_to_outliers of one column
  | "outliers" :: col => joinSp ((outlierErrors selConsts (floats col)).map toHex)
  -- bc op a(4 rationals) [b(4 rationals)]: ring operations of Bicomplex on Gaussian rationals
  | ["bc", "neg", a1, a2, a3, a4] => bcStr (bcOf [a1, a2, a3, a4]).neg
  | ["bc", "conj", a1, a2, a3, a4] => bcStr (bcOf [a1, a2, a3, a4]).conjugate
  | ["bc", "inv", a1, a2, a3, a4] => bcStr (bcOf [a1, a2, a3, a4]).inverse
  | ["bc", "powint", n, a1, a2, a3, a4] => bcStr ((bcOf [a1, a2, a3, a4]).pow_integer (parseInt n))
  | ["bc", op, a1, a2, a3, a4, b1, b2, b3, b4] =>
    let a := bcOf [a1, a2, a3, a4]; let b := bcOf [b1, b2, b3, b4]
    if op == "add" then bcStr (a.add b) else if op == "sub" then bcStr (a.sub b)
    else if op == "mul" then bcStr (a.mul b) else "bad-op"
  -- outcome cls method n order xComplex fComplex fdelSize hSize numSteps
  | ["outcome", cls, m, n, o, xc, fc, fs, hs, ns] =>
    outStr (Call.outcome ⟨clsOf cls, Method.ofString m, n.toNat!, o.toNat!, xc == "1", fc == "1", fs.toNat!, hs.toNat!, ns.toNat!⟩)
  | ["residue", o, p] =>
    match residueOrder (optNat o) p.toNat! with
    | some k => s!"order {k}"
    | none => "ValueError"
  | ["dirdiff", a, b] => outStr (directionaldiffOutcome a.toNat! b.toNat! .value)
  | ["cpath", sp, ra] => outStr (cstepPathOutcome (sp == "1") (ra == "1"))
  -- stepgen method n order numSteps|- check extrap: the generated count logic and defaults
  | ["stepgen", m, n, o, ns, chk, ex] =>
    let g : StepGen := { method := Method.ofString m, n := n.toNat!, order := o.toNat!, numSteps := optNat ns,
                         checkNumSteps := chk == "1", numExtrap := ex.toNat!, stepRatio := none }
    joinSp [toString (StepGen._num_step_divisor g.method g.n g.order), toString g.min_num_steps, toString g.num_steps,
            ratStr g.default_step_ratio, ratStr (default_scale g.method g.n g.order)]
  -- rulecount method n order numSteps|- check extrap: rule size vs the count Derivative._get_steps obtains
  | ["rulecount", m, n, o, ns, chk, ex] =>
    let r : LogRule := ⟨n.toNat!, Method.ofString m, o.toNat!⟩
    let g0 : StepGen := { method := .forward, n := 1, order := 2, numSteps := optNat ns,
                          checkNumSteps := chk == "1", numExtrap := ex.toNat!, stepRatio := none }
    let g : StepGen := withRule g0 r
    let size := if r.method == .multicomplex || r.n == 0 then 1 else r.num_terms
    s!"{size} {g.num_steps}"
  -- steps max|min base ρ numSteps offset (Rat)
  | ["steps", kind, base, rho, ns, off] =>
    let l := if kind == "max" then stepsMax (rq base) (rq rho) ns.toNat! (parseInt off)
             else stepsMin (rq base) (rq rho) ns.toNat! (parseInt off)
    joinSp (l.map ratStr)
  | ["gendefaults"] =>
    joinSp [toString (repr maxGenDefaults.numSteps), b2s maxGenDefaults.checkNumSteps, toString maxGenDefaults.numExtrap,
            ratStr maxGenBaseStep, b2s maxGenUseExact, toString (repr minGenDefaults.numSteps), b2s minGenDefaults.checkNumSteps,
            toString minGenDefaults.numExtrap, b2s minGenUseExact, ratStr cGenStepRatio, ratStr cGenScale]
  -- dea limexp eps huge s1 s2 …
  | "dea" :: limexp :: eps :: huge :: seq =>
    runDea ⟨fb eps, fb huge, 1.0e-4, 5.0, 6.0⟩ limexp.toNat! (floats seq)
  | "epsalg" :: seq => runEps (floats seq)
  -- fdw n x0 x…  (Float, bit patterns): fd_weights_all(x, x0, n)
  | "fdw" :: n :: x0 :: xs =>
    match fdWeightsAll (floats xs) (fb x0) n.toNat! with
    | some rows => rowsStr toHex rows
    | none => "ValueError"
  | "fdwq" :: n :: x0 :: xs =>
    match fdWeightsAll (rats xs) (rq x0) n.toNat! with
    | some rows => rowsStr ratStr rows
    | none => "ValueError"
  -- fdstores numX n m: the stores of fd_derivative in program order
  | ["fdstores", numX, n, m] =>
    joinSp ((fdStores numX.toNat! n.toNat! m.toNat!).map (fun s => s!"{s.idx}:{s.lo}:{s.hi}:{s.c}"))
  -- fdderq n m | fx… | x…  (Rat)
  | "fdderq" :: n :: m :: rest =>
    match splitBar rest with
    | [_, fx, x] =>
      match fdDerivative (rats fx) (rats x) n.toNat! m.toNat! with
      | .ok du => joinSp (du.map ratStr)
      | .valueError => "ValueError"
      | .indexError => "IndexError"
    | _ => "bad-op"
  -- logrule method n order: every translated decision property of LogRule
  | ["logrule", m, n, o] =>
    let r : LogRule := ⟨n.toNat!, Method.ofString m, o.toNat!⟩
    let p := r._parity r.method (r.n - 1) r.method_order
    joinSp [b2s r._odd_derivative, b2s r._even_derivative, b2s r._derivative_mod_four_is_three,
      b2s r._derivative_mod_four_is_zero, b2s r.eval_first_condition, b2s r._complex_high_order,
      toString r.richardson_step, toString r.method_order, toString p, b2s r._flip_fd_rule,
      fragStr r._get_middle_name, fragStr r._get_last_name, toString r.num_terms, toString r.rule_index,
      b2s r._multicomplex_middle_name_guard0, toString (fd_step p), toString (fd_offset p), toString (fd_c_0 p)]
  -- fdrule ρ method n order: LogRule(n, method, order).rule(ρ) in exact arithmetic
  | ["fdrule", rho, m, n, o] =>
    joinSp ((fdRule (rq rho) ⟨n.toNat!, Method.ofString m, o.toNat!⟩).map ratStr)
  -- richrule ρ step order numTerms len  (Rat): Richardson.rule(len)
  | ["richrule", rho, st, ord, nt, len] =>
    joinSp ((richRule (rq rho) st.toNat! ord.toNat! nt.toNat! len.toNat!).map ratStr)
  | ["richrulec", rre, rim, st, ord, nt, len] =>
    joinSp ((richRule (⟨rq rre, rq rim⟩ : Cx Rat) st.toNat! ord.toNat! nt.toNat! len.toNat!).map cxStr)
  -- richcall ρ step order numTerms s0 s1 …  (Rat, one column)
  | "richcall" :: rho :: st :: ord :: nt :: seq =>
    joinSp ((richCall (rq rho) st.toNat! ord.toNat! nt.toNat! (rats seq)).map ratStr)
  | "richcallc" :: rre :: rim :: st :: ord :: nt :: seq =>
    joinSp ((richCall (⟨rq rre, rq rim⟩ : Cx Rat) st.toNat! ord.toNat! nt.toNat! (cxs seq)).map cxStr)
  -- richfact eps rule… : fact = max(12.7062047361747*sqrt(sum |rule|^2), eps*10)
  | "richfact" :: eps :: rule =>
    toHex (richFact (12.7062047361747 : Float) (fb eps * 10.0) (Float.sqrt (sumSq (floats rule))))
  -- richfactc eps re im re im … : the same for complex weights
  | "richfactc" :: eps :: rule =>
    toHex (richFact (12.7062047361747 : Float) (fb eps * 10.0) (Float.sqrt (sumSqN cabsF (cxfs rule))))
  -- richerr eps fact | new… | old… | steps…   (Float; the branch is chosen as _estimate_error does)
  | "richerr" :: eps :: fact :: rest =>
    match splitBar rest with
    | [_, new, old, steps] =>
      let new := floats new; let old := floats old; let steps := floats steps
      if old.length < 2 then joinSp ((richErrShort (Num.abs : Float → Float) (fb eps) (fb fact) new steps).map toHex)
      else joinSp ((richErrMain (Num.abs : Float → Float) (fb eps) 10.0 (fb fact) new old).map toHex)
    | _ => "bad-op"
  -- richerrc: complex sequence and steps (pairs), real estimates
  | "richerrc" :: eps :: fact :: rest =>
    match splitBar rest with
    | [_, new, old, steps] =>
      let new := cxfs new; let old := cxfs old; let steps := cxfs steps
      if old.length < 2 then joinSp ((richErrShort cabsF (fb eps) (fb fact) new steps).map toHex)
      else joinSp ((richErrMain cabsF (fb eps) 10.0 (fb fact) new old).map toHex)
    | _ => "bad-op"
  -- radrun numExtrap d s p d s p …  (per iteration: fftDegenerate fftSmaller poor): iterations converged dirChanges degenerate numChanges sqrtCount
  | "radrun" :: ne :: rest =>
    let rec ins : List String → List RadIn
      | a :: b :: c :: r => ⟨a == "1", b == "1", c == "1"⟩ :: ins r
      | _ => []
    let (it, conv, st) := radRun ne.toNat! radInit 0 (ins rest)
    s!"{it} {b2s conv} {st.dirChanges} {b2s st.degenerate} {st.numChanges} {st.sqrtCount}"
  -- dea3 <eps> <tiny> e0 e1 e2  (Float, bit patterns)
  | ["dea3", eps, tiny, a, b, c] =>
    let (r, e) := Gen.dea3_elem (floatConsts (fb eps) (fb tiny)) (fb a) (fb b) (fb c)
    s!"{toHex r} {toHex e}"
  -- dea3q <eps> <tiny> e0 e1 e2  (Rat)
  | ["dea3q", eps, tiny, a, b, c] =>
    let (r, e) := Gen.dea3_elem (⟨rq eps, rq tiny, (1 : Rat) / 10000, 10⟩ : Consts Rat) (rq a) (rq b) (rq c)
    s!"{ratStr r} {ratStr e}"
  | _ => "bad-op"

partial def loop (h : IO.FS.Stream) (out : IO.FS.Stream) : IO Unit := do
  let line ← h.getLine
  if line.isEmpty then return ()
  let w := (line.trimAscii.toString.splitOn " ").filter (· ≠ "")
  out.putStrLn (handle w)
  loop h out

def main : IO Unit := do
  let out ← IO.getStdout
  loop (← IO.getStdin) out
  out.flush

end Ndt.Driver
