-- root of the `Ndt` library: executable models (core only), driver, proofs (Mathlib, module by module)
import Ndt.Num
import Ndt.Model.Dea3
import Ndt.Driver.Main
import Ndt.Proofs.FieldNum
import Ndt.Props.C13
import Ndt.Model.Poly
import Ndt.Model.Richardson
import Ndt.Proofs.Poly
import Ndt.Props.C07
import Ndt.Gen.Prelude
import Ndt.Gen.LogRule
import Ndt.Gen.Steps
import Ndt.Model.Rule
import Ndt.Props.C06
