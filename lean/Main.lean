import Ndt.Driver.Main
def main : IO Unit := Ndt.Driver.main
