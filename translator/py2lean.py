"""placeholder; replaced below"""
if __name__ == '__main__':
    pass
