"""py2lean: regenerate Lean definitions from /repo's Python source (expression-level code only).

Run on every check (`python -m translator.py2lean`).  Output: lean/Ndt/Gen/*.lean, rewritten only when the
content changes, and lean/Ndt/Gen/status.json with one entry per translated function:
  {"ok": true}                    translated from the current source
  {"ok": false, "error": "..."}   construct not supported -> the *baseline* text (translator/baseline.json,
                                  produced from the pinned tree) is emitted instead so that the project still
                                  builds, and the check records the obligation `translate:<fn>` as broken.

Supported subset (fails closed on anything else): int/bool/float/str constants, names, self.<attr>,
+ - * // % ** (nat exponent), comparisons (also chained), and/or/not, `a if c else b`, `x in (..)`,
`s.startswith('..')`, `int(b)`, `max`, `min`, `dict(k=v,..).get(key, default)`, `{k: v}.get(key, default)`,
`[..][i]`, local assignments, `if/return` chains, tuple unpack of `self._state`, `_assert(cond, msg)`
statements (emitted as separate guard predicates with their path condition).

Method names form the closed enumeration `Method`; string predicates are evaluated on it by the translator
and emitted as `match` tables (String.startsWith does not reduce in proofs).
"""
from __future__ import annotations
import ast
import json
import os
import sys

HERE = os.path.dirname(os.path.abspath(__file__))
VERIF = os.path.dirname(HERE)
REPO = os.environ.get('VERIF_REPO', '/repo')
GEN = os.path.join(VERIF, 'lean', 'Ndt', 'Gen')
METHODS = ['central', 'central2', 'forward', 'backward', 'complex', 'multicomplex']
# string constants that are not method names: name fragments of difference functions
FRAGS = {'_even': '.even', '_odd': '.odd', '2': '.two', '': '.none', '_higher': '.higher'}
LT = {'nat': 'Nat', 'bool': 'Bool', 'meth': 'Method', 'rat': 'Rat', 'frag': 'Frag', 'int': 'Int',
      'optnat': 'Option Nat', 'optrat': 'Option Rat'}


class Unsupported(Exception):
    pass


def lit_rat(v):
    from fractions import Fraction
    s = repr(float(v))
    if 'e' in s or 'E' in s or 'inf' in s or 'nan' in s:
        raise Unsupported('float literal %r' % v)
    return '(%s : Rat)' % s


class Tr:
    """expression translator: e(node) -> (lean_text, type)"""

    def __init__(self, env, selfattrs, resolve_call):
        self.env = dict(env)
        self.selfattrs = selfattrs        # attr -> (lean, type)
        self.resolve_call = resolve_call  # name -> (lean_name, ret_type, [argtypes]) for self.method()/functions
        self.guards = []                  # (path, cond) lean bool texts
        self.path = []

    def meth_table(self, key, fn, typ=None):
        alts = ' '.join('| .%s => %s' % (m, fn(m)) for m in METHODS)
        return '(match %s with %s | .other => %s)' % (key, alts, fn('?other'))

    def coerce(self, x, t, want):
        if t == want:
            return x
        if want == 'nat' and t == 'bool':
            return '(if %s then 1 else 0)' % x
        if want == 'rat' and t == 'nat':
            return '((%s : Nat) : Rat)' % x
        if want == 'rat' and t == 'bool':
            return '((if %s then 1 else 0 : Nat) : Rat)' % x
        if want == 'bool' and t == 'nat':
            return '(decide (%s ≠ 0))' % x
        raise Unsupported('cannot coerce %s to %s' % (t, want))

    def e(self, n):
        if isinstance(n, ast.Constant):
            v = n.value
            if isinstance(v, bool):
                return ('true' if v else 'false', 'bool')
            if isinstance(v, int):
                return (str(v), 'nat')
            if isinstance(v, float):
                return (lit_rat(v), 'rat')
            if isinstance(v, str):
                if v in METHODS:
                    return ('Method.%s' % v, 'meth')
                if v in FRAGS:
                    return ('Frag%s' % FRAGS[v], 'frag')
                raise Unsupported('string constant %r' % v)
            if v is None:
                return ('none', 'none')
        if isinstance(n, ast.Name):
            if n.id in self.env:
                return self.env[n.id]
            raise Unsupported('name %s' % n.id)
        if isinstance(n, ast.Attribute) and isinstance(n.value, ast.Name) and n.value.id == 'self':
            if n.attr in self.selfattrs:
                return self.selfattrs[n.attr]
            r = self.resolve_call(n.attr)
            if r is not None and r[2] == []:
                return ('self.%s' % r[0], r[1])
            raise Unsupported('self.%s' % n.attr)
        if isinstance(n, ast.Attribute) and isinstance(n.value, ast.Attribute) and \
                isinstance(n.value.value, ast.Name) and n.value.value.id == 'self' and n.value.attr == '_state':
            if n.attr in ('n', 'order', 'method'):
                return self.selfattrs['state.' + n.attr]
        if isinstance(n, ast.UnaryOp) and isinstance(n.op, ast.Not):
            x, t = self.e(n.operand)
            return ('(!%s)' % self.coerce(x, t, 'bool'), 'bool')
        if isinstance(n, ast.BinOp):
            l, lt = self.e(n.left)
            r, rt = self.e(n.right)
            if isinstance(n.op, ast.Pow):
                if rt != 'nat':
                    raise Unsupported('non-natural exponent')
                if lt == 'rat':
                    return ('(ratPow %s %s)' % (l, r), 'rat')
                return ('(%s ^ %s)' % (self.coerce(l, lt, 'nat'), r), 'nat')
            if 'rat' in (lt, rt):
                ops = {ast.Add: '+', ast.Mult: '*', ast.Sub: '-', ast.Div: '/'}
                if type(n.op) not in ops:
                    raise Unsupported('rat op')
                return ('(%s %s %s)' % (self.coerce(l, lt, 'rat'), ops[type(n.op)], self.coerce(r, rt, 'rat')), 'rat')
            ops = {ast.Add: '+', ast.Mult: '*', ast.Mod: '%', ast.FloorDiv: '/', ast.Sub: '-'}
            if type(n.op) not in ops:
                raise Unsupported('binop %s' % type(n.op).__name__)
            return ('(%s %s %s)' % (self.coerce(l, lt, 'nat'), ops[type(n.op)], self.coerce(r, rt, 'nat')), 'nat')
        if isinstance(n, ast.Compare):
            parts = []
            left = n.left
            for op, c in zip(n.ops, n.comparators):
                parts.append(self.cmp(left, op, c))
                left = c
            return (parts[0] if len(parts) == 1 else '(' + ' && '.join(parts) + ')', 'bool')
        if isinstance(n, ast.BoolOp):
            parts = [self.coerce(*self.e(v), 'bool') for v in n.values]
            return ('(' + (' && ' if isinstance(n.op, ast.And) else ' || ').join(parts) + ')', 'bool')
        if isinstance(n, ast.IfExp):
            c = self.coerce(*self.e(n.test), 'bool')
            a, at = self.e(n.body)
            b, bt = self.e(n.orelse)
            t = at if at == bt else ('rat' if 'rat' in (at, bt) else 'nat')
            return ('(if %s then %s else %s)' % (c, self.coerce(a, at, t), self.coerce(b, bt, t)), t)
        if isinstance(n, ast.Subscript) and isinstance(n.value, ast.List):
            elts = [self.e(x) for x in n.value.elts]
            t = 'rat' if any(tt == 'rat' for _x, tt in elts) else elts[0][1]
            idx, it = self.e(n.slice)
            zero = {'rat': '0', 'nat': '0'}[t]
            return ('([%s].getD %s %s)' % (', '.join(self.coerce(x, tt, t) for x, tt in elts), self.coerce(idx, it, 'nat'), zero), t)
        if isinstance(n, ast.Call):
            return self.call(n)
        raise Unsupported(ast.dump(n)[:160])

    def cmp(self, left, op, c):
        l, lt = self.e(left)
        if isinstance(op, (ast.In, ast.NotIn)):
            if not isinstance(c, (ast.Tuple, ast.List)):
                raise Unsupported('in non-literal')
            if lt == 'meth':
                names = [x.value for x in c.elts]
                r = self.meth_table(l, lambda m: 'true' if m in names else 'false')
            else:
                r = '(' + ' || '.join('%s == %s' % (l, self.e(x)[0]) for x in c.elts) + ')'
            return '(!%s)' % r if isinstance(op, ast.NotIn) else r
        if isinstance(op, (ast.Is, ast.IsNot)) and isinstance(c, ast.Constant) and c.value is None:
            if lt not in ('optnat', 'optrat'):
                raise Unsupported('is None on %s' % lt)
            return '(%s.isNone)' % l if isinstance(op, ast.Is) else '(%s.isSome)' % l
        r, rt = self.e(c)
        if lt == 'meth':
            if not (isinstance(c, ast.Constant) and isinstance(op, (ast.Eq, ast.NotEq))):
                raise Unsupported('method comparison')
            t = self.meth_table(l, lambda m: 'true' if m == c.value else 'false')
            return t if isinstance(op, ast.Eq) else '(!%s)' % t
        o = {ast.Eq: '==', ast.NotEq: '!=', ast.Lt: '<', ast.LtE: '≤', ast.Gt: '>', ast.GtE: '≥'}.get(type(op))
        if o is None:
            raise Unsupported('compare op')
        t = 'rat' if 'rat' in (lt, rt) else 'nat'
        l, r = self.coerce(l, lt, t), self.coerce(r, rt, t)
        if o in ('==', '!='):
            return '(%s %s %s)' % (l, o, r)
        return '(decide (%s %s %s))' % (l, o, r)

    def dict_get(self, items, key_node, default_node):
        key, kt = self.e(key_node)
        dflt, dt = self.e(default_node)
        vals = {k: self.e(v) for k, v in items}
        t = 'rat' if (dt == 'rat' or any(tt == 'rat' for _x, tt in vals.values())) else dt
        if kt == 'meth':
            for k in vals:
                if k not in METHODS:
                    raise Unsupported('dict key %r' % k)
            return (self.meth_table(key, lambda m: self.coerce(*vals[m], t) if m in vals else self.coerce(dflt, dt, t)), t)
        if kt == 'nat':
            body = self.coerce(dflt, dt, t)
            for k, (v, vt) in reversed(list(vals.items())):
                body = '(if %s == %s then %s else %s)' % (key, k, self.coerce(v, vt, t), body)
            return (body, t)
        raise Unsupported('dict key type %s' % kt)

    def call(self, n):
        f = n.func
        if isinstance(f, ast.Name):
            if f.id == 'int' and len(n.args) == 1:
                x, t = self.e(n.args[0])
                if t in ('nat', 'bool'):
                    return (self.coerce(x, t, 'nat'), 'nat')
                raise Unsupported('int() of %s' % t)
            if f.id == 'float' and len(n.args) == 1:
                x, t = self.e(n.args[0])
                return (self.coerce(x, t, 'rat'), 'rat')
            if f.id in ('max', 'min') and len(n.args) == 2:
                (a, at), (b, bt) = self.e(n.args[0]), self.e(n.args[1])
                t = 'rat' if 'rat' in (at, bt) else 'nat'
                return ('(%s %s %s)' % (f.id, self.coerce(a, at, t), self.coerce(b, bt, t)), t)
            r = self.resolve_call(f.id)
            if r is not None:
                args = [self.coerce(*self.e(a), t) for a, t in zip(n.args, r[2])]
                if len(args) != len(r[2]):
                    raise Unsupported('arity of %s' % f.id)
                return ('(%s %s)' % (r[0], ' '.join(args)), r[1])
            raise Unsupported('call %s' % f.id)
        if isinstance(f, ast.Attribute):
            if f.attr == 'startswith' and len(n.args) == 1 and isinstance(n.args[0], ast.Constant):
                x, t = self.e(f.value)
                if t != 'meth':
                    raise Unsupported('startswith on %s' % t)
                p = n.args[0].value
                return (self.meth_table(x, lambda m: 'true' if m.startswith(p) else 'false'), 'bool')
            if f.attr == 'get' and len(n.args) == 2:
                d = f.value
                if isinstance(d, ast.Call) and getattr(d.func, 'id', '') == 'dict' and not d.args:
                    return self.dict_get([(k.arg, k.value) for k in d.keywords], n.args[0], n.args[1])
                if isinstance(d, ast.Dict):
                    return self.dict_get([(k.value, v) for k, v in zip(d.keys, d.values)], n.args[0], n.args[1])
            if isinstance(f.value, ast.Name) and f.value.id == 'self':
                r = self.resolve_call(f.attr)
                if r is not None:
                    args = [self.coerce(*self.e(a), t) for a, t in zip(n.args, r[2])]
                    if len(r) > 3 and r[3]:
                        return ('(%s %s)' % (r[3], ' '.join(args)), r[1])
                    return ('(self.%s %s)' % (r[0], ' '.join(args)), r[1])
        raise Unsupported('call ' + ast.dump(n)[:120])

    # ---- statements -------------------------------------------------------------------------
    def body(self, stmts):
        if not stmts:
            raise Unsupported('fall off the end')
        s = stmts[0]
        if isinstance(s, ast.Expr) and isinstance(s.value, ast.Constant):
            return self.body(stmts[1:])
        if isinstance(s, ast.Expr) and isinstance(s.value, ast.Call) and getattr(s.value.func, 'id', '') == '_assert':
            c = self.coerce(*self.e(s.value.args[0]), 'bool')
            self.guards.append((' && '.join(self.path) or 'true', c))
            return self.body(stmts[1:])
        if isinstance(s, ast.Return):
            return self.e(s.value)
        if isinstance(s, ast.Assign) and len(s.targets) == 1:
            tgt = s.targets[0]
            if isinstance(tgt, ast.Name):
                v, t = self.e(s.value)
                self.env[tgt.id] = (tgt.id, t)
                rest, rt = self.body(stmts[1:])
                return ('let %s : %s := %s\n  %s' % (tgt.id, LT[t], v, rest), rt)
            if isinstance(tgt, ast.Tuple) and isinstance(s.value, ast.Attribute) and s.value.attr == '_state':
                names = [e.id for e in tgt.elts]
                for nm, fld in zip(names, ['x', 'method', 'n', 'order']):
                    if fld != 'x':
                        self.env[nm] = self.selfattrs['state.' + fld]
                return self.body(stmts[1:])
            if isinstance(tgt, ast.Tuple) and isinstance(s.value, ast.Tuple) and len(tgt.elts) == len(s.value.elts):
                vals = [self.e(v) for v in s.value.elts]
                pre = ''
                for e_, (v, t) in zip(tgt.elts, vals):
                    pre += 'let %s : %s := %s\n  ' % (e_.id, LT[t], v)
                for e_, (v, t) in zip(tgt.elts, vals):
                    self.env[e_.id] = (e_.id, t)
                rest, rt = self.body(stmts[1:])
                return (pre + rest, rt)
        if isinstance(s, ast.If):
            c = self.coerce(*self.e(s.test), 'bool')
            saved = dict(self.env)
            self.path.append(c)
            a, at = self.body(list(s.body) + list(stmts[1:]))
            self.path.pop()
            self.env = dict(saved)
            self.path.append('(!%s)' % c)
            b, bt = self.body(list(s.orelse) + list(stmts[1:]))
            self.path.pop()
            t = at if at == bt else ('rat' if 'rat' in (at, bt) else 'nat')
            return ('if %s then %s\n  else %s' % (c, self.coerce(a, at, t), self.coerce(b, bt, t)), t)
        raise Unsupported(ast.dump(s)[:160])


# ------------------------------------------------------------------------------------------------
def flat(src):
    """source text with indentation removed (for shape checks)"""
    return '\n'.join(l.strip() for l in src.split('\n'))


# ---- source normalisation -----------------------------------------------------------------------------------------------------------------
# Behaviour-preserving rewrites a maintainer makes all the time are undone on the syntax tree before translation, so that they do
# not break the tie (they are listed in status.json under `__normalised__`; the normaliser is part of the trusted base):
#   1. a private helper (function or method) that was renamed: its body is identical up to the names of local variables to that of a
#      helper of the baseline tree that no longer exists under its old name -> the old name is used throughout the file;
#   2. a new module-level constant bound once to a literal (list / tuple / dict / number / string, `dict(k=literal, ..)`) that is never
#      mutated -> its loads are replaced by the literal;
#   3. a new module-level straight-line helper (`x = ..; ..; return e`) called as the whole right-hand side of an assignment or as a
#      whole returned value -> the call is replaced by the body.
# `shape_of` records, per file, what existed in the baseline tree (stored under `__shape__` by --update-baseline).
NORMALISED = []
RENAMES = {}        # relpath -> [(scope ('' or class name), new name, old name)]
_SHAPE = {}


class _Canon(ast.NodeTransformer):
    """local names -> v0, v1, .. in order of first appearance (arguments first); docstrings removed"""

    def __init__(self, fn):
        self.map = {}
        for a in fn.args.posonlyargs + fn.args.args + fn.args.kwonlyargs:
            self.map.setdefault(a.arg, 'v%d' % len(self.map))
        for node in ast.walk(fn):
            if isinstance(node, ast.Name) and isinstance(node.ctx, ast.Store):
                self.map.setdefault(node.id, 'v%d' % len(self.map))

    def visit_Name(self, node):
        return ast.copy_location(ast.Name(id=self.map.get(node.id, node.id), ctx=node.ctx), node)

    def visit_arg(self, node):
        return ast.arg(arg=self.map.get(node.arg, node.arg), annotation=None)


def _canon(fn):
    import copy
    f = copy.deepcopy(fn)
    if f.body and isinstance(f.body[0], ast.Expr) and isinstance(getattr(f.body[0], 'value', None), ast.Constant) \
            and isinstance(f.body[0].value.value, str):
        f.body = f.body[1:] or [ast.Pass()]
    c = _Canon(f)
    f = c.visit(f)
    f.name = '_'
    f.decorator_list = []
    # the canonical text must not depend on the interpreter that computed it (ast.dump gained fields in Python 3.12; the baseline
    # shapes were once written by another interpreter than the one running the checks, which silently disabled the renaming rule)
    try:
        return ast.unparse(ast.fix_missing_locations(f))
    except Exception:
        return ast.dump(f)


def shape_of(mod):
    sh = {'top': [], 'funcs': {}}
    for n in mod.body:
        if isinstance(n, ast.FunctionDef):
            sh['top'].append(n.name)
            sh['funcs'][n.name] = _canon(n)
        elif isinstance(n, ast.ClassDef):
            sh['top'].append(n.name)
            for f in n.body:
                if isinstance(f, ast.FunctionDef):
                    sh['funcs'].setdefault(n.name + '.' + f.name, _canon(f))
        elif isinstance(n, (ast.Assign, ast.AnnAssign)):
            for t in (n.targets if isinstance(n, ast.Assign) else [n.target]):
                for nm in ast.walk(t):
                    if isinstance(nm, ast.Name):
                        sh['top'].append(nm.id)
        elif isinstance(n, (ast.Import, ast.ImportFrom)):
            sh['top'].extend((a.asname or a.name).split('.')[0] for a in n.names)
    return sh


def _is_literal(v):
    try:
        ast.literal_eval(v)
        return True
    except (ValueError, TypeError, SyntaxError, MemoryError, RecursionError):
        pass
    if isinstance(v, ast.Call) and isinstance(v.func, ast.Name) and v.func.id == 'dict' and not v.args:
        return all(k.arg is not None and _is_literal(k.value) for k in v.keywords)
    return False


def normalise(mod, relpath):
    import copy
    base = _SHAPE.get(relpath)
    if not base:
        return mod
    now = shape_of(mod)
    notes = []
    # 1. renamed private helpers
    ren = {}
    scopes = {}
    for k in now['funcs']:
        scopes.setdefault(k.rpartition('.')[0], []).append(k)
    for scope, keys in scopes.items():
        gone = [k for k in base['funcs'] if k.rpartition('.')[0] == scope and k not in now['funcs']]
        fresh = [k for k in keys if k not in base['funcs']]
        for g in gone:
            cands = [f for f in fresh if now['funcs'][f] == base['funcs'][g]]
            old, = [g.rpartition('.')[2]]
            if len(cands) == 1 and old.startswith('_') and not old.startswith('__'):
                new = cands[0].rpartition('.')[2]
                if new not in ren and new.startswith('_'):
                    ren[new] = old
                    RENAMES.setdefault(relpath, []).append((scope, new, old))
                    fresh.remove(cands[0])
    if ren:
        for node in ast.walk(mod):
            if isinstance(node, ast.FunctionDef) and node.name in ren:
                node.name = ren[node.name]
            elif isinstance(node, ast.Attribute) and node.attr in ren:
                node.attr = ren[node.attr]
            elif isinstance(node, ast.Name) and node.id in ren:
                node.id = ren[node.id]
        notes += ['%s: helper %s is the former %s (same body)' % (relpath, n_, o_) for n_, o_ in sorted(ren.items())]
    known = set(base['top'])
    # 2. new never-mutated module-level literal constants
    consts = {}
    for n in mod.body:
        if isinstance(n, ast.Assign) and len(n.targets) == 1 and isinstance(n.targets[0], ast.Name) and n.targets[0].id not in known \
                and _is_literal(n.value):
            consts[n.targets[0].id] = n.value
    if consts:
        stores = {}
        for node in ast.walk(mod):
            if isinstance(node, ast.Name) and node.id in consts and not isinstance(node.ctx, ast.Load):
                stores[node.id] = stores.get(node.id, 0) + 1
            if isinstance(node, ast.Global):
                for nm in node.names:
                    stores[nm] = 99
            # mutation through the name: x[..] = .., x.attr(..) calls, del x[..], augmented assignment
            if isinstance(node, ast.Subscript) and isinstance(node.value, ast.Name) and node.value.id in consts \
                    and not isinstance(node.ctx, ast.Load):
                stores[node.value.id] = 99
            if isinstance(node, ast.Attribute) and isinstance(node.value, ast.Name) and node.value.id in consts \
                    and node.attr not in ('get', 'keys', 'values', 'items', 'index', 'count'):
                stores[node.value.id] = 99
        consts = {k: v for k, v in consts.items() if stores.get(k, 0) == 1}

        class Inl(ast.NodeTransformer):
            def visit_Name(self, node):
                if isinstance(node.ctx, ast.Load) and node.id in consts:
                    return ast.copy_location(copy.deepcopy(consts[node.id]), node)
                return node
        for n in mod.body:
            if isinstance(n, (ast.FunctionDef, ast.ClassDef)):
                Inl().visit(n)
        notes += ['%s: new constant %s inlined' % (relpath, k) for k in sorted(consts)]
    # 3. new straight-line module-level helpers
    helpers = {}
    for n in mod.body:
        if isinstance(n, ast.FunctionDef) and n.name not in known and not n.decorator_list and not n.args.vararg and not n.args.kwarg \
                and not n.args.kwonlyargs and not n.args.defaults:
            body = n.body[1:] if (n.body and isinstance(n.body[0], ast.Expr) and isinstance(n.body[0].value, ast.Constant)) else n.body
            if body and isinstance(body[-1], ast.Return) and body[-1].value is not None and \
                    all(isinstance(st, ast.Assign) and all(isinstance(t, ast.Name) for t in st.targets) for st in body[:-1]):
                helpers[n.name] = (n, body)
    used = []
    if helpers:
        def expand(st, fn_locals):
            call = st.value
            if not (isinstance(call, ast.Call) and isinstance(call.func, ast.Name) and call.func.id in helpers and not call.keywords):
                return None
            h, body = helpers[call.func.id]
            params = [a.arg for a in h.args.args]
            if len(params) != len(call.args) or not all(isinstance(a, (ast.Name, ast.Constant)) for a in call.args):
                return None
            sub = dict(zip(params, call.args))
            inner = {t.id for b in body[:-1] for t in b.targets}
            if inner & (fn_locals | set(params)):
                return None

            class Sub(ast.NodeTransformer):
                def visit_Name(self, node):
                    if isinstance(node.ctx, ast.Load) and node.id in sub:
                        return ast.copy_location(copy.deepcopy(sub[node.id]), node)
                    return node
            out = [Sub().visit(copy.deepcopy(b)) for b in body[:-1]]
            last = copy.deepcopy(st)
            last.value = Sub().visit(copy.deepcopy(body[-1].value))
            used.append(call.func.id)
            return out + [last]

        def walk_body(stmts, fn_locals):
            res = []
            for st in stmts:
                rep = expand(st, fn_locals) if isinstance(st, (ast.Assign, ast.Return)) and st.value is not None else None
                if rep is not None:
                    res.extend(rep)
                    continue
                for fld in ('body', 'orelse', 'finalbody'):
                    if isinstance(getattr(st, fld, None), list) and not isinstance(st, (ast.FunctionDef, ast.ClassDef)):
                        setattr(st, fld, walk_body(getattr(st, fld), fn_locals))
                res.append(st)
            return res
        for fn in [x for x in ast.walk(mod) if isinstance(x, ast.FunctionDef) and x.name not in helpers]:
            fn_locals = {a.arg for a in fn.args.args} | {x.id for x in ast.walk(fn) if isinstance(x, ast.Name) and isinstance(x.ctx, ast.Store)}
            fn.body = walk_body(fn.body, fn_locals)
        notes += ['%s: new helper %s inlined at its call sites' % (relpath, k) for k in sorted(set(used))]
    if notes:
        ast.fix_missing_locations(mod)
        for x in notes:
            if x not in NORMALISED:
                NORMALISED.append(x)
    return mod


def path_table(fn, atoms, order):
    """symbolic execution of a function made of local assignments, if/else and returns over a finite set of atomic conditions:
    {truth assignment -> returned expression with the locals substituted}.  Anything else raises Unsupported."""
    import copy
    import itertools

    def cond(test, val):
        if isinstance(test, ast.UnaryOp) and isinstance(test.op, ast.Not):
            return not cond(test.operand, val)
        if isinstance(test, ast.BoolOp):
            vs = [cond(v, val) for v in test.values]
            return all(vs) if isinstance(test.op, ast.And) else any(vs)
        key = ast.unparse(test)
        if key not in atoms:
            raise Unsupported('condition %s' % key)
        name, pol = atoms[key]
        return val[name] == pol

    def subst(e, env):
        class S(ast.NodeTransformer):
            def visit_Name(self, node):
                if isinstance(node.ctx, ast.Load) and node.id in env:
                    return copy.deepcopy(env[node.id])
                return node
        return S().visit(copy.deepcopy(e))

    def run(stmts, env, val):
        for st in stmts:
            if isinstance(st, ast.Expr) and isinstance(st.value, ast.Constant):
                continue
            if isinstance(st, ast.Assign) and len(st.targets) == 1 and isinstance(st.targets[0], ast.Name):
                env[st.targets[0].id] = subst(st.value, env)
            elif isinstance(st, ast.If):
                r = run(st.body if cond(st.test, val) else st.orelse, env, val)
                if r is not None:
                    return r
            elif isinstance(st, ast.Return) and st.value is not None:
                return ast.unparse(subst(st.value, env))
            else:
                raise Unsupported('statement ' + ast.unparse(st)[:80])
        return None
    out = {}
    for bits in itertools.product([True, False], repeat=len(order)):
        r = run(fn.body, {}, dict(zip(order, bits)))
        if r is None:
            raise Unsupported('a path of %s returns nothing' % fn.name)
        out[bits] = r
    return out


def compute_renames():
    """the renamed private helpers of the current tree (see `normalise`), for the harness: {relpath: [(scope, new, old)]}"""
    bpath = os.path.join(HERE, 'baseline.json')
    shape = json.load(open(bpath)).get('__shape__', {}) if os.path.exists(bpath) else {}
    saved = dict(_SHAPE)
    _SHAPE.clear()
    _SHAPE.update(shape)
    RENAMES.clear()
    try:
        for f in shape:
            try:
                parse(f)
            except (OSError, SyntaxError):
                pass
        return {k: list(v) for k, v in RENAMES.items()}
    finally:
        _SHAPE.clear()
        _SHAPE.update(saved)


def parse(relpath, raw=False):
    mod = ast.parse(open(os.path.join(REPO, 'src', 'numdifftools', relpath)).read())
    return mod if raw else normalise(mod, relpath)


def find_class(mod, name):
    for n in mod.body:
        if isinstance(n, ast.ClassDef) and n.name == name:
            return n
    raise Unsupported('class %s not found' % name)


def funcs_of(cls):
    return {f.name: f for f in cls.body if isinstance(f, ast.FunctionDef)}


class Unit:
    """one generated Lean file"""

    def __init__(self, fname, header):
        self.fname = fname
        self.header = header
        self.items = []    # (key, text)

    def add(self, key, text):
        self.items.append((key, text))


def translate_class(unit, status, baseline, cls, struct, selfattrs, want, argtypes=None, prefix=None, extra_resolve=None):
    """translate the listed methods/properties of a class in dependency order (callees first)."""
    fs = funcs_of(cls)
    done = {}
    prefix = prefix or struct
    argtypes = argtypes or {}
    order = []

    def resolve(name):
        if extra_resolve and name in extra_resolve:
            return extra_resolve[name]
        if name in done:
            return done[name]
        if name in want and name in fs:
            tr_one(name)
            return done.get(name)
        return None

    def tr_one(name):
        if name in done:
            return
        f = fs[name]
        params = [a.arg for a in f.args.args if a.arg != 'self']
        is_static = any(getattr(d, 'id', '') == 'staticmethod' for d in f.decorator_list)
        env = {}
        ptypes = []
        for p in params:
            t = argtypes.get((name, p)) or argtypes.get(p)
            if t is None:
                status[prefix + '.' + name] = {'ok': False, 'error': 'no type for parameter %s' % p}
                return
            env[p] = (p, t)
            ptypes.append(t)
        key = prefix + '.' + name
        try:
            done[name] = (name, '?', ptypes)    # recursion guard
            tr = Tr(env, selfattrs, resolve)
            text, rt = tr.body(f.body)
            done[name] = (name, rt, ptypes, '%s.%s' % (struct, name) if is_static else None)
            sig = ' '.join('(%s : %s)' % (p, LT[t]) for p, t in zip(params, ptypes))
            selfarg = '' if is_static else '(self : %s) ' % struct
            lean = 'def %s.%s %s%s : %s :=\n  %s' % (struct, name, selfarg, sig, LT[rt], text)
            for gi, (path, cond) in enumerate(tr.guards):
                lean += '\n\n/-- `_assert` number %d inside `%s`: holds or the path is not taken -/\n' % (gi, name)
                lean += 'def %s.%s_guard%d %s%s : Bool :=\n  (!(%s)) || %s' % (struct, name, gi, selfarg, sig, path, cond)
            status[key] = {'ok': True}
            unit.add(key, lean)
            order.append(name)
        except Unsupported as ex:
            del done[name]
            status[key] = {'ok': False, 'error': str(ex)}
            if key in baseline:
                unit.add(key, baseline[key]['text'])
                done[name] = (name, baseline[key]['ret'], ptypes)
        except Exception as ex:     # malformed source etc.
            done.pop(name, None)
            status[key] = {'ok': False, 'error': 'internal: %r' % ex}
            if key in baseline:
                unit.add(key, baseline[key]['text'])
                done[name] = (name, baseline[key]['ret'], ptypes)

    for name in want:
        if name not in fs:
            status[prefix + '.' + name] = {'ok': False, 'error': 'function not found'}
            key = prefix + '.' + name
            if key in baseline:
                unit.add(key, baseline[key]['text'])
                done[name] = (name, baseline[key]['ret'], [])
            continue
        tr_one(name)
    return done


def gen_logrule(status, baseline):
    u = Unit('LogRule.lean', '''/- GENERATED by translator/py2lean.py from src/numdifftools/finite_difference.py — do not edit -/
import Ndt.Gen.Prelude
namespace Ndt.Gen
structure LogRule where
  n : Nat
  method : Method
  order : Nat
deriving Repr, DecidableEq
''')
    mod = parse('finite_difference.py')
    cls = find_class(mod, 'LogRule')
    selfattrs = {'n': ('self.n', 'nat'), 'order': ('self.order', 'nat'), 'method': ('self.method', 'meth')}
    want = ['_odd_derivative', '_even_derivative', '_derivative_mod_four_is_three', '_derivative_mod_four_is_zero',
            'eval_first_condition', '_complex_high_order', 'richardson_step', 'method_order', '_parity_complex',
            '_parity', '_flip_fd_rule', '_multicomplex_middle_name', '_get_middle_name', '_get_last_name']
    argt = {'order': 'nat', 'method_order': 'nat', 'method': 'meth'}
    # _get_last_name assigns then returns: supported by body(); strings are fragments
    translate_class(u, status, baseline, cls, 'LogRule', selfattrs, want, argt)
    # the tables and index expressions of _fd_matrix / rule
    fs = funcs_of(cls)
    try:
        fm = fs['_fd_matrix']
        got = {}
        for st in ast.walk(fm):
            if isinstance(st, ast.Assign) and isinstance(st.value, ast.Subscript) and isinstance(st.value.value, ast.List):
                nm = st.targets[0].id
                if nm in ('step', 'offset', 'c_0') and isinstance(st.value.slice, ast.Name) and st.value.slice.id == 'parity':
                    vals = [e.value for e in st.value.value.elts]
                    got[nm] = vals
        for nm in ('step', 'offset', 'c_0'):
            if nm not in got:
                raise Unsupported('table %s not found in _fd_matrix' % nm)
            vals = got[nm]
            if nm == 'c_0':
                if any(float(v) != int(v) for v in vals):
                    raise Unsupported('non-integer c_0')
            txt = ', '.join(str(int(v)) for v in vals)
            u.add('LogRule.fd_' + nm, 'def fd_%s (parity : Nat) : Nat := [%s].getD parity 0' % (nm, txt))
            status['LogRule.fd_' + nm] = {'ok': True}
        # the parity guard `_assert(0 <= parity <= 6, ..)`
        g = [s for s in fm.body if isinstance(s, ast.Expr) and isinstance(s.value, ast.Call)
             and getattr(s.value.func, 'id', '') == '_assert']
        tr = Tr({'parity': ('parity', 'nat')}, {}, lambda n: None)
        u.add('LogRule.fd_parity_ok', 'def fd_parity_ok (parity : Nat) : Bool := %s' % tr.coerce(*tr.e(g[0].value.args[0]), 'bool'))
        status['LogRule.fd_parity_ok'] = {'ok': True}
        # c = c_0 / factorial(arange(offset, step*nterms+offset, step));  matrix[i][j] = c[j]*inv_sr**(i*(step*j+offset))
        src = flat(ast.unparse(fm))
        for needle in ('special.factorial(np.arange(offset, step * nterms + offset, step))',
                       'c[j] * inv_sr ** (i * (step * j + offset))', 'inv_sr = 1.0 / step_ratio'):
            if needle not in src:
                raise Unsupported('_fd_matrix shape changed: %r not found' % needle)
        status['LogRule._fd_matrix.shape'] = {'ok': True}
    except Unsupported as ex:
        for nm in ('fd_step', 'fd_offset', 'fd_c_0', 'fd_parity_ok'):
            k = 'LogRule.' + nm
            if k not in status or not status[k].get('ok'):
                status[k] = {'ok': False, 'error': str(ex)}
                if k in baseline:
                    u.add(k, baseline[k]['text'])
        status['LogRule._fd_matrix.shape'] = {'ok': False, 'error': str(ex)}
    # rule(): num_terms, rule_index
    try:
        rl = fs['rule']
        got = {}
        for st in ast.walk(rl):
            if isinstance(st, ast.Assign) and isinstance(st.targets[0], ast.Name) and st.targets[0].id in ('num_terms', 'rule_index'):
                got[st.targets[0].id] = st.value
        resolve = lambda n: {'richardson_step': ('richardson_step', 'nat', []), 'method_order': ('method_order', 'nat', [])}.get(n)
        env = {'order': ('(self.n - 1)', 'nat'), 'method_order': ('self.method_order', 'nat'), 'step': ('self.richardson_step', 'nat')}
        src = flat(ast.unparse(rl))
        if 'order, method_order = (self.n - 1, self.method_order)' not in src or 'step = self.richardson_step' not in src:
            raise Unsupported('rule(): local bindings changed')
        for nm in ('num_terms', 'rule_index'):
            tr = Tr(env, {}, resolve)
            x, t = tr.e(got[nm])
            u.add('LogRule.' + nm, 'def LogRule.%s (self : LogRule) : Nat := %s' % (nm, tr.coerce(x, t, 'nat')))
            status['LogRule.' + nm] = {'ok': True}
        for needle in ("if method in ('multicomplex',) or self.n == 0:", 'parity = self._parity(method, order, method_order)',
                       'fd_rules = linalg.pinv(fd_mat)', 'if self._flip_fd_rule:\nreturn -fd_rules[rule_index]',
                       'return fd_rules[rule_index]', 'step_ratio = make_exact(step_ratio)'):
            if needle not in src:
                raise Unsupported('rule() shape changed: %r not found' % needle)
        # the cache: whatever the module-level dict is called, it is read and written under the key (step_ratio, parity, num_terms)
        import re as _re
        for pat in (r'\b\w+\.get\(\(step_ratio, parity, num_terms\)\)', r'\b\w+\[step_ratio, parity, num_terms\] = fd_rules'):
            if not _re.search(pat, src):
                raise Unsupported('rule() shape changed: the rule cache is not read / written under the key (step_ratio, parity, num_terms)')
        status['LogRule.rule.shape'] = {'ok': True}
    except (Unsupported, KeyError) as ex:
        for nm in ('num_terms', 'rule_index'):
            k = 'LogRule.' + nm
            if k not in status or not status[k].get('ok'):
                status[k] = {'ok': False, 'error': str(ex)}
                if k in baseline:
                    u.add(k, baseline[k]['text'])
        status['LogRule.rule.shape'] = {'ok': False, 'error': str(ex)}
    # overrides of the Hessdiag / Hessian rules
    try:
        hd = find_class(mod, 'LogHessdiagRule')
        hs = find_class(mod, 'LogHessianRule')
        src_hd, src_hs = ast.unparse(hd), ast.unparse(hs)
        if 'n = property(fget=lambda cls: 2' not in src_hd or 'n = property(fget=lambda cls: 2' not in src_hs:
            raise Unsupported('n override of Hessdiag/Hessian rule changed')
        fh = funcs_of(hs)
        tr = Tr({}, {'method': ('m', 'meth')}, lambda n: None)
        getter = [f for f in hs.body if isinstance(f, ast.FunctionDef) and f.name == 'order'
                  and any(getattr(d, 'id', '') == 'property' for d in f.decorator_list)][0]
        x, t = tr.body(getter.body)
        u.add('LogHessianRule.order', 'def hessianRuleOrder (m : Method) : Nat := %s' % tr.coerce(x, t, 'nat'))
        chi = [f for f in hs.body if isinstance(f, ast.FunctionDef) and f.name == '_complex_high_order'][0]
        x, t = Tr({}, {}, lambda n: None).body(chi.body)
        u.add('LogHessianRule._complex_high_order', 'def hessianRuleComplexHighOrder : Bool := %s' % x)
        status['LogHessianRule.overrides'] = {'ok': True}
    except (Unsupported, IndexError) as ex:
        status['LogHessianRule.overrides'] = {'ok': False, 'error': str(ex)}
        for k in ('LogHessianRule.order', 'LogHessianRule._complex_high_order'):
            if k in baseline:
                u.add(k, baseline[k]['text'])
    return u


def gen_steps(status, baseline):
    u = Unit('Steps.lean', '''/- GENERATED by translator/py2lean.py from src/numdifftools/step_generators.py, core.py, limits.py — do not edit -/
import Ndt.Gen.Prelude
namespace Ndt.Gen
/-- the option record of `MinStepGenerator` together with its `_state` (method, n, order) -/
structure StepGen where
  method : Method
  n : Nat
  order : Nat
  numSteps : Option Nat
  checkNumSteps : Bool
  numExtrap : Nat
  stepRatio : Option Rat
deriving Repr
''')
    mod = parse('step_generators.py')
    # module-level default_scale(method, n, order)
    try:
        f = [x for x in mod.body if isinstance(x, ast.FunctionDef) and x.name == 'default_scale'][0]
        tr = Tr({'method': ('method', 'meth'), 'n': ('n', 'nat'), 'order': ('order', 'nat')}, {}, lambda n: None)
        text, rt = tr.body(f.body)
        u.add('default_scale', 'def default_scale (method : Method) (n order : Nat) : Rat :=\n  %s' % tr.coerce(text, rt, 'rat'))
        status['default_scale'] = {'ok': True}
    except (Unsupported, IndexError) as ex:
        status['default_scale'] = {'ok': False, 'error': str(ex)}
        if 'default_scale' in baseline:
            u.add('default_scale', baseline['default_scale']['text'])
    cls = find_class(mod, 'MinStepGenerator')
    selfattrs = {'state.method': ('self.method', 'meth'), 'state.n': ('self.n', 'nat'), 'state.order': ('self.order', 'nat'),
                 '_num_steps': ('self.numSteps', 'optnat'), 'check_num_steps': ('self.checkNumSteps', 'bool'),
                 'num_extrap': ('self.numExtrap', 'nat'), '_step_ratio': ('self.stepRatio', 'optrat')}
    argt = {'method': 'meth', 'n': 'nat', 'order': 'nat'}
    # num_steps uses int(self._num_steps) on an Option: handled by a small rewrite below
    fs = funcs_of(cls)
    want = ['_num_step_divisor', 'min_num_steps']
    translate_class(u, status, baseline, cls, 'StepGen', selfattrs, want, argt)
    # num_steps property: fixed shape, translated by pattern
    try:
        ns = [f for f in cls.body if isinstance(f, ast.FunctionDef) and f.name == 'num_steps'
              and any(getattr(d, 'id', '') == 'property' for d in f.decorator_list)][0]
        # decided by its path table (all truth assignments of the two atomic conditions, locals substituted), so that
        # guard-clause inversions / if-else reorderings of the same decision do not break the tie
        table = path_table(ns, {'self._num_steps is None': ('none', True), 'self._num_steps is not None': ('none', False),
                                'self.check_num_steps': ('check', True)}, ['none', 'check'])
        expect = {(True, True): 'self.min_num_steps + int(self.num_extrap)', (True, False): 'self.min_num_steps + int(self.num_extrap)',
                  (False, True): 'max(int(self._num_steps), self.min_num_steps)', (False, False): 'int(self._num_steps)'}
        if table != expect:
            raise Unsupported('num_steps property changed: path table %r' % (table,))
        u.add('StepGen.num_steps', '''def StepGen.num_steps (self : StepGen) : Nat :=
  let min_num_steps := self.min_num_steps
  match self.numSteps with
  | some k => if self.checkNumSteps then max k min_num_steps else k
  | none => min_num_steps + self.numExtrap''')
        status['StepGen.num_steps'] = {'ok': True}
    except (Unsupported, IndexError) as ex:
        status['StepGen.num_steps'] = {'ok': False, 'error': str(ex)}
        if 'StepGen.num_steps' in baseline:
            u.add('StepGen.num_steps', baseline['StepGen.num_steps']['text'])
    # default step ratio: {1: 2.0}.get(self._state.n, 1.6)
    try:
        sr = [f for f in cls.body if isinstance(f, ast.FunctionDef) and f.name == 'step_ratio'
              and any(getattr(d, 'id', '') == 'property' for d in f.decorator_list)][0]
        dflt = None
        for st in ast.walk(sr):
            if isinstance(st, ast.Call) and isinstance(st.func, ast.Attribute) and st.func.attr == 'get' and isinstance(st.func.value, ast.Dict):
                dflt = st
        if dflt is None:
            raise Unsupported('default step_ratio expression not found')
        tr = Tr({}, selfattrs, lambda n: None)
        x, t = tr.e(dflt)
        u.add('StepGen.default_step_ratio', 'def StepGen.default_step_ratio (self : StepGen) : Rat := %s' % tr.coerce(x, t, 'rat'))
        status['StepGen.default_step_ratio'] = {'ok': True}
    except (Unsupported, IndexError) as ex:
        status['StepGen.default_step_ratio'] = {'ok': False, 'error': str(ex)}
        if 'StepGen.default_step_ratio' in baseline:
            u.add('StepGen.default_step_ratio', baseline['StepGen.default_step_ratio']['text'])
    # constructor defaults of MaxStepGenerator / MinStepGenerator / CStepGenerator (kwargs of __init__)
    try:
        def defaults(cls_node):
            init = funcs_of(cls_node)['__init__']
            names = [a.arg for a in init.args.args][1:]
            vals = init.args.defaults
            names = names[len(names) - len(vals):]
            return {n: ast.literal_eval(v) for n, v in zip(names, vals)}
        dmax = defaults(find_class(mod, 'MaxStepGenerator'))
        dmin = defaults(cls)
        lim = parse('limits.py')
        dc = defaults(find_class(lim, 'CStepGenerator'))

        def opt(v):
            return 'none' if v is None else '(some %s)' % (lit_rat(v) if isinstance(v, float) else str(int(v)))
        u.add('defaults', '''/-- constructor defaults, read from the `__init__` signatures -/
def maxGenDefaults : StepGen := { method := .forward, n := 1, order := 2, numSteps := %s, checkNumSteps := %s, numExtrap := %d, stepRatio := %s }
def maxGenBaseStep : Rat := %s
def maxGenUseExact : Bool := %s
def minGenDefaults : StepGen := { method := .forward, n := 1, order := 2, numSteps := %s, checkNumSteps := %s, numExtrap := %d, stepRatio := %s }
def minGenUseExact : Bool := %s
def cGenStepRatio : Rat := %s
def cGenScale : Rat := %s''' % (
            opt(dmax['num_steps']), str(bool(dmax['check_num_steps'])).lower(), dmax['num_extrap'],
            'none' if dmax['step_ratio'] is None else '(some %s)' % lit_rat(dmax['step_ratio']),
            lit_rat(dmax['base_step']), str(bool(dmax['use_exact_steps'])).lower(),
            opt(dmin['num_steps']), str(bool(dmin['check_num_steps'])).lower(), dmin['num_extrap'],
            'none' if dmin['step_ratio'] is None else '(some %s)' % lit_rat(dmin['step_ratio']),
            str(bool(dmin['use_exact_steps'])).lower(),
            lit_rat(dc['step_ratio']), lit_rat(dc['scale'])))
        status['defaults'] = {'ok': True}
    except Exception as ex:
        status['defaults'] = {'ok': False, 'error': repr(ex)}
        if 'defaults' in baseline:
            u.add('defaults', baseline['defaults']['text'])
    # basic generators: exponent expression and ranges
    try:
        bmax = find_class(mod, 'BasicMaxStepGenerator')
        bmin = find_class(mod, 'BasicMinStepGenerator')
        smax, smin = flat(ast.unparse(bmax)), flat(ast.unparse(bmin))
        for needle, where in (('_sign = -1', smax), ('return range(self.num_steps)', smax),
                              ('step = base_step * step_ratio ** (sgn * i + offset)', smax),
                              ('if (np.abs(step) > 0).all():\nyield step', smax),
                              ('_sign = 1', smin), ('return range(self.num_steps - 1, -1, -1)', smin)):
            if needle not in where:
                raise Unsupported('basic step generator changed: %r not found' % needle)
        u.add('basic', '''/-- `BasicMaxStepGenerator`: exponents `-i + offset`, i = 0 … num_steps-1 (checked against the source text) -/
def basicMaxExponents (numSteps : Nat) (offset : Int) : List Int := (List.range numSteps).map (fun (i : Nat) => -(i : Int) + offset)
/-- `BasicMinStepGenerator`: exponents `i + offset`, i = num_steps-1 … 0 -/
def basicMinExponents (numSteps : Nat) (offset : Int) : List Int := (List.range numSteps).reverse.map (fun (i : Nat) => (i : Int) + offset)''')
        status['basic_generators'] = {'ok': True}
    except Unsupported as ex:
        status['basic_generators'] = {'ok': False, 'error': str(ex)}
        if 'basic' in baseline:
            u.add('basic', baseline['basic']['text'])
    return u


# atoms of guard conditions: source text of a sub-expression -> (lean term, type); the free variables are the
# parameters of the generated predicate
GUARD_SITES = [
    # (file, class or None, function, index of the _assert in that function, name, [(param, type)], {source atom: (lean, type)})
    ('core.py', 'Derivative', '_raise_error_if_any_is_complex', 0, 'guard_real_x', [('xComplex', 'bool')],
     {'np.any(np.iscomplex(x))': ('xComplex', 'bool')}),
    ('core.py', 'Derivative', '_raise_error_if_any_is_complex', 1, 'guard_real_fx', [('fComplex', 'bool')],
     {'np.any(np.iscomplex(f_x))': ('fComplex', 'bool')}),
    ('core.py', 'Derivative', '_get_steps', 0, 'guard_some_steps', [('numSteps', 'nat')],
     {'len(steps)': ('numSteps', 'nat')}),
    ('core.py', None, 'directionaldiff', 0, 'guard_directionaldiff', [('x0Size', 'nat'), ('vecSize', 'nat')],
     {'x0.size': ('x0Size', 'nat'), 'vec.size': ('vecSize', 'nat')}),
    ('finite_difference.py', 'LogRule', '_vstack', 0, 'guard_vstack', [('fdelSize', 'nat'), ('hSize', 'nat')],
     {'f_del.size': ('fdelSize', 'nat'), 'h.size': ('hSize', 'nat')}),
    ('finite_difference.py', 'LogJacobianRule', '_vstack', 0, 'guard_vstack_jacobian', [('fdelSize', 'nat'), ('hSize', 'nat')],
     {'f_del.size': ('fdelSize', 'nat'), 'h.size': ('hSize', 'nat')}),
    ('limits.py', '_Limit', '_vstack', 0, 'guard_vstack_limit', [('fdelSize', 'nat'), ('hSize', 'nat')],
     {'f_del.size': ('fdelSize', 'nat'), 'h.size': ('hSize', 'nat')}),
    ('finite_difference.py', 'LogRule', '_apply', 0, 'guard_apply', [('n_r', 'nat'), ('num_steps', 'nat')], {}),
    ('fornberg.py', None, 'fd_weights_all', 0, 'guard_fd_weights_all', [('n', 'nat'), ('m', 'nat')], {}),
    ('fornberg.py', None, 'fd_derivative', 0, 'guard_fd_derivative_order', [('n', 'nat'), ('num_x', 'nat')], {}),
    ('fornberg.py', None, 'fd_derivative', 1, 'guard_fd_derivative_len', [('num_x', 'nat'), ('lenFx', 'nat')],
     {'len(fx)': ('lenFx', 'nat')}),
    ('fornberg.py', None, '_num_taylor_coefficients', 0, 'guard_num_taylor', [('n', 'nat')], {}),
    ('limits.py', 'Residue', '__init__', 0, 'guard_residue', [('pole_order', 'nat'), ('order', 'nat')], {}),
    ('limits.py', 'CStepGenerator', '_check_path', 0, 'guard_path', [('pathIsSpiral', 'bool'), ('pathIsRadial', 'bool')],
     {"self.path in ['spiral', 'radial']": ('(pathIsSpiral || pathIsRadial)', 'bool')}),
    ('extrapolation.py', 'Dea', 'limexp', 0, 'guard_limexp', [('n', 'nat')], {}),
]


class GuardTr(Tr):
    def __init__(self, env, atoms):
        Tr.__init__(self, env, {}, lambda n: None)
        self.atoms = atoms

    def e(self, n):
        src = ast.unparse(n)
        if src in self.atoms:
            return self.atoms[src]
        return Tr.e(self, n)


def gen_guards(status, baseline):
    u = Unit('Guards.lean', '''/- GENERATED by translator/py2lean.py: every `_assert(cond, msg)` that guards the public API, as a predicate
   (true = the call proceeds, false = ValueError) — do not edit -/
import Ndt.Gen.Prelude
namespace Ndt.Gen
''')
    mods = {}
    for (fname, cname, func, idx, name, params, atoms) in GUARD_SITES:
        key = 'guard.' + name
        try:
            if fname not in mods:
                mods[fname] = parse(fname)
            scope = mods[fname].body if cname is None else find_class(mods[fname], cname).body
            cands = [f for f in scope if isinstance(f, ast.FunctionDef) and f.name == func]
            if not cands:
                raise Unsupported('function %s not found' % func)
            # property setters share the name: take the one that contains an _assert
            asserts = []
            for f in cands:
                asserts += [c for c in ast.walk(f) if isinstance(c, ast.Call) and getattr(c.func, 'id', '') == '_assert']
            if len(asserts) <= idx:
                raise Unsupported('_assert #%d not found in %s' % (idx, func))
            tr = GuardTr({p: (p, t) for p, t in params}, atoms)
            cond = tr.coerce(*tr.e(asserts[idx].args[0]), 'bool')
            sig = ' '.join('(%s : %s)' % (p, LT[t]) for p, t in params)
            u.add(key, '/-- %s: `%s` -/\ndef %s %s : Bool := %s' % (
                (cname + '.' if cname else '') + func, ast.unparse(asserts[idx].args[0]), name, sig, cond))
            status[key] = {'ok': True}
        except (Unsupported, KeyError) as ex:
            status[key] = {'ok': False, 'error': str(ex)}
            if key in baseline:
                u.add(key, baseline[key]['text'])
    return u


NP_FUN = {'sin': 'Complex.sin', 'cos': 'Complex.cos', 'sinh': 'Complex.sinh', 'cosh': 'Complex.cosh',
          'exp': 'Complex.exp', 'log': 'Complex.log'}


class CTr:
    """complex-valued expressions of the Bicomplex leaf methods -> Lean terms over ℂ"""

    def __init__(self, env):
        self.env = dict(env)

    def e(self, n):
        if isinstance(n, ast.Constant) and isinstance(n.value, (int, float)) and not isinstance(n.value, bool):
            v = n.value
            if float(v) == int(v):
                return '(%d : ℂ)' % int(v)
            from fractions import Fraction
            fr = Fraction(repr(float(v)))
            return '((%d : ℂ) / %d)' % (fr.numerator, fr.denominator)
        if isinstance(n, ast.Name) and n.id in self.env:
            return self.env[n.id]
        if isinstance(n, ast.Attribute) and isinstance(n.value, ast.Name) and n.value.id in ('self', 'other') and n.attr in ('z1', 'z2'):
            return '%s.%s' % (n.value.id, n.attr)
        if isinstance(n, ast.UnaryOp) and isinstance(n.op, ast.USub):
            return '(-%s)' % self.e(n.operand)
        if isinstance(n, ast.BinOp) and type(n.op) in (ast.Add, ast.Sub, ast.Mult, ast.Div):
            op = {ast.Add: '+', ast.Sub: '-', ast.Mult: '*', ast.Div: '/'}[type(n.op)]
            return '(%s %s %s)' % (self.e(n.left), op, self.e(n.right))
        if isinstance(n, ast.Call) and isinstance(n.func, ast.Attribute) and isinstance(n.func.value, ast.Name) \
                and n.func.value.id == 'np' and len(n.args) == 1:
            f = n.func.attr
            x = self.e(n.args[0])
            if f in NP_FUN:
                return '(%s %s)' % (NP_FUN[f], x)
            if f == 'expm1':
                return '(Complex.exp %s - 1)' % x
            if f == 'log1p':
                return '(Complex.log (1 + %s))' % x
        # module-level helper `_clog1p(w)`: log(1 + w), identified with Complex.log (1 + w) (its body is pinned by the obligation
        # `Bicomplex._clog1p` below; numerically it differs from numpy's complex log1p only in accuracy)
        if isinstance(n, ast.Call) and isinstance(n.func, ast.Name) and n.func.id == '_clog1p' and len(n.args) == 1:
            return '(Complex.log (1 + %s))' % self.e(n.args[0])
        raise Unsupported('complex expression ' + ast.unparse(n)[:80])

    def method(self, f):
        """body: local assignments, optional `other = self._coerce(other)`, `return Bicomplex(e1, e2)`"""
        lets = []
        for st in f.body:
            if isinstance(st, ast.Expr) and isinstance(st.value, ast.Constant):
                continue
            if isinstance(st, ast.Assign) and len(st.targets) == 1:
                t = st.targets[0]
                if isinstance(t, ast.Name) and t.id == 'other' and ast.unparse(st.value) == 'self._coerce(other)':
                    continue
                if isinstance(t, ast.Name):
                    v = self.e(st.value)
                    self.env[t.id] = t.id
                    lets.append('let %s : ℂ := %s' % (t.id, v))
                    continue
                if isinstance(t, ast.Tuple) and isinstance(st.value, ast.Tuple) and len(t.elts) == len(st.value.elts):
                    vals = [self.e(v) for v in st.value.elts]
                    for nm, v in zip(t.elts, vals):
                        lets.append('let %s : ℂ := %s' % (nm.id, v))
                    for nm in t.elts:
                        self.env[nm.id] = nm.id
                    continue
            if isinstance(st, ast.Return) and isinstance(st.value, ast.Call) and getattr(st.value.func, 'id', '') == 'Bicomplex' \
                    and len(st.value.args) == 2:
                a, b = (self.e(x) for x in st.value.args)
                return '\n  '.join(lets + ['⟨%s, %s⟩' % (a, b)])
            raise Unsupported('statement ' + ast.unparse(st)[:80])
        raise Unsupported('no return')


EXTRA_UNITS = []


def pow_integer_loop(f):
    """`Bicomplex._pow_integer`: a prologue (base, n = abs(n), out = one), a `while` loop over the state (out, base, n) whose body
    is a sequence of (conditional) assignments, and `return <expr>`.  The loop becomes a recursion with fuel `n + 1` (the loop
    variable must be halved: `n //= 2`), every statement is translated, nothing is assumed about what the loop computes."""
    body = [st for st in f.body if not (isinstance(st, ast.Expr) and isinstance(st.value, ast.Constant))]

    def nat(e):            # integer expressions over the loop variable n
        if isinstance(e, ast.Name) and e.id == 'n':
            return 'n'
        if isinstance(e, ast.Constant) and isinstance(e.value, int) and not isinstance(e.value, bool) and e.value >= 0:
            return str(e.value)
        if isinstance(e, ast.BinOp) and type(e.op) in (ast.Mod, ast.FloorDiv, ast.Add, ast.Sub, ast.Mult):
            return '(%s %s %s)' % (nat(e.left), {ast.Mod: '%', ast.FloorDiv: '/', ast.Add: '+', ast.Sub: '-', ast.Mult: '*'}[type(e.op)], nat(e.right))
        raise Unsupported('integer expression ' + ast.unparse(e))

    def cond(e):
        if isinstance(e, ast.Compare) and len(e.ops) == 1:
            op = {ast.Gt: '>', ast.GtE: '≥', ast.Lt: '<', ast.LtE: '≤', ast.Eq: '==', ast.NotEq: '!='}.get(type(e.ops[0]))
            if op:
                return '(%s %s %s)' % (nat(e.left), op, nat(e.comparators[0]))
        raise Unsupported('condition ' + ast.unparse(e))

    def bc(e):             # Bicomplex expressions over out, base
        if isinstance(e, ast.Name) and e.id in ('out', 'base'):
            return e.id
        if isinstance(e, ast.BinOp) and isinstance(e.op, ast.Mult):
            return '(%s.mul %s)' % (bc(e.left), bc(e.right))
        raise Unsupported('bicomplex expression ' + ast.unparse(e))

    def assign(st, indent):
        if isinstance(st, ast.Assign) and len(st.targets) == 1 and isinstance(st.targets[0], ast.Name):
            t = st.targets[0].id
            if t in ('out', 'base'):
                return '%slet %s := %s' % (indent, t, bc(st.value))
            if t == 'n':
                return '%slet n := %s' % (indent, nat(st.value))
        if isinstance(st, ast.AugAssign) and isinstance(st.target, ast.Name) and st.target.id == 'n' and isinstance(st.op, ast.FloorDiv):
            return '%slet n := (n / %s)' % (indent, nat(st.value))
        if isinstance(st, ast.If) and not st.orelse and len(st.body) == 1 and isinstance(st.body[0], ast.Assign) \
                and isinstance(st.body[0].targets[0], ast.Name) and st.body[0].targets[0].id in ('out', 'base'):
            t = st.body[0].targets[0].id
            return '%slet %s := if %s then %s else %s' % (indent, t, cond(st.test), bc(st.body[0].value), t)
        raise Unsupported('loop statement ' + ast.unparse(st)[:80])

    if len(body) != 5:
        raise Unsupported('_pow_integer: expected prologue(3) / while / return, found %d statements' % len(body))
    a0, a1, a2, loop, ret = body
    if flat(ast.unparse(a0)) != 'base = self._inverse() if n < 0 else self':
        raise Unsupported('_pow_integer prologue: ' + ast.unparse(a0))
    if flat(ast.unparse(a1)) != 'n = abs(n)':
        raise Unsupported('_pow_integer prologue: ' + ast.unparse(a1))
    if flat(ast.unparse(a2)) != 'out = Bicomplex(np.ones_like(self.z1), np.zeros_like(self.z2))':
        raise Unsupported('_pow_integer prologue: ' + ast.unparse(a2))
    if not isinstance(loop, ast.While) or loop.orelse:
        raise Unsupported('_pow_integer: no while loop')
    if not any(isinstance(st, ast.AugAssign) and isinstance(st.op, ast.FloorDiv) and ast.unparse(st.value) == '2' for st in loop.body):
        raise Unsupported('_pow_integer: the loop variable is not halved (termination argument of the translation)')
    if not isinstance(ret, ast.Return):
        raise Unsupported('_pow_integer: no return')
    test = cond(loop.test)
    stmts = '\n'.join(assign(st, '      ') for st in loop.body)
    rexp = bc(ret.value)
    return ("""/-- the `while` loop of `_pow_integer` on the state (out, base, n); `fuel` bounds the number of iterations -/
def Bc.powLoop : Nat → Bc C → Bc C → Nat → Bc C
  | 0, out, base, _ => %s
  | fuel + 1, out, base, n =>
    if %s then
%s
      Bc.powLoop fuel out base n
    else %s

def Bc.pow_integer [Div C] [OfNat C 0] [OfNat C 1] (self : Bc C) (n : Int) : Bc C :=
  let base := if n < 0 then self.inverse else self
  let n := n.natAbs
  let out : Bc C := ⟨1, 0⟩
  Bc.powLoop (n + 1) out base n""" % (rexp, test, stmts, rexp))


def gen_bicomplex(status, baseline):
    u = Unit('Bicomplex.lean', '''/- GENERATED by translator/py2lean.py from src/numdifftools/multicomplex.py (leaf methods of Bicomplex,
   as terms over ℂ: np.sin ↦ Complex.sin, …) — do not edit -/
import Mathlib.Analysis.Complex.Trigonometric
import Mathlib.Analysis.SpecialFunctions.Complex.Log
namespace Ndt.Gen
/-- `Bicomplex(z1, z2)` = z1 + j z2 -/
structure BC where
  z1 : ℂ
  z2 : ℂ
''')
    mod = parse('multicomplex.py')
    cls = find_class(mod, 'Bicomplex')
    fs = funcs_of(cls)
    unary = ['__neg__', 'conjugate', 'sin', 'cos', 'cosh', 'sinh', 'exp', 'expm1']
    binary = ['__add__', '__sub__', '__mul__']
    for name in unary + binary:
        key = 'Bicomplex.' + name
        lname = name.strip('_')
        try:
            if name not in fs:
                raise Unsupported('method not found')
            body = CTr({}).method(fs[name])
            sig = '(self other : BC)' if name in binary else '(self : BC)'
            u.add(key, 'noncomputable def BC.%s %s : BC :=\n  %s' % (lname, sig, body))
            status[key] = {'ok': True}
        except Unsupported as ex:
            status[key] = {'ok': False, 'error': str(ex)}
            if key in baseline:
                u.add(key, baseline[key]['text'])
    # the ring operations once more, computable and generic in the component type (run by the driver on
    # Gaussian rationals)
    ring = Unit('BicomplexRing.lean', '''/- GENERATED by translator/py2lean.py from src/numdifftools/multicomplex.py (ring operations of Bicomplex,
   generic in the component type) — do not edit -/
namespace Ndt.Gen
structure Bc (C : Type) where
  z1 : C
  z2 : C
variable {C : Type} [Add C] [Sub C] [Mul C] [Neg C]
''')
    for name in ['__neg__', 'conjugate', '__add__', '__sub__', '__mul__']:
        key = 'BicomplexRing.' + name
        try:
            body = CTr({}).method(fs[name]).replace(' : ℂ', ' : C')
            sig = '(self other : Bc C)' if name in binary else '(self : Bc C)'
            ring.add(key, 'def Bc.%s %s : Bc C :=\n  %s' % (name.strip('_'), sig, body))
            status[key] = {'ok': True}
        except (Unsupported, KeyError) as ex:
            status[key] = {'ok': False, 'error': str(ex)}
            if key in baseline:
                ring.add(key, baseline[key]['text'])
    # _inverse (straight-line) and _pow_integer (square-and-multiply loop -> fuelled recursion)
    key = 'BicomplexRing._inverse'
    try:
        body = CTr({}).method(fs['_inverse']).replace(' : ℂ', ' : C')
        ring.add(key, 'def Bc.inverse [Div C] (self : Bc C) : Bc C :=\n  %s' % body)
        status[key] = {'ok': True}
    except (Unsupported, KeyError) as ex:
        status[key] = {'ok': False, 'error': str(ex)}
        if key in baseline:
            ring.add(key, baseline[key]['text'])
    key = 'BicomplexRing._pow_integer'
    try:
        ring.add(key, pow_integer_loop(fs['_pow_integer']))
        status[key] = {'ok': True}
    except (Unsupported, KeyError, IndexError, AttributeError) as ex:
        status[key] = {'ok': False, 'error': str(ex)}
        if key in baseline:
            ring.add(key, baseline[key]['text'])
    EXTRA_UNITS.append(ring)
    # log1p: Bicomplex(<modulus part>, self.arg_c1p()) — only the first component is a leaf formula
    try:
        f = fs['log1p']
        ret = [st for st in f.body if isinstance(st, ast.Return)][0]
        tr = CTr({})
        for st in f.body:
            if isinstance(st, ast.Assign) and isinstance(st.targets[0], ast.Tuple):
                for nm, v in zip(st.targets[0].elts, st.value.elts):
                    tr.env[nm.id] = tr.e(v)
        if ast.unparse(ret.value.args[1]) != 'self.arg_c1p()':
            raise Unsupported('log1p second component changed')
        u.add('Bicomplex.log1p.z1', 'noncomputable def BC.log1p_z1 (self : BC) : ℂ :=\n  %s' % tr.e(ret.value.args[0]))
        status['Bicomplex.log1p.z1'] = {'ok': True}
        # the helper the formula calls, if any, must be the pinned text (it is identified with log(1 + w), see CTr.e)
        if '_clog1p' in ast.unparse(ret.value):
            helper = [st for st in mod.body if isinstance(st, ast.FunctionDef) and st.name == '_clog1p']
            body = [st for st in helper[0].body if not (isinstance(st, ast.Expr) and isinstance(st.value, ast.Constant))] if helper else []
            want = ['a, b = (np.real(w), np.imag(w))', 'return 0.5 * np.log1p(a * (2 + a) + b * b) + 1j * np.arctan2(b, 1 + a)']
            if [flat(ast.unparse(st)) for st in body] != want:
                status['Bicomplex._clog1p'] = {'ok': False, 'error': '_clog1p is not the pinned stable log(1 + w): ' + ' ; '.join(flat(ast.unparse(st)) for st in body)[:200]}
            else:
                status['Bicomplex._clog1p'] = {'ok': True}
        # mod_c
        m = fs['mod_c']
        src = flat(ast.unparse(m))
        if 'r11, r22 = (self.z1 * self.z1, self.z2 * self.z2)' not in src or 'r = np.sqrt(r11 + r22)' not in src:
            raise Unsupported('mod_c changed')
        u.add('Bicomplex.mod_c_sq', 'noncomputable def BC.mod_c_sq (self : BC) : ℂ := self.z1 * self.z1 + self.z2 * self.z2')
        status['Bicomplex.mod_c'] = {'ok': True}
    except (Unsupported, KeyError, IndexError) as ex:
        status['Bicomplex.log1p.z1'] = {'ok': False, 'error': str(ex)}
        for k in ('Bicomplex.log1p.z1', 'Bicomplex.mod_c_sq'):
            if k in baseline:
                u.add(k, baseline[k]['text'])
    return u

class NpTr:
    """one element of a vectorised numpy computation -> a Lean term over `Num K` with the platform constants in `c : Consts K`.
    Fragment: + - * /, unary minus, abs / np.abs, max_abs, comparisons, `|` `&` on comparisons, np.where, names, the constants
    _EPS, _TINY and the float literals 1.0, 10 and 1.0e-4 (the fields of `Consts`)."""

    CONSTS = {'_EPS': 'c.eps', '_TINY': 'c.tiny'}

    def __init__(self, names):
        self.names = set(names)
        self.props = set()          # names bound to propositions

    def num(self, v):
        if isinstance(v, bool):
            raise Unsupported('bool literal')
        if float(v) == 1.0:
            return 'Num.one'
        if float(v) == 10.0:
            return 'c.ten'
        if float(v) == 1.0e-4:
            return 'c.small'
        raise Unsupported('numeric literal %r has no counterpart in Consts' % (v,))

    def e(self, n):
        if isinstance(n, ast.Constant) and isinstance(n.value, (int, float)):
            return self.num(n.value)
        if isinstance(n, ast.Name):
            if n.id in self.CONSTS:
                return self.CONSTS[n.id]
            if n.id in self.names:
                return n.id
            raise Unsupported('name ' + n.id)
        if isinstance(n, ast.UnaryOp) and isinstance(n.op, ast.USub):
            return '(-%s)' % self.e(n.operand)
        if isinstance(n, ast.BinOp) and type(n.op) in (ast.Add, ast.Sub, ast.Mult, ast.Div):
            return '(%s %s %s)' % (self.e(n.left), {ast.Add: '+', ast.Sub: '-', ast.Mult: '*', ast.Div: '/'}[type(n.op)], self.e(n.right))
        if isinstance(n, ast.BinOp) and type(n.op) in (ast.BitOr, ast.BitAnd):
            return '(%s %s %s)' % (self.p(n.left), '∨' if isinstance(n.op, ast.BitOr) else '∧', self.p(n.right))
        if isinstance(n, ast.Call):
            f = ast.unparse(n.func)
            if f in ('np.abs', 'abs') and len(n.args) == 1:
                return '(Num.abs %s)' % self.e(n.args[0])
            if f == 'max_abs' and len(n.args) == 2:
                return '(maxAbs %s %s)' % (self.e(n.args[0]), self.e(n.args[1]))
            if f == 'np.where' and len(n.args) == 3:
                return '(if %s then %s else %s)' % (self.p(n.args[0]), self.e(n.args[1]), self.e(n.args[2]))
        if isinstance(n, ast.Compare):
            return self.p(n)
        raise Unsupported('numpy expression ' + ast.unparse(n)[:80])

    def p(self, n):
        if isinstance(n, ast.Compare) and len(n.ops) == 1:
            op = {ast.Lt: '<', ast.LtE: '≤'}.get(type(n.ops[0]))
            if op:
                return '(%s %s %s)' % (self.e(n.left), op, self.e(n.comparators[0]))
            if isinstance(n.ops[0], (ast.Gt, ast.GtE)):
                return '(%s %s %s)' % (self.e(n.comparators[0]), '<' if isinstance(n.ops[0], ast.Gt) else '≤', self.e(n.left))
        if isinstance(n, ast.BinOp) and type(n.op) in (ast.BitOr, ast.BitAnd):
            return self.e(n)
        if isinstance(n, ast.Name) and n.id in self.props:
            return n.id
        raise Unsupported('condition ' + ast.unparse(n)[:80])

    def is_prop(self, n):
        return isinstance(n, ast.Compare) or (isinstance(n, ast.BinOp) and type(n.op) in (ast.BitOr, ast.BitAnd))

    def stmt(self, st):
        """-> list of `let` lines"""
        if isinstance(st, ast.Assign) and len(st.targets) == 1:
            t = st.targets[0]
            if isinstance(t, ast.Name):
                txt = self.e(st.value)
                self.names.add(t.id)
                if self.is_prop(st.value):
                    self.props.add(t.id)
                return ['let %s := %s' % (t.id, txt)]
            if isinstance(t, ast.Tuple) and isinstance(st.value, ast.Tuple) and len(t.elts) == len(st.value.elts):
                vals = [self.e(v) for v in st.value.elts]            # all right-hand sides first (Python evaluates the tuple first)
                out = []
                for nm, v, src in zip(t.elts, vals, st.value.elts):
                    out.append('let %s := %s' % (nm.id, v))
                for nm, src in zip(t.elts, st.value.elts):
                    self.names.add(nm.id)
                    if self.is_prop(src):
                        self.props.add(nm.id)
                # a later right-hand side must not mention an earlier target of the same statement
                tn = [nm.id for nm in t.elts]
                for k, src in enumerate(st.value.elts):
                    if any(isinstance(x, ast.Name) and x.id in tn[:k] for x in ast.walk(src)):
                        raise Unsupported('tuple assignment reads one of its own targets: ' + ast.unparse(st)[:80])
                return out
            # masked assignment  x[cond] = v   ->   let x := if cond then v else x
            if isinstance(t, ast.Subscript) and isinstance(t.value, ast.Name) and t.value.id in self.names:
                return ['let %s := if %s then %s else %s' % (t.value.id, self.p(t.slice), self.e(st.value), t.value.id)]
        raise Unsupported('statement ' + ast.unparse(st)[:80])


def gen_dea3(status, baseline):
    """`extrapolation.dea3`: the elementwise body, statement by statement"""
    u = Unit('Dea3.lean', '''/- GENERATED by translator/py2lean.py from src/numdifftools/extrapolation.py (one element of the vectorised dea3) — do not edit -/
import Ndt.Model.Dea3
namespace Ndt.Gen
open Ndt
''')
    key = 'dea3.elementwise'
    try:
        mod = parse('extrapolation.py')
        f = [n for n in mod.body if isinstance(n, ast.FunctionDef) and n.name == 'dea3'][0]
        body = [st for st in f.body if not (isinstance(st, ast.Expr) and isinstance(st.value, ast.Constant))]
        # the helper the tolerances go through is translated as `maxAbs`: its body is pinned
        mx = [n for n in mod.body if isinstance(n, ast.FunctionDef) and n.name == 'max_abs'][0]
        if flat(ast.unparse(mx.body[-1])) != 'return np.maximum(np.abs(a), np.abs(b))':
            raise Unsupported('max_abs changed: ' + ast.unparse(mx.body[-1]))
        if flat(ast.unparse(body[0])) != 'e_0, e_1, e_2 = np.atleast_1d(v_0, v_1, v_2)':
            raise Unsupported('dea3 prologue: ' + ast.unparse(body[0])[:80])
        tr = NpTr(['e_0', 'e_1', 'e_2'])
        lets = []
        rest = body[1:]
        stmts = []
        for st in rest:
            if isinstance(st, ast.With):
                if flat(ast.unparse(st.items[0].context_expr)) != 'warnings.catch_warnings()':
                    raise Unsupported('with ' + ast.unparse(st.items[0].context_expr)[:60])
                for inner in st.body:
                    if isinstance(inner, ast.Expr) and ast.unparse(inner.value).startswith('warnings.simplefilter('):
                        continue
                    stmts.append(inner)
            else:
                stmts.append(st)
        ret = None
        for st in stmts:
            if isinstance(st, ast.If):
                # the `symmetric` trimming of the outputs (modelled by hand in dea3Call): pinned text
                if flat(ast.unparse(st)) != 'if symmetric and len(result) > 1:\nreturn (result[:-1], abserr[1:])':
                    raise Unsupported('dea3 symmetric branch changed: ' + flat(ast.unparse(st))[:120])
                continue
            if isinstance(st, ast.Return):
                if not (isinstance(st.value, ast.Tuple) and len(st.value.elts) == 2):
                    raise Unsupported('dea3 return')
                ret = '(%s, %s)' % (tr.e(st.value.elts[0]), tr.e(st.value.elts[1]))
                continue
            lets += tr.stmt(st)
        if ret is None:
            raise Unsupported('dea3: no return')
        text = ('/-- one element of `dea3(v_0, v_1, v_2)`: `(result, abserr)` -/\n'
                'def dea3_elem {K} [Num K] (c : Consts K) (e_0 e_1 e_2 : K) : K × K :=\n  ' + '\n  '.join(lets + [ret]))
        u.add(key, text)
        status[key] = {'ok': True}
    except (Unsupported, IndexError, KeyError, AttributeError) as ex:
        status[key] = {'ok': False, 'error': str(ex)}
        if key in baseline:
            u.add(key, baseline[key]['text'])
    return u

class NpTrN(NpTr):
    """the same fragment on a normed carrier: `np.abs` / `abs` of a carrier-valued expression is `nrm`, the names in `slices` stand
    for fixed sliced views (one element each), `EPS` is the parameter `eps`"""
    CONSTS = {'EPS': 'eps'}

    def __init__(self, names, slices):
        NpTr.__init__(self, names)
        self.slices = slices

    def num(self, v):
        if float(v) == 10.0:
            return 'ten'
        raise Unsupported('numeric literal %r' % (v,))

    def e(self, n):
        src = flat(ast.unparse(n))
        if src in self.slices:
            return self.slices[src]
        if isinstance(n, ast.Call) and ast.unparse(n.func) in ('np.abs', 'abs') and len(n.args) == 1:
            return '(nrm %s)' % self.e(n.args[0])
        if isinstance(n, ast.Call) and ast.unparse(n.func) == 'max_abs' and len(n.args) == 2:
            return '(maxNrm nrm %s %s)' % (self.e(n.args[0]), self.e(n.args[1]))
        return NpTr.e(self, n)


def gen_richerr(status, baseline):
    """`Richardson._estimate_error`: the two branches reachable from `__call__`, one element each; the branch structure and the
    factor `fact` are pinned text"""
    u = Unit('RichErr.lean', '''/- GENERATED by translator/py2lean.py from src/numdifftools/extrapolation.py (Richardson._estimate_error, one element of
   each reachable branch; `nrm` is np.abs on the carrier of the sequence) — do not edit -/
import Ndt.Num
namespace Ndt.Gen
open Ndt
variable {K : Type} [Num K] {C : Type} [Sub C]

/-- `max_abs(a, b)` -/
def maxNrm (nrm : C → K) (a b : C) : K :=
  let x := nrm a; let y := nrm b; if x < y then y else x
''')
    keys = ['richerr.short', 'richerr.main']
    try:
        mod = parse('extrapolation.py')
        mx = [n for n in mod.body if isinstance(n, ast.FunctionDef) and n.name == 'max_abs'][0]
        if flat(ast.unparse(mx.body[-1])) != 'return np.maximum(np.abs(a), np.abs(b))':
            raise Unsupported('max_abs changed: ' + ast.unparse(mx.body[-1]))
        f = funcs_of(find_class(mod, 'Richardson'))['_estimate_error']
        body = [st for st in f.body if not (isinstance(st, ast.Expr) and isinstance(st.value, ast.Constant))]
        pinned = ['m = new_sequence.shape[0]', 'm_old = old_sequence.shape[0]', 'cov1 = np.sum(np.abs(rule) ** 2)',
                  'fact = np.maximum(12.7062047361747 * np.sqrt(cov1), EPS * 10.0)']
        got = [flat(ast.unparse(st)) for st in body[:4]]
        if got != pinned:
            raise Unsupported('_estimate_error prologue changed: ' + ' ; '.join(got)[:200])
        b1, b2 = body[4], body[5]
        if not (isinstance(b1, ast.If) and flat(ast.unparse(b1.test)) == 'm_old < 2' and len(b1.body) == 1 and isinstance(b1.body[0], ast.Return)):
            raise Unsupported('_estimate_error: first branch')
        if not (isinstance(b2, ast.If) and flat(ast.unparse(b2.test)) == 'm < 2' and isinstance(b2.body[-1], ast.Return)):
            raise Unsupported('_estimate_error: second branch (unreachable from __call__)')
        tr = NpTrN(['fact'], {'new_sequence': 'new_sequence', 'steps': 'steps'})
        short = tr.e(b1.body[0].value)
        u.add('richerr.short', '/-- branch `m_old < 2`, one element -/\n'
              'def richErrShortElem (nrm : C → K) (eps fact : K) (new_sequence steps : C) : K :=\n  ' + short)
        tr2 = NpTrN(['fact'], {'np.diff(new_sequence, axis=0)': '(b - a)', 'new_sequence[1:]': 'b', 'new_sequence[:-1]': 'a',
                               'old_sequence[-m + 1:]': 'o'})
        lets, ret = [], None
        for st in body[6:]:
            if isinstance(st, ast.Return):
                ret = tr2.e(st.value)
            else:
                lets += tr2.stmt(st)
        if ret is None:
            raise Unsupported('_estimate_error: no final return')
        u.add('richerr.main', '/-- last branch, one element: `a = new_sequence[t]`, `b = new_sequence[t+1]`, `o = old_sequence[-m+1+t]` -/\n'
              'def richErrMainElem (nrm : C → K) (eps ten fact : K) (a b o : C) : K :=\n  ' + '\n  '.join(lets + [ret]))
        for k in keys:
            status[k] = {'ok': True}
    except (Unsupported, IndexError, KeyError, AttributeError) as ex:
        for k in keys:
            status[k] = {'ok': False, 'error': str(ex)}
            if k in baseline:
                u.add(k, baseline[k]['text'])
    return u

class DTr:
    """expression translator for the scalar difference quotients (finite_difference.DifferenceFunctions): real values (K), complex
    values (C, through the record `CStep K C`: ofReal, i, sj, re, im), literals that adapt to their context.
    e(node) -> (lean text, 'K' | 'C' | 'lit')"""

    def __init__(self, env):
        self.env = dict(env)      # name -> (lean, type)
        self.complex_used = False

    def lit(self, v):
        if isinstance(v, bool) or not isinstance(v, (int, float)) or float(v) != int(v) or not 0 <= int(v) <= 64:
            raise Unsupported('literal %r' % (v,))
        return str(int(v))

    def as_k(self, x, t):
        if t == 'K':
            return x
        if t == 'lit':
            return '(%s : K)' % x
        raise Unsupported('complex value where a real one is needed')

    def as_c(self, x, t):
        self.complex_used = True
        if t == 'C':
            return x
        return 's.ofReal %s' % (x if t == 'K' and x.isidentifier() else '(%s)' % self.as_k(x, t).strip('()')
                                if t == 'K' else self.as_k(x, t))

    def e(self, n):
        if isinstance(n, ast.Constant):
            if isinstance(n.value, complex):
                if n.value != 1j:
                    raise Unsupported('complex literal %r' % (n.value,))
                self.complex_used = True
                return ('s.i', 'C')
            return (self.lit(n.value), 'lit')
        if isinstance(n, ast.Name):
            if n.id == '_SQRT_J':
                self.complex_used = True
                return ('s.sj', 'C')
            if n.id in self.env:
                return self.env[n.id]
            raise Unsupported('name %s' % n.id)
        if isinstance(n, ast.Attribute) and n.attr in ('imag', 'real'):
            x, t = self.e(n.value)
            if t != 'C':
                raise Unsupported('.%s of a real value' % n.attr)
            return ('s.%s (%s)' % ('im' if n.attr == 'imag' else 're', x), 'K')
        if isinstance(n, ast.Call) and isinstance(n.func, ast.Name) and n.func.id == 'f' and len(n.args) == 1 and not n.keywords:
            x, t = self.e(n.args[0])
            if t == 'lit':
                raise Unsupported('f of a literal')
            return ('f (%s)' % x, t)
        if isinstance(n, ast.BinOp) and isinstance(n.op, (ast.Add, ast.Sub, ast.Mult, ast.Div)):
            a, ta = self.e(n.left)
            b, tb = self.e(n.right)
            op = {ast.Add: '+', ast.Sub: '-', ast.Mult: '*', ast.Div: '/'}[type(n.op)]
            if 'C' in (ta, tb):
                if op == '/':
                    # complex / real: multiplication by the reciprocal (numpy divides both parts; equal in a field)
                    if tb == 'C':
                        raise Unsupported('division by a complex value')
                    return ('(%s * s.ofReal (1 / %s))' % (a, b if tb == 'lit' else '(%s)' % b), 'C')
                return ('(%s %s %s)' % (self.as_c(a, ta), op, self.as_c(b, tb)), 'C')
            if ta == 'lit' and tb == 'lit':
                raise Unsupported('constant folding')
            return ('(%s %s %s)' % (self.as_k(a, ta) if ta != 'lit' else a, op, self.as_k(b, tb) if tb != 'lit' else b), 'K')
        raise Unsupported('difference-function expression ' + ast.unparse(n)[:80])


def gen_difffuns(status, baseline):
    u = Unit('DiffFuns.lean', '''/- GENERATED by translator/py2lean.py from src/numdifftools/finite_difference.py (class DifferenceFunctions) — do not edit -/
import Ndt.Gen.Prelude
namespace Ndt.Gen
/-- real and complex values of the complex-step quotients: `ofReal x` is x as a complex number, `i` = `1j`, `sj` = `_SQRT_J` -/
structure CStep (K C : Type) where
  ofReal : K → C
  i : C
  sj : C
  re : C → K
  im : C → K
variable {K : Type} [Add K] [Sub K] [Mul K] [Div K] [OfNat K 1] [OfNat K 2] [OfNat K 3] [OfNat K 12]
variable {C : Type} [Add C] [Sub C] [Mul C]
''')
    names = ['_central_even', '_central', '_forward', '_backward', '_complex', '_complex_odd', '_complex_odd_higher', '_complex_even',
             '_complex_even_higher']
    try:
        mod = parse('finite_difference.py')
        fs = funcs_of(find_class(mod, 'DifferenceFunctions'))
    except (Unsupported, OSError, SyntaxError) as ex:
        fs = None
        err = str(ex)
    for nm in names:
        key = 'DiffFuns.' + nm
        try:
            if fs is None:
                raise Unsupported(err)
            if nm not in fs:
                raise Unsupported('function not found')
            fn = fs[nm]
            params = [a.arg for a in fn.args.args]
            if len(params) != 4 or params[0] != 'f':
                raise Unsupported('signature %r' % (params,))
            tr = DTr({p_: (p_, 'K') for p_ in params[1:]})
            lets = []
            body = [st for st in fn.body if not (isinstance(st, ast.Expr) and isinstance(st.value, ast.Constant))]
            for st in body[:-1]:
                if not (isinstance(st, ast.Assign) and len(st.targets) == 1 and isinstance(st.targets[0], ast.Name)):
                    raise Unsupported('statement ' + ast.unparse(st)[:80])
                x, t = tr.e(st.value)
                if t == 'lit':
                    raise Unsupported('literal binding')
                lets.append('  let %s := %s' % (st.targets[0].id, x))
                tr.env[st.targets[0].id] = (st.targets[0].id, t)
            if not isinstance(body[-1], ast.Return):
                raise Unsupported('no return')
            x, t = tr.e(body[-1].value)
            if t != 'K':
                raise Unsupported('a difference quotient must be real')
            if tr.complex_used:
                sig = '(s : CStep K C) (f : C → C) (%s : K) : K' % ' '.join(params[1:])
            else:
                sig = '(f : K → K) (%s : K) : K' % ' '.join(params[1:])
            u.add(key, '/-- `%s` -/\ndef DifferenceFunctions.%s %s :=\n%s  %s' % (
                ast.unparse(body[-1]).replace('\n', ' '), nm, sig, ''.join(l + '\n' for l in lets), x))
            status[key] = {'ok': True}
        except (Unsupported, IndexError) as ex:
            status[key] = {'ok': False, 'error': str(ex)}
            if key in baseline:
                u.add(key, baseline[key]['text'])
    return u

class HTr:
    """cell expressions of HessianDifferenceFunctions: real values K (or complex values C through `s : CStep K C`), vectors as functions
    Nat -> K, points `x + a e_i + b e_j` as `shift2 x i a j b`.  `defs` holds the per-index arrays filled by earlier loops
    (`g[i] = f(x + eee[i, :])`), inlined at their use."""

    def __init__(self, loopvars, aliases, defs, hess_scale, complex_mode):
        self.lv = loopvars            # ('i', 'j') or ('i',) at the diagonal statement
        self.aliases = aliases        # e_i -> 'i'
        self.defs = defs              # name -> (index var, expr ast)
        self.scale = hess_scale       # 1 or 2: hess was initialised with scale * outer(h, h)
        self.cx = complex_mode

    def unit(self, n):
        """`eee[i]`, `eee[i, :]`, `e_i` -> loop variable name, else None"""
        if isinstance(n, ast.Name) and n.id in self.aliases:
            return self.aliases[n.id]
        if isinstance(n, ast.Subscript) and isinstance(n.value, ast.Name) and n.value.id == 'eee':
            sl = n.slice
            if isinstance(sl, ast.Tuple) and len(sl.elts) == 2 and isinstance(sl.elts[1], ast.Slice) and isinstance(sl.elts[0], ast.Name):
                return sl.elts[0].id
            if isinstance(sl, ast.Name):
                return sl.id
        return None

    def point(self, n, other):
        """a point expression -> lean `shift2 ..`; coefficients per loop variable"""
        coef = {}

        def add(term, sign):
            if isinstance(term, ast.BinOp) and isinstance(term.op, (ast.Add, ast.Sub)):
                add(term.left, sign)
                add(term.right, sign if isinstance(term.op, ast.Add) else -sign)
                return
            if isinstance(term, ast.Name) and term.id == 'x':
                if sign != 1 or 'x' in coef:
                    raise Unsupported('point expression ' + ast.unparse(n))
                coef['x'] = True
                return
            mult, cx = None, False
            u = self.unit(term)
            if u is None and isinstance(term, ast.BinOp) and isinstance(term.op, ast.Mult) and isinstance(term.left, ast.Constant):
                u = self.unit(term.right)
                if isinstance(term.left.value, complex):
                    if term.left.value != 1j:
                        raise Unsupported('complex factor ' + ast.unparse(term))
                    cx = True
                else:
                    mult = term.left.value
                    if float(mult) != int(mult) or not 1 <= int(mult) <= 16:
                        raise Unsupported('factor ' + ast.unparse(term))
                    mult = int(mult)
            if u is None or u in coef:
                raise Unsupported('point term ' + ast.unparse(term))
            coef[u] = (sign, mult, cx)
        add(n, 1)
        if 'x' not in coef:
            raise Unsupported('point without x: ' + ast.unparse(n))
        idx = [k for k in coef if k != 'x']
        if not idx or len(idx) > 2 or any(k not in self.lv for k in idx):
            raise Unsupported('point indices ' + ast.unparse(n))

        def amount(k):
            sign, mult, cx = coef[k]
            a = 'h %s' % k
            if mult is not None:
                a = '%d * %s' % (mult, a)
            if self.cx:
                a = 's.ofReal (%s)' % (a if sign == 1 else '-(%s)' % a)
                if cx:
                    if sign != 1:
                        raise Unsupported('negative imaginary increment')
                    a = 's.i * s.ofReal (h %s)' % k if mult is None else 's.i * ' + a
                return '(%s)' % a
            if cx:
                raise Unsupported('complex increment in a real-step rule')
            return '(%s)' % a if sign == 1 else '(-(%s))' % a
        # order: as written for two indices; a single index is paired with the other loop variable (zero increment)
        if len(idx) == 2:
            order = [k for k in self.lv if k in idx]
            a, b = order[0], order[1]
            return 'shift2 %s %s %s %s %s' % ('xc' if self.cx else 'x', a, amount(a), b, amount(b))
        a = idx[0]
        zero = '(s.ofReal 0)' if self.cx else '0'
        return 'shift2 %s %s %s %s %s' % ('xc' if self.cx else 'x', a, amount(a), other.get(a, a), zero)

    def e(self, n, other):
        """other: for a single-index point, the loop variable that takes the zero increment ({'i': 'j', 'j': 'i'})"""
        if isinstance(n, ast.Constant) and isinstance(n.value, (int, float)) and not isinstance(n.value, bool):
            if float(n.value) != int(n.value) or not 0 <= int(n.value) <= 64:
                raise Unsupported('literal %r' % (n.value,))
            return str(int(n.value))
        if isinstance(n, ast.Name) and n.id == 'f_x':
            return 'f_x'
        if isinstance(n, ast.Call) and isinstance(n.func, ast.Name) and n.func.id == 'f' and len(n.args) == 1:
            return 'f (%s)' % self.point(n.args[0], other)
        if isinstance(n, ast.Attribute) and n.attr == 'imag' and self.cx:
            return 's.im (%s)' % self.e(n.value, other)
        if isinstance(n, ast.Subscript) and isinstance(n.value, ast.Name):
            nm = n.value.id
            if nm == 'hess':
                sl = n.slice
                if isinstance(sl, ast.Tuple) and len(sl.elts) == 2 and all(isinstance(t, ast.Name) and t.id in self.lv for t in sl.elts):
                    a, b = sl.elts[0].id, sl.elts[1].id
                    prod = '(h %s * h %s)' % (a, b)
                    return prod if self.scale == 1 else '(%d * %s)' % (self.scale, prod)
                raise Unsupported('hess index ' + ast.unparse(n))
            if nm in self.defs and isinstance(n.slice, ast.Name) and n.slice.id in self.lv:
                var, expr = self.defs[nm]
                # inline with the definition's index renamed to the use's index

                class Ren(ast.NodeTransformer):
                    def visit_Name(self, node, var=var, to=n.slice.id):
                        return ast.copy_location(ast.Name(id=to, ctx=node.ctx), node) if node.id == var else node
                import copy
                return self.e(Ren().visit(copy.deepcopy(expr)), other)
        if isinstance(n, ast.BinOp) and isinstance(n.op, (ast.Add, ast.Sub, ast.Mult, ast.Div)):
            op = {ast.Add: '+', ast.Sub: '-', ast.Mult: '*', ast.Div: '/'}[type(n.op)]
            a, b = self.e(n.left, other), self.e(n.right, other)
            # Lean's + - are left associative like Python's: parenthesise only the right operand when it is compound
            right_atom = isinstance(n.right, (ast.Constant, ast.Name)) or isinstance(n.right, (ast.Call, ast.Subscript, ast.Attribute))
            left_needs = isinstance(n.left, ast.BinOp) and isinstance(n.op, (ast.Mult, ast.Div)) and isinstance(n.left.op, (ast.Add, ast.Sub))
            if isinstance(n.right, ast.Subscript) and b.startswith('('):
                right_atom = True
            return '%s %s %s' % ('(%s)' % a if left_needs else a, op, b if right_atom else '(%s)' % b)
        raise Unsupported('Hessian cell expression ' + ast.unparse(n)[:80])


def gen_hesscells(status, baseline):
    u = Unit('HessCells.lean', '''/- GENERATED by translator/py2lean.py from src/numdifftools/finite_difference.py (class HessianDifferenceFunctions) — do not edit -/
import Ndt.Gen.DiffFuns
namespace Ndt.Gen
/-- `x + a e_i + b e_j` (vectors are functions `Nat -> K`) -/
def shift2 {K : Type} [Add K] [OfNat K 0] (x : Nat → K) (i : Nat) (a : K) (j : Nat) (b : K) : Nat → K :=
  fun k => x k + (if k = i then a else 0) + (if k = j then b else 0)
variable {K : Type} [Add K] [Sub K] [Mul K] [Div K] [Neg K] [OfNat K 0] [OfNat K 1] [OfNat K 2] [OfNat K 4]
''')
    try:
        mod = parse('finite_difference.py')
        fs = funcs_of(find_class(mod, 'HessianDifferenceFunctions'))
        err = None
    except (Unsupported, OSError, SyntaxError) as ex:
        fs, err = None, str(ex)
    for nm in ('_forward', '_central_even', '_central2', '_complex_even', '_backward'):
        key = 'HessCells.' + nm
        try:
            if fs is None:
                raise Unsupported(err)
            if nm not in fs:
                raise Unsupported('function not found')
            fn = fs[nm]
            if [a.arg for a in fn.args.args] != ['f', 'f_x', 'x', 'h']:
                raise Unsupported('signature')
            body = [st for st in fn.body if not (isinstance(st, ast.Expr) and isinstance(st.value, ast.Constant))]
            if nm == '_backward':
                if len(body) != 1 or flat(ast.unparse(body[0])) != 'return HessianDifferenceFunctions._forward(f, f_x, x, -h)':
                    raise Unsupported('_backward is no longer _forward with -h')
                u.add(key, '/-- `return HessianDifferenceFunctions._forward(f, f_x, x, -h)` -/\n'
                           'def HessianDifferenceFunctions._backward_cell (f : (Nat → K) → K) (f_x : K) (x h : Nat → K) (i j : Nat) : K :=\n'
                           '  HessianDifferenceFunctions._forward_cell f f_x x (fun k => -(h k)) i j')
                status[key] = {'ok': True}
                continue
            complex_mode = nm == '_complex_even'
            scale, defs, main = None, {}, None
            for st in body:
                src = flat(ast.unparse(st))
                if src in ('n = len(x)', 'eee = np.diag(h)', 'dtype = np.result_type(f_x, float)', 'return hess') or \
                        src.startswith(('f_xpe = np.empty(', 'f_xme = np.empty(', 'g = np.empty(', 'hess = np.empty(')):
                    continue
                if src == 'hess = np.outer(h, h)' or src == 'np.outer(h, h, out=hess)':
                    scale = 1
                    continue
                if src in ('hess = 2.0 * np.outer(h, h)',):
                    scale = 2
                    continue
                if isinstance(st, ast.For) and isinstance(st.target, ast.Name) and ast.unparse(st.iter) == 'range(n)':
                    if all(isinstance(b, ast.Assign) and isinstance(b.targets[0], ast.Subscript) and isinstance(b.targets[0].value, ast.Name)
                           and b.targets[0].value.id != 'hess' for b in st.body):
                        for b in st.body:       # per-index arrays: name[i] = expr
                            if not (isinstance(b.targets[0].slice, ast.Name) and b.targets[0].slice.id == st.target.id):
                                raise Unsupported('array fill ' + ast.unparse(b))
                            defs[b.targets[0].value.id] = (st.target.id, b.value)
                        continue
                    if main is not None:
                        raise Unsupported('two main loops')
                    main = st
                    continue
                raise Unsupported('statement ' + src[:80])
            if main is None or scale is None:
                raise Unsupported('main loop / hess initialisation not found')
            iv = main.target.id
            aliases, diag, inner = {}, None, None
            for b in main.body:
                if isinstance(b, ast.Assign) and isinstance(b.targets[0], ast.Name) and isinstance(b.value, ast.Subscript):
                    t = HTr((iv,), {}, {}, scale, complex_mode).unit(b.value)
                    if t != iv:
                        raise Unsupported('alias ' + ast.unparse(b))
                    aliases[b.targets[0].id] = iv
                elif isinstance(b, ast.Assign) and flat(ast.unparse(b.targets[0])) == 'hess[%s, %s]' % (iv, iv):
                    diag = b.value
                elif isinstance(b, ast.For) and isinstance(b.target, ast.Name):
                    inner = b
                else:
                    raise Unsupported('main loop statement ' + ast.unparse(b)[:80])
            if inner is None:
                raise Unsupported('inner loop not found')
            jv = inner.target.id
            rng_ = ast.unparse(inner.iter)
            if rng_ not in ('range(%s, n)' % iv, 'range(%s + 1, n)' % iv):
                raise Unsupported('inner range ' + rng_)
            if (rng_ == 'range(%s + 1, n)' % iv) != (diag is not None):
                raise Unsupported('diagonal statement and inner range do not fit')
            off = None
            for b in inner.body:
                if isinstance(b, ast.Assign) and isinstance(b.targets[0], ast.Name) and isinstance(b.value, ast.Subscript):
                    t = HTr((iv, jv), {}, {}, scale, complex_mode).unit(b.value)
                    if t != jv:
                        raise Unsupported('alias ' + ast.unparse(b))
                    aliases[b.targets[0].id] = jv
                elif isinstance(b, ast.Assign) and flat(ast.unparse(b.targets[0])) == 'hess[%s, %s]' % (iv, jv):
                    off = b.value
                elif flat(ast.unparse(b)) == 'hess[%s, %s] = hess[%s, %s]' % (jv, iv, iv, jv):
                    pass
                elif isinstance(b, ast.Assign) and flat(ast.unparse(b.targets[0])) == 'zph':
                    raise Unsupported('bicomplex cell')
                else:
                    raise Unsupported('inner loop statement ' + ast.unparse(b)[:80])
            if off is None:
                raise Unsupported('cell assignment not found')
            if (iv, jv) != ('i', 'j'):
                raise Unsupported('loop variables are not i, j')
            tr2 = HTr(('i', 'j'), aliases, defs, scale, complex_mode)
            off_l = tr2.e(off, {'i': 'j', 'j': 'i'})
            if diag is not None:
                diag_l = HTr(('i',), {k: v for k, v in aliases.items() if v == 'i'}, defs, scale, complex_mode).e(diag, {'i': 'i'})
                text = 'if i = j then %s\n  else %s' % (diag_l, off_l)
            else:
                text = off_l
            if complex_mode:
                sig = '{C : Type} [Add C] [Sub C] [Mul C] [OfNat C 0] (s : CStep K C) (f : (Nat → C) → C) (x h : Nat → K) (i j : Nat) : K'
                text = 'let xc : Nat → C := fun k => s.ofReal (x k)\n  ' + text
            else:
                sig = '(f : (Nat → K) → K) (f_x : K) (x h : Nat → K) (i j : Nat) : K'
            u.add(key, '/-- cell (i, j), i <= j, of `HessianDifferenceFunctions.%s` -/\ndef HessianDifferenceFunctions.%s_cell %s :=\n  %s'
                  % (nm, nm, sig, text))
            status[key] = {'ok': True}
        except (Unsupported, IndexError, AttributeError) as ex:
            status[key] = {'ok': False, 'error': str(ex)}
            if key in baseline:
                u.add(key, baseline[key]['text'])
    return u


def gen_ndscipy(status, baseline):
    u = Unit('NdScipy.lean', '''/- GENERATED by translator/py2lean.py from src/numdifftools/nd_scipy.py — do not edit -/
import Ndt.Gen.Prelude
namespace Ndt.Gen
/-- the `method` strings of scipy.optimize._numdiff.approx_derivative -/
inductive ScipyMethod | cs | threePoint | twoPoint
deriving DecidableEq, Repr
''')
    key = 'NdScipy.method_map'
    try:
        mod = parse('nd_scipy.py')
        cls = find_class(mod, 'Jacobian')
        call = funcs_of(cls)['__call__']
        table = None
        for node in ast.walk(call):
            if isinstance(node, ast.Subscript) and isinstance(node.value, ast.Call) and getattr(node.value.func, 'id', '') == 'dict' \
                    and ast.unparse(node.slice) == 'self.method':
                table = {k.arg: k.value.value for k in node.value.keywords}
        if table is None:
            raise Unsupported('method table not found')
        names = {'cs': '.cs', '3-point': '.threePoint', '2-point': '.twoPoint'}
        alts = []
        for m in METHODS:
            if m in table:
                if table[m] not in names:
                    raise Unsupported('unknown scipy method %r' % table[m])
                alts.append('| .%s => some %s' % (m, names[table[m]]))
            else:
                alts.append('| .%s => none' % m)
        u.add(key, '/-- `dict(...)[self.method]`; `none` = KeyError -/\ndef ndScipyMethod (m : Method) : Option ScipyMethod :=\n  match m with '
              + ' '.join(alts) + ' | .other => none')
        src = flat(ast.unparse(call))
        for needle in ('x = np.atleast_1d(x)', "options = dict(method=method, rel_step=self.step, args=args, kwargs=kwds, bounds=self.bounds, sparsity=self.sparsity)",
                       'grad = approx_derivative(self.fun, x, **options)'):
            if needle not in src:
                raise Unsupported('nd_scipy.Jacobian.__call__ changed: %r not found' % needle)
        gsrc = flat(ast.unparse(funcs_of(find_class(mod, 'Gradient'))['__call__']))
        if 'return super(Gradient, self).__call__(np.atleast_1d(x).ravel(), *args, **kwds).squeeze()' not in gsrc:
            raise Unsupported('nd_scipy.Gradient.__call__ changed')
        status[key] = {'ok': True}
    except (Unsupported, KeyError) as ex:
        status[key] = {'ok': False, 'error': str(ex)}
        if key in baseline:
            u.add(key, baseline[key]['text'])
    return u


PRELUDE = '''/- GENERATED by translator/py2lean.py — do not edit -/
namespace Ndt.Gen
/-- the closed universe of method names (anything else is `other`) -/
inductive Method | central | central2 | forward | backward | complex | multicomplex | other
deriving DecidableEq, Repr
/-- name fragments of the difference functions -/
inductive Frag | even | odd | two | none | higher
deriving DecidableEq, Repr
def ratPow (x : Rat) : Nat → Rat
  | 0 => 1
  | n + 1 => ratPow x n * x
def Method.ofString : String → Method
  | "central" => .central | "central2" => .central2 | "forward" => .forward | "backward" => .backward
  | "complex" => .complex | "multicomplex" => .multicomplex | _ => .other
end Ndt.Gen
'''


def write_if_changed(path, text):
    if os.path.exists(path) and open(path).read() == text:
        return False
    with open(path, 'w') as f:
        f.write(text)
    return True


def restore_baseline_files():
    """write the generated files exactly as they were when the baseline was taken (used when the freshly generated
    definitions no longer fit the hand-written proofs / driver: the broken obligations are reported, and the model of the
    last known-good source is what the failing-input search is then run against)"""
    bpath = os.path.join(HERE, 'baseline.json')
    files = json.load(open(bpath)).get('__files__', {})
    for fname, text in files.items():
        write_if_changed(os.path.join(GEN, fname), text)
    return bool(files)


def main(update_baseline=False):
    os.makedirs(GEN, exist_ok=True)
    bpath = os.path.join(HERE, 'baseline.json')
    baseline = json.load(open(bpath)) if os.path.exists(bpath) else {}
    baseline.pop('__files__', None)
    _SHAPE.clear()
    _SHAPE.update({} if update_baseline else baseline.pop('__shape__', {}))
    baseline.pop('__shape__', None)
    del NORMALISED[:]
    RENAMES.clear()
    status = {}
    units = []
    del EXTRA_UNITS[:]
    for gen in (gen_logrule, gen_steps, gen_guards, gen_bicomplex, gen_dea3, gen_richerr, gen_difffuns, gen_hesscells, gen_ndscipy):
        try:
            units.append(gen(status, baseline))
        except Exception as ex:     # whole-unit failure (class missing, syntax error ...)
            status['unit:' + gen.__name__] = {'ok': False, 'error': repr(ex)}
    changed = write_if_changed(os.path.join(GEN, 'Prelude.lean'), PRELUDE)
    units = units + EXTRA_UNITS
    files = {'Prelude.lean': PRELUDE}
    for u in units:
        text = u.header + '\n' + '\n\n'.join(t for _k, t in u.items) + '\n\nend Ndt.Gen\n'
        files[u.fname] = text
        changed |= write_if_changed(os.path.join(GEN, u.fname), text)
    if NORMALISED:
        status['__normalised__'] = {'ok': True, 'rewrites': list(NORMALISED)}
    write_if_changed(os.path.join(GEN, 'status.json'), json.dumps(status, indent=1, sort_keys=True))
    if update_baseline:
        base = {}
        for u in units:
            for k, t in u.items:
                ret = 'nat'
                import re
                m = re.search(r'\) : (\w+) :=', t) or re.search(r' : (\w+) :=', t)
                if m:
                    ret = {v: k2 for k2, v in LT.items()}.get(m.group(1), 'nat')
                base[k] = {'text': t, 'ret': ret}
        base['__files__'] = files
        base['__shape__'] = {f: shape_of(parse(f, raw=True)) for f in sorted(os.listdir(os.path.join(REPO, 'src', 'numdifftools')))
                             if f.endswith('.py')}
        json.dump(base, open(bpath, 'w'), indent=1, sort_keys=True)
    bad = {k: v for k, v in status.items() if not v.get('ok')}
    return status, bad, changed


if __name__ == '__main__':
    st, bad, changed = main('--update-baseline' in sys.argv)
    print('py2lean: %d items, %d failed%s' % (len(st), len(bad), ', files changed' if changed else ''))
    for k, v in bad.items():
        print('  FAILED %s: %s' % (k, v['error']))
