"""Random expression programs over the elementary operations the library supports, evaluable on numpy arrays,
complex numbers, Bicomplex numbers and on the Taylor-series oracle (harness/oracle/jets.py)."""
import math

import numpy as np

UNARY = ['exp', 'log', 'sqrt', 'sin', 'cos', 'tan', 'sinh', 'cosh', 'tanh', 'arctan', 'arcsin', 'arcsinh', 'arctanh',
         'expm1', 'log1p']


class Node(object):
    """expression tree; `__call__` evaluates it with whatever number type `t` is"""

    def __init__(self, op, args=(), const=None):
        self.op, self.args, self.const = op, args, const

    def __call__(self, t):
        op = self.op
        if op == 'x':
            return t
        if op == 'const':
            return self.const
        a = [c(t) if isinstance(c, Node) else c for c in self.args]
        if op == 'add':
            return a[0] + a[1]
        if op == 'sub':
            return a[0] - a[1]
        if op == 'mul':
            return a[0] * a[1]
        if op == 'div':
            return a[0] / a[1]
        if op == 'powi':
            return a[0] ** self.const
        if op == 'powr':
            return a[0] ** self.const
        if op == 'scale':
            return self.const * a[0]
        if op == 'shift':
            return self.const + a[0]
        return getattr(np, op)(a[0])

    def __str__(self):
        op = self.op
        if op == 'x':
            return 'x'
        if op == 'const':
            return repr(self.const)
        s = [str(c) for c in self.args]
        if op in ('add', 'sub', 'mul', 'div'):
            return '(%s %s %s)' % (s[0], {'add': '+', 'sub': '-', 'mul': '*', 'div': '/'}[op], s[1])
        if op in ('powi', 'powr'):
            return '%s**%r' % (s[0], self.const)
        if op == 'scale':
            return '%r*%s' % (self.const, s[0])
        if op == 'shift':
            return '(%r + %s)' % (self.const, s[0])
        return 'np.%s(%s)' % (op, s[0])


X = Node('x')


def _c(rng):
    return round(rng.choice([0.5, 1.0, 1.5, 2.0, 0.25, 3.0]) * rng.choice([1, 1, -1]), 3)


def guarded(rng, name, u):
    """apply the unary function on an argument brought into the function's real domain by an analytic adapter"""
    sq = Node('mul', (u, u))
    if name in ('log', 'sqrt'):
        return Node(name, (Node('shift', (sq,), const=rng.choice([0.5, 1.0, 2.0])),))
    if name == 'log1p':
        return Node(name, (Node('scale', (sq,), const=rng.choice([0.5, 1.0])),))
    if name in ('arcsin', 'arctanh'):
        return Node(name, (Node('scale', (Node('sin', (u,)),), const=rng.choice([0.5, 0.8])),))
    if name == 'tan':
        return Node(name, (Node('scale', (Node('tanh', (u,)),), const=rng.choice([0.5, 1.0])),))
    if name in ('exp', 'sinh', 'cosh', 'expm1'):
        return Node(name, (Node('scale', (Node('sin', (u,)),), const=rng.choice([1.0, 2.0])),)) if rng.random() < 0.5 \
            else Node(name, (Node('scale', (u,), const=rng.choice([0.1, 0.05])),))
    return Node(name, (u,))


def gen_tree(rng, depth):
    if depth == 0 or rng.random() < 0.15:
        r = rng.random()
        if r < 0.7:
            return X
        if r < 0.85:
            return Node('scale', (X,), const=_c(rng))
        return Node('shift', (Node('scale', (X,), const=_c(rng)),), const=_c(rng))
    r = rng.random()
    if r < 0.45:
        return guarded(rng, rng.choice(UNARY), gen_tree(rng, depth - 1))
    if r < 0.75:
        op = rng.choice(['add', 'sub', 'mul'])
        return Node(op, (gen_tree(rng, depth - 1), gen_tree(rng, depth - 1)))
    if r < 0.85:
        den = gen_tree(rng, depth - 1)
        return Node('div', (gen_tree(rng, depth - 1), Node('shift', (Node('mul', (den, den)),), const=rng.choice([1.0, 2.0]))))
    if r < 0.93:
        return Node('powi', (gen_tree(rng, depth - 1),), const=rng.choice([2, 3, 4]))
    base = gen_tree(rng, depth - 1)
    return Node('powr', (Node('shift', (Node('mul', (base, base)),), const=1.0),), const=rng.choice([0.5, 1.5, 2.5, -0.5, 0.3]))


def max_intermediate(tree, x):
    """largest magnitude of any intermediate value of the program at the (float) point x"""
    best = [abs(x)]

    def walk(node):
        if not isinstance(node, Node):
            return node
        if node.op == 'x':
            return x
        if node.op == 'const':
            return node.const
        a = [walk(c) for c in node.args]
        v = Node(node.op, tuple(Node('const', const=float(t)) for t in a), node.const)(x)
        best.append(abs(float(v)))
        return float(v)
    import warnings
    with warnings.catch_warnings():
        warnings.simplefilter('ignore')
        walk(tree)
    return max(best)


def local_scale(d, n, upto):
    """the local size of f and its derivatives: max_k |f^(k)(x)| / k!, k = 0..upto (unit radius), times n!"""
    return math.factorial(n) * max(abs(d[k]) / math.factorial(k) for k in range(min(upto, len(d) - 1) + 1))


def gen_program(rng, nmax, depth=None, xs=None):
    """a program together with a point of its domain and its exact derivatives 0..nmax+4 (from the jets oracle);
    rejected and redrawn while the derivatives are not finite or the function is wildly scaled"""
    from harness.oracle.jets import derivatives
    for _ in range(200):
        tree = gen_tree(rng, depth if depth is not None else rng.randint(1, 4))
        x = xs(rng) if xs else rng.choice([1, -1]) * 10.0 ** rng.uniform(-3, 2)
        try:
            d = derivatives(tree, x, nmax + 4)
        except (ValueError, ZeroDivisionError, OverflowError, TypeError):
            continue
        if not all(isinstance(v, float) and math.isfinite(v) for v in d):
            continue
        mags = [abs(v) / math.factorial(k) for k, v in enumerate(d)]
        top = max(mags)
        if top == 0 or top > 1e12 or top < 1e-12:
            continue
        # reject functions whose Taylor coefficients grow quickly (a singularity closer than ~1/8 to x): the envelope of the
        # property is relative to the local scale and assumes the function is smooth on the scale of the step
        if mags[-1] > 8.0 ** (len(mags) - 1) * max(mags[:3] + [1e-300]):
            continue
        try:
            # moderate intermediates only (see the known finding on _arg_c's clip), also on the interval the default step
            # generators reach: base_step 2 * step_nom(x) on either side of x
            reach = 2.0 * max(math.log(1.718281828459045 + abs(x)), 1.0)
            pts = [x] + [x + s * reach * t for s in (-1, 1) for t in (0.1, 0.5, 1.0)]
            if not all(max_intermediate(tree, p) < 1e60 for p in pts):
                continue
        except (ValueError, ZeroDivisionError, OverflowError, FloatingPointError):
            continue
        return tree, x, with_noise(tree, x, d)
    raise RuntimeError('could not generate a program')


class Derivs(list):
    """the exact derivatives [f(x), f'(x), ..] (extended-precision oracle, rounded to doubles); `.noise[k]` is how far the
    double-precision evaluation of the same expression is from them (the rounding noise of f and its derivatives at x: a double-
    precision differentiator of this expression cannot be asked for more), the largest of three neighbouring points"""
    noise = None
    cond = None        # running rounding-error bounds of the double evaluation (jets.derivatives_conditioned)


def with_noise(tree, x, d):
    from harness.oracle.jets import derivatives_extended
    try:
        de, nz = derivatives_extended(tree, x, len(d) - 1)
        if not all(math.isfinite(v) for v in de):
            raise ValueError
        for xn in (x * (1 + 2.0 ** -30), x * (1 - 2.0 ** -30)):
            _d2, n2 = derivatives_extended(tree, xn, len(d) - 1)
            nz = [max(a, b) if math.isfinite(b) else a for a, b in zip(nz, n2)]
        out = Derivs(de)
        out.noise = [v if math.isfinite(v) else 0.0 for v in nz]
        try:
            from harness.oracle.jets import derivatives_conditioned
            cd = derivatives_conditioned(tree, x, len(d) - 1)
            out.cond = [v if math.isfinite(v) else 0.0 for v in cd]
        except Exception:
            out.cond = [0.0] * len(d)
    except Exception:
        out = Derivs(d)
        out.noise = [0.0] * len(d)
        out.cond = [0.0] * len(d)
    return out
