"""C11 — Misuse fails loudly with ValueError instead of returning numbers."""
import json
import warnings

import numpy as np

from harness.common import run_driver, lean_obligations
from harness.translate import translator_obligations

MODULE = 'Ndt.Props.C11'
THEOREMS = ['Ndt.emitStepsVec_zero_component', 'Ndt.complex_misuse_raises', 'Ndt.multicomplex_high_order_raises', 'Ndt.too_few_steps_raises', 'Ndt.no_steps_raises',
            'Ndt.wrong_size_raises', 'Ndt.valid_call_returns', 'Ndt.directionaldiff_mismatch_raises',
            'Ndt.residue_order_guard', 'Ndt.residue_default_order', 'Ndt.unknown_path_raises']
CLASSES = ['Derivative', 'Gradient', 'Jacobian', 'Hessdiag', 'Hessian']


def classify(thunk):
    """outcome class of a call: value / ValueError / other:<type>"""
    try:
        with warnings.catch_warnings():
            warnings.simplefilter('ignore')
            r = thunk()
        return 'value', r
    except ValueError as ex:
        return 'ValueError', str(ex)
    except Exception as ex:
        return 'other:' + type(ex).__name__, str(ex)


def make_call(nd, cls, method, n, order, dim, xc, fc, bad_size=False, steps=None):
    """a thunk calling the real class; returns (thunk, fdelSize, hSize)"""
    scalar = cls == 'Derivative'
    if scalar:
        x = np.linspace(0.5, 1.5, dim)
        if xc == 2:
            x = x + 0.25j * (np.arange(dim) == dim - 1)      # only the last element is complex
        elif xc == 3:
            x = x + 1e-17j                                   # complex by a round-off sized (but nonzero) imaginary part
        elif xc:
            x = x + 0.25j
        if bad_size:
            f = (lambda t: np.ones(np.size(t) + 1)) if dim > 1 or True else None
        elif fc == 2:
            f = lambda t: np.where(np.arange(np.size(t)) == 0, 1j, 1.0).reshape(np.shape(t)) * np.exp(t)    # only the first value is complex
        elif fc == 3:
            f = lambda t: (1 + 1e-16j) * np.exp(t)          # round-off sized (but nonzero) imaginary part: exp(i pi x) at an integer x
        elif fc:
            f = lambda t: (1 + 1j) * np.exp(t)
        else:
            f = lambda t: np.exp(t) + t ** 2
        fsize, hsize = (dim + 1, dim) if bad_size else (dim, dim)
    else:
        x = np.linspace(0.5, 1.5, dim)
        if xc == 2:
            x = x + 0.25j * (np.arange(dim) == dim - 1)
        elif xc == 3:
            x = x + 1e-17j
        elif xc:
            x = x + 0.25j
        if fc == 2 and cls == 'Jacobian':
            f = lambda t: np.array([np.sum(np.exp(t)), 1j * np.prod(t), np.sum(t ** 2)])     # one complex component of three
        elif fc == 3:
            f = lambda t: (1 + 1e-16j) * np.sum(np.exp(t))
        elif fc:
            f = lambda t: (1 + 1j) * np.sum(np.exp(t))
        else:
            f = lambda t: np.sum(np.exp(t)) + np.sum(t ** 2)
        fsize = hsize = dim
    kw = dict(method=method)
    if cls in ('Derivative',):
        kw['n'] = n
    if cls != 'Hessian':
        kw['order'] = order
    if steps is not None:
        kw['step'] = steps
    C = getattr(nd, cls)
    return (lambda: C(f, **kw)(x)), fsize, hsize


def run(ctx):
    import numdifftools as nd
    from numdifftools import fornberg
    from numdifftools.limits import Limit, Residue, CStepGenerator
    from numdifftools.step_generators import MinStepGenerator
    from numdifftools.finite_difference import LogRule
    translator_obligations(ctx, ['guard.', 'basic_generators', 'LogRule._multicomplex_middle_name', 'LogRule.num_terms', 'LogHessianRule'])
    lean_obligations(ctx, MODULE, THEOREMS)
    rng = ctx.rng

    # ---------------- engine `misuse.table`: the complete finite outcome table --------------------------------
    eng = ctx.engine('misuse.table')
    rows = []
    for cls in CLASSES:
        methods = ['central', 'forward', 'backward', 'complex', 'multicomplex'] + (['central2'] if cls == 'Hessian' else [])
        for m in methods:
            for xc in (0, 1, 2, 3):
                for fc in (0, 1, 2, 3):
                    for dim in (1, 2, 3):
                        if (xc == 2 or fc == 2) and dim == 1:
                            continue            # "partly complex" needs two elements
                        for n in ((1, 2, 3) if cls == 'Derivative' else (1,)):
                            for order in (2, 4):
                                if cls == 'Hessian' and order == 4:
                                    continue
                                rows.append((cls, m, n, order, dim, xc, fc))
    if not ctx.thorough:
        rows = [r for r in rows if (r[1] in ('complex', 'multicomplex')) or rng.random() < 0.35]
    lines, thunks = [], []
    for (cls, m, n, order, dim, xc, fc) in rows:
        th, fs, hs = make_call(nd, cls, m, n, order, dim, xc, fc)
        thunks.append(th)
        lines.append('outcome %s %s %d %d %d %d %d %d 100' % (cls, m, n, order, bool(xc), bool(fc), fs, hs))
    out = run_driver(lines, 'C11t')
    for row, th, model in zip(rows, thunks, out):
        cls, m, n, order, dim, xc, fc = row
        eng['cases'] += 1
        got, detail = classify(th)
        ctx.count('misuse.table', '%s/%s' % (got, 'misuse' if (m in ('complex', 'multicomplex') and (xc or fc)) or (m == 'multicomplex' and n > 2) else 'valid'))
        if got == model:
            eng['exact'] += 1
        else:
            ctx.mismatch('misuse.table', list(map(str, row)), got + ': ' + str(detail)[:80], model)
        # the property itself, independently of the model
        misuse = m in ('complex', 'multicomplex') and (xc or fc)
        if misuse and got != 'ValueError':
            ctx.violation('complex-step method with complex x / complex-valued f did not raise ValueError',
                          cls=cls, method=m, n=n, order=order, dim=dim, x_complex=xc, f_complex=fc, outcome=got)
    ctx.sample({'engine': 'misuse.table', 'row': list(map(str, rows[0])), 'model': out[0]})

    # ---------------- engine `misuse.stream`: the other guards -------------------------------------------------
    eng = ctx.engine('misuse.stream')

    queue = []

    def check(name, thunk, model_line, misuse, **rep):
        # the implementation is run now (closures capture loop variables), the model lines are batched into one driver call
        got, detail = classify(thunk)
        queue.append((name, model_line, misuse, rep, got, detail))

    def flush():
        lines = [q[1] for q in queue if q[1]]
        outs = iter(run_driver(lines, 'C11s') if lines else [])
        for name, model_line, misuse, rep, got, detail in queue:
            eng['cases'] += 1
            model = next(outs) if model_line else None
            ctx.count('misuse.stream', name)
            if model is not None:
                m = 'value' if model.startswith('order') or model == 'value' else model
                if got != m:
                    ctx.mismatch('misuse.stream', dict(name=name, **rep), got + ': ' + str(detail)[:80], model)
                else:
                    eng['exact'] += 1
            if misuse and got != 'ValueError':
                ctx.violation('%s: misuse did not raise ValueError' % name, outcome=got, signature=None, **rep)
            if not misuse and got != 'value':
                ctx.violation('%s: a valid call was rejected' % name, outcome=got + ': ' + str(detail)[:120], **rep)

    for _ in range(ctx.budget(6, 30)):
        n = rng.randint(3, 6)
        check('multicomplex n>2', lambda: nd.Derivative(np.exp, n=n, method='multicomplex')(1.0),
              'outcome Derivative multicomplex %d 2 0 0 1 1 100' % n, True, n=n)
    for n in (1, 2):
        check('multicomplex n<=2', lambda: nd.Derivative(np.exp, n=n, method='multicomplex')(1.0),
              'outcome Derivative multicomplex %d 2 0 0 1 1 100' % n, False, n=n)
    # the same misuse reached by attribute assignment on an object that was valid (and used) before
    def reconfigured(cls_kw, assign, x, use_first=True):
        def thunk():
            d = nd.Derivative(np.exp, **cls_kw)
            if use_first:
                d(1.0)
            for k_, v_ in assign:
                setattr(d, k_, v_)
            return d(x)
        return thunk
    for n0 in (1, 2):
        for n1 in (3, 4, 6):
            for uf in (True, False):
                check('multicomplex n>2 by assignment', reconfigured(dict(n=n0, method='multicomplex'), [('n', n1)], 1.0, uf),
                      'outcome Derivative multicomplex %d 2 0 0 1 1 100' % n1, True, n_before=n0, n_after=n1, used_before=uf)
    for m0 in ('central', 'complex'):
        check('multicomplex n>2 by assignment of method', reconfigured(dict(n=3, method=m0), [('method', 'multicomplex')], 1.0),
              'outcome Derivative multicomplex 3 2 0 0 1 1 100', True, method_before=m0)
    for m1 in ('complex', 'multicomplex'):
        check('complex x by assignment of method', reconfigured(dict(n=1, method='central'), [('method', m1)], 1.0 + 0.5j),
              'outcome Derivative %s 1 2 1 0 1 1 100' % m1, True, method_after=m1)
        check('valid after assignment of method', reconfigured(dict(n=1, method='central'), [('method', m1)], 1.0),
              'outcome Derivative %s 1 2 0 0 1 1 100' % m1, False, method_after=m1)
    # too few steps reached by raising the order of an object that was valid (and used) with the steps it has
    for cls in ('Derivative', 'Gradient', 'Jacobian', 'Hessdiag'):
        for (o0, o1) in ((2, 4), (2, 6), (4, 8)):
            for uf in (True, False):
                def thunk(cls=cls, o0=o0, o1=o1, uf=uf):
                    gen = MinStepGenerator(base_step=1e-2, num_steps=o0 // 2, check_num_steps=False)
                    fun = np.exp if cls == 'Derivative' else (lambda t: np.sum(np.exp(t)))
                    d = getattr(nd, cls)(fun, step=gen, method='central', order=o0)
                    xx = 1.0 if cls == 'Derivative' else np.array([1.0, 0.5])
                    if uf:
                        d(xx)
                    d.order = o1
                    return d(xx)
                n_ = 2 if cls == 'Hessdiag' else 1
                dim_ = 1 if cls == 'Derivative' else 2
                check('too few steps by assignment of order', thunk,
                      'outcome %s central %d %d 0 0 %d %d %d' % (cls, n_, o1, dim_, dim_, o0 // 2), True, cls=cls, order_before=o0,
                      order_after=o1, used_before=uf)
    # fewer steps than the rule needs
    for _ in range(ctx.budget(25, 200)):
        m = rng.choice(['central', 'forward', 'backward', 'complex'])
        n, order = rng.randint(1, 4), rng.choice([2, 4, 6])
        k = rng.randint(1, 8)
        size = LogRule(n=n, method=m, order=order).rule(2.0).size
        gen = MinStepGenerator(num_steps=k, check_num_steps=False, base_step=0.25, step_ratio=2.0)
        for cls in ('Derivative', 'Jacobian', 'Hessdiag'):
            if cls != 'Derivative' and n != (1 if cls == 'Jacobian' else 2):
                continue
            th, fs, hs = make_call(nd, cls, m, n, order, 2, False, False, steps=gen)
            rl = LogRule(n=n, method=m, order=order).rule(2.0).size
            check('too few steps' if k <= rl - 1 else 'enough steps', th,
                  'outcome %s %s %d %d 0 0 %d %d %d' % (cls, m, n, order, fs, hs, k), k <= rl - 1, cls=cls, method=m, n=n, order=order, k=k)
    # no step at all: zero steps are dropped by the generators, so a user step below the resolution of 1.0 (use_exact_steps) leaves an
    # empty sequence — the extreme case of "fewer steps than the rule needs" (repaired in 347de98: used to be an IndexError)
    for cls in CLASSES:
        for m in ('central', 'forward', 'complex'):
            for tiny in (1e-19, 1e-17):
                n_ = 2 if cls in ('Hessdiag', 'Hessian') else 1
                th, fs, hs = make_call(nd, cls, m, n_, 2, 2, False, False, steps=tiny)
                check('no non-zero step', th, 'outcome %s %s %d 2 0 0 %d %d 0' % (cls, m, n_, fs, hs), True, cls=cls, method=m, step=tiny)
    # ... also when the base step is given per variable and only one of the variables has no usable step (the step of a sequence is a
    # vector: one vanishing component makes the whole step unusable, so no step is left)
    for cls in CLASSES:
        for m in ('central', 'forward', 'complex'):
            for vec in ([1e-3, 1e-19], [0.0, 1e-3], [1e-17, 0.25]):
                n_ = 2 if cls in ('Hessdiag', 'Hessian') else 1
                th, fs, hs = make_call(nd, cls, m, n_, 2, 2, False, False, steps=np.array(vec))
                check('no non-zero step (per-variable base step with one vanishing entry)', th,
                      'outcome %s %s %d 2 0 0 %d %d 0' % (cls, m, n_, fs, hs), True, cls=cls, method=m, step=vec)
    # wrong number of values (for a single input element several values are legitimate: R -> R^k)
    for dim in (2, 3, 5):
        for m in ('central', 'forward', 'complex'):
            th, fs, hs = make_call(nd, 'Derivative', m, 1, 2, dim, False, False, bad_size=True)
            check('wrong size', th, 'outcome Derivative %s 1 2 0 0 %d %d 100' % (m, fs, hs), True, dim=dim, method=m)
    # directionaldiff
    for _ in range(ctx.budget(10, 60)):
        a, b = rng.randint(1, 5), rng.randint(1, 5)
        x0, v = np.ones(a), np.arange(1, b + 1, dtype=float)
        check('directionaldiff', lambda: nd.directionaldiff(lambda t: np.sum(t ** 2), x0, v), 'dirdiff %d %d' % (a, b), a != b, a=a, b=b)
    # fd_weights / fd_derivative
    for _ in range(ctx.budget(15, 100)):
        mlen, n = rng.randint(1, 6), rng.randint(0, 7)
        xs = np.arange(mlen, dtype=float)
        check('fd_weights', lambda: fornberg.fd_weights(xs, 0.0, n), None, n >= mlen, m=mlen, n=n)
        check('fd_weights_all', lambda: fornberg.fd_weights_all(xs, 0.0, n), None, n >= mlen, m=mlen, n=n)
        L = rng.randint(4, 12)
        extra = rng.choice([0, 0, 1, -1, 3])
        nn = rng.choice([1, 2, L, L + 2])
        x, fx = np.arange(L, dtype=float), np.arange(L + extra, dtype=float)
        if nn < L and extra == 0 and L < 2 * (nn // 2 + 1) + 2:
            continue      # grid too short for the stencil: outside the listed misuse shapes
        check('fd_derivative', lambda: fornberg.fd_derivative(fx, x, nn, 1), None, nn >= L or extra != 0, L=L, extra=extra, n=nn)
    # Residue
    for p in (1, 2, 3):
        for o in (None, 0, 1, 2, 3, 4, 5):      # 0 is falsy: a default written as `order or ..` would swallow it
            check('Residue', lambda: Residue(lambda z: 1.0 / z ** p, pole_order=p, order=o),
                  'residue %s %d' % ('-' if o is None else o, p), o is not None and o <= p, pole_order=p, order=o)
    # Limit path
    for path in ('radial', 'spiral', 'zigzag', 'circle', '', 'random', 'ray', 'straight', 'square', 'spiral2', 'radially', 'Radial', 'SPIRAL', 's', 'r'):
        if path == '':
            continue
        check('Limit path', lambda: Limit(lambda z: np.sin(z) / z, path=path)(0.0),
              'cpath %d %d' % (path == 'spiral', path == 'radial'), path not in ('radial', 'spiral'), path=path)

    flush()
    ctx.search['rule'] = ('the complete table class x method x {complex x, complex f, both, neither} x dimension 1..3 x n x order, and a '
                          'malformed stream for the other guards (multicomplex n>2, too few steps, wrong number of values, directionaldiff '
                          'sizes, fd_weights / fd_derivative sizes, Residue order <= pole_order, unknown path); every case is executed on the '
                          'implementation and must raise ValueError exactly when it is a misuse; non-trivial = a misuse case; distinct = '
                          'distinct configuration')
    for e in ctx.engines.values():
        for _ in range(e['cases']):
            ctx.search['evaluations'] += 1
    for i, row in enumerate(rows):
        if (row[1] in ('complex', 'multicomplex')) and (row[5] or row[6]):
            ctx.search['nontrivial'].add(row)
    ctx.assumptions.append('which guard lies on which call path is modelled by hand (Model/Guards.lean) and validated by the outcome table; '
                           'the guard conditions themselves are generated from the source')


def replay(ctx, path):
    print(json.dumps(json.load(open(path)), indent=1)[:4000])
    return 0
