"""C10 — Step generators produce the documented geometric sequences, and enough steps."""
import cmath
import json
import math
from fractions import Fraction

import numpy as np

from harness.common import generated_steps, q2s, s2q, run_driver, lean_obligations, ulps
from harness.translate import translator_obligations

MODULE = 'Ndt.Props.C10'
THEOREMS = ['Ndt.num_steps_logic', 'Ndt.min_num_steps_pos', 'Ndt.min_le_num_steps', 'Ndt.divisor_eq_richardson_step',
            'Ndt.default_count_suffices', 'Ndt.default_generators_check', 'Ndt.default_ratio', 'Ndt.limit_default_ratio',
            'Ndt.emitSteps_eq', 'Ndt.emitSteps_zero', 'Ndt.stepsMax_closed_form', 'Ndt.stepsMin_closed_form',
            'Ndt.steps_geometric_max', 'Ndt.steps_geometric_min', 'Ndt.default_scale_pos',
            'Ndt.emitStepsVec_zero_component', 'Ndt.emitStepsVec_eq']
EPS = 2.0 ** -52
METHODS = ['central', 'central2', 'forward', 'backward', 'complex', 'multicomplex']


def make_exact(h):
    return (h + 1.0) - 1.0


def doc_default_scale(method, n, order):
    """the documented default scale of MinStepGenerator per (method, n, order) — the harness's own closed form (written from the
    pinned documentation / source, never read from the library at run time)"""
    high_order = int(n > 1 or order >= 4)
    order2 = max(order // 2 - 1, 0)
    n_4, n_mod_4 = n // 4, n % 4
    c = [n_4 * (10 + 1.5 * int(n > 10)), 3.65 + n_4 * (5 + 1.5 ** n_4), 3.65 + n_4 * (5 + 1.7 ** n_4),
         7.30 + n_4 * (5 + 2.1 ** n_4)][n_mod_4] if high_order else 0
    return ({'multicomplex': 1.06, 'complex': 1.06 + c}.get(method, 2.5) + (n - 1) * {'multicomplex': 0, 'complex': 0.0}.get(method, 1.3)
            + order2 * {'central': 3, 'forward': 2, 'backward': 2}.get(method, 0))


def run(ctx):
    from numdifftools import step_generators as sg
    from numdifftools.step_generators import MinStepGenerator, MaxStepGenerator
    from numdifftools.limits import CStepGenerator
    from numdifftools.finite_difference import LogRule
    from numdifftools import finite_difference as fdm
    from harness.common import rule_cache, reset_rule_cache
    RC = rule_cache(fdm)
    reset_rule_cache(RC)            # remembers the import-time contents
    import numdifftools as nd
    translator_obligations(ctx, ['StepGen.', 'default_scale', 'defaults', 'basic_generators', 'LogRule.richardson_step',
                                 'LogRule.method_order', 'LogRule.num_terms', 'LogRule._complex_high_order'])
    lean_obligations(ctx, MODULE, THEOREMS)
    rng = ctx.rng

    # ---------------- engine `steps.logic`: the generated count logic and defaults, on a grid ---------------------
    eng = ctx.engine('steps.logic')
    N = ctx.budget(10, 24)
    grid = []
    for m in METHODS:
        for n in range(1, N + 1):
            for o in range(1, N + 1):
                for ns in (None, 1, 3, 15):
                    for chk in (True, False):
                        ex = rng.choice([0, 2, 9])
                        if ctx.thorough or rng.random() < 0.25:
                            grid.append((m, n, o, ns, chk, ex))
    out = run_driver(['stepgen %s %d %d %s %d %d' % (m, n, o, '-' if ns is None else ns, chk, ex) for m, n, o, ns, chk, ex in grid], 'C10l')
    for (m, n, o, ns, chk, ex), line in zip(grid, out):
        eng['cases'] += 1
        g = MinStepGenerator(num_steps=ns, check_num_steps=chk, num_extrap=ex)
        g.step_generator_function(1.0, m, n, o)
        w = line.split()
        impl = [g._num_step_divisor(m, n, o), g.min_num_steps, g.num_steps]
        model = [int(w[0]), int(w[1]), int(w[2])]
        ratio_ok = Fraction(g.step_ratio).limit_denominator(1000) == s2q(w[3])
        scale_ok = abs(float(g.scale) - float(s2q(w[4]))) <= 1e-12 * abs(float(g.scale))
        if impl == model and ratio_ok and scale_ok:
            eng['exact'] += 1
        else:
            ctx.mismatch('steps.logic', [m, n, o, ns, chk, ex], impl + [g.step_ratio, g.scale], w)
    # constructor defaults
    eng['cases'] += 1
    w = run_driver(['gendefaults'], 'C10d')[0].split()
    gmax, gmin, gc = MaxStepGenerator(), MinStepGenerator(), CStepGenerator()
    impl = ['some %d' % gmax._num_steps if gmax._num_steps is not None else 'none', str(int(gmax.check_num_steps)), str(gmax.num_extrap),
            q2s(Fraction(gmax._base_step)), str(int(gmax.use_exact_steps)),
            'none' if gmin._num_steps is None else 'some %d' % gmin._num_steps, str(int(gmin.check_num_steps)), str(gmin.num_extrap),
            str(int(gmin.use_exact_steps)), q2s(Fraction(gc._step_ratio)), q2s(Fraction(gc._scale).limit_denominator(100))]
    model = [' '.join(w[0:2])] + w[2:6] + ([' '.join(w[6:8])] + w[8:] if w[6] == 'some' else w[6:])
    if impl == model:
        eng['exact'] += 1
    else:
        ctx.mismatch('steps.logic', 'constructor defaults', impl, model)
    ctx.sample({'engine': 'steps.logic', 'case': list(map(str, grid[0])), 'model (divisor min_num_steps num_steps ratio scale)': out[0]})

    # ---------------- engine `steps.count`: rule size vs the count Derivative obtains (exact) -------------------
    eng = ctx.engine('steps.count')
    N2 = ctx.budget(24, 64)
    cgrid = [(m, n, o) for m in METHODS for n in range(1, N2 + 1) for o in range(1, N2 + 1) if not (m == 'multicomplex' and n > 2)]
    if not ctx.thorough:
        cgrid = [c for c in cgrid if rng.random() < 0.35 or (c[1] <= 6 and c[2] <= 8)]
    lines = []
    for m, n, o in cgrid:
        ismax = m not in ('complex', 'multicomplex')
        lines.append('rulecount %s %d %d %s 1 %d' % (m, n, o, '15' if ismax else '-', 9 if ismax else 0))
    out = run_driver(lines, 'C10c')
    for (m, n, o), line in zip(cgrid, out):
        eng['cases'] += 1
        reset_rule_cache(RC)
        d = nd.Derivative(np.exp, n=n, method=m, order=o)
        if m == 'central2':      # Derivative has no central2 difference function; only the rule/generator logic is compared
            r = LogRule(n=n, method=m, order=o)
            gen = d._step_generator(None, {})
            sgen = gen.step_generator_function(np.asarray(1.0), m, n, r.method_order)
            steps = list(sgen())
            size = r.rule(sgen.step_ratio).size
        else:
            steps, ratio = generated_steps(d, np.asarray(1.0))
            size = d.fd_rule.rule(ratio).size
        msize, mcount = (int(x) for x in line.split())
        if (size, len(steps)) == (msize, mcount) and size - 1 < len(steps):
            eng['exact'] += 1
        else:
            ctx.mismatch('steps.count', [m, n, o], [size, len(steps)], [msize, mcount])
            if not size - 1 < len(steps):
                ctx.violation('the default step count is smaller than the rule consumes', method=m, n=n, order=o,
                              rule_size=size, num_steps=len(steps))
    reset_rule_cache(RC)

    # ---------------- engine `steps.sequence`: emitted lists vs the model, random options -------------------------
    eng = ctx.engine('steps.sequence')
    scases = []
    for _ in range(ctx.budget(300, 3000)):
        cls = rng.choice(['min', 'max'])
        opts = {}
        if rng.random() < 0.6:
            opts['base_step'] = rng.choice([1.0, 0.5, 0.25, 2.0, 1e-3, 10.0 ** rng.uniform(-8, 1), 0.0 if rng.random() < 0.1 else 0.125])
        if rng.random() < 0.6:
            opts['step_ratio'] = rng.choice([2.0, 1.6, 4.0, 3, rng.uniform(1.1, 10)])
        if rng.random() < 0.6:
            opts['num_steps'] = rng.randint(1, 20)
        if rng.random() < 0.4:
            opts['step_nom'] = rng.choice([1.0, 2.0, 0.5, rng.uniform(0.1, 5)])
        if rng.random() < 0.5:
            opts['offset'] = rng.randint(-4, 4)
        if rng.random() < 0.4:
            opts['num_extrap'] = rng.randint(0, 10)
        if rng.random() < 0.5:
            opts['use_exact_steps'] = rng.random() < 0.5
        if rng.random() < 0.4:
            opts['check_num_steps'] = rng.random() < 0.5
        if rng.random() < 0.3:
            opts['scale'] = rng.choice([1.5, 2.5, 10.0, 500, 1.0, 0.97, 0.8, 0.5, 1.06])       # below 1 too: base step EPS**(1/scale) < EPS
        m = rng.choice(METHODS)
        n = rng.randint(1, 10)
        o = rng.randint(1, 10)
        x = rng.choice([0.0, 1.0, -3.5, rng.uniform(-100, 100), 1e-3, 1e2])
        if rng.random() < 0.25:
            x = [rng.uniform(-50, 50) for _ in range(rng.randint(1, 4))]
        scases.append((cls, opts, m, n, o, x))
    lines, meta = [], []
    pre = []
    for cls, opts, m, n, o, x in scases:
        g = (MinStepGenerator if cls == 'min' else MaxStepGenerator)(**opts)
        pre.append('stepgen %s %d %d %s %d %d' % (m, n, o, '-' if g._num_steps is None else int(g._num_steps),
                                                  g.check_num_steps, g.num_extrap))
    pre_out = run_driver(pre, 'C10s1')
    for (cls, opts, m, n, o, x), pre_line in zip(scases, pre_out):
        G = MinStepGenerator if cls == 'min' else MaxStepGenerator
        g = G(**opts)
        xa = np.asarray(x, dtype=float)
        got = [np.atleast_1d(np.asarray(s, dtype=float)) for s in g(xa, m, n, o)]
        # inputs of the model: base = base_step*step_nom (after make_exact), ratio (after make_exact), count, offset
        g._state = type(g._state)(xa, m, n, o)
        base = np.atleast_1d(np.asarray(g.base_step * g.step_nom, dtype=float))
        ratio = g.step_ratio
        if g.use_exact_steps:
            base, ratio = make_exact(base), make_exact(ratio)
        count = g.num_steps
        ml = pre_line.split()
        for k, b in enumerate(base):
            lines.append('steps %s %s %s %s %d' % (cls, q2s(Fraction(float(b))), q2s(Fraction(float(ratio))), ml[2], g.offset))
        meta.append((got, len(base), int(ml[2]), count))
    out = run_driver(lines, 'C10s')
    k = 0
    for (cls, opts, m, n, o, x), (got, nb, mcount, icount) in zip(scases, meta):
        eng['cases'] += 1
        ctx.count('steps.sequence', cls)
        cols = [[float(s2q(t)) for t in out[k + j].split()] for j in range(nb)]
        k += nb
        if mcount != icount:
            ctx.mismatch('steps.sequence', [cls, str(opts), m, n, o, str(x)], icount, mcount, 'num_steps')
            continue
        # a step is yielded only if all its elements are non-zero: with several elements the model's per-element drop
        # must agree for all of them (same exponents); compare element-wise
        ok = True
        worst = 0
        for j in range(nb):
            gj = [float(s[j]) if s.size > 1 else float(s[0]) for s in got]
            if nb > 1 and any(len(c) != len(cols[0]) for c in cols):
                gj = None       # mixed zero / non-zero elements: yielded only where all are non-zero
            if gj is None:
                continue
            if len(gj) != len(cols[j]):
                ok = False
                break
            for a, b in zip(gj, cols[j]):
                u = ulps(a, b)
                worst = max(worst, u)
        if not ok:
            ctx.mismatch('steps.sequence', [cls, str(opts), m, n, o, str(x)], [len(got)], [len(c) for c in cols], 'number of steps emitted')
        elif worst == 0:
            eng['bit_identical'] += 1
        elif worst <= 4:
            eng['within_ulp'] += 1
        else:
            ctx.mismatch('steps.sequence', [cls, str(opts), m, n, o, str(x)], [float(s.ravel()[0]) for s in got][:6], cols[0][:6], '%s ulp' % worst)

    # ---------------- failing-input search: the documented closed form, independently ----------------------------
    ctx.search['rule'] = ('random option combinations (base_step, step_ratio, num_steps, step_nom, offset, num_extrap, use_exact_steps, '
                          'check_num_steps, scale; path, dtheta for CStepGenerator) x methods x n,order 1..10 x scalar/array x against the '
                          'documented closed form base_step*step_nom(x)*ratio**(+-i+offset) evaluated in Python, documented defaults '
                          '(EPS**(1/scale), log(1.718+|x|) clipped at 1, ratio 2 / 1.6 / 4), decreasing magnitude, zero steps dropped; '
                          'non-trivial: more than one step; distinct = distinct option set')
    # the documented default scale per (method, n, order), the complete table of the quantifier (and beyond)
    for m in METHODS:
        for n in range(1, 13):
            for o in range(1, 13):
                want = doc_default_scale(m, n, o)
                try:
                    got = float(sg.default_scale(m, n, o))
                    gmin = MinStepGenerator()
                    gmin.step_generator_function(np.asarray(1.0), m, n, o)
                    got_gen = float(gmin.scale)
                except Exception as ex:
                    ctx.violation('default_scale raised %r' % ex, method=m, n=n, order=o)
                    continue
                if abs(got - want) > 1e-12 * want or abs(got_gen - want) > 1e-12 * want:
                    ctx.violation('the default scale (hence the default base step EPS**(1/scale)) differs from the documented value',
                                  method=m, n=n, order=o, default_scale=got, generator_scale=got_gen, documented=want)
                    break
            else:
                continue
            break
    for it in range(ctx.budget(400, 5000)):
        cls = rng.choice(['min', 'max', 'c'])
        m, n, o = rng.choice(METHODS), rng.randint(1, 10), rng.randint(1, 10)
        # x as a float, an integer-typed scalar or (below) an integer / float array: the type of x must not matter
        x = rng.choice([0.0, 1.0, rng.uniform(-100, 100), 1e-3, 3, -7, 0, 12])
        opts = {}
        if rng.random() < 0.5:
            opts['base_step'] = rng.choice([1.0, 0.5, 1e-4, 3.0, -0.5, -1e-4, -1e-9, -3e-8, 1e-9])       # either sign, down to 1e-9
        if rng.random() < 0.5:
            opts['step_ratio'] = rng.choice([2.0, 1.6, 4.0, 8.0, rng.uniform(1.5, 16)])
        if rng.random() < 0.5:
            opts['num_steps'] = rng.randint(1, 25)
        if rng.random() < 0.3:
            opts['offset'] = rng.randint(-3, 3)
        if rng.random() < 0.3:
            opts['step_nom'] = rng.choice([1.0, 2.5, 0.5, 1.75])
        if rng.random() < 0.3:
            opts['use_exact_steps'] = rng.random() < 0.5
        if rng.random() < 0.3 and cls != 'max':
            # a user-given scale, also below 1 (base step EPS**(1/scale) below EPS: legitimate for complex steps and limits)
            opts['scale'] = rng.choice([1.5, 2.5, 10.0, 1.0, 0.97, 0.8, 0.5, 1.06])
        if cls == 'c':
            if rng.random() < 0.5:
                opts['path'] = rng.choice(['radial', 'spiral'])
            if rng.random() < 0.4:
                opts['dtheta'] = rng.choice([math.pi / 8, 0.3, math.pi / 4, -math.pi / 8, -0.3, -1.0])        # either sense of rotation
        G = {'min': MinStepGenerator, 'max': MaxStepGenerator, 'c': CStepGenerator}[cls]
        key = (cls, m, n, o, x, tuple(sorted((k, str(v)) for k, v in opts.items())))
        try:
            g = G(**opts)
            xarg = np.asarray(x) if rng.random() < 0.7 else np.asarray([x, x])       # keeps the integer dtype of an integer x
            if rng.random() < 0.35:
                # the same generator instance has served another configuration before (same method and n with another order, or
                # another method / n / point): a generator holds options, not results
                o_prev = rng.choice([v for v in (1, 2, 4, 6) if v != o])
                list(g(xarg, m, n, o_prev)) if rng.random() < 0.7 else list(g(np.asarray(x) + 50.0, rng.choice(METHODS), rng.randint(1, 4), o_prev))
            steps = [complex(np.asarray(s).ravel()[0]) if cls == 'c' else float(np.asarray(s).ravel()[0]) for s in g(xarg, m, n, o)]
        except Exception as ex:
            ctx.tried(key)
            ctx.violation('step generator raised %r' % ex, cls=cls, opts=str(opts), method=m, n=n, order=o, x=x)
            continue
        ctx.tried(key if len(steps) > 1 else None)
        # documented closed form
        scale = opts.get('scale')
        if scale is None:
            scale = {'min': None, 'max': 500, 'c': 1.2}[cls]
        if scale is None:
            scale = doc_default_scale(m, n, o)
        base = opts.get('base_step', 2.0 if cls == 'max' else None)
        if base is None:
            base = EPS ** (1.0 / scale)
        nom = opts.get('step_nom')
        if nom is None:
            nom = max(math.log(1.718281828459045 + abs(x)), 1.0)
        ratio = opts.get('step_ratio')
        if ratio is None:
            ratio = 4.0 if cls == 'c' else (2.0 if n == 1 else 1.6)
        ratio = float(ratio)
        if cls == 'c' and opts.get('path', 'radial') == 'spiral':
            ratio = cmath.exp(1j * opts.get('dtheta', math.pi / 8)) * ratio
        use_exact = opts.get('use_exact_steps', cls != 'max')
        b = base * nom
        if use_exact:
            b, ratio = make_exact(b), make_exact(ratio)
        if 'num_steps' in opts and cls == 'c':
            cnt = opts['num_steps']          # CStepGenerator returns the given count unchecked
        elif 'num_steps' in opts:
            cnt = opts['num_steps']
            divisor = {'central': 2, 'central2': 2, 'multicomplex': 2, 'complex': 4 if (n > 1 or o >= 4) else 2}.get(m, 1)
            cnt = max(cnt, max((n + o - 1) // divisor, 1))
        elif cls == 'max':
            cnt = None
        elif cls == 'c':
            cnt = 2 * int(round(16.0 / math.log(abs(ratio)))) + 1
        else:
            divisor = {'central': 2, 'central2': 2, 'multicomplex': 2, 'complex': 4 if (n > 1 or o >= 4) else 2}.get(m, 1)
            cnt = max((n + o - 1) // divisor, 1)
        if cls == 'max' and cnt is None:
            divisor = {'central': 2, 'central2': 2, 'multicomplex': 2, 'complex': 4 if (n > 1 or o >= 4) else 2}.get(m, 1)
            cnt = max(15, max((n + o - 1) // divisor, 1))
        off = opts.get('offset', 0)
        if cls == 'max':
            want = [b * ratio ** (-i + off) for i in range(cnt)]
        else:
            want = [b * ratio ** (i + off) for i in range(cnt - 1, -1, -1)]
        want = [w for w in want if abs(w) > 0]
        rep = dict(cls=cls, opts=str(opts), method=m, n=n, order=o, x=x, x_type=type(x).__name__)
        if len(steps) != len(want):
            ctx.violation('number of generated steps differs from the documented count', got=len(steps), documented=len(want), **rep)
            continue
        bad = [i for i, (a, w_) in enumerate(zip(steps, want)) if abs(a - w_) > 8 * EPS * abs(w_)]
        if bad:
            ctx.violation('generated step differs from base_step*step_nom*ratio**(+-i+offset)', index=bad[0], got=str(steps[bad[0]]),
                          documented=str(want[bad[0]]), **rep)
            continue
        if any(abs(steps[i + 1]) >= abs(steps[i]) for i in range(len(steps) - 1)) and abs(ratio) > 1:
            ctx.violation('steps are not of decreasing magnitude', steps=str(steps[:5]), **rep)
    # unknown path -> ValueError (shared with C11)
    try:
        CStepGenerator(path='zigzag')
        ctx.violation('CStepGenerator accepted an unknown path', path='zigzag')
    except ValueError:
        pass
    ctx.assumptions.append('EPS**(1/scale), log(1.718+|x|), round(16/log rho) and float pow are transcendental/libm: inputs of the model, '
                           'compared (<= 4 ulp) but not proved')


def replay(ctx, path):
    print(json.dumps(json.load(open(path)), indent=1)[:4000])
    return 0
