"""C19 — nd_scipy wrappers return the Jacobian/gradient and respect bounds."""
import json
import warnings

import numpy as np

from harness.common import lean_obligations
from harness.translate import translator_obligations

MODULE = 'Ndt.Props.C19'
THEOREMS = ['Ndt.method_map_total', 'Ndt.forwarding', 'Ndt.cs_affine_exact', 'Ndt.gradient_squeeze_shape']


def run(ctx):
    import numdifftools.nd_scipy as nds
    from scipy.optimize._numdiff import approx_derivative
    translator_obligations(ctx, ['NdScipy.'])
    lean_obligations(ctx, MODULE, THEOREMS)
    rng = ctx.rng

    # ---------------- engine `ndscipy.forward`: the options handed to scipy (exact) ---------------------------------------------------------
    eng = ctx.engine('ndscipy.forward')
    seen = {}
    orig = nds.approx_derivative

    def spy(fun, x0, **options):
        seen['x0'], seen['options'] = np.array(x0), dict(options)
        return orig(fun, x0, **options)
    nds.approx_derivative = spy
    want_method = {'central': '3-point', 'forward': '2-point', 'complex': 'cs', 'backward': '2-point'}      # = Ndt.method_map_total
    try:
        for _ in range(ctx.budget(60, 600)):
            m = rng.choice(['central', 'forward', 'complex', 'backward', 'multicomplex', 'central2'])
            n = rng.randint(1, 6)
            x = np.array([rng.uniform(-2, 2) for _ in range(n)])
            step = rng.choice([None, 1e-6, 1e-4])
            bounds = rng.choice([(-np.inf, np.inf), (x - 1.0, x + 1.0)])
            extra, kw = (rng.uniform(1, 2),), {'c': rng.uniform(1, 2)}
            eng['cases'] += 1
            ctx.count('ndscipy.forward', m)
            seen.clear()
            try:
                with warnings.catch_warnings():
                    warnings.simplefilter('ignore')
                    nds.Jacobian(lambda t, a, c=1.0: a * t * c, step=step, method=m, bounds=bounds)(x, *extra, **kw)
                outcome = 'value'
            except KeyError:
                outcome = 'KeyError'
            model = 'value' if m in want_method else 'KeyError'
            ok = outcome == model
            if ok and outcome == 'value':
                o = seen['options']
                # an option that is not passed means scipy's default (method '3-point', rel_step None, no args / kwargs, no bounds / sparsity)
                ok = (o.get('method', '3-point') == want_method[m] and o.get('rel_step') is step and tuple(o.get('args', ())) == extra and
                      (o.get('kwargs') or {}) == kw and o.get('bounds', (-np.inf, np.inf)) is bounds and o.get('sparsity') is None and
                      np.array_equal(seen['x0'], x))
            if ok:
                eng['exact'] += 1
            else:
                ctx.mismatch('ndscipy.forward', [m, n, str(step)], [outcome, str(seen.get('options'))[:200]], [model, want_method.get(m)])
    finally:
        nds.approx_derivative = orig
    ctx.sample({'engine': 'ndscipy.forward', 'map': want_method})

    # ---------------- failing-input search: the property on the real wrappers (real scipy) -----------------------------------------------------
    ctx.search['rule'] = ('n 1..6, m 1..5, affine maps with dyadic data (complex: exact to rounding) and smooth nonlinear maps with analytic Jacobian, methods '
                          'central / forward / complex, relative steps None or given, extra arguments forwarded to f, random boxes with x inside or on the '
                          'boundary (every evaluation point recorded and checked against the box), Gradient shape (n,) / 0-d for any-shaped x; '
                          'distinct = distinct (n, m, method, data)')
    with warnings.catch_warnings():
        warnings.simplefilter('ignore')
        probe = nds.Jacobian(lambda t: np.array([t[0] + 2.0 * t[1]]))(np.array([1.0, 2.0]))
    if np.shape(probe) == (2,):
        ctx.violation('nd_scipy.Jacobian shape is not (m, n)', got=[2], n=2, m=1, signature='C19-m1-shape')
    for it in range(ctx.budget(200, 3000) * (2 if (ctx.broken or ctx.mismatches) else 1)):
        n, m = rng.randint(1, 6), rng.randint(1, 5)
        meth = rng.choice(['central', 'forward', 'complex'])
        A = np.array([[rng.randint(-16, 16) / 4 for _ in range(n)] for _ in range(m)])
        b = np.array([rng.randint(-8, 8) / 2 for _ in range(m)])
        x = np.array([rng.uniform(-2, 2) for _ in range(n)])
        if rng.random() < 0.3:
            # coordinates of small magnitude (the default step of scipy is relative to max(1, |x_i|), so accuracy must not suffer)
            x = np.array([rng.choice([-1, 1]) * 10.0 ** rng.uniform(-7, -2) if rng.random() < 0.6 else v for v in x])
        step = rng.choice([None, None, 1e-6, 1e-5])
        if np.any(np.abs(x) < 1e-2):
            step = None         # a user-given relative step is relative to |x_i| (scipy's documented meaning): tiny x_i then means tiny steps
        kind = rng.choice(['affine', 'affine', 'nonlinear'])
        use_bounds = rng.random() < 0.5 and meth != 'complex'
        lo, hi = x - np.array([rng.choice([0.0, 0.5, 1.0]) for _ in range(n)]), x + np.array([rng.choice([0.0, 0.5, 1.0]) for _ in range(n)])
        hi = np.where(hi == lo, lo + 1.0, hi)
        # one-sided boxes: all lower (or all upper, or a random subset of the) bounds infinite
        side = rng.choice(['two', 'two', 'upper-only', 'lower-only', 'mixed'])
        if side == 'upper-only':
            lo = np.full(n, -np.inf)
        elif side == 'lower-only':
            hi = np.full(n, np.inf)
        elif side == 'mixed':
            lo = np.where([rng.random() < 0.4 for _ in range(n)], -np.inf, lo)
            hi = np.where([rng.random() < 0.4 for _ in range(n)], np.inf, hi)
        pts = []
        scale_arg = rng.uniform(1, 2)

        def f(t, s=1.0, kind=kind, A=A, b=b):
            pts.append(np.array(t))
            if kind == 'affine':
                return s * (A @ t + b)
            u = (A / 4) @ t
            return s * (np.sin(u) + u * u)
        ctx.tried((n, m, meth, kind, tuple(x[:2]), use_bounds))
        rep = dict(n=n, m=m, method=meth, kind=kind, x=x.tolist(), step=step, bounds=[lo.tolist(), hi.tolist()] if use_bounds else None)
        try:
            with warnings.catch_warnings():
                warnings.simplefilter('ignore')
                kw = dict(step=step, method=meth)
                if use_bounds:
                    kw['bounds'] = (lo, hi)
                    if rng.random() < 0.3:
                        # one scalar bound per side, with a face at exactly 0 (x moved onto or next to that face)
                        slo, shi = rng.choice([(0, 1), (0.0, np.inf), (-1, 0), (-np.inf, 0.0), (0, 2.5)])
                        x = np.clip(np.abs(x) % 1.0 * (1 if slo == 0 or slo == 0.0 else -1), slo if np.isfinite(slo) else -0.9, shi if np.isfinite(shi) else 0.9)
                        if rng.random() < 0.6:
                            x[rng.randrange(n)] = 0.0
                        lo, hi = np.full(n, float(slo)), np.full(n, float(shi))
                        kw['bounds'] = (slo, shi)
                        rep['x'], rep['bounds'] = x.tolist(), [slo, shi]
                jobj = nds.Jacobian(f, **kw)
                if rng.random() < 0.5:
                    # the same object is used first with another extra argument (and, half of the time, at another point)
                    jobj(x if rng.random() < 0.5 else x + 0.125 * (hi - lo > 1), rng.uniform(2, 3)) if not use_bounds else jobj(x, rng.uniform(2, 3))
                    del pts[:]
                    rep['object_reused'] = True
                by_kw = rng.random() < 0.5          # the extra argument goes positionally or by keyword (**kwds is forwarded too)
                rep['extra_by_keyword'] = by_kw
                J = jobj(x, s=scale_arg) if by_kw else jobj(x, scale_arg)
                ctx.keep('nd_scipy.Jacobian', J, **rep)
        except Exception as ex:
            ctx.violation('nd_scipy.Jacobian raised %r' % ex, **rep)
            continue
        if kind == 'affine':
            exact = scale_arg * A
            tol = 1e-12 * (1 + np.abs(exact).max()) if meth == 'complex' else 1e-5 * (1 + np.abs(exact).max())
        else:
            u = (A / 4) @ x
            exact = scale_arg * (np.cos(u) + 2 * u)[:, None] * (A / 4)
            tol = (1e-9 if meth == 'complex' else 1e-4) * (1 + np.abs(exact).max())
        if np.shape(J) != (m, n):
            ctx.violation('nd_scipy.Jacobian shape is not (m, n)', got=list(np.shape(J)),
                          signature='C19-m1-shape' if (m == 1 and np.shape(J) == (n,)) else None, **rep)
            if not (m == 1 and np.shape(J) == (n,)):
                continue
            J = np.reshape(J, (1, n))
        if np.max(np.abs(J - exact)) > tol:
            ctx.violation('nd_scipy.Jacobian differs from the exact Jacobian (extra argument forwarded?)', got=J.tolist(), exact=exact.tolist(), **rep)
            continue
        if use_bounds:
            for p in pts:
                pr = np.real(p)
                if np.any(pr < lo - 1e-15) or np.any(pr > hi + 1e-15):
                    ctx.violation('an evaluation left the box given by bounds', point=pr.tolist(), **rep)
                    break
        # Gradient
        if it % 3 == 0:
            shape = rng.choice([(n,), (1, n), (n, 1)])
            g = lambda t, s=1.0, c=0.0: s * np.sum(A[0] * np.ravel(t)) + 0.5 * np.sum(np.ravel(t) ** 2) + c * np.sum(np.ravel(t))
            gs, gc = rng.choice([1.0, 1.5, 2.0]), rng.choice([0.0, 0.25, -1.0])
            how = rng.choice(['none', 'positional', 'keyword', 'both'])
            ga, gk = {'none': ((), {}), 'positional': ((gs, gc), {}), 'keyword': ((), dict(s=gs, c=gc)), 'both': ((gs,), dict(c=gc))}[how]
            if how == 'none':
                gs, gc = 1.0, 0.0
            rep['gradient_extra'] = [how, gs, gc]
            with warnings.catch_warnings():
                warnings.simplefilter('ignore')
                xg = x.reshape(shape)
                layout = 'C'
                if n >= 2 and n % 2 == 0 and rng.random() < 0.5:
                    # a 2-d point whose memory order is not its logical order (Fortran-ordered copy / transposed view): the gradient is
                    # with respect to the elements in logical (C) order, x.ravel()[k]
                    layout = rng.choice(['F', 'T'])
                    xg = np.asfortranarray(x.reshape(2, n // 2)) if layout == 'F' else np.ascontiguousarray(x.reshape(2, n // 2).T).T
                rep['gradient_x_layout'] = [layout, list(np.shape(xg))]
                G = nds.Gradient(g, method=meth)(xg, *ga, **gk)
            want_shape = () if n == 1 else (n,)
            if np.shape(G) != want_shape:
                ctx.violation('nd_scipy.Gradient shape is not (n,) / 0-d', got=list(np.shape(G)), expected=list(want_shape), **rep)
            elif np.max(np.abs(np.ravel(G) - (gs * A[0] + x + gc))) > (1e-9 if meth == 'complex' else 1e-4) * (1 + 2 * np.abs(A[0]).max()):
                ctx.violation('nd_scipy.Gradient differs from the exact gradient (extra arguments forwarded?)', got=np.ravel(G).tolist(),
                              exact=(gs * A[0] + x + gc).tolist(), **rep)
    # points strictly inside the box but very close to a face (1e-7 .. 1e-5 relative): the derivative is the one at x, not at the face
    for it in range(ctx.budget(40, 400)):
        n = rng.randint(1, 4)
        W = np.array([[rng.randint(-8, 8) / 4 for _ in range(n)] for _ in range(n)]) + 2 * np.eye(n)
        lo = np.array([rng.choice([1.0, -2.0, 0.5, 3.0, 100.0]) for _ in range(n)])
        hi = lo + 2.0
        x = lo + np.array([rng.choice([3e-6, 1e-7, 5e-6]) * max(1.0, abs(l_)) if rng.random() < 0.7 else 0.5 for l_ in lo])
        if rng.random() < 0.5:
            x = hi - (x - lo)
        meth = rng.choice(['complex', 'complex', 'central'])
        f = lambda t: np.exp((W @ t) / 64) * 64 + (W @ t) ** 2
        u = W @ x
        exact = (np.exp(u / 64) + 2 * u)[:, None] * W
        ctx.tried(('near-face', n, meth, tuple(x[:2])))
        rep = dict(n=n, method=meth, x=x.tolist(), bounds=[lo.tolist(), hi.tolist()], kind='nonlinear, x within 1e-5 of a face')
        try:
            with warnings.catch_warnings():
                warnings.simplefilter('ignore')
                J = nds.Jacobian(f, method=meth, bounds=(lo, hi))(x)
        except Exception as ex:
            ctx.violation('nd_scipy.Jacobian raised %r' % ex, **rep)
            continue
        tol = (1e-9 if meth == 'complex' else 3e-7) * (1 + np.abs(exact).max())
        if np.shape(J) != (n, n) and not (n == 1 and np.shape(J) == (1,)):
            continue
        if np.max(np.abs(np.reshape(J, (n, n)) - exact)) > tol:
            ctx.violation('nd_scipy.Jacobian at a point close to (not on) a face of the box differs from the exact Jacobian at that point',
                          got=np.ravel(J).tolist(), exact=np.ravel(exact).tolist(), tolerance=tol, **rep)
    ctx.assumptions.append('everything inside scipy.optimize._numdiff.approx_derivative is external: the claim is partial by nature '
                           '(method map, forwarding, squeeze and the cs contract on affine maps are proved; the rest is explored on the real scipy)')


def replay(ctx, path):
    print(json.dumps(json.load(open(path)), indent=1)[:4000])
    return 0
