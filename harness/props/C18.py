"""C18 — Limit and Residue recover removable singularities and poles."""
import json
import math
import warnings
from fractions import Fraction

import numpy as np

from harness.common import f2hex, q2s, s2q, run_driver, lean_obligations

MODULE = 'Ndt.Props.C18'
THEOREMS = ['Ndt.limit_exact_on_polynomials', 'Ndt.limitExtrapolate_length', 'Ndt.residue_fun', 'Ndt.residue_exact', 'Ndt.callLim_length',
            'Ndt.limit_keeps_finite_values', 'Ndt.callLim_fills_in_order', 'Ndt.callLim_all_some', 'Ndt.richardson_annihilates',
            'Ndt.richNodes_nodup_real', 'Ndt.richNodes_nodup_complex']
EPS = 2.0 ** -52
K_EST, FLOOR = 1000.0, 1e-11           # unchanged tree: err <= 1000 est in every one of 6000 cases (no floor needed); 1e-11 relative for rounding
KERN = {'sinc': lambda w: np.sin(w) / w, 'expm1': lambda w: np.expm1(w) / w, 'log1p': lambda w: np.log1p(w) / w,
        'wsin': lambda w: w / np.sin(w), 'tan': lambda w: np.tan(w) / w}
G = {'exp': np.exp, 'poly': lambda z: 1 + 2 * z - 0.5 * z ** 2 + 0.25 * z ** 3, 'cos': lambda z: np.cos(z) + 2, 'rat': lambda z: 1 / (4 + z * z)}


def qc(z):
    z = complex(z)
    return Fraction(z.real), Fraction(z.imag)


def run(ctx):
    from numdifftools.limits import Limit, Residue
    from numdifftools.extrapolation import Richardson
    lean_obligations(ctx, MODULE, THEOREMS)
    rng = ctx.rng

    # ---------------- engine `limit.linear`: sampled sequence and Richardson stage on polynomial data -------------------------------
    eng = ctx.engine('limit.linear')
    captured = []
    orig_call = Richardson.__call__

    def spy(self, sequence, steps):
        r = orig_call(self, sequence, steps)
        captured.append((np.array(sequence), np.array(steps), self.step_ratio, self.step, self.order, self.num_terms, np.array(r[0])))
        return r
    Richardson.__call__ = spy
    jobs = []
    try:
        for _ in range(ctx.budget(80, 800)):
            order = rng.randint(1, 6)
            deg = rng.randint(0, order + 1)
            b = [Fraction(rng.randint(-8, 8), rng.choice([1, 2, 4])) for _ in range(deg + 1)]
            cplx = rng.random() < 0.3
            z0 = complex(rng.randint(-4, 4) / 4, rng.randint(-4, 4) / 4) if cplx else rng.randint(-8, 8) / 4
            method = rng.choice(['above', 'below'])
            path = rng.choice(['radial', 'spiral']) if cplx or rng.random() < 0.3 else 'radial'
            ratio = rng.choice([2.0, 4.0, 8.0])
            f = lambda z: sum(float(c) * (z - z0) ** k for k, c in enumerate(b))
            captured.clear()
            with warnings.catch_warnings():
                warnings.simplefilter('ignore')
                L = Limit(f, method=method, order=order, path=path, step_ratio=ratio)
                val = L.limit(z0)
                gen_steps = [complex(np.ravel(s)[0]) for s in L.step(np.asarray(z0))]
            if not captured:
                continue
            jobs.append((order, b, z0, method, path, ratio, complex(np.ravel(val)[0]), captured[-1], gen_steps))
    finally:
        Richardson.__call__ = orig_call
    lines = []
    for (order, b, z0, method, path, ratio, val, cap, gen_steps) in jobs:
        seq, steps, rho, rstep, rorder, rterms, rout = cap
        sign = 1 if method == 'above' else -1
        exact_seq = []
        for h in gen_steps:
            hq = (Fraction((sign * h).real), Fraction((sign * h).imag))
            # value of the polynomial at z0 + h in exact Gaussian rational arithmetic
            re, im = Fraction(0), Fraction(0)
            pre, pim = Fraction(1), Fraction(0)
            for c in b:
                re += c * pre
                im += c * pim
                pre, pim = pre * hq[0] - pim * hq[1], pre * hq[1] + pim * hq[0]
            exact_seq.append((re, im))
        rr = qc(rho)
        lines.append('limextc %s %s %d %s' % (q2s(rr[0]), q2s(rr[1]), order, ' '.join('%s %s' % (q2s(a), q2s(c)) for a, c in exact_seq)))
    out = run_driver(lines, 'C18l') if lines else []
    for job, line in zip(jobs, out):
        order, b, z0, method, path, ratio, val, cap, gen_steps = job
        seq, steps, rho, rstep, rorder, rterms, rout = cap
        eng['cases'] += 1
        ctx.count('limit.linear', '%s/%s/%s' % (method, path, 'complex' if isinstance(z0, complex) else 'real'))
        sign = 1 if method == 'above' else -1
        rep = [order, list(map(str, b)), str(z0), method, path, ratio]
        # (i) the steps handed to Richardson are sign * generated steps, the rule is (ratio, step=1, order=1, terms=order+1)
        if (rstep, rorder, rterms) != (1, 1, order + 1) or len(steps) != len(gen_steps) or \
                not np.allclose(np.ravel(steps), [sign * h for h in gen_steps], rtol=0, atol=0):
            ctx.mismatch('limit.linear', rep, [rstep, rorder, rterms, [str(s) for s in np.ravel(steps)[:3]]],
                         [1, 1, order + 1, [str(sign * h) for h in gen_steps[:3]]], 'Richardson configuration / signed steps')
            continue
        w = line.split()
        model = np.array([complex(float(s2q(w[2 * i])), float(s2q(w[2 * i + 1]))) for i in range(len(w) // 2)])
        got = np.ravel(rout).astype(complex)
        if len(got) != len(model):
            ctx.mismatch('limit.linear', rep, len(got), len(model), 'number of extrapolants')
            continue
        rule = Richardson(step_ratio=rho, step=1, order=1, num_terms=order + 1).rule(len(gen_steps))
        mag = float(np.sum(np.abs(rule))) * float(np.max(np.abs(np.ravel(seq)))) + 1.0
        used = min(order + 1, len(gen_steps) - 1)
        i_, j_ = np.arange(used + 1)[:, None], np.arange(used)[None, :]
        rm = np.ones((used + 1, used + 1), dtype=complex)
        rm[:, 1:] = (1.0 / rho) ** (i_ * (j_ + 1))
        cond = np.linalg.cond(rm)
        bound = 4096 * EPS * (cond + 1) * mag
        if np.max(np.abs(got - model)) <= bound:
            eng['rounded'] += 1
        else:
            ctx.mismatch('limit.linear', rep, [str(v) for v in got[:4]], [str(v) for v in model[:4]], 'bound %.3g' % bound)
        # exact on the modelled terms: the returned limit is b_0
        if abs(val - complex(float(b[0]))) > bound + 1e-12:
            ctx.violation('Limit is not exact (to rounding) on L + sum_{k<=order+1} a_k h^k', order=order, coefficients=list(map(str, b)), z0=str(z0),
                          method=method, path=path, step_ratio=ratio, got=str(val), exact=float(b[0]))
    if out:
        ctx.sample({'engine': 'limit.linear', 'line': lines[0][:200], 'model': out[0][:200]})

    # ---------------- engine `limit.mask`: only NaN entries are replaced, in order -------------------------------------------------------
    eng = ctx.engine('limit.mask')
    for _ in range(ctx.budget(40, 400)):
        shape = rng.choice([(4,), (2, 3), (6,), (1,), (3, 1, 2)])
        size = int(np.prod(shape))
        z = np.array([rng.uniform(-2, 2) for _ in range(size)])
        sing = [k for k in range(size) if rng.random() < 0.4]
        if sing and size > 1 and rng.random() < 0.5:
            # the same singular point occurs several times in the array (and is no round number)
            for k in range(size):
                if k not in sing and rng.random() < 0.4:
                    z[k] = z[sing[0]]
                    sing.append(k)
            sing.sort()
        low = rng.random() < 0.3
        if low:
            # the points come in a lower precision type (data read from a file) and f returns that type at them; the limit at a singular
            # point is still computed, and returned, in double precision
            z = z.astype(np.float32).astype(float)
        z0s = z.copy()
        gname = rng.choice(list(G))
        g = G[gname]
        pts = {k: float(z[k]) for k in sing}

        def f(t, pts=pts, g=g, low=low):
            t = np.asarray(t) if low else np.asarray(t, dtype=float)
            out_ = g(t)
            for k, p in pts.items():
                with np.errstate(all='ignore'):
                    out_ = np.where(t == p, np.nan, out_) if False else out_
            # singular exactly at the listed points: g(t) * sin(t-p)/(t-p) is NaN there
            res = g(t)
            for p in pts.values():
                with np.errstate(all='ignore'):
                    res = res * np.where(t == p, np.nan, 1.0).astype(res.dtype if low else float)
            return res
        eng['cases'] += 1
        ctx.count('limit.mask', 'singular=%d' % len(sing))
        with warnings.catch_warnings():
            warnings.simplefilter('ignore')
            try:
                val, info = Limit(f, full_output=True)((z.astype(np.float32) if low else z).reshape(shape))
            except Exception as ex:
                ctx.violation('Limit raised %r on an array mixing singular and regular points' % ex, z=z.tolist(), singular=sing)
                continue
        if np.shape(val) != shape:
            ctx.violation('Limit result does not have the shape of the input', shape=list(shape), got=list(np.shape(val)))
            continue
        with np.errstate(all='ignore'):
            fz = np.asarray(f(z.astype(np.float32) if low else z), dtype=float)
        lims = np.ravel(val)[sing] if sing else np.array([])
        line = run_driver(['calllim | %s | %s' % (' '.join('nan' if v != v else q2s(Fraction(float(v))) for v in fz),
                                                   ' '.join(q2s(Fraction(float(v))) for v in lims))], 'C18m')[0]
        model = [float('nan') if t == 'nan' else float(s2q(t)) for t in line.split()]
        if all((a == b) for a, b in zip(np.ravel(val), model)) and len(model) == size:
            eng['exact'] += 1
        else:
            ctx.mismatch('limit.mask', [z.tolist(), sing], np.ravel(val).tolist(), model)
        regular = [k for k in range(size) if k not in sing]
        if any(f2hex(np.ravel(val)[k]) != f2hex(fz[k]) for k in regular):
            ctx.violation('Limit changed a value at a point where f is finite', z=z.tolist(), singular=sing, f_z=fz.tolist(), got=np.ravel(val).tolist())
        est_ = np.ravel(np.abs(np.asarray(info.error_estimate, dtype=float))) if np.size(info.error_estimate) == size else np.zeros(size)
        if any(abs(np.ravel(val)[k] - g(z[k])) > 1000 * (est_[k] if est_[k] == est_[k] else 0.0) + 1e-10 * (1 + abs(g(z[k]))) for k in sing):
            ctx.violation('Limit at a singular point of an array is wrong', z=z.tolist(), singular=sing, got=np.ravel(val).tolist())

    # ---------------- failing-input search ------------------------------------------------------------------------------------------------
    ctx.search['rule'] = ('f(z) = g(z) s(z - z0), g in {exp, cubic, cos+2, 1/(4+z^2)}, s in {sin w/w, expm1 w/w, log1p w/w, w/sin w, tan w/w} (log1p not on the '
                          'real path from below, where it is undefined), z0 real in [-3,3] or complex in the unit square, above/below, radial/spiral, '
                          'order 1..8, step_ratio 2..16; Residue of g(z)/(z-z0)^p, p = 1,2,3; bound |result - g(z0)| <= 1000 * error_estimate + 1e-6 * '
                          '(1 + |g(z0)|); distinct = distinct configuration')
    worst = 0.0
    excess = [0.0]
    for it in range(ctx.budget(300, 4000) * (2 if (ctx.broken or ctx.mismatches) else 1)):
        gname = rng.choice(list(G))
        g = G[gname]
        cplx = rng.random() < 0.35
        z0 = complex(rng.uniform(-1, 1), rng.uniform(-1, 1)) if cplx else rng.uniform(-3, 3)
        method, path = rng.choice(['above', 'below']), rng.choice(['radial', 'spiral'])
        ratio = rng.choice([2, 3, 4, 8, 16, rng.uniform(2, 16)])
        residue = rng.random() < 0.25
        if residue:
            p = rng.randint(1, 3)
            f = lambda z: g(z) / (z - z0) ** p
            rep = dict(kind='Residue', g=gname, pole_order=p, z0=str(z0), method=method, path=path, step_ratio=ratio)
            mk = lambda: Residue(f, pole_order=p, method=method, full_output=True, path=path, step_ratio=ratio)
        else:
            kname = rng.choice(list(KERN))
            s = KERN[kname]
            order = rng.randint(1, 8)
            f = lambda z: g(z) * s(z - z0)
            rep = dict(kind='Limit', g=gname, kernel=kname, z0=str(z0), method=method, path=path, order=order, step_ratio=ratio)
            mk = lambda: Limit(f, method=method, order=order, full_output=True, path=path, step_ratio=ratio)
        ctx.tried(tuple(rep.items()))
        try:
            with warnings.catch_warnings():
                warnings.simplefilter('ignore')
                val, info = mk()(z0)
        except Exception as ex:
            ctx.violation('%s raised %r' % (rep['kind'], ex), **rep)
            continue
        exact = complex(g(z0))
        v = complex(np.ravel(val)[0])
        est = float(np.ravel(np.abs(info.error_estimate))[0])
        err = abs(v - exact)
        bound = K_EST * est + FLOOR * (1 + abs(exact))
        worst = max(worst, err / bound) if bound > 0 else worst
        excess[0] = max(excess[0], (err - K_EST * est) / (1 + abs(exact))) if err == err else excess[0]
        if v != v and rep.get('kernel') == 'log1p' and method == 'below' and path == 'radial' and not cplx:
            # recorded finding: so many of the steps leave the domain of log1p (w <= -1) that no finite estimate is left
            ctx.violation('Limit returns NaN: the steps from below leave the domain of the kernel', got=str(v), exact=str(exact),
                          signature='C18-steps-leave-domain-nan', **rep)
            continue
        if not err <= bound:
            # recorded finding: log1p kernel (the only kernel with a singularity at distance 1), order 7 or 8, step ratio >= 8 — the same
            # short and wide step sequence as C18-steps-leave-domain-nan: most steps lie outside |w| < 1, where log1p(w)/w is not given by
            # its expansion at 0, the high-order Richardson stage consumes the samples that are left and the estimate rests on one or two
            sig = 'C18-log1p-high-order-wide-ratio' if (rep.get('kernel') == 'log1p' and rep.get('order', 0) >= 7 and float(ratio) >= 8.0) else None
            ctx.violation('%s does not recover g(z0) within the reported error estimate' % rep['kind'], got=str(v), exact=str(exact), error=err,
                          error_estimate=est, signature=sig, **rep)
    # Residue with legal but very small base steps (the documented `scale` option: base step EPS**(1/scale), or a user step of 1e-15), at
    # nonzero real poles: Residue multiplies f(z0 + h) by h**pole_order, so the steps must be exactly representable displacements
    worst_small = 0.0
    zs = [rng.uniform(-3, 3) for _ in range(ctx.budget(30, 200))]
    for z0 in zs:
        for p in (1, 2, 3):
            gname = rng.choice(list(G))
            g = G[gname]
            f = lambda z, g=g, z0=z0, p=p: g(z) / (z - z0) ** p
            for ratio in (2, 3):
                for extra in ({'scale': 1.1}, {'scale': 1.05}, {'step': 1e-15}):
                    rep = dict(kind='Residue', g=gname, pole_order=p, z0=z0, step_ratio=ratio, options=str(extra))
                    ctx.tried(('residue-small-steps', z0, p, ratio, str(extra)))
                    try:
                        with warnings.catch_warnings():
                            warnings.simplefilter('ignore')
                            val, info = Residue(f, pole_order=p, full_output=True, step_ratio=ratio, **extra)(z0)
                    except Exception as ex:
                        ctx.violation('Residue raised %r' % ex, **rep)
                        continue
                    exact = complex(g(z0))
                    err = abs(complex(np.ravel(val)[0]) - exact)
                    est = float(np.ravel(np.abs(info.error_estimate))[0])
                    bound = K_EST * est + FLOOR * (1 + abs(exact))
                    worst_small = max(worst_small, err / bound)
                    if not err <= bound:
                        ctx.violation('Residue (small base step) does not recover g(z0) within the reported error estimate', got=str(val),
                                      exact=str(exact), error=err, error_estimate=est, **rep)
    ctx.notes.append('Residue with small base steps: worst err / bound %.3g' % worst_small)
    ctx.notes.append('worst err / (1000 est + 1e-11 scale) on this run: %.3g' % worst)
    ctx.notes.append('largest (err - 1000 est) / (1 + |g(z0)|): %.3g' % excess[0])
    ctx.assumptions.append('truncation for non-polynomial kernels and rounding are explored, not proved; the selection stage on complex data is '
                           'covered by the search only')


def replay(ctx, path):
    print(json.dumps(json.load(open(path)), indent=1)[:4000])
    return 0
