"""C14 — Streaming epsilon algorithms: EpsAlg matches the Shanks table; Dea is total."""
import json
import math
import warnings
from fractions import Fraction

import numpy as np

from harness.common import f2hex, hex2f, run_driver, lean_obligations, ulps
from harness.oracle.epsilon_table import wynn_column_values
from harness.translate import translator_obligations

MODULE = 'Ndt.Props.C14'
THEOREMS = ['Ndt.sweepAux_diag', 'Ndt.epsStep_diag', 'Ndt.epsRun_diag', 'Ndt.epsalg_returns_even_order',
            'Ndt.epsalg_one_transient', 'Ndt.dea_abserr_floor', 'Ndt.dea_abserr_floor_every_call', 'Ndt.deaCall_first', 'Ndt.pyMax_ge_right',
            'Ndt.deaIter_ok', 'Ndt.deaLoopRun_ok', 'Ndt.shiftTable_ok', 'Ndt.updateRes3la_ok', 'Ndt.deaPost_ok', 'Ndt.deaCall_ok',
            'Ndt.deaInit_inv', 'Ndt.dea_total', 'Ndt.dea_never_fails']
EPS = 2.0 ** -52
HUGE = float(np.finfo(float).max)
ENVELOPE = 64.0


def gen_seq(rng, maxlen=200):
    """a sequence, in a fifth of the cases rescaled by a power of two between 2^-100 and 2^40 (the algorithms are scale covariant:
    tolerances are relative, so the magnitude of the terms must not matter)"""
    kind, seq, info = _gen_seq(rng, maxlen)
    if rng.random() < 0.2 and kind != 'small-alphabet':
        sc = 2.0 ** rng.randint(-100, 40)
        seq = [v * sc for v in seq]
        if info is not None:
            info = (info[0] * sc, info[1])
        kind = kind + '*2^k'
    return kind, seq, info


def _gen_seq(rng, maxlen=200):
    kind = rng.choice(['geo', 'geo', 'geo-dyadic', 'random', 'const-tail', 'alt', 'slow', 'small-alphabet', 'near-tie'])
    n = rng.choice([rng.randint(1, 12), rng.randint(1, 40), rng.randint(1, maxlen)])
    if kind == 'near-tie':
        # two neighbouring terms 0..4 ulp apart (at, just below or just above a power of two, or anywhere; either sign, either order),
        # so that the coincidence tests |e1 - e0| <= eps * max(|e0|, |e1|) sit exactly on their threshold; then ordinary terms
        import numpy as _np
        e0 = rng.choice([-1, 1]) * rng.choice([2.0 ** rng.randint(-3, 3), rng.uniform(0.5, 4.0)])
        e1 = e0
        for _ in range(rng.randint(0, 4)):
            e1 = float(_np.nextafter(e1, rng.choice([0.0, 10.0 * e0])))
        if rng.random() < 0.5:
            e0, e1 = e1, e0
        pos = rng.choice([0, 0, 1])
        rest = [e1 * (1 + rng.choice([-1, 1]) * 10.0 ** rng.uniform(-3, -1)) for _ in range(max(n, 3))]
        seq = ([e0, e1] + rest) if pos == 0 else ([rest[0], e0, e1] + rest[1:])
        return kind, seq[:max(n, 3)], None
    if kind == 'geo':
        k = rng.randint(1, 4)
        L = rng.uniform(-2, 2)
        a = [rng.uniform(-2, 2) for _ in range(k)]
        q = [rng.uniform(-0.95, 0.95) for _ in range(k)]
        return kind, [L + sum(ai * qi ** t for ai, qi in zip(a, q)) for t in range(n)], (L, k)
    if kind == 'geo-dyadic':
        k = rng.randint(1, 2)
        L = rng.randint(-16, 16) / 8
        a = [rng.randint(-16, 16) / 4 or 1.0 for _ in range(k)]
        q = rng.sample([0.5, -0.5, 0.25, -0.25, 0.75], k)
        n = min(n, 14)
        return kind, [L + sum(ai * qi ** t for ai, qi in zip(a, q)) for t in range(n)], (L, k)
    if kind == 'random':
        return kind, [rng.uniform(-1, 1) for _ in range(n)], None
    if kind == 'small-alphabet':
        # exact zeros, repeats and ties: every comparison of the algorithm can come out as an equality
        alpha = rng.choice([[0.0, 1.0, -1.0, 0.5], [0.0, 0.0, 1.0], [0.0, 2.0, 0.25, -0.0], [1.0, 1.0, 0.0, 3.0]])
        return kind, [rng.choice(alpha) for _ in range(min(n, 30))], None
    if kind == 'const-tail':
        m = rng.randint(0, n)
        c = rng.uniform(-3, 3)
        return kind, [rng.uniform(-1, 1) for _ in range(m)] + [c] * (n - m), None
    if kind == 'alt':
        return kind, [sum((-1) ** i / (i + 1) for i in range(t + 1)) for t in range(n)], None
    return kind, [sum(1.0 / (i + 1) ** 2 for i in range(t + 1)) for t in range(n)], None


def run(ctx):
    from numdifftools.extrapolation import Dea, EpsAlg, dea3
    translator_obligations(ctx, ['dea3.'])          # the third value of Dea is tied to dea3 (and its helper max_abs), which is regenerated
    lean_obligations(ctx, MODULE, THEOREMS)
    rng = ctx.rng
    seqs = [gen_seq(rng) for _ in range(ctx.budget(300, 3000))]

    # ---------------- engine `epsalg` (bits) --------------------------------------------------------------
    eng = ctx.engine('epsalg')
    out = run_driver(['epsalg ' + ' '.join(f2hex(x) for x in s) for _k, s, _m in seqs], 'C14e')
    for (kind, s, _m), line in zip(seqs, out):
        eng['cases'] += 1
        ctx.count('epsalg', kind)
        ea = EpsAlg()
        with warnings.catch_warnings():
            warnings.simplefilter('ignore')
            impl = [float(ea(x)) for x in s]
        est, tab = line.split(' | ') if ' | ' in line else (line.rstrip(' |'), '')
        model = [hex2f(x) for x in est.split()]
        mtab = [hex2f(x) for x in tab.split()]
        itab = [float(x) for x in ea.epstab]
        same = len(impl) == len(model) and all(f2hex(a) == f2hex(b) for a, b in zip(impl, model)) and \
            len(itab) == len(mtab) and all(f2hex(a) == f2hex(b) for a, b in zip(itab, mtab))
        if same:
            eng['bit_identical'] += 1
        else:
            ctx.mismatch('epsalg', [f2hex(x) for x in s], [f2hex(x) for x in impl][:8], [f2hex(x) for x in model][:8])
    ctx.sample({'engine': 'epsalg', 'seq': seqs[0][1][:6], 'model': out[0][:200]})

    # ---------------- engine `dea` (bits, including state after every call) ------------------------------------
    eng = ctx.engine('dea')
    dcases = []
    for kind, s, meta in seqs:
        limexp = rng.choice([3, 4, 5, 6, 7, rng.randint(3, 60)])
        dcases.append((kind, s, limexp))
    out = run_driver(['dea %d %s %s %s' % (le, f2hex(EPS), f2hex(HUGE), ' '.join(f2hex(x) for x in s)) for _k, s, le in dcases], 'C14d')
    for (kind, s, limexp), line in zip(dcases, out):
        eng['cases'] += 1
        ctx.count('dea', 'limexp<=7' if limexp <= 7 else 'limexp>7')
        d = Dea(limexp)
        impl = []
        with warnings.catch_warnings():
            warnings.simplefilter('ignore')
            for x in s:
                try:
                    r, e = d(x)
                    impl.append('%s %s %d %d' % (f2hex(r), f2hex(e), d._n, d._nres))
                except IndexError:
                    impl.append('IndexError')
                    break
                except ValueError:
                    impl.append('ValueError')
                    break
        parts = line.split(' | ')
        model, mtab = parts[:-1], parts[-1]
        itab = ' '.join(f2hex(x) for x in d.epstab)
        if impl == model and (impl[-1] in ('IndexError', 'ValueError') or itab == mtab):
            eng['bit_identical'] += 1
            if impl and impl[-1] == 'IndexError':
                ctx.count('dea', 'IndexError reproduced by the model')
        else:
            k = next((i for i, (a, b) in enumerate(zip(impl, model)) if a != b), min(len(impl), len(model)))
            ctx.mismatch('dea', {'limexp': limexp, 'seq': [f2hex(x) for x in s[:k + 1]]}, impl[max(0, k - 1):k + 1], model[max(0, k - 1):k + 1],
                         'first difference at call %d' % (k + 1))

    # ---------------- failing-input search ----------------------------------------------------------------------
    ctx.search['rule'] = ('sequences L + sum_{i<=k} a_i q_i^n (k 1..4, random and dyadic), random, constant-tail, alternating and slowly '
                          'convergent series, lengths 1..200, limexp 3..60. EpsAlg: every returned value against the exact-rational '
                          'epsilon-table entry of highest even order computed from the same floats, within a first-order running '
                          'rounding bound (skipped where a difference vanishes / the bound is infinite). Dea: no exception, finite '
                          'results, abserr >= 5 eps |result| from the third term on, third term equal to dea3. Non-trivial: length '
                          '>= 3; distinct = distinct sequence')
    budget = ctx.budget(250, 3000) * (3 if (ctx.broken or ctx.mismatches) else 1)
    worst = 0.0
    for it in range(budget):
        kind, s, meta = gen_seq(rng, maxlen=60 if not ctx.thorough else 200)
        ctx.tried(tuple(s) if len(s) >= 3 else None)
        # --- EpsAlg against the exact table (first 14 terms: the exact table grows quickly) ---
        sub = s[:14]
        ea = EpsAlg()
        try:
            with warnings.catch_warnings():
                warnings.simplefilter('ignore')
                got = [float(ea(x)) for x in sub]
        except Exception as ex:
            ctx.violation('EpsAlg raised %r' % ex, seq=sub)
            got = None
        if got is not None:
            ref = wynn_column_values(sub)
            for t, (g, (v, eb)) in enumerate(zip(got, ref)):
                if v is None or not math.isfinite(eb):
                    break       # a table difference vanished (exactly or numerically): outside the property
                bound = ENVELOPE * (eb + EPS * abs(float(v)))
                d = abs(g - float(v))
                if bound > 0:
                    worst = max(worst, d / bound)
                if d > bound:
                    ctx.violation('EpsAlg differs from the epsilon-table entry of highest even order', seq=sub, term=t + 1,
                                  got=g, exact=float(v), bound=bound)
                    break
        # --- Dea: totality, finiteness, floor, agreement with dea3 ---
        limexp = rng.choice([3, 4, 5, 6, 7, rng.randint(3, 60)])
        d = Dea(limexp)
        with warnings.catch_warnings():
            warnings.simplefilter('ignore')
            for t, x in enumerate(s):
                try:
                    r, e = d(x)
                except Exception as ex:
                    ctx.violation('Dea raised %s' % type(ex).__name__, limexp=limexp, seq=s[:t + 1], term=t + 1,
                                  signature='C14-dea-%s-n-overflow' % type(ex).__name__ if d._n >= d.limexp else None)
                    break
                if not (math.isfinite(r) and math.isfinite(e)):
                    ctx.violation('Dea returned a non-finite value for finite input', limexp=limexp, seq=s[:t + 1], term=t + 1,
                                  result=float(r), abserr=float(e))
                    break
                if t >= 2 and not e >= 5 * EPS * abs(r):
                    ctx.violation('Dea abserr below 5 eps |result| from the third term on', limexp=limexp, seq=s[:t + 1],
                                  term=t + 1, result=float(r), abserr=float(e),
                                  signature='C14-dea-floor-reentry' if d._n in (1, 2) else None)
                    break
                if t == 2:
                    r3, _e3 = dea3(s[0], s[1], s[2])
                    if abs(float(r3[0]) - r) > 1e-9 * max(abs(r), abs(float(r3[0])), 1e-300):
                        ctx.violation('Dea and dea3 disagree on the first three terms', seq=s[:3], dea=float(r), dea3=float(r3[0]))
                        break
    # --- the coincidence thresholds, enumerated: first two terms within 3 ulp of a power of two on either side (either sign, either
    # order), third term 0.1 % away: Dea (inline tolerances) and dea3 (tolerances through max_abs) must agree on the third value
    def _ulps_from(b, k):
        v = b
        for _ in range(abs(k)):
            v = float(np.nextafter(v, (4 * b) if k > 0 else 0.0))
        return v
    for sgn in (1.0, -1.0):
        for base in (1.0, 2.0, 0.5, 4.0, 1.5):
            for k0 in range(-3, 4):
                for k1 in range(-3, 4):
                    for third in (1.001, 0.999):
                        e0, e1 = sgn * _ulps_from(base, k0), sgn * _ulps_from(base, k1)
                        e2 = e1 * third
                        ctx.tried(('threshold', sgn, base, k0, k1, third))
                        with warnings.catch_warnings():
                            warnings.simplefilter('ignore')
                            dd = Dea(3)
                            dd(e0), dd(e1)
                            r, _e = dd(e2)
                            r3, _e3 = dea3(e0, e1, e2)
                        if abs(float(np.ravel(r3)[0]) - float(r)) > 1e-9 * max(abs(float(r)), 1e-300):
                            ctx.violation('Dea and dea3 disagree on the first three terms (neighbouring terms within a few ulp of each other)',
                                          seq=[e0, e1, e2], ulps=[k0, k1], dea=float(r), dea3=float(np.ravel(r3)[0]))
    # --- several Dea (and EpsAlg) objects alive at the same time, fed in lockstep (one per component of a vector sequence): each must
    # return, term by term, exactly what it returns when it is the only object in the process
    for it in range(ctx.budget(30, 300)):
        k = rng.randint(2, 4)
        limexp = rng.choice([3, 4, 5, 6, 7, 10])
        lim2 = [limexp if rng.random() < 0.7 else limexp + rng.choice([0, 1]) for _ in range(k)]       # the same (or the same effective) size
        ss = [[float(v) for v in gen_seq(rng, 40)[1]] for _ in range(k)]
        nterm = min(len(q) for q in ss)
        ctx.tried(('interleaved', tuple(lim2), tuple(tuple(q[:3]) for q in ss)))
        with warnings.catch_warnings():
            warnings.simplefilter('ignore')
            try:
                alone = []
                for q, le in zip(ss, lim2):
                    d1 = Dea(le)
                    alone.append([tuple(float(v) for v in d1(x)) for x in q[:nterm]])
                objs = [Dea(le) for le in lim2]
                together = [[] for _ in range(k)]
                for t in range(nterm):
                    for j in range(k):
                        together[j].append(tuple(float(v) for v in objs[j](ss[j][t])))
            except Exception as ex:
                ctx.violation('Dea raised %s with several objects alive' % type(ex).__name__, limexp=lim2, seqs=[q[:nterm] for q in ss])
                continue
        for j in range(k):
            bad = [t for t in range(nterm) if not all((a == b) or (a != a and b != b) for a, b in zip(alone[j][t], together[j][t]))]
            if bad:
                ctx.violation('a Dea object fed alternately with other Dea objects returns something else than when it is used alone',
                              limexp=lim2, object=j, term=bad[0] + 1, seq=ss[j][:bad[0] + 1], alone=list(alone[j][bad[0]]),
                              interleaved=list(together[j][bad[0]]))
                break
    ctx.notes.append('worst |EpsAlg - exact table| / bound on this run: %.3g (envelope %g)' % (worst, ENVELOPE))
    ctx.assumptions.append('rounding is not modelled by the theorems; general-k Shanks exactness (k transients from 2k+1 terms) is '
                           'Wynn\'s identity and is only validated by the exact-rational runs (a test, not a theorem); k=1 is proved')


def replay(ctx, path):
    print(json.dumps(json.load(open(path)), indent=1)[:4000])
    return 0
