"""C08 — Array inputs are handled elementwise and keep their shape."""
import json
import warnings

import numpy as np

from harness.common import f2hex, hex2f, run_driver, lean_obligations

MODULE = 'Ndt.Props.C08'
THEOREMS = ['Ndt.flat_gather', 'Ndt.column_of_column', 'Ndt.bestEstimate_lengths', 'Ndt.bestEstimate_columnwise',
            'Ndt.chosenRow_single', 'Ndt.bestEstimate_depends_on_column', 'Ndt.chosenRow_valid', 'Ndt.wynnTable_cell',
            'Ndt.args_forwarded', 'Ndt.argMinRow_spec', 'Ndt.outlierErrors_nonneg', 'Ndt.argMinRow_skips_nan', 'Ndt.bestEstimate_err_not_nan']
EPS = 2.0 ** -52
TINY = 2.0 ** -1022
METHODS = ['central', 'forward', 'backward', 'complex', 'multicomplex']


def gen_table(rng):
    nr, nc = rng.randint(1, 12), rng.randint(1, 5)
    base = rng.choice([1.0, -3.5, 1e-9, 100.0, 0.0])
    der = np.array([[rng.choice([base + rng.gauss(0, 1e-6), base + rng.gauss(0, 0.5), base, rng.gauss(0, 1e-9), 100.0 * base])
                     for _ in range(nc)] for _ in range(nr)])
    errs = np.abs(np.array([[rng.choice([rng.random() * 1e-8, 1e-9, 0.0, rng.random()]) for _ in range(nc)] for _ in range(nr)]))
    if rng.random() < 0.3:
        for _ in range(rng.randint(1, 3)):
            der[rng.randrange(nr), rng.randrange(nc)] = np.nan
    if rng.random() < 0.15:
        c = rng.randrange(nc)
        der[:, c] = np.nan
    errs = np.where(np.isnan(der), np.nan, errs)
    steps = np.array([[2.0 ** -r * (1 + 0.1 * c) for c in range(nc)] for r in range(nr)])
    return der, errs, steps


def fmt(arrs):
    return ' | '.join(' '.join(f2hex(x) for x in np.ravel(a)) for a in arrs)


def f_rational(x):
    return x * x * x - 2 * x + 1 / (1 + x * x)


def run(ctx):
    import numdifftools as nd
    from numdifftools.limits import _Limit
    from numdifftools.extrapolation import Richardson
    lean_obligations(ctx, MODULE, THEOREMS)
    rng = ctx.rng

    # ---------------- engine `select` (bits): _get_best_estimate on tables with ties / NaN / all-NaN columns ----------
    eng = ctx.engine('select')
    gbe = getattr(_Limit, '_get_best_estimate', None)
    if gbe is None:
        ctx.notes.append('engine select skipped: attachment point _Limit._get_best_estimate missing')
    else:
        tabs = [gen_table(rng) for _ in range(ctx.budget(500, 5000))]
        out = run_driver(['select %d %d | %s' % (d.shape[0], d.shape[1], fmt([d, e, s])) for d, e, s in tabs], 'C08s')
        for (d, e, s), line in zip(tabs, out):
            eng['cases'] += 1
            ctx.count('select', 'nan' if np.isnan(d).any() else 'finite')
            with warnings.catch_warnings():
                warnings.simplefilter('ignore')
                v, info = gbe(d.copy(), e.copy(), s.copy(), (d.shape[1],))
            impl = ' | '.join([' '.join(map(f2hex, v)), ' '.join(map(f2hex, info.error_estimate)), ' '.join(map(f2hex, info.final_step)),
                               ' '.join(str(int(i)) for i in info.index)])
            if impl == line:
                eng['bit_identical'] += 1
            else:
                ctx.mismatch('select', [list(d.shape), fmt([d, e])[:300]], impl[:300], line[:300])
        ctx.sample({'engine': 'select', 'shape': list(tabs[0][0].shape), 'model': out[0][:200]})

    # ---------------- engine `pipeline.tail` (bits): public Derivative on arrays, stages after Richardson ------------------
    eng = ctx.engine('pipeline.tail')
    captured = []
    orig_call = Richardson.__call__

    def spy(self, sequence, steps):
        r = orig_call(self, sequence, steps)
        captured.append([np.array(a, dtype=float) for a in r])
        return r
    Richardson.__call__ = spy
    lines, expect = [], []
    try:
        for _ in range(ctx.budget(150, 1500)):
            m = rng.choice(['central', 'forward', 'backward', 'complex'])
            n = rng.randint(1, 3)
            order = rng.choice([2, 4])
            shape = rng.choice([(), (1,), (3,), (2, 3), (2, 2, 2), (5,), (4, 1)])
            x = np.array([rng.uniform(0.3, 3) for _ in range(int(np.prod(shape)) if shape else 1)]).reshape(shape)
            if rng.random() < 0.2 and x.size > 1:
                x.ravel()[rng.randrange(x.size)] *= -1       # log of a negative number -> an all-NaN column
            f = rng.choice([np.log, np.exp, f_rational, np.sqrt])
            captured.clear()
            with warnings.catch_warnings():
                warnings.simplefilter('ignore')
                try:
                    val, info = nd.Derivative(f, n=n, method=m, order=order, full_output=True)(x)
                except Exception as ex:
                    ctx.violation('Derivative raised %r on an array input' % ex, method=m, n=n, order=order, shape=list(shape), x=x.tolist())
                    continue
            if np.shape(val) != shape or np.shape(info.error_estimate) != shape or np.shape(info.final_step) != shape:
                ctx.violation('result / error_estimate / final_step do not have the shape of x', shape=list(shape),
                              got=[list(np.shape(val)), list(np.shape(info.error_estimate)), list(np.shape(info.final_step))])
                continue
            if not captured:
                continue
            d, e, s = captured[-1]
            ncols = max(1, x.size)
            lines.append('tail %s %s %d %d | %s' % (f2hex(EPS), f2hex(TINY), d.shape[0], ncols, fmt([d, e, s])))
            expect.append(' | '.join([' '.join(map(f2hex, np.ravel(val))), ' '.join(map(f2hex, np.ravel(info.error_estimate))),
                                      ' '.join(map(f2hex, np.ravel(info.final_step))), ' '.join(str(int(i)) for i in np.ravel(info.index))]))
    finally:
        Richardson.__call__ = orig_call
    out = run_driver(lines, 'C08t') if lines else []
    for ln, ex_, got in zip(lines, expect, out):
        eng['cases'] += 1
        if ex_ == got:
            eng['bit_identical'] += 1
        else:
            ctx.mismatch('pipeline.tail', ln[:300], ex_[:300], got[:300])

    # ---------------- failing-input search: metamorphic runs on the implementation ------------------------------------
    ctx.search['rule'] = ('elementwise functions built from exactly rounded operations (+ - * /), log, exp, sqrt; x of 0..3 axes and up to 40 '
                          'elements; all methods, n 1..3, order 2/4; (i) replace the other elements at random: the kept element must be '
                          'bit-identical; (ii) the element alone as a scalar: bit-identical for real-step methods, within the error '
                          'estimates for complex-step methods; (iii) extra positional and keyword arguments recorded by the callable on '
                          'every evaluation; non-trivial: more than one element; distinct = distinct (method,n,order,x)')
    budget = ctx.budget(120, 1500) * (3 if (ctx.broken or ctx.mismatches) else 1)
    for it in range(budget):
        m = rng.choice(METHODS)
        n = rng.randint(1, 2 if m == 'multicomplex' else 3)
        order = rng.choice([2, 4])
        shape = rng.choice([(), (3,), (2, 3), (2, 2, 2), (5,), (8, 5), (1,), (4, 1), (40,)])
        size = int(np.prod(shape)) if shape else 1
        x = np.array([rng.uniform(0.3, 3) for _ in range(size)]).reshape(shape)
        # the same logical array in another memory layout (Fortran order, a transposed view, a strided view): the layout is not
        # part of the value of x
        layout = 'C'
        if len(shape) >= 2 and rng.random() < 0.5:
            layout = rng.choice(['F', 'T', 'strided'])
            if layout == 'F':
                x = np.asfortranarray(x)
            elif layout == 'T':
                x = np.ascontiguousarray(np.transpose(x)).transpose()
            else:
                big = np.zeros((2 * shape[0],) + tuple(shape[1:]))
                big[::2] = x
                x = big[::2]
        f = rng.choice([f_rational, np.exp, np.log, lambda t: t * t / (1 + t)])
        if rng.random() < 0.3:
            # low-degree polynomials at "round" points: several steps then give exactly equal error estimates (ties in the selection),
            # next to generic points that do not
            f = rng.choice([lambda t: t * t * t, lambda t: t * t, lambda t: t * (1 - t), lambda t: 2 * t * t * t - t])
            flat_x = x.ravel().copy()
            for j in range(size):
                if rng.random() < 0.5:
                    flat_x[j] = rng.choice([1.0, 1.5, 0.1, 2.0, 0.5, 0.25, 3.0])
            x = flat_x.reshape(shape)
            layout = 'C'
        ctx.tried((m, n, order, tuple(x.ravel()[:3]), shape) if size > 1 else None)
        D = nd.Derivative(f, n=n, method=m, order=order, full_output=True)
        with warnings.catch_warnings():
            warnings.simplefilter('ignore')
            a, ia = D(x)
            k = rng.randrange(size)
            x2 = x.copy().ravel()
            for j in range(size):
                if j != k and rng.random() < 0.8:
                    # ordinary values, a point outside the domain of log / sqrt, or a huge but finite one (every step vanishes next to it)
                    x2[j] = rng.uniform(0.3, 3) if rng.random() < 0.8 else rng.choice([-1.0, 1e16, 2e16, -1e16, 3e12, 1e300])
            b, ib = D(x2.reshape(shape))
            s, is_ = D(float(x.ravel()[k]))
            # ... and a second element alone, through the same object (the elements of an array evaluated one after another)
            k2 = rng.randrange(size)
            s2, is2_ = D(float(x.ravel()[k2]))
        rep = dict(method=m, n=n, order=order, shape=list(shape), x=x.tolist(), kept=k, memory_layout=layout)
        ctx.keep('Derivative', a, **rep)
        if np.shape(a) != shape:
            ctx.violation('result shape differs from the shape of x', got=list(np.shape(a)), **rep)
            continue
        ak, bk = float(np.ravel(a)[k]), float(np.ravel(b)[k])
        if f2hex(ak) != f2hex(bk) or f2hex(float(np.ravel(ia.error_estimate)[k])) != f2hex(float(np.ravel(ib.error_estimate)[k])):
            ctx.violation('altering the other elements changed an element of the result', before=ak, after=bk, others=x2.tolist(), **rep)
            continue
        if m in ('central', 'forward', 'backward'):
            if f2hex(ak) != f2hex(float(s)):
                ctx.violation('an element evaluated alone as a scalar differs from the array result (real-step method)',
                              array=ak, scalar=float(s), **rep)
            elif f2hex(float(np.ravel(a)[k2])) != f2hex(float(s2)) or \
                    f2hex(float(np.ravel(ia.final_step)[k2])) != f2hex(float(np.ravel(is2_.final_step)[0])):
                ctx.violation('a second element evaluated alone through the same object differs from the array result (value or final_step; '
                              'real-step method)', array=float(np.ravel(a)[k2]), scalar=float(s2), second=k2,
                              final_steps=[float(np.ravel(ia.final_step)[k2]), float(np.ravel(is2_.final_step)[0])], **rep)
        else:
            tol = 10 * (float(np.ravel(ia.error_estimate)[k]) + float(is_.error_estimate)) + 1e-10 * (1 + abs(ak))
            if not abs(ak - float(s)) <= tol:
                ctx.violation('an element evaluated alone as a scalar differs from the array result beyond the error estimates',
                              array=ak, scalar=float(s), tol=tol, **rep)
    # args / kwds forwarding
    for it in range(ctx.budget(20, 100)):
        m = rng.choice(METHODS)
        seen = []

        def g(t, a, b=0.0, c=None):
            seen.append((a, b, c))
            return a * t * t + b * t
        a_, b_, c_ = rng.uniform(1, 2), rng.uniform(1, 2), 'tag%d' % it
        with warnings.catch_warnings():
            warnings.simplefilter('ignore')
            r = nd.Derivative(g, method=m)(np.array([1.0, 2.0]), a_, b=b_, c=c_)
        ctx.tried(('args', m, it))
        if not seen or any(sv != (a_, b_, c_) for sv in seen):
            ctx.violation('extra arguments were not forwarded unchanged on every evaluation', method=m, seen=str(seen[:3]), sent=str((a_, b_, c_)))
        elif not np.allclose(r, 2 * a_ * np.array([1.0, 2.0]) + b_, rtol=1e-6):
            ctx.violation('derivative with forwarded arguments is wrong', method=m, got=r.tolist())
    ctx.assumptions.append('numpy axis semantics (vstack, transpose, ravel, flat indexing) are modelled by list functions and validated '
                           'by the bit-exact runs; NaN handling is validated by the Float correspondence only (fields have no NaN)')


def replay(ctx, path):
    print(json.dumps(json.load(open(path)), indent=1)[:4000])
    return 0
