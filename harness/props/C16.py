"""C16 — fd_derivative is exact on polynomials at every point of any grid."""
import json
from fractions import Fraction

import warnings

import numpy as np

from harness.common import q2s, s2q, run_driver, lean_obligations

MODULE = 'Ndt.Props.C16'
THEOREMS = ['Ndt.fd_order_guard', 'Ndt.fdStores_interior', 'Ndt.fdStores_left', 'Ndt.fdStores_right',
            'Ndt.fdStores_cover', 'Ndt.lastStore_unique', 'Ndt.fdStoreValue_exact', 'Ndt.fdDerivative_length', 'Ndt.fdDerivative_exact']
EPS = 2.0 ** -52
ENVELOPE = 16.0


def gen_case(rng, min_len_only=False):
    n = rng.randint(1, 6)
    m = rng.randint(1, 4)
    mm = n // 2 + m
    size = 2 * mm + 2
    num = size if min_len_only else rng.randint(size, 60)
    kind = rng.choice(['uniform', 'nonuniform', 'dyadic', 'almost-uniform', 'fine', 'graded', 'graded', 'offset'])
    center = Fraction(0)
    if kind == 'almost-uniform':
        # an equidistant grid with nodes displaced by a small fraction of the spacing: still an arbitrary grid, not a uniform one
        h = rng.choice([1.0, 0.5, 0.25, 0.1])
        rel = 10.0 ** rng.uniform(-9, -3)
        base = rng.randint(-8, 8) / 4
        x = [base + h * (i + rel * rng.uniform(-1, 1)) for i in range(num)]
    elif kind == 'graded':
        # geometric (boundary-layer) mesh: neighbouring spacings differ by a constant factor, so the weights of one stencil span many
        # orders of magnitude (a weight that is tiny relative to the largest one still multiplies a sample that matters)
        import math
        r = rng.uniform(1.15, 1.9)
        num = max(size, min(num, int(math.log(3e3) / math.log(r))))
        t0 = rng.choice([1.0, 0.5, rng.uniform(0.2, 2.0)])
        x = [t0 * r ** i for i in range(num)]
        if rng.random() < 0.3:
            x = [-v for v in x][::-1]
    elif kind == 'fine':
        # spacing far below 1 (absolute tolerances must not decide what "equidistant" means), slightly non-uniform
        h = 10.0 ** rng.uniform(-9, -5)
        base = rng.uniform(-2, 2)
        x = [base + h * (i + 0.3 * rng.uniform(-1, 1)) for i in range(num)]
    elif kind == 'offset':
        # a grid far from the origin compared with its spacing (time stamps 1.7e9 + 0.1 i, x ~ 1e6 with spacing 1e-3); the polynomial is
        # written in the local variable t - x[0], so that its samples are well conditioned
        base = rng.choice([1.7e9, 1.0e6, -3.0e4, 1.0e6 + 1.0 / 3])
        h = rng.choice([0.1, 1e-3, 0.3, 0.01]) * (1.0 if abs(base) < 1e8 else rng.choice([1.0, 10.0]))
        x = [base + h * i for i in range(num)]
        center = Fraction(float(x[0]))
    elif kind == 'uniform':
        h = rng.choice([1.0, 0.5, 0.25, 0.125])
        base = rng.randint(-8, 8) / 4
        x = [base + h * i for i in range(num)]
    elif kind == 'dyadic':
        x, t = [], rng.randint(-64, 64) / 16
        for _ in range(num):
            x.append(t)
            t += rng.randint(1, 16) / 16
    else:
        x, t = [], rng.uniform(-2, 2)
        for _ in range(num):
            x.append(t)
            t += rng.uniform(0.05, 0.5)
    if rng.random() < 0.4:
        x = x[::-1]
    deg = rng.randint(0, 2 * mm) if rng.random() < 0.7 else 2 * mm        # the highest degree the property promises, often
    coef = [Fraction(rng.randint(-8, 8), rng.choice([1, 2, 4])) for _ in range(deg + 1)]
    return n, m, [float(v) for v in x], coef, (kind, center)


def peval(coef, t):
    r = Fraction(0)
    for c in reversed(coef):
        r = r * t + c
    return r


def pder(coef, n):
    for _ in range(n):
        coef = [c * i for i, c in enumerate(coef)][1:]
    return coef or [Fraction(0)]


def run(ctx):
    from numdifftools import fornberg
    lean_obligations(ctx, MODULE, THEOREMS)
    rng = ctx.rng
    # the very first call of this process works in single precision (whatever is allocated or remembered then must not decide the
    # precision of the double-precision calls that follow)
    with warnings.catch_warnings():
        warnings.simplefilter('ignore')
        fornberg.fd_derivative(np.linspace(0, 1, 12, dtype=np.float32) ** 2, np.linspace(0, 1, 12, dtype=np.float32), 1, 1)

    # ---------------- engine `fdder.stores`: windows and expansion nodes, exact -------------------------------
    eng = ctx.engine('fdder.stores')
    orig = fornberg.fd_weights
    calls = []

    def spy(x, x0=0, n=1):
        calls.append((np.array(x), x0, n))
        return orig(x, x0, n)
    grid = []
    for n in range(1, 7):
        for m in range(1, 5):
            mm = n // 2 + m
            lens = sorted(set([2 * mm + 2, 2 * mm + 3, 2 * mm + 4, rng.randint(2 * mm + 2, 60), 60]
                              + ([max(n + 1, mm), 2 * mm + 1] if ctx.thorough or rng.random() < 0.5 else [])))
            for L in lens:
                if L > n:
                    grid.append((L, n, m))
    out = run_driver(['fdstores %d %d %d' % g for g in grid], 'C16s')
    fornberg.fd_weights = spy
    try:
        for (L, n, m), line in zip(grid, out):
            eng['cases'] += 1
            ctx.count('fdder.stores', 'len>=stencil' if L >= 2 * (n // 2 + m) + 2 else 'short grid')
            x = np.arange(L, dtype=float) * 0.5 + 1.0
            calls.clear()
            try:
                du = fornberg.fd_derivative(x ** 2, x, n, m)
                outcome = 'ok'
            except (ValueError, IndexError) as ex:
                outcome = type(ex).__name__
            model = [tuple(int(t) for t in s.split(':')) for s in line.split()]
            if outcome != 'ok':
                if L >= (n // 2 + m):
                    ctx.mismatch('fdder.stores', [L, n, m], outcome, 'ok')
                else:
                    eng['exact'] += 1
                continue
            impl = []
            for xw, x0, nn in calls:
                lo = int(round((xw[0] - 1.0) / 0.5))
                impl.append((lo, lo + len(xw), int(round((x0 - 1.0) / 0.5)), nn))
            mod = [(lo, hi, c, n) for (_idx, lo, hi, c) in model]
            if impl == mod and len(du) == L:
                eng['exact'] += 1
            else:
                ctx.mismatch('fdder.stores', [L, n, m], impl[:6], mod[:6], 'sequence of (lo, hi, node, n) passed to fd_weights')
    finally:
        fornberg.fd_weights = orig
    ctx.sample({'engine': 'fdder.stores', 'case': list(grid[0]), 'model_stores idx:lo:hi:node': out[0]})

    # ---------------- engine `fdder.values`: Rat model vs implementation on dyadic polynomial samples ---------
    eng = ctx.engine('fdder.values')
    vc = []
    while len(vc) < ctx.budget(60, 600):
        n, m, x, coef, (kind, _center) = gen_case(rng)
        if kind in ('nonuniform', 'offset') or len(x) > 30:
            continue
        fx = [peval(coef, Fraction(t)) for t in x]
        if any(float(v) != v for v in fx):
            continue
        vc.append((n, m, x, coef, fx))
    out = run_driver(['fdderq %d %d | %s | %s' % (n, m, ' '.join(q2s(v) for v in fx), ' '.join(q2s(Fraction(t)) for t in x))
                      for n, m, x, coef, fx in vc], 'C16v')
    for (n, m, x, coef, fx), line in zip(vc, out):
        eng['cases'] += 1
        model = [float(s2q(t)) for t in line.split()]
        du = fornberg.fd_derivative(np.array([float(v) for v in fx]), np.array(x), n, m)
        if len(du) != len(model):
            ctx.mismatch('fdder.values', [n, m, x], len(du), len(model), 'length')
            continue
        fxa, xa = np.array([float(v) for v in fx]), np.array(x)
        ratio = max(abs(a - b) / _point_bound(None, xa, fxa, n, n // 2 + m, i, b) for i, (a, b) in enumerate(zip(du, model)))
        if ratio == 0:
            eng['exact'] += 1
        elif ratio <= 1:
            eng['rounded'] += 1
        else:
            ctx.mismatch('fdder.values', [n, m, x, [str(c) for c in coef]], list(map(float, du)), model, 'err/bound %.3g' % ratio)

    # guards (shared with C11): n >= len(x), len(fx) != len(x)
    eng = ctx.engine('fdder.guard')
    for L, n, extra in [(3, 3, 0), (3, 5, 0), (6, 1, 1), (6, 2, -1), (1, 1, 0)]:
        eng['cases'] += 1
        x = np.arange(L, dtype=float)
        fx = np.arange(L + extra, dtype=float)
        line = run_driver(['fdderq %d 1 | %s | %s' % (n, ' '.join(str(int(v)) for v in fx), ' '.join(str(int(v)) for v in x))], 'C16g')[0]
        try:
            fornberg.fd_derivative(fx, x, n, 1)
            got = 'value'
        except ValueError:
            got = 'ValueError'
        except Exception as ex:
            got = type(ex).__name__
        if got == line:
            eng['exact'] += 1
        else:
            ctx.mismatch('fdder.guard', [L, n, extra], got, line)

    # ---------------- failing-input search ------------------------------------------------------------------------
    ctx.search['rule'] = ('polynomials of degree 0..2*(n//2+m) with rational coefficients sampled on uniform / non-uniform / dyadic / geometric (graded), '
                          'increasing and decreasing grids of length 2mm+2..60, n 1..6, m 1..4; every output compared with the exact '
                          'derivative at that grid point; bound C*eps*len*sum|w||fx| with |w| the absolute-value majorant of the exact weights of that point (computed by the harness); output length = '
                          'input length; non-trivial: degree >= n; distinct = distinct (n, m, grid, polynomial)')
    worst = 0.0
    for it in range(ctx.budget(300, 4000) * (3 if (ctx.broken or ctx.mismatches) else 1)):
        n, m, x, coef, (kind, center) = gen_case(rng, min_len_only=(it % 5 == 0))
        mm = n // 2 + m
        fxq = [peval(coef, Fraction(t) - center) for t in x]
        fx = np.array([float(v) for v in fxq])
        xa = np.array(x)
        ctx.tried((n, m, tuple(x[:4]), len(x), tuple(coef)) if len(coef) - 1 >= n else None)
        try:
            if rng.random() < 0.3:
                # an earlier call in the same process worked on a single-precision (or slightly different) grid of the same length
                with warnings.catch_warnings():
                    warnings.simplefilter('ignore')
                    try:
                        if rng.random() < 0.6:
                            fornberg.fd_derivative(fx.astype(np.float32), xa.astype(np.float32), n, m)
                        else:
                            fornberg.fd_derivative(fx, xa * (1 + 3e-8), n, m)
                    except (ValueError, ZeroDivisionError, FloatingPointError):
                        pass          # a float32 grid may have coinciding nodes: not the call under test
            du = fornberg.fd_derivative(fx, xa, n, m)
            ctx.keep('fd_derivative', du, x=xa.tolist(), n=n, m=m)
        except Exception as ex:
            ctx.violation('fd_derivative raised %r' % ex, n=n, m=m, x=x, coef=[str(c) for c in coef])
            continue
        if len(du) != len(x):
            ctx.violation('output length differs from input length', n=n, m=m, x=x, got=len(du))
            continue
        dc = pder(coef, n)
        size = 2 * mm + 2
        for i in range(len(x)):
            exact = float(peval(dc, Fraction(x[i]) - center))
            bound = _point_bound(None, xa, fx, n, mm, i, exact)
            d = abs(float(du[i]) - exact)
            worst = max(worst, d / bound)
            if d > bound:
                ctx.violation('fd_derivative is not exact on a polynomial of degree <= 2*(n//2+m)', n=n, m=m, x=x, point=i,
                              coef=[str(c) for c in coef], got=float(du[i]), exact=exact, bound=bound, grid=kind)
                break
    ctx.notes.append('worst |du - exact| / bound on this run: %.3g (envelope %g)' % (worst, ENVELOPE))
    ctx.assumptions.append('np.dot and float rounding are not modelled; values are compared with a conditioning-scaled bound')


def _point_bound(fd_weights, xa, fx, n, mm, i, exact):
    """conditioning-scaled rounding bound of output i: C * eps * window * sum |w||fx|"""
    size = 2 * mm + 2
    if i < mm:
        lo, hi = 0, size
    elif i >= len(xa) - mm:
        lo, hi = len(xa) - size, len(xa)
    else:
        lo, hi = i - mm, i + mm + 1
    if fd_weights is None:
        # independent of the implementation: the absolute-value majorant of the exact Lagrange-derivative weights
        from harness.props.C15 import _majorant
        w = np.array(_majorant([float(v) for v in xa[lo:hi]], float(xa[i]), n))
    else:
        w = fd_weights(xa[lo:hi], x0=xa[i], n=n)
    mag = float(np.sum(np.abs(w) * np.abs(fx[lo:hi]))) + abs(exact)
    return ENVELOPE * EPS * (hi - lo) * max(mag, 1e-300)


def replay(ctx, path):
    print(json.dumps(json.load(open(path)), indent=1)[:4000])
    return 0
