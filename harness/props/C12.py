"""C12 — Bicomplex numbers implement the holomorphic extension of every function."""
import json
import math
import warnings
from fractions import Fraction

import numpy as np

from harness.common import q2s, s2q, run_driver, lean_obligations
from harness.translate import translator_obligations
from harness.oracle.idempotent import UNARY, extend, extend2
from harness.oracle.jets import derivatives

MODULE = 'Ndt.Props.C12'
THEOREMS = ['Ndt.arcsin_small_argument', 'Ndt.arctan_small_argument', 'Ndt.arctan_split_real', 'Ndt.arcsin_split_real', 'Ndt.psi1_mul', 'Ndt.psi2_mul', 'Ndt.psi_injective', 'Ndt.psi1_powLoop', 'Ndt.psi2_powLoop', 'Ndt.psi_modsq', 'Ndt.psi1_inverse', 'Ndt.psi2_inverse',
            'Ndt.psi1_pow_integer', 'Ndt.psi2_pow_integer', 'Ndt.pow_integer_reduces',
            'Ndt.phi_injective', 'Ndt.phi1_add', 'Ndt.phi2_add', 'Ndt.phi1_sub', 'Ndt.phi2_sub', 'Ndt.phi1_neg', 'Ndt.phi2_neg',
            'Ndt.phi1_mul', 'Ndt.phi2_mul', 'Ndt.phi_conjugate', 'Ndt.phi1_exp', 'Ndt.phi2_exp', 'Ndt.phi1_sin', 'Ndt.phi2_sin',
            'Ndt.phi1_cos', 'Ndt.phi2_cos', 'Ndt.phi1_sinh', 'Ndt.phi2_sinh', 'Ndt.phi1_cosh', 'Ndt.phi2_cosh',
            'Ndt.phi1_expm1', 'Ndt.phi2_expm1', 'Ndt.log1p_z1_eq', 'Ndt.log1p_z1_is_extension', 'Ndt.reduces_to_complex',
            'Ndt.reduces_to_complex_ring', 'Ndt.phi_bcEval', 'Ndt.multicomplex2_extracts', 'Ndt.multicomplex1_extracts']
WIDE = {'arcsinh': 'sym', 'arctan': 'sym', 'log': 'pos', 'sqrt': 'pos', 'log2': 'pos', 'log10': 'pos', 'log1p': 'pos', 'arccosh': 'pos'}
SMALL = ('log1p', 'expm1', 'sin', 'sinh', 'tan', 'tanh', 'arctan', 'arcsinh', 'arcsin', 'arctanh')
ENVELOPE = 1e-10      # relative; clean-tree worst is ~2e-13 (cancellation in subtraction)


def dyad(rng):
    return Fraction(rng.randint(-64, 64), rng.choice([1, 2, 4, 8, 16]))


def rel_err(R, e):
    return max(abs(complex(np.ravel(R.z1)[0]) - complex(np.ravel(e[0])[0])),
               abs(complex(np.ravel(R.z2)[0]) - complex(np.ravel(e[1])[0])))


def perturbed(rng, x, floor=0.1):
    rel = 10.0 ** rng.uniform(-8, -1)
    s = max(abs(x), floor)          # floor = 0: perturbations strictly relative to x (base points near the end of a domain)
    z1 = x + 1j * s * rel * rng.uniform(-1, 1)
    z2 = s * rel * rng.uniform(-1, 1) + 1j * s * rel * rng.uniform(-1, 1)
    return z1, z2


def run(ctx):
    from numdifftools.multicomplex import Bicomplex
    translator_obligations(ctx, ['Bicomplex.', 'BicomplexRing.'])
    lean_obligations(ctx, MODULE, THEOREMS)
    rng = ctx.rng

    # ---------------- engine `bicomplex.ring`: + - * neg conjugate on Gaussian dyadics, exact ----------------------
    eng = ctx.engine('bicomplex.ring')
    cases = []
    for _ in range(ctx.budget(400, 4000)):
        op = rng.choice(['add', 'sub', 'mul', 'neg', 'conj', 'inv', 'powint', 'powint'])
        a = [dyad(rng) for _ in range(4)]
        b = [dyad(rng) for _ in range(4)]
        if op == 'powint':
            # the exponent; small Gaussian dyadics (k/4, |k| <= 8) so that non-negative powers up to 6 are exact in binary64
            a = [Fraction(rng.randint(-8, 8), 4) for _ in range(4)]
            b = rng.choice([0, 0, 1, 2, 3, 4, 5, 6, -1, -2, -3])
        if op in ('inv', 'powint') and a[0] * a[0] - a[1] * a[1] + a[2] * a[2] - a[3] * a[3] == 0 and 2 * a[0] * a[1] + 2 * a[2] * a[3] == 0:
            a[0] += 1           # z1^2 + z2^2 = 0: a zero divisor, outside the domain of the inverse
        cases.append((op, a, b))

    def line_of(op, a, b):
        if op == 'powint':
            return 'bc powint %d %s' % (b, ' '.join(q2s(v) for v in a))
        return 'bc %s %s' % (op, ' '.join(q2s(v) for v in (a if op in ('neg', 'conj', 'inv') else a + b)))
    lines = [line_of(op, a, b) for op, a, b in cases]
    out = run_driver(lines, 'C12r')
    for (op, a, b), line in zip(cases, out):
        eng['cases'] += 1
        ctx.count('bicomplex.ring', op)
        A = Bicomplex(complex(float(a[0]), float(a[1])), complex(float(a[2]), float(a[3])))
        B = Bicomplex(complex(float(b[0]), float(b[1])), complex(float(b[2]), float(b[3]))) if op != 'powint' else None
        with warnings.catch_warnings():
            warnings.simplefilter('ignore')
            R = {'add': lambda: A + B, 'sub': lambda: A - B, 'mul': lambda: A * B, 'neg': lambda: -A, 'conj': lambda: A.conjugate(),
                 'inv': lambda: A ** -1, 'powint': lambda: A ** b}[op]()
        impl = [Fraction(float(np.real(R.z1))), Fraction(float(np.imag(R.z1))), Fraction(float(np.real(R.z2))), Fraction(float(np.imag(R.z2)))]
        model = [s2q(t) for t in line.split()]
        if impl == model:
            eng['exact'] += 1
        elif (op == 'inv' or (op == 'powint' and b < 0)) and \
                max(abs(float(x) - float(y)) for x, y in zip(impl, model)) <= 1e-12 * (1 + max(abs(float(y)) for y in model)):
            eng['rounded'] += 1         # a division is involved: the float quotient is not exact
        else:
            ctx.mismatch('bicomplex.ring', [op, list(map(str, a)), str(b)], list(map(str, impl)), list(map(str, model)))
    ctx.sample({'engine': 'bicomplex.ring', 'line': lines[0], 'model': out[0]})

    # ---------------- failing-input search: every function / operator against the idempotent oracle --------------------
    ctx.search['rule'] = ('every elementary function defined on Bicomplex, the operators + - * / ** (int, real, bicomplex exponent), '
                          'reflected operators and random two-level compositions, at real base points inside the function\'s domain with '
                          'perturbations of relative size 1e-8..1e-1 in the three non-real components, scalars and arrays; oracle = '
                          'idempotent decomposition with numpy\'s complex functions; plus imag1 / imag12 of f(x+ih+jh) against h f\'(x), '
                          'h^2 f\'\'(x) from Taylor-series arithmetic; non-trivial: all three non-real components non-zero; distinct = '
                          'distinct (function, point)')
    budget = ctx.budget(60, 600) * (3 if (ctx.broken or ctx.mismatches) else 1)
    worst = 0.0
    names = sorted(UNARY)

    def call(B, name):
        return getattr(B, name)() if hasattr(B, name) else getattr(np, name)(B)

    with warnings.catch_warnings():
        warnings.simplefilter('ignore')
        for name in names:
            f, (lo, hi) = UNARY[name]
            tiny_base = False
            for it in range(budget):
                x = rng.uniform(lo, hi)
                if name in SMALL and rng.random() < 0.2:
                    # functions vanishing at 0 to first order: tiny arguments, where only a relatively accurate implementation passes
                    x = rng.choice([-1, 1]) * 10.0 ** rng.uniform(-9, -2)
                elif name in ('log', 'sqrt', 'log2', 'log10') and rng.random() < 0.25:
                    # the small end of a domain that starts at 0: base points of size 1e-9 .. 1e-3 (a guard added to the modulus or to a
                    # denominator must stay far below them)
                    x = 10.0 ** rng.uniform(-9, -3)
                    tiny_base = True
                elif name in WIDE and rng.random() < 0.3:
                    # functions regular on the whole real axis (or half axis): arguments of large magnitude too, as they arise
                    # inside compositions
                    x = 10.0 ** rng.uniform(0.5, 5)
                    if WIDE[name] == 'sym' and rng.random() < 0.5:
                        x = -x
                z1, z2 = perturbed(rng, x, 0.0 if tiny_base else 0.1)
                tiny_base = False
                ctx.tried((name, z1, z2))
                asarray = it % 7 == 0
                try:
                    if asarray:
                        B = Bicomplex(np.array([z1, z1.conjugate() + 0j]), np.array([z2, z2]))
                        R = call(B, name)
                        R = Bicomplex(np.asarray(R.z1)[0], np.asarray(R.z2)[0])
                    else:
                        R = call(Bicomplex(z1, z2), name)
                    if not isinstance(R, Bicomplex):
                        raise TypeError('result is %s' % type(R).__name__)
                except Exception as ex:
                    ctx.violation('Bicomplex.%s raised %r' % (name, ex), fn=name, z1=str(z1), z2=str(z2))
                    break
                e = extend(f, z1, z2)
                scale = abs(e[0]) + abs(e[1]) + 1e-300
                err = rel_err(R, e) / scale
                sig = None
                if sig is None:
                    worst = max(worst, err)
                if not err <= ENVELOPE:
                    ctx.violation('Bicomplex.%s differs from the holomorphic extension e1 f(z1 - i z2) + e2 f(z1 + i z2)' % name,
                                  fn=name, z1=str(z1), z2=str(z2), got=[str(complex(R.z1)), str(complex(R.z2))],
                                  expected=[str(complex(e[0])), str(complex(e[1]))], rel_error=float(err), signature=sig)
                    if sig is None:
                        break
                # reduction to the complex function when z2 = 0
                if it % 5 == 0:
                    R0 = call(Bicomplex(z1, 0), name)
                    f0 = complex(f(np.asarray(z1, dtype=complex)))
                    if abs(complex(R0.z1) - f0) > ENVELOPE * (abs(f0) + 1e-300) or abs(complex(R0.z2)) > ENVELOPE * (abs(f0) + 1):
                        ctx.violation('Bicomplex.%s does not reduce to the complex function for z2 = 0' % name, fn=name, z1=str(z1),
                                      got=[str(complex(R0.z1)), str(complex(R0.z2))], expected=str(f0))
                        break
        # operators
        ops = ['add', 'sub', 'mul', 'div', 'pow_int', 'pow_real', 'pow_bc', 'rpow', 'rdiv', 'rsub', 'radd', 'rmul']
        for op in ops:
            for it in range(budget):
                x, y = rng.uniform(0.3, 3), rng.uniform(0.3, 3)
                if op in ('pow_real', 'pow_int', 'div', 'rdiv') and rng.random() < 0.2:
                    x = 10.0 ** rng.uniform(-9, -3)           # a small base point (relative perturbations as everywhere)
                (a1, a2), (b1, b2) = perturbed(rng, x, 0.0 if x < 0.01 else 0.1), perturbed(rng, y)
                A, B = Bicomplex(a1, a2), Bicomplex(b1, b2)
                k = rng.choice([-3, -2, -1, 0, 0, 1, 2, 3, 4, 5, 7, 0.0, 2.0, np.int64(0), np.int64(3)])
                r = rng.uniform(-2.5, 2.5)
                if rng.random() < 0.4:
                    # a real exponent that is integral only up to a relative 1e-9 .. 3e-5: not an integer power
                    r = rng.choice([-3, -2, -1, 1, 2, 3, 4, 5]) * (1.0 + rng.choice([-1, 1]) * 10.0 ** rng.uniform(-9, -4.5))
                ctx.tried((op, a1, a2, b1, b2))
                try:
                    R, e = {
                        'add': lambda: (A + B, extend2(lambda u, v: u + v, a1, a2, b1, b2)),
                        'sub': lambda: (A - B, extend2(lambda u, v: u - v, a1, a2, b1, b2)),
                        'mul': lambda: (A * B, extend2(lambda u, v: u * v, a1, a2, b1, b2)),
                        'div': lambda: (A / B, extend2(lambda u, v: u / v, a1, a2, b1, b2)),
                        'pow_int': lambda: (A ** k, extend(lambda u: u ** k, a1, a2)),
                        'pow_real': lambda: (A ** r, extend(lambda u: u ** r, a1, a2)),
                        'pow_bc': lambda: (A ** B, extend2(lambda u, v: u ** v, a1, a2, b1, b2)),
                        'rpow': lambda: (y ** A, extend(lambda u: y ** u, a1, a2)),
                        'rdiv': lambda: (y / A, extend(lambda u: y / u, a1, a2)),
                        'rsub': lambda: (y - A, extend(lambda u: y - u, a1, a2)),
                        'radd': lambda: (y + A, extend(lambda u: y + u, a1, a2)),
                        'rmul': lambda: (y * A, extend(lambda u: y * u, a1, a2)),
                    }[op]()
                except Exception as ex:
                    ctx.violation('Bicomplex operator %s raised %r' % (op, ex), op=op, a=[str(a1), str(a2)], b=[str(b1), str(b2)])
                    break
                scale = abs(e[0]) + abs(e[1]) + abs(a1) + abs(b1) + 1e-300
                err = rel_err(R, e) / scale
                worst = max(worst, err)
                if not err <= ENVELOPE:
                    ctx.violation('Bicomplex operator %s differs from the componentwise (idempotent) result' % op, op=op,
                                  a=[str(a1), str(a2)], b=[str(b1), str(b2)], k=k, r=r, got=[str(complex(R.z1)), str(complex(R.z2))],
                                  expected=[str(complex(e[0])), str(complex(e[1]))], rel_error=float(err))
                    break
        # arrays are handled elementwise, also when one element is a zero divisor (x + ih + jh at x = 0 has mod_c = 0 and takes the
        # idempotent branch of **): every element of the array result equals the scalar result for that element, all four components
        for it in range(budget):
            hh = 10.0 ** rng.uniform(-8, -2)
            xs = [rng.uniform(-2, 2) for _ in range(rng.randint(1, 4))]
            xs.insert(rng.randrange(len(xs) + 1), 0.0)
            shape2 = rng.random() < 0.3 and len(xs) % 2 == 0
            za = np.array([complex(v, hh) for v in xs])
            zb = np.full(len(xs), hh, dtype=complex)
            if shape2:
                za, zb = za.reshape(2, -1), zb.reshape(2, -1)
            ex = rng.choice([2, 3, 4, 2.0, 5, np.int64(3)])
            ctx.tried(('pow-array-with-zero-divisor', tuple(xs), hh, str(ex)))
            try:
                RA = Bicomplex(za, zb) ** ex
                ok = True
                for idx in np.ndindex(za.shape):
                    RS = Bicomplex(za[idx], zb[idx]) ** ex
                    a = np.array([complex(np.asarray(RA.z1)[idx]), complex(np.asarray(RA.z2)[idx])])
                    b = np.array([complex(np.ravel(RS.z1)[0]), complex(np.ravel(RS.z2)[0])])
                    comp_a = np.array([a[0].real, a[0].imag, a[1].real, a[1].imag])
                    comp_b = np.array([b[0].real, b[0].imag, b[1].real, b[1].imag])
                    if np.any(np.abs(comp_a - comp_b) > 1e-12 * (np.abs(comp_b) + 1e-300)):
                        ctx.violation('Bicomplex ** is not elementwise on an array that contains a zero divisor: an element differs from the scalar result',
                                      x=xs, h=hh, exponent=str(ex), index=list(idx), array_element=[str(a[0]), str(a[1])],
                                      scalar_result=[str(b[0]), str(b[1])])
                        ok = False
                        break
                if not ok:
                    break
            except Exception as ex_:
                ctx.violation('Bicomplex ** raised %r on an array containing a zero divisor' % ex_, x=xs, h=hh, exponent=str(ex))
                break
        # compositions and the derivative-extraction the multicomplex method relies on
        comp = [n_ for n_ in names if n_ not in ('arccosh',)]
        for it in range(budget * 3):
            f1, f2 = rng.choice(comp), rng.choice(['exp', 'sin', 'cos', 'tanh', 'arctan', 'sinh', 'expm1', 'log1p', 'arcsinh'])
            (g1, (lo, hi)), (g2, (lo2, hi2)) = UNARY[f1], UNARY[f2]
            x = 2 * rng.uniform(lo2, hi2)
            # inner function maps into the outer's domain?  use outer(c * inner(x)) with c chosen so that the argument stays in [lo, hi]
            inner0 = float(np.real(g2(np.asarray(x * 0.5, dtype=complex))))
            if not (lo < inner0 < hi):
                continue
            prog = lambda t, g1=f1, g2=f2: getattr(np, g1)(getattr(np, g2)(t * 0.5)) if hasattr(np, g1) else None
            if not hasattr(np, f1):
                continue
            h = 10.0 ** rng.uniform(-6, -2)
            ctx.tried((f1, f2, x, h))
            try:
                R = prog(Bicomplex(x + 1j * h, h))
                d = derivatives(prog, x, 4)
            except Exception as ex:
                ctx.violation('composition %s(%s(x/2)) raised %r on a Bicomplex argument' % (f1, f2, ex), x=x, h=h)
                continue
            scale1 = abs(d[1]) + h * h * abs(d[3]) + 1e-6 * (abs(d[0]) + abs(d[1]))
            scale2 = abs(d[2]) + h * h * abs(d[4]) + 1e-6 * (abs(d[0]) + abs(d[2])) + 1e-9 * abs(d[0]) / h ** 2
            e1 = abs(float(np.real(R.imag1)) / h - d[1])
            e2 = abs(float(np.real(R.imag12)) / h ** 2 - d[2])
            # truncation: imag1/h = f' - h^2 f'''/... (bounded by a multiple of h^2 |f'''|), imag12/h^2 = f'' + O(h^2 f'''')
            if e1 > 4 * h * h * (abs(d[3]) + abs(d[1])) + 1e-9 * scale1 or e2 > 4 * h * h * (abs(d[4]) + abs(d[2])) + 1e-7 * scale2:
                ctx.violation('imag1/imag12 of f(x + ih + jh) do not give h f\'(x), h^2 f\'\'(x)', program='%s(%s(x/2))' % (f1, f2), x=x, h=h,
                              imag1_over_h=float(np.real(R.imag1)) / h, d1=d[1], imag12_over_h2=float(np.real(R.imag12)) / h ** 2, d2=d[2])
        # at the step size the multicomplex method actually uses (~1e-15), including negative base points and the
        # operators ** (integer) and / : imag1 / h and imag12 / h^2 against the Taylor-series oracle
        hh = 1.7e-15
        probes = [(nm, (lambda t, g=nm: getattr(np, g)(t)), UNARY[nm][1]) for nm in names if hasattr(np, nm)]
        probes += [('x**2', lambda t: t ** 2, (-3, 3)), ('x**3', lambda t: t ** 3, (-3, 3)), ('x**-2', lambda t: t ** -2, (-3, -0.3)),
                   ('1/x', lambda t: 1 / t, (-3, -0.3)), ('sin(x)/cos(x)', lambda t: np.sin(t) / np.cos(t), (1.7, 4.5)),
                   ('sin(x)**2', lambda t: np.sin(t) ** 2, (-3, 3)), ('x/(1-x)', lambda t: t / (1 - t), (1.5, 4))]
        for nm, g, (lo, hi) in probes:
            for it in range(max(4, budget // 10)):
                x = rng.uniform(lo, hi)
                ctx.tried(('tiny-step', nm, x))
                try:
                    d = derivatives(g, x, 2)
                    R = g(Bicomplex(x + 1j * hh, hh))
                except Exception as ex:
                    ctx.violation('%s raised %r on x + ih + jh with h = 1.7e-15' % (nm, ex), x=x)
                    break
                e1 = abs(float(np.real(R.imag1)) / hh - d[1]) / (abs(d[1]) + abs(d[0]) + 1e-300)
                e2 = abs(float(np.real(R.imag12)) / hh ** 2 - d[2]) / (abs(d[2]) + abs(d[1]) + abs(d[0]) + 1e-300)
                if max(e1, e2) > 1e-9:
                    ctx.violation('imag1 / imag12 of f(x + ih + jh) at the multicomplex step size do not give h f\'(x), h^2 f\'\'(x)', function=nm,
                                  x=x, h=hh, rel_error_first=e1, rel_error_second=e2,
                                  signature=None)
                    break
    # a real ndarray on the left of + - * / (numpy then drives the operation and hands the object array back through
    # Bicomplex.__array_wrap__): whatever the memory layout of that array (C order, Fortran order, a transposed view, a strided slice),
    # element [i, j] of the result is the scalar operation on A[i, j]
    for it in range(ctx.budget(40, 400)):
        r_, c_ = rng.randint(2, 4), rng.randint(2, 4)
        A = np.array([[rng.randint(-16, 16) / 8 or 0.5 for _ in range(c_)] for _ in range(r_)])
        layout = rng.choice(['C', 'F', 'T', 'strided'])
        Al = {'C': A, 'F': np.asfortranarray(A), 'T': np.ascontiguousarray(A.T).T, 'strided': np.repeat(A, 2, axis=1)[:, ::2]}[layout]
        x, h = rng.uniform(0.5, 2.0), 10.0 ** rng.uniform(-8, -2)
        zs = Bicomplex(x + 1j * h, h)
        zkind = rng.choice(['scalar', 'row'])
        xv = np.array([rng.uniform(0.5, 2.0) for _ in range(c_)])
        zarg = zs if zkind == 'scalar' else Bicomplex(xv + 1j * h, h * np.ones(c_))
        opname = rng.choice(['+', '-', '*', '/'])
        op = {'+': lambda a, b: a + b, '-': lambda a, b: a - b, '*': lambda a, b: a * b, '/': lambda a, b: a / b}[opname]
        ctx.tried(('ndarray-left', layout, opname, zkind, r_, c_, x))
        try:
            R = op(Al, zarg)
            z1, z2 = np.asarray(R.z1), np.asarray(R.z2)
            if z1.shape != (r_, c_):
                ctx.violation('ndarray (op) Bicomplex does not have the broadcast shape', layout=layout, op=opname, shape=list(z1.shape),
                              expected=[r_, c_])
                continue
            bad = None
            for i in range(r_):
                for j in range(c_):
                    zj = zs if zkind == 'scalar' else Bicomplex(xv[j] + 1j * h, h)
                    e = op(float(A[i, j]), zj)
                    e1, e2 = complex(np.asarray(e.z1).ravel()[0]), complex(np.asarray(e.z2).ravel()[0])
                    if abs(z1[i, j] - e1) > 1e-13 * (abs(e1) + 1e-300) or abs(z2[i, j] - e2) > 1e-13 * (abs(e2) + 1e-300):
                        bad = (i, j, str(z1[i, j]), str(e1), str(z2[i, j]), str(e2))
                        break
                if bad:
                    break
            if bad:
                ctx.violation('real ndarray (op) Bicomplex is not elementwise: an element differs from the scalar operation on that element',
                              memory_layout=layout, op=opname, bicomplex=zkind, A=A.tolist(), x=x, h=h, index=list(bad[:2]),
                              z1=[bad[2], bad[3]], z2=[bad[4], bad[5]])
        except Exception as ex_:
            ctx.violation('real ndarray (op) Bicomplex raised %r' % ex_, memory_layout=layout, op=opname, bicomplex=zkind)
    ctx.notes.append('worst relative deviation from the idempotent oracle on this run: %.3g (envelope %g)' % (worst, ENVELOPE))
    ctx.assumptions.append('numpy\'s complex elementary functions are the reference for the holomorphic extension (oracle) and are '
                           'identified with Mathlib\'s Complex.exp/sin/cos/sinh/cosh/log in the theorems; branch cuts away from the real '
                           'domain are outside the property; composites (pow, division, inverse functions) are validated by the search only')


def replay(ctx, path):
    print(json.dumps(json.load(open(path)), indent=1)[:4000])
    return 0
