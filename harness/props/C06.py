"""C06 — finite-difference rules are exact to their stated order and match Richardson."""
import json
import os
import math
from fractions import Fraction

import numpy as np

from harness.common import q2s, s2q, run_driver, lean_obligations
from harness.translate import translator_obligations
from harness.oracle.exactq import Q8, ZETA, I, s2float

MODULE = 'Ndt.Props.C06'
THEOREMS = ['Ndt.method_order_spec', 'Ndt.rule_tables_consistent', 'Ndt.fd_tables_pos', 'Ndt.rule_residual_exponents', 'Ndt.fdRow_moments',
            'Ndt.fdRow_apply', 'Ndt.fdRow_exact', 'Ndt.fdNodes_nodup_real', 'Ndt.dotF_geometric',
            'Ndt.evalP_lagrangeCoeffs']
EPS = 2.0 ** -52
C_ROUND = 256.0
COND_LIMIT = 1e-3 / EPS
METHODS = ['central', 'forward', 'backward', 'complex']


def make_exact(h):
    return (h + 1.0) - 1.0


def doc_orders(method, n, order):
    """(richardson_step, method_order) as documented: the spacing of the error terms of the method (2 for central / central2 /
    multicomplex, 1 for forward / backward, 2 or — for n > 1 or order >= 4 — 4 for complex) and the requested order rounded down to a
    multiple of it, at least one multiple.  The harness's own closed form, not read from the library."""
    step = {'central': 2, 'central2': 2, 'multicomplex': 2, 'forward': 1, 'backward': 1,
            'complex': 4 if (n > 1 or order >= 4) else 2}[method]
    return step, max((order // step) * step, step)


def parity_of(r, m, order, method_order):
    """`LogRule._parity` (a private attachment point): with the pinned signature (method, order, method_order), or without the last
    argument if a rewrite dropped it"""
    try:
        return r._parity(m, order, method_order)
    except TypeError:
        return r._parity(m, order)


def impl_props(LogRule, m, n, o):
    r = LogRule(n=n, method=m, order=o)
    p = parity_of(r, m, n - 1, r.method_order)
    step = r.richardson_step
    try:
        mid = r._get_middle_name()
        guard = 1
    except ValueError:
        mid, guard = None, 0
    frag = {'': '-'}
    vals = [int(r._odd_derivative), int(r._even_derivative), int(r._derivative_mod_four_is_three),
            int(r._derivative_mod_four_is_zero), int(bool(r.eval_first_condition)), int(bool(r._complex_high_order)),
            step, r.method_order, p, int(bool(r._flip_fd_rule)), frag.get(mid, mid), frag.get(r._get_last_name(), r._get_last_name()),
            (n - 1 + r.method_order) // step, (n - 1) // step, guard]
    return vals


def oracle_diff(method, n, order, k, h):
    """exact difference quotient of u -> u^k at x = 0 with step h (Fraction), by the documented formulas.
    Returns a Fraction or a Q(sqrt2) pair."""
    f = lambda u: u ** k
    if method == 'central':
        if n % 2 == 1:
            return (f(h) - f(-h)) / 2
        return (f(h) + f(-h)) / 2 - f(Fraction(0))
    if method == 'forward':
        return f(h) - f(Fraction(0))
    if method == 'backward':
        return f(Fraction(0)) - f(-h)
    assert method == 'complex'
    high = n > 1 or order >= 4
    if not high:
        z = (I * h) ** k                      # f(x + i h).imag
        return z.imag()
    zh = ZETA * h
    fp, fm = zh ** k, (-zh) ** k
    if n % 2 == 1:
        if n % 4 == 3:
            return ((ZETA * 3) * (fp - fm)).real()
        return ((ZETA * Fraction(1, 2)) * (fp - fm)).imag()
    if n % 4 == 0:
        return tuple(12 * c for c in (fp + fm - 2 * Q8(1 if k == 0 else 0)).real())
    return (fp + fm).imag()


def as_pair(v):
    return v if isinstance(v, tuple) else (Fraction(v), Fraction(0))


def run(ctx):
    from numdifftools.finite_difference import LogRule
    from numdifftools import finite_difference as fdm
    from harness.common import rule_cache
    RC = rule_cache(fdm)
    translator_obligations(ctx, ['LogRule.'])
    lean_obligations(ctx, MODULE, THEOREMS)
    rng = ctx.rng

    # ---------------- engine `logrule.tables`: every translated decision property, exhaustively ----
    N = ctx.budget(14, 64)
    grid = [(m, n, o) for m in ['central', 'central2', 'forward', 'backward', 'complex', 'multicomplex']
            for n in range(1, N + 1) for o in range(1, N + 1)]
    out = run_driver(['logrule %s %d %d' % g for g in grid], 'C06t')
    eng = ctx.engine('logrule.tables')
    for g, o in zip(grid, out):
        eng['cases'] += 1
        w = o.split()
        model = [x if i in (10, 11) else int(x) for i, x in enumerate(w[:15])]
        impl = impl_props(LogRule, *g)
        if impl[10] is None:      # multicomplex n > 2: the guard raises; model guard must be 0 too
            ok = model[14] == 0
            impl_c, model_c = impl[14], model[14]
        else:
            ok = impl == model
            impl_c, model_c = impl, model
        if ok:
            eng['exact'] += 1
        else:
            ctx.mismatch('logrule.tables', list(g), impl_c, model_c)
    eng['distribution'] = {'grid': 'methods(6) x n 1..%d x order 1..%d' % (N, N), 'exhaustive': True}
    ctx.sample({'engine': 'logrule.tables', 'case': list(grid[100]), 'model': out[100]})

    # ---------------- engine `rule.weights`: float rule vs exact closed form -------------------------
    ratios = [2.0, 1.6, 4.0, 3.0, 1.25, 10.0, 1.1, 7.5]
    # the rule cache as it is when the library has just been imported (a cache that is pre-populated at import time is part of
    # what a user gets); every case below starts from this state, not from an empty cache
    initial_cache = {k: np.array(v, copy=True) for k, v in RC.items()}
    if initial_cache:
        ctx.notes.append('FD_RULES holds %d entries at import time: %s' % (len(initial_cache), sorted(map(str, initial_cache))[:8]))
    cases = []
    # the default step ratios (2.0 for n = 1, 1.6 otherwise) and every other ratio that is pre-populated: all small configurations
    pre = sorted({float(k[0]) for k in initial_cache if isinstance(k, tuple) and k and isinstance(k[0], (int, float))} | {2.0, 1.6})
    for m in METHODS:
        for n in range(1, 7):
            for o in range(1, 7):
                for rho in pre:
                    if rho > 1:
                        cases.append((m, n, o, make_exact(rho)))
    for m in METHODS:
        for n in range(1, 11):
            for o in range(1, 11):
                if rng.random() < ctx.budget(0.6, 1.0):
                    rho = rng.choice(ratios) if rng.random() < 0.6 else rng.uniform(1.05, 10)
                    cases.append((m, n, o, make_exact(rho)))
    # the far end of the supported range: derivative orders 11 .. 20 (factorials beyond 10!), low orders of accuracy, small ratios
    for m in METHODS:
        for n in (11, 12, 13, 16, 20):
            for o in (1, 2, 4):
                if rng.random() < ctx.budget(0.5, 1.0):
                    cases.append((m, n, o, make_exact(rng.choice([1.25, 1.6, 2.0]))))
    out = run_driver(['fdrule %s %s %d %d' % (q2s(Fraction(rho)), m, n, o) for m, n, o, rho in cases], 'C06w')
    eng = ctx.engine('rule.weights')
    weights = {}
    for (m, n, o, rho), line in zip(cases, out):
        eng['cases'] += 1
        ctx.count('rule.weights', m)
        wq = [s2q(x) for x in line.split()]
        RC.clear()
        RC.update({k: np.array(v, copy=True) for k, v in initial_cache.items()})
        r = LogRule(n=n, method=m, order=o)
        w = r.rule(rho)
        # a second request (served from the rule cache, also through another object) must return the same weights
        w_again = LogRule(n=n, method=m, order=o).rule(rho)
        if np.shape(w_again) != np.shape(w) or not np.array_equal(np.asarray(w_again), np.asarray(w)):
            ctx.violation('a rule requested a second time (cache hit) differs from the first answer', method=m, n=n, order=o, step_ratio=rho,
                          first=np.asarray(w).tolist(), second=np.asarray(w_again).tolist())
        weights[(m, n, o, rho)] = w
        if len(w) != len(wq):
            ctx.mismatch('rule.weights', [m, n, o, rho], len(w), len(wq), 'length')
            continue
        p = parity_of(r, m, n - 1, r.method_order)
        cond = np.linalg.cond(LogRule._fd_matrix(rho, p, len(w)))
        if cond > COND_LIMIT:
            eng['skipped'] += 1
            ctx.count('rule.weights', 'ill-conditioned (cond*eps>1e-3), not compared')
            continue
        wm = np.array([float(x) for x in wq])
        err = np.max(np.abs(w - wm))
        bound = C_ROUND * EPS * (cond + 1) * np.max(np.abs(wm))
        if err == 0:
            eng['exact'] += 1
        elif err <= bound:
            eng['rounded'] += 1
        else:
            ctx.mismatch('rule.weights', [m, n, o, rho], w.tolist(), wm.tolist(), 'err %.3g > bound %.3g (cond %.3g)' % (err, bound, cond))
    ctx.sample({'engine': 'rule.weights', 'case': list(cases[0]), 'model_weights': out[0]})

    # ---------------- failing-input search: monomials through the float rule, exactly -------------------
    ctx.search['rule'] = ('method x n 1..10 x order 1..10 x ratio (grid and random in (1,10]); the float rule is applied, in exact '
                          'rational arithmetic over Q / Q(i) / Q(zeta8), to the documented difference quotient of every monomial '
                          'u^k, k = 0..n+order+4*spacing, at steps rho^-s; expected n!*[k=n] for k < n+method_order and 0 for '
                          'every k outside {n+method_order+q*richardson_step}; bound C*eps*cond*sum|w||D|. Non-trivial: '
                          'moment system numerically non-singular; distinct = distinct (method,n,order,ratio)')
    todo = list(weights.items())
    if ctx.broken or ctx.mismatches:
        todo = todo * 1
    worst = 0.0
    worst_res = [0.0, None]
    for (m, n, o, rho), w in todo:
        r = LogRule(n=n, method=m, order=o)
        step, mo = r.richardson_step, r.method_order
        if (step, mo) != doc_orders(m, n, o):
            ctx.violation('the rule does not deliver the order that was asked for: method_order / richardson_step differ from the documented '
                          'rounding of the requested order', method=m, n=n, order=o, method_order=int(mo), richardson_step=int(step),
                          documented=list(doc_orders(m, n, o)))
            break
        p = parity_of(r, m, n - 1, mo)
        cond = np.linalg.cond(LogRule._fd_matrix(rho, p, len(w)))
        if cond > COND_LIMIT:
            ctx.tried()
            continue
        ctx.tried((m, n, o, rho))
        wq = [Fraction(float(x)) for x in w]
        rq = Fraction(rho)
        hs = [Fraction(1) / rq ** s for s in range(len(w))]
        kmax = n + o + 4 * step
        for k in range(0, kmax + 1):
            D = [as_pair(oracle_diff(m, n, o, k, h)) for h in hs]
            tot = (sum(wi * d[0] for wi, d in zip(wq, D)), sum(wi * d[1] for wi, d in zip(wq, D)))
            val = s2float(tot)             # / h_0^n with h_0 = 1
            mag = sum(abs(float(wi)) * abs(s2float(d)) for wi, d in zip(wq, D))
            mag = max(mag, sum(abs(float(wi)) * (abs(float(d[0])) + abs(float(d[1])) * 1.5) for wi, d in zip(wq, D)))
            # the moment of power k is a residual of the graded system (entries rho^(-j k), j < L): numpy's SVD-based pinv leaves it at
            # eps times the dynamic range of that column, rho^(k (L-1)), long before the full condition number is reached (unchanged
            # tree, exhaustive tables: at most 17 in these units); a rule tabulated to 11 digits misses that by orders of magnitude
            grade = min(float(cond) + 1, float(rho) ** (k * (len(w) - 1)) * len(w)) if rho >= 1.5 else float(cond) + 1
            # (for ratios close to 1 the nodes rho^-j nearly coincide and the residuals are no longer governed by the grading of the
            # columns: at rho = 1.1 a thorough-tier run met 630 in these units — a false alarm of this bound — so it is used for well
            # separated nodes only, where 17 is the largest value seen in ~20 thorough runs)
            bound = C_ROUND * EPS * grade * max(mag, 1e-300)
            allowed_residual = k >= n + mo and (k - n - mo) % step == 0
            if k == n:
                expect = float(math.factorial(n))
            elif allowed_residual:
                continue
            else:
                expect = 0.0
            d = abs(val - expect)
            worst = max(worst, d / bound) if bound > 0 else worst
            if os.environ.get('C06_LOG') and mag > 0:
                open(os.environ['C06_LOG'], 'a').write('%r %r %r %r %r\n' % (float(rho), float(cond), k, len(w), float(d / (EPS * mag))))
            if mag > 0:
                row = k
                grade = min(float(cond), float(rho) ** (k * (len(w) - 1)) * len(w))
                q = d / (EPS * mag * grade)
                if q >= worst_res[0]:
                    worst_res[0] = q
                    worst_res[1] = (m, n, o, rho, k, float(cond), row, len(w), d / (EPS * mag))
            if d > bound and d > 1e-300:
                what = ('rule does not reproduce the n-th derivative of u^n' if k == n else
                        ('rule is not exact below its order on u^%d' % k if k < n + mo else
                         'error power h^%d is not one the paired Richardson stage removes' % k))
                ctx.violation(what, method=m, n=n, order=o, step_ratio=rho, k=k, got=val, expected=expect,
                              bound=bound, cond=float(cond), weights=[float(x) for x in w])
                break
    ctx.notes.append('worst |rule(monomial) - expected| / bound on this run: %.3g' % worst)
    ctx.notes.append('worst moment residual / (eps * sum|w||D|): %.3g at %s' % (worst_res[0], worst_res[1]))
    pairing_search(ctx)
    ctx.assumptions.append('numpy.linalg.pinv is modelled by the exact inverse of the moment matrix; configurations with '
                           'cond*eps > 1e-3 are outside the property (numerically singular) and are counted, not compared')
    RC.clear()
    RC.update(initial_cache)


def pairing_search(ctx):
    """The rule and the Richardson stage `Derivative` pairs with it, through the public API: with exactly as many dyadic steps as
    the rule and two Richardson terms consume, x**k is differentiated exactly (to rounding) for every k below
    n + method_order + 2 * richardson_step — the rule is exact below its order and the paired extrapolation removes the next two
    error powers.  Fresh objects and objects that reach (method, order, n) by attribute assignment."""
    import warnings
    import numdifftools as nd
    from numdifftools.finite_difference import LogRule
    from numdifftools.step_generators import MaxStepGenerator, MinStepGenerator
    rng = ctx.rng
    REAL = ['central', 'forward', 'backward']
    worst = 0.0
    for _ in range(ctx.budget(150, 1500)):
        m = rng.choice(REAL + ['complex'])
        n, o = rng.randint(1, 4), rng.randint(1, 6)
        r = LogRule(n=n, method=m, order=o)
        mo, rs = r.method_order, r.richardson_step
        ns = r.rule(2.0).size + 2
        k = rng.randint(n, n + mo + 2 * rs - 1)
        gen = (MaxStepGenerator(base_step=1.0, step_ratio=2.0, num_steps=ns) if m != 'complex' else
               MinStepGenerator(base_step=2.0 ** -ns, step_ratio=2.0, num_steps=ns))
        reconf = rng.random() < 0.5
        m0, o0, n0 = m, o, n
        if reconf:
            m0 = rng.choice(REAL) if m in REAL else m
            o0 = rng.randint(1, 6)
            n0 = rng.choice([n, n, rng.randint(1, 4)])
        rep = dict(method=m, n=n, order=o, power=k, num_steps=ns,
                   reached_by=('assignment from (%s, n=%d, order=%d)' % (m0, n0, o0)) if reconf else 'construction')
        ctx.tried(('pairing', m, n, o, k, m0, n0, o0))
        try:
            with warnings.catch_warnings():
                warnings.simplefilter('ignore')
                d = nd.Derivative(lambda t: t ** k, n=n0, method=m0, order=o0, step=gen)
                if reconf:
                    if rng.random() < 0.5:
                        d(1.0)
                    if n0 != n:
                        d.n = n
                    d.method = m
                    d.order = o
                v = float(d(1.0))
        except Exception as ex:
            ctx.violation('Derivative raised %r' % ex, **rep)
            continue
        exact = math.factorial(k) / math.factorial(k - n)
        rel = abs(v - exact) / (1 + abs(exact))
        worst = max(worst, rel)
        if not rel <= 1e-5:
            ctx.violation('rule and paired Richardson extrapolation are not exact on x**k below n + method_order + 2*richardson_step',
                          got=v, expected=exact, **rep)
    ctx.notes.append('pairing search: worst relative deviation %.3g (tolerance 1e-5)' % worst)


def replay(ctx, path):
    d = json.load(open(path))
    print(json.dumps(d, indent=1)[:4000])
    return 0
