"""C01 — Derivative returns the true n-th derivative within the accuracy envelope."""
import json
import math
import warnings
from fractions import Fraction

import numpy as np

from harness.common import generated_steps, f2hex, q2s, s2q, run_driver, lean_obligations
from harness.translate import translator_obligations
from harness.search_deriv import derivative_search

MODULE = 'Ndt.Props.C01Multi'
THEOREMS = ['Ndt.difference_functions_generated', 'Ndt.argMinRow_skips_nan', 'Ndt.bestEstimate_err_not_nan', 'Ndt.dCentral_expansion', 'Ndt.dCentralEven_expansion', 'Ndt.dForward_expansion', 'Ndt.dBackward_expansion',
            'Ndt.fdRow_apply_k', 'Ndt.fdApply_on_expansion', 'Ndt.diffName_real', 'Ndt.real_step_candidates_exact',
            'Ndt.richCall_const', 'Ndt.wynnTable_const', 'Ndt.bestEstimate_const', 'Ndt.tailStage_const',
            'Ndt.derivative_exact_on_polynomials', 'Ndt.zero_order_is_f',
            'Ndt.qComplex_expansion', 'Ndt.qComplexOdd_expansion', 'Ndt.qComplexOddHigher_expansion', 'Ndt.qComplexEven_expansion',
            'Ndt.qComplexEvenHigher_expansion', 'Ndt.complex_names', 'Ndt.complex_step_candidates_exact',
            'Ndt.derivative_exact_on_polynomials_complex',
            'Ndt.multicomplex1_quadratic', 'Ndt.multicomplex2_cubic', 'Ndt.fdApply_multicomplex', 'Ndt.derivative_exact_on_polynomials_multicomplex']
EPS = 2.0 ** -52
C_ROUND = 4096.0


def peval(cs, t):
    r = 0
    for c in reversed(cs):
        r = r * t + c
    return r


def run(ctx):
    import numdifftools as nd
    from numdifftools.finite_difference import LogRule
    from numdifftools import finite_difference as fdm
    from harness.common import rule_cache, reset_rule_cache
    RC = rule_cache(fdm)
    reset_rule_cache(RC)            # remembers the import-time contents
    from numdifftools.extrapolation import Richardson
    translator_obligations(ctx, ['LogRule.', 'DiffFuns.'])
    lean_obligations(ctx, MODULE, THEOREMS)
    rng = ctx.rng

    # ---------------- engine `diff`: name resolution and scalar quotients on rational polynomials (exact) ---------------
    eng = ctx.engine('diff')
    grid = [(m, n, o) for m in ['central', 'forward', 'backward', 'complex', 'multicomplex'] for n in range(1, 9) for o in range(1, 9)
            if not (m == 'multicomplex' and n > 2)]
    names = run_driver(['diffname %s %d %d' % g for g in grid], 'C01n')
    for g, mn in zip(grid, names):
        eng['cases'] += 1
        impl = LogRule(n=g[1], method=g[0], order=g[2]).diff.__name__
        if impl == mn:
            eng['exact'] += 1
        else:
            ctx.mismatch('diff', list(g), impl, mn, 'name of the difference function')
    qcases = []
    for _ in range(ctx.budget(200, 2000)):
        name = rng.choice(['_central', '_central_even', '_forward', '_backward', '_complex'])
        deg = rng.randint(0, 7)
        cs = [Fraction(rng.randint(-8, 8), rng.choice([1, 2, 4])) for _ in range(deg + 1)]
        x = Fraction(rng.randint(-16, 16), 8)
        h = Fraction(1, 2 ** rng.randint(0, 5))
        qcases.append((name, cs, x, h))
    out = run_driver(['quot %s %s %s | %s' % (nm, q2s(x), q2s(h), ' '.join(q2s(c) for c in cs)) for nm, cs, x, h in qcases], 'C01q')
    DF = fdm.DifferenceFunctions
    for (nm, cs, x, h), line in zip(qcases, out):
        eng['cases'] += 1
        f = lambda t: peval([float(c) for c in cs], t)
        fx = f(float(x))
        v = getattr(DF, nm)(f, fx, float(x), float(h))
        if Fraction(float(v)) == s2q(line):
            eng['exact'] += 1
        else:
            ctx.mismatch('diff', [nm, list(map(str, cs)), str(x), str(h)], float(v), line)
    ctx.sample({'engine': 'diff', 'case': [qcases[0][0], list(map(str, qcases[0][1])), str(qcases[0][2]), str(qcases[0][3])], 'model': out[0]})
    # the complex-step quotients along _SQRT_J: the model evaluates them exactly over Q(zeta_8); the implementation's value (float
    # arithmetic with a rounded sqrt(i)) must agree within rounding, and the coefficient of sqrt(2) of the exact value must vanish
    ccases = []
    for _ in range(ctx.budget(150, 1500)):
        name = rng.choice(['_complex', '_complex_odd', '_complex_odd_higher', '_complex_even', '_complex_even_higher'])
        deg = rng.randint(0, 9)
        cs = [Fraction(rng.randint(-8, 8), rng.choice([1, 2, 4])) for _ in range(deg + 1)]
        x = Fraction(rng.randint(-16, 16), 8)
        h = Fraction(1, 2 ** rng.randint(0, 4))
        ccases.append((name, cs, x, h))
    outc = run_driver(['quotc %s %s %s | %s' % (nm, q2s(x), q2s(h), ' '.join(q2s(c) for c in cs)) for nm, cs, x, h in ccases], 'C01c')
    for (nm, cs, x, h), line in zip(ccases, outc):
        eng['cases'] += 1
        ctx.count('diff', nm)
        f = lambda t: peval([float(c) for c in cs], t)
        v = getattr(DF, nm)(f, f(float(x)), float(x), float(h))
        rat, s2 = (s2q(t) for t in line.split())
        mag = sum(abs(float(c)) * (abs(float(x)) + float(h)) ** k for k, c in enumerate(cs)) * 24 + 1e-300
        if s2 != 0:
            ctx.mismatch('diff', [nm, list(map(str, cs)), str(x), str(h)], float(v), line, 'the exact quotient of a real polynomial has a sqrt(2) part')
        elif float(v) == float(rat):
            eng['exact'] += 1
        elif abs(float(v) - float(rat)) <= 64 * 2.0 ** -52 * mag:
            eng['rounded'] += 1
        else:
            ctx.mismatch('diff', [nm, list(map(str, cs)), str(x), str(h)], float(v), line, 'complex-step quotient')

    # ---------------- engine `pipeline.linear`: steps -> quotients -> rule -> /h^n, through the real Derivative ------------
    eng = ctx.engine('pipeline.linear')
    captured = []
    orig_call = Richardson.__call__

    def spy(self, sequence, steps):
        captured.append((np.array(sequence, dtype=float), np.array(steps, dtype=float), self.step_ratio, self.step, self.order, self.num_terms))
        return orig_call(self, sequence, steps)
    Richardson.__call__ = spy
    jobs = []
    try:
        for _ in range(ctx.budget(80, 800)):
            m = rng.choice(['central', 'forward', 'backward'])
            n = rng.randint(1, 4)
            order = rng.randint(1, 6)
            mo = LogRule(n=n, method=m, order=order).method_order
            deg = rng.randint(0, n + mo + 2)
            cs = [Fraction(rng.randint(-4, 4)) for _ in range(deg + 1)]
            x = Fraction(rng.randint(-8, 8), 4)
            f = lambda t: peval([float(c) for c in cs], t)
            captured.clear()
            reset_rule_cache(RC)
            with warnings.catch_warnings():
                warnings.simplefilter('ignore')
                val = nd.Derivative(f, n=n, method=m, order=order)(float(x))
            if not captured:
                continue
            seq, steps, rho, rstep, rorder, rterms = captured[-1]
            jobs.append((m, n, order, cs, x, float(val), seq.ravel(), steps.ravel(), rho, deg, mo))
    finally:
        Richardson.__call__ = orig_call
    # model: the generator's actual steps are inputs; quotients and rule are the model's
    qlines, owners = [], []
    for j, (m, n, order, cs, x, val, seq, steps, rho, deg, mo) in enumerate(jobs):
        nm = LogRule(n=n, method=m, order=order).diff.__name__
        # the full step list: der_init has len(steps) entries but the rule consumed len(rule)-1 more; regenerate them
        gen_steps = [float(s) for s in generated_steps(nd.Derivative(lambda t: t, n=n, method=m, order=order), np.asarray(float(x)))[0]]
        jobs[j] = jobs[j] + (gen_steps, nm)
        for h in gen_steps:
            qlines.append('quot %s %s %s | %s' % (nm, q2s(x), q2s(Fraction(h)), ' '.join(q2s(c) for c in cs)))
            owners.append(j)
    qout = run_driver(qlines, 'C01p1') if qlines else []
    quots = {}
    for j, line in zip(owners, qout):
        quots.setdefault(j, []).append(line)
    alines = []
    for j, job in enumerate(jobs):
        m, n, order, cs, x, val, seq, steps, rho, deg, mo, gen_steps, nm = job
        alines.append('fdapply %s %s %d %d | %s | %s' % (q2s(Fraction(float(rho))), m, n, order, ' '.join(quots[j]),
                                                        ' '.join(q2s(Fraction(h)) for h in gen_steps)))
    aout = run_driver(alines, 'C01p2') if alines else []
    for job, line in zip(jobs, aout):
        m, n, order, cs, x, val, seq, steps, rho, deg, mo, gen_steps, nm = job
        eng['cases'] += 1
        ctx.count('pipeline.linear', m)
        model = [float(s2q(t)) for t in line.split()]
        if len(model) != len(seq):
            ctx.mismatch('pipeline.linear', [m, n, order, list(map(str, cs)), str(x)], len(seq), len(model), 'number of first-stage candidates')
            continue
        r = LogRule(n=n, method=m, order=order)
        from harness.props.C06 import parity_of
        p = parity_of(r, m, n - 1, r.method_order)
        w = r.rule(rho)
        cond = np.linalg.cond(LogRule._fd_matrix(rho, p, len(w)))
        if cond * EPS > 1e-3:
            eng['skipped'] += 1
            continue
        fmax = max(abs(float(peval(cs, x + Fraction(h)))) for h in gen_steps[:len(w)] + [0.0]) + 1.0
        ok = True
        for t, (a, b) in enumerate(zip(seq, model)):
            bound = C_ROUND * EPS * (cond + 1) * float(np.sum(np.abs(w))) * fmax / gen_steps[t] ** n
            if abs(a - b) > bound:
                ok = False
                ctx.mismatch('pipeline.linear', [m, n, order, list(map(str, cs)), str(x), t], float(a), b, 'bound %.3g cond %.3g' % (bound, cond))
                break
        if ok:
            eng['rounded'] += 1
        # public end to end: below the order the returned value is the exact derivative
        if deg < n + mo:
            dc = list(cs)
            for _ in range(n):
                dc = [c * i for i, c in enumerate(dc)][1:]
            exact = float(peval(dc, x)) if dc else 0.0
            bound = C_ROUND * EPS * (cond + 1) * float(np.sum(np.abs(w))) * fmax / min(gen_steps[:len(seq)]) ** n
            if abs(val - exact) > bound:
                ctx.violation('Derivative is not exact (to rounding) on a polynomial of degree < n + method_order', method=m, n=n, order=order,
                              coefficients=list(map(str, cs)), x=str(x), got=val, exact=exact, bound=bound)
    reset_rule_cache(RC)

    # ---------------- failing-input search -------------------------------------------------------------------------------
    ctx.search['rule'] = ('random expression programs (depth <= 4) over + - * / integer and real powers exp log sqrt sin cos tan sinh cosh tanh '
                          'arctan arcsin arcsinh arctanh expm1 log1p with analytic domain adapters, x with |x| in [1e-3, 1e2] (scalars and arrays), '
                          'methods x n 0..nmax(method) (central 6, complex 4, forward/backward 4, multicomplex 2) x order 1..8, default and '
                          'user-supplied step generators; oracle = truncated Taylor-series arithmetic on the same program; envelope per '
                          '(method, n) relative to max_k |f^(k)(x)|/k! * n!; programs with a singularity closer than ~1/8, intermediates '
                          'above 1e60 or tanh-arguments above 300 (multicomplex) are not generated; non-trivial: n >= 1; distinct = distinct '
                          '(program, x, method, n, order)')
    derivative_search(ctx, ctx.budget(500, 6000) * (2 if (ctx.broken or ctx.mismatches) else 1), honesty=False)
    ctx.assumptions.append('rounding/cancellation, the truncation error of non-polynomial f and libm are not carried by the theorems; '
                           'the complex-step quotients with sqrt(i) (complex, n > 1 or order >= 4) and multicomplex are covered by the '
                           'search and by C06/C12, not by the exactness theorem')


def replay(ctx, path):
    print(json.dumps(json.load(open(path)), indent=1)[:4000])
    return 0
