"""C05 — The function is only evaluated where the chosen method promises."""
import json
import warnings

import numpy as np

from harness.common import generated_steps, f2hex, hex2f, run_driver, lean_obligations
from harness.points import canon
from harness.translate import translator_obligations

MODULE = 'Ndt.Props.C05'
THEOREMS = ['Ndt.difference_functions_generated', 'Ndt.imaginary_only_rule_selected', 'Ndt.dCentral_depends', 'Ndt.dCentralEven_depends', 'Ndt.dForward_depends', 'Ndt.dBackward_depends', 'Ndt.dComplex_depends',
            'Ndt.scalar_onesided', 'Ndt.scalar_central_symmetric', 'Ndt.scalar_imaginary_only', 'Ndt.scalar_near',
            'Ndt.jacobian_one_coordinate', 'Ndt.hessdiag_one_coordinate', 'Ndt.hessdiag_real_points', 'Ndt.mem_pairs',
            'Ndt.hessian_two_coordinates', 'Ndt.hessian_forward_onesided', 'Ndt.hessian_backward_onesided']
SJ = (1j + 1.0) / np.sqrt(2.0)
CONSTS = '%s %s %s' % (f2hex(SJ.real), f2hex(SJ.imag), f2hex(float(np.sqrt(2.0))))


def norm0(v):
    return 0.0 if v == 0 else float(v)       # -0.0 and 0.0 are the same argument


def key4(p):
    return tuple(norm0(t) for t in p)


def parse_pt4(s):
    return key4(hex2f(t) for t in s.split(','))


def parse_evalpt(s):
    out = []
    for part in s.split(';'):
        k, rest = part.split(':')
        out.append((int(k), parse_pt4(rest)))
    return tuple(sorted(out))


def run(ctx):
    import numdifftools as nd
    from numdifftools.step_generators import MinStepGenerator, MaxStepGenerator
    translator_obligations(ctx, ['LogRule._get_middle_name', 'LogRule._get_last_name', 'LogRule._multicomplex_middle_name',
                                 'LogRule.eval_first_condition', 'LogRule._complex_high_order', 'DiffFuns.'])
    lean_obligations(ctx, MODULE, THEOREMS)
    rng = ctx.rng
    eng = ctx.engine('points')
    cases = []
    N = ctx.budget(160, 1600)
    for _ in range(N):
        cls = rng.choice(['Derivative', 'Derivative', 'Gradient', 'Jacobian', 'Hessdiag', 'Hessian'])
        if cls == 'Hessian':
            m = rng.choice(['central', 'central2', 'forward', 'backward', 'complex', 'multicomplex'])
        else:
            m = rng.choice(['central', 'forward', 'backward', 'complex', 'multicomplex'])
        n = rng.randint(1, 6) if cls == 'Derivative' else 1
        if m == 'multicomplex':
            n = min(n, 2)
        order = rng.randint(1, 8)
        dim = rng.randint(1, 5)
        # coordinates of every magnitude, exact zeros and tiny values included (a displacement that is not exactly the documented
        # one survives rounding only where |x| is small next to the step)
        x = np.array([rng.uniform(-3, 3) if rng.random() < 0.7 else rng.choice([0.5, 1.0, 100.0, 1e-3, 0.0, 0.0, 1e-9, -1e-6])
                      for _ in range(dim)])
        stepkind = rng.choice(['default', 'default', 'min', 'max', 'scalar'])
        cases.append([cls, m, n, order, x, stepkind])
    lines, metas = [], []
    for case in cases:
        (cls, m, n, order, x, stepkind) = case
        dim = len(x)
        kw = dict(method=m)
        if cls == 'Derivative':
            kw['n'] = n
        if cls != 'Hessian':
            kw['order'] = order
        if stepkind == 'min':
            kw['step'] = MinStepGenerator(base_step=rng.choice([None, 0.01, 0.125]), step_ratio=rng.choice([None, 2.0, 1.6, 3.0]),
                                          num_extrap=rng.randint(0, 4), offset=rng.randint(-1, 2))
        elif stepkind == 'max':
            kw['step'] = MaxStepGenerator(base_step=rng.choice([2.0, 0.5, 0.125]), step_ratio=rng.choice([None, 2.0, 1.6]),
                                          num_steps=rng.randint(8, 20), offset=rng.randint(-1, 2))
        elif stepkind == 'scalar':
            kw['step'] = rng.choice([0.01, 1e-3, 0.125])
        rec = []
        # a quarter of the functions are not finite exactly at x (removable singularity, sin(x)/x at 0): what f returns must not change
        # where it is evaluated
        hole = rng.random() < 0.25
        case.append(hole)

        def punch(t, v, x=x, hole=hole, elementwise=(cls == 'Derivative')):
            if not hole or not isinstance(t, np.ndarray) and not np.isscalar(t):
                return v
            at_x = np.asarray(t) == x
            if elementwise:
                return np.where(at_x, np.nan, v)
            return (np.nan * v) if np.all(at_x) else v
        if cls == 'Derivative':
            f = lambda t: (rec.append(canon(t)), punch(t, t * t + 1.0))[1]
        elif cls == 'Jacobian':
            f = lambda t: (rec.append(canon(t)), punch(t, np.array([t[0] * t[-1], t[0] + 2.0 * t[-1], t[-1] * t[-1]])))[1]
        else:
            f = lambda t: (rec.append(canon(t)), punch(t, np.sum(t * t) + t[0] * t[-1]))[1]
        C = getattr(nd, cls)
        # a third of the objects reach their configuration by attribute assignment (constructed with another method of the same
        # family, or another order / n, then reassigned): the evaluation points must be those of the final configuration
        reconf = rng.random() < 0.35
        kw0 = dict(kw)
        if reconf:
            fam = ['central', 'forward', 'backward'] if m in ('central', 'forward', 'backward') else \
                (['complex', 'multicomplex'] if (m in ('complex', 'multicomplex') and n <= 2) else [m])
            kw0['method'] = rng.choice(fam)
            if 'order' in kw0:
                kw0['order'] = rng.randint(1, 8)
            if 'n' in kw0:
                kw0['n'] = rng.randint(1, 2 if kw0['method'] == 'multicomplex' else 4)
        try:
            with warnings.catch_warnings():
                warnings.simplefilter('ignore')
                obj = C(f, **kw0)
                if reconf:
                    if rng.random() < 0.5:
                        obj(x)              # used once in its first configuration
                        del rec[:]
                    obj.method = m
                    if 'order' in kw:
                        obj.order = order
                    if 'n' in kw:
                        obj.n = n
                if cls != 'Derivative' and rng.random() < 0.25:
                    # an earlier evaluation (another object, same number of variables) was aborted by an exception from the user
                    # function, which the caller caught: nothing of it may survive into this evaluation
                    cnt, kfail = [0], rng.randint(2, 2 * dim + 2)

                    def bomb(t, cnt=cnt, kfail=kfail):
                        cnt[0] += 1
                        if cnt[0] == kfail:
                            raise RuntimeError('user function failed')
                        return f(t)
                    try:
                        C(bomb, **kw)(x + rng.choice([0.0, 0.25]))
                    except RuntimeError:
                        pass
                    del rec[:]
                far = rng.random() < 0.3
                if far:
                    # the same object was used before at a far-away point of the same shape (nominal steps there are ~15 times larger)
                    obj(x + np.where(x >= 0, 2.0e6, -2.0e6))
                    del rec[:]
                obj(x)
        except Exception as ex:
            ctx.violation('%s raised %r while recording evaluation points' % (cls, ex), cls=cls, method=m, n=n, order=order, x=x.tolist())
            metas.append(None)
            continue
        # the steps the generator produced for this call (public API of the generator object)
        xi = np.asarray(x) if cls == 'Derivative' else np.atleast_1d(x)
        if cls == 'Gradient':
            xi = np.atleast_1d(x).ravel()
        # ... asked of a brand-new object of the same configuration, so that nothing remembered by `obj` enters the bound
        fresh = C(lambda t: t, **kw)
        steps = [np.atleast_1d(np.asarray(s, dtype=float)) * np.ones(x.shape) for s in generated_steps(fresh, xi)[0]]
        name = obj.fd_rule.diff.__name__
        evalfirst = (m in ('complex', 'multicomplex')) or bool(obj.fd_rule.eval_first_condition) or cls in ('Gradient', 'Jacobian')
        metas.append((len(lines), len(steps), rec, name, evalfirst, max(float(np.max(np.abs(s_))) for s_ in steps)))
        for h in steps:
            if cls == 'Derivative':
                for e in range(dim):
                    lines.append('pts scalar %s %s | %s | %s' % (name, CONSTS, f2hex(x[e]), f2hex(h[e])))
            else:
                kind = {'Gradient': 'jacobian', 'Jacobian': 'jacobian', 'Hessdiag': 'hessdiag', 'Hessian': 'hessian'}[cls]
                lines.append('pts %s %s %s | %s | %s' % (kind, name, CONSTS, ' '.join(f2hex(v) for v in x), ' '.join(f2hex(v) for v in h)))
    out = run_driver(lines, 'C05p') if lines else []
    for case, meta in zip(cases, metas):
        if meta is None:
            continue
        cls, m, n, order, x, stepkind, hole = case
        start, nsteps, rec, name, evalfirst, maxstep = meta
        dim = len(x)
        eng['cases'] += 1
        ctx.count('points', '%s/%s' % (cls, name))
        ctx.tried((cls, m, n, order, tuple(x), stepkind))
        rep = dict(cls=cls, method=m, n=n, order=order, x=x.tolist(), step=stepkind, function=name, f_not_finite_at_x=hole)
        xkey = [key4((v, 0.0, 0.0, 0.0)) for v in x]
        if cls == 'Derivative':
            # elementwise: per element the multiset of argument values
            model = [[] for _ in range(dim)]
            k = start
            for s in range(nsteps):
                for e in range(dim):
                    model[e] += [parse_pt4(t) for t in out[k].split()]
                    k += 1
            for e in range(dim):
                impl = [key4(r[e]) for r in rec]
                n_at_x = sum(1 for p in impl if p == xkey[e])
                impl_moved = sorted(p for p in impl if p != xkey[e])
                if impl_moved != sorted(model[e]):
                    ctx.mismatch('points', dict(element=e, **rep), impl_moved[:6], sorted(model[e])[:6], 'argument values of one element')
                    break
                if n_at_x > 1 or (n_at_x == 1) != evalfirst:
                    ctx.mismatch('points', dict(element=e, **rep), n_at_x, int(evalfirst), 'number of evaluations at x itself')
                    break
            else:
                eng['exact'] += 1
        else:
            model = []
            for s in range(nsteps):
                model += [parse_evalpt(t) for t in out[start + s].split()]
            impl, n_at_x = [], 0
            for r in rec:
                changed = tuple(sorted((j, key4(r[j])) for j in range(dim) if key4(r[j]) != xkey[j]))
                if not changed:
                    n_at_x += 1
                else:
                    impl.append(changed)
            if sorted(impl) != sorted(model):
                only_i = sorted(set(impl) - set(model))[:3]
                only_m = sorted(set(model) - set(impl))[:3]
                ctx.mismatch('points', rep, only_i, only_m, 'multiset of arguments (changed coordinates): only-impl vs only-model; sizes %d/%d' % (len(impl), len(model)))
            elif n_at_x > 1:
                ctx.mismatch('points', rep, n_at_x, 1, 'number of evaluations at x itself')
            else:
                eng['exact'] += 1
        # ---- the property itself, asserted directly on the recorded arguments (independent of the model) ----
        allpts = [r for r in rec]
        for r in allpts:
            re_, im_, z2r, z2i = r[..., 0], r[..., 1], r[..., 2], r[..., 3]
            xs = np.broadcast_to(x, re_.shape)
            if m == 'forward' and not (np.all(re_ >= xs) and np.all(im_ == 0) and np.all(z2r == 0)):
                ctx.violation('forward evaluated f below x', point=r.tolist(), **rep)
                break
            if m == 'backward' and not (np.all(re_ <= xs) and np.all(im_ == 0) and np.all(z2r == 0)):
                ctx.violation('backward evaluated f above x', point=r.tolist(), **rep)
                break
            # the plain rule f(x + ih) is what method 'complex' promises for a first derivative of effective order 2 (order 1, 2, 3:
            # LogRule.method_order rounds the order down to an even number, at least 2); decided here from the configuration, not
            # from the name of the difference function the implementation happened to pick
            plain_complex = (m == 'complex' and n == 1 and cls in ('Derivative', 'Gradient', 'Jacobian') and max((order // 2) * 2, 2) == 2)
            if (m == 'multicomplex' or name == '_complex' or plain_complex) and not np.all(re_ == xs):
                ctx.violation('a complex-step rule that should only perturb imaginary parts moved the real part', point=r.tolist(), **rep)
                break
            moved = int(np.sum(np.any(r != np.stack([xs, 0 * xs, 0 * xs, 0 * xs], axis=-1), axis=-1)))
            if cls in ('Gradient', 'Jacobian', 'Hessdiag') and moved > 1:
                ctx.violation('more than one coordinate differs from x', point=r.tolist(), **rep)
                break
            if cls == 'Hessian' and moved > 2:
                ctx.violation('more than two coordinates differ from x', point=r.tolist(), **rep)
                break
            if maxstep is not None and float(np.max(np.abs(re_ - xs))) > 2.0 * maxstep * (1 + 1e-12) + 4e-16 * float(np.max(np.abs(xs))):
                ctx.violation('an evaluation point is farther from x than the stencil width times the largest step', point=r.tolist(),
                              largest_step=maxstep, **rep)
                break
        if m == 'central' and cls == 'Derivative':
            for e in range(dim):
                vals = sorted(float(r[e][0]) - float(x[e]) for r in rec if key4(r[e]) != xkey[e])
                if any(abs(a + b) > 4e-16 * (abs(a) + abs(float(x[e]))) for a, b in zip(vals, reversed(vals))):
                    ctx.violation('central evaluation points are not symmetric about x', element=e, offsets=vals[:6], **rep)
                    break
    # ---- steps that vanish against x (x + h == x in floating point: tiny user steps, very many steps, huge |x|), at negative and positive
    # x: whatever the library does about them, forward must not go below x, backward not above (asserted on the recorded arguments only)
    for it in range(ctx.budget(40, 400)):
        cls = rng.choice(['Derivative', 'Gradient', 'Jacobian', 'Hessdiag', 'Hessian'])
        m = rng.choice(['forward', 'backward'])
        dim = 1 if cls == 'Derivative' else rng.randint(1, 3)
        x = np.array([rng.choice([-1, -1, 1]) * 10.0 ** rng.uniform(-1, 3) for _ in range(dim)])
        kind = rng.choice(['tiny-scalar', 'many-steps', 'tiny-base'])
        if kind == 'tiny-scalar':
            kw = dict(step=10.0 ** rng.uniform(-22, -17))
        elif kind == 'many-steps':
            kw = dict(step=MaxStepGenerator(num_steps=rng.randint(56, 70), step_ratio=2.0))
        else:
            kw = dict(step=MinStepGenerator(base_step=10.0 ** rng.uniform(-22, -18), num_steps=8))
        kw['method'] = m
        rec = []
        if cls == 'Derivative':
            f = lambda t: (rec.append(np.array(t, dtype=float)), t * t + 1.0)[1]
        elif cls == 'Jacobian':
            f = lambda t: (rec.append(np.array(t, dtype=float)), np.array([t[0] * t[-1], t[0] + 2.0 * t[-1]]))[1]
        else:
            f = lambda t: (rec.append(np.array(t, dtype=float)), np.sum(t * t) + t[0] * t[-1])[1]
        ctx.tried(('vanishing-steps', cls, m, kind, tuple(x)))
        try:
            with warnings.catch_warnings():
                warnings.simplefilter('ignore')
                getattr(nd, cls)(f, **kw)(x if cls != 'Derivative' else x[0])
        except Exception as ex:
            # too few steps for the rule etc. is misuse of the options, not a matter of this property
            if not isinstance(ex, ValueError):
                ctx.violation('%s raised %r with vanishing steps' % (cls, ex), cls=cls, method=m, x=x.tolist(), step=kind)
            continue
        xs = x if cls != 'Derivative' else x[:1]
        for r in rec:
            r = np.atleast_1d(r)
            if m == 'forward' and np.any(r < xs):
                ctx.violation('forward evaluated f below x', point=[float(v).hex() for v in r], x=[float(v).hex() for v in xs], cls=cls, step=kind,
                              options=str({k: (v if not hasattr(v, 'num_steps') else type(v).__name__) for k, v in kw.items()}))
                break
            if m == 'backward' and np.any(r > xs):
                ctx.violation('backward evaluated f above x', point=[float(v).hex() for v in r], x=[float(v).hex() for v in xs], cls=cls, step=kind,
                              options=str({k: (v if not hasattr(v, 'num_steps') else type(v).__name__) for k, v in kw.items()}))
                break
    if out:
        ctx.sample({'engine': 'points', 'line': lines[0], 'model': out[0]})
    ctx.search['rule'] = ('all five classes x their methods x n 1..6 x order 1..8 x dimension 1..5 x step generators (default, Min/Max with random '
                          'options, scalar step) x random x; every argument passed to f is recorded; (i) the multiset of arguments equals the '
                          'model\'s list bit for bit, (ii) the admissibility predicates of the property are asserted directly on the recorded '
                          'arguments; distinct = distinct configuration')
    ctx.assumptions.append('the recording wrapper sees every call of the user function; the step list is obtained from the generator object the class uses')


def replay(ctx, path):
    print(json.dumps(json.load(open(path)), indent=1)[:4000])
    return 0
