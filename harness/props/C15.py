"""C15 — fd_weights equal the exact Lagrange-derivative weights for any nodes."""
import json
from fractions import Fraction

import warnings

import numpy as np

from harness.common import f2hex, hex2f, q2s, s2q, run_driver, lean_obligations, ulps
from harness.oracle.lagrange import lagrange_derivative_weights

MODULE = 'Ndt.Props.C15'
THEOREMS = ['Ndt.fornberg_entries', 'Ndt.fornberg_weights_exact', 'Ndt.fdWeightsAll_guard', 'Ndt.fdWeightsAll_exact',
            'Ndt.fdWeightsAll_row0_interpolates', 'Ndt.fdWeightsAll_rows_sum_zero', 'Ndt.fdWeights_is_last_row',
            'Ndt.inv_run', 'Ndt.frunT_eq_frun', 'Ndt.fc2_eq']
EPS = 2.0 ** -52
ENVELOPE = 16.0


def gen_nodes(rng):
    m = rng.randint(2, 14)
    kind = rng.choice(['uniform', 'random', 'clustered', 'permuted', 'onesided', 'dyadic', 'almost-uniform', 'integers', 'offset'])
    if kind == 'almost-uniform':
        h = rng.choice([1.0, 0.5, 0.1, 1e-3, 1e-7])
        rel = 10.0 ** rng.uniform(-9, -3)
        c = rng.uniform(-5, 5)
        m = rng.choice([3, 5, 7, 9, m])
        xs = [c + h * ((i - m // 2) + rel * rng.uniform(-1, 1)) for i in range(m)]
    elif kind == 'integers':
        # whole-number nodes (range(-2, 3), multiples of 7, irregular integers), expansion points that are no short dyadic fractions
        sp = rng.choice([1, 1, 2, 7, 30])
        c0 = rng.randint(-5, 5)
        xs = [c0 + sp * (i - m // 2) for i in range(m)] if rng.random() < 0.7 else sorted(rng.sample(range(-40, 41), m))
    elif kind == 'offset':
        # a stencil far from the origin compared with its spacing (time stamps 1.7e9 + 0.1 k, x ~ 1e6 with spacing 1e-3, extremely fine
        # stencils around 0.75): the weights depend on the differences x_v - x0 only, which are formed exactly here (every node is a
        # float and so is every difference of neighbouring ones)
        c = rng.choice([0.75, 1.0 / 32, 0.001, 1.0e6, 1.7e9, -3.0e4, 12.5])
        h = rng.choice([2.0 ** -43, 2.0 ** -46, 1e-15, 1e-3, 0.1, 2.0 ** -20, 3e-13]) * max(1.0, abs(c)) * rng.choice([1.0, 1.0, 4096.0])
        m = rng.choice([m, 12, 13, 14])
        shift = rng.choice([0, m // 2])
        xs = [c + h * (i - shift) for i in range(m)]
        if rng.random() < 0.3:
            rng.shuffle(xs)
    elif kind == 'uniform':
        h = rng.choice([1.0, 0.5, 0.1, 1e-3, 2.0 ** -rng.randint(0, 12)])
        c = rng.uniform(-5, 5)
        xs = [c + h * (i - m // 2) for i in range(m)]
    elif kind == 'random':
        xs = sorted(rng.uniform(-3, 3) for _ in range(m))
    elif kind == 'clustered':
        c = rng.uniform(-2, 2)
        xs = sorted(c + rng.choice([-1, 1]) * 10.0 ** rng.uniform(-6, 0) for _ in range(m))
    elif kind == 'permuted':
        xs = [rng.uniform(-3, 3) for _ in range(m)]
    elif kind == 'onesided':
        c = rng.uniform(-2, 2)
        xs = [c + 0.25 * i * (1 + 0.3 * rng.random()) for i in range(m)]
    else:
        xs = rng.sample([k / 16 for k in range(-64, 65)], m)
    xs = [float(x) for x in xs]
    if len(set(xs)) != len(xs):
        return gen_nodes(rng)
    where = rng.choice(['inside', 'outside', 'node', 'first'])
    lo, hi = min(xs), max(xs)
    if kind == 'integers' and rng.random() < 0.6:
        x0 = rng.choice([0.1, 1.0 / 3.0, 2.3, -0.7, float(rng.choice(xs)) + 0.5, float(rng.choice(xs))])
    elif where == 'inside':
        x0 = rng.uniform(lo, hi)
    elif where == 'outside':
        x0 = hi + rng.uniform(0.01, 1) * (hi - lo + 1e-3) if rng.random() < 0.5 else lo - rng.uniform(0.01, 1) * (hi - lo + 1e-3)
    elif where == 'node':
        x0 = rng.choice(xs)
    else:
        x0 = xs[0]
    n = rng.randint(0, m - 1)
    return kind, where, xs, float(x0), n


def run(ctx):
    from numdifftools import fornberg
    lean_obligations(ctx, MODULE, THEOREMS)
    rng = ctx.rng
    # the very first call of this process works in single precision (whatever is allocated or remembered then must not decide the
    # precision of the double-precision calls that follow)
    with warnings.catch_warnings():
        warnings.simplefilter('ignore')
        fornberg.fd_weights_all(np.linspace(0, 1, 5, dtype=np.float32), np.float32(0.25), 2)
    cases = [gen_nodes(rng) for _ in range(ctx.budget(400, 4000))]

    # ---------------- engine `fornberg.float`: public fd_weights_all vs the Float instance of the model ------
    eng = ctx.engine('fornberg.float')
    out = run_driver(['fdw %d %s %s' % (n, f2hex(x0), ' '.join(f2hex(x) for x in xs)) for _k, _w, xs, x0, n in cases], 'C15f')
    for (kind, where, xs, x0, n), line in zip(cases, out):
        eng['cases'] += 1
        ctx.count('fornberg.float', kind + '/' + where)
        w = fornberg.fd_weights_all(np.array(xs), x0, n)
        model = np.array([[hex2f(t) for t in row.split()] for row in line.split(' | ')])
        if w.shape != model.shape or w.shape != (n + 1, len(xs)):
            ctx.mismatch('fornberg.float', [xs, x0, n], list(w.shape), list(model.shape), 'shape')
            continue
        worst = max(ulps(float(a), float(b)) for a, b in zip(w.ravel(), model.ravel()))
        if worst == 0:
            eng['bit_identical'] += 1
        elif worst <= 4:
            eng['within_ulp'] += 1
        else:
            ctx.mismatch('fornberg.float', [[f2hex(x) for x in xs], f2hex(x0), n], w.tolist(), model.tolist(), '%s ulp' % worst)
        wn = fornberg.fd_weights(np.array(xs), x0, n)
        ctx.keep('fd_weights', wn, xs=list(xs), x0=x0, n=n)
        if not np.array_equal(wn, w[n]):
            ctx.violation('fd_weights is not row n of fd_weights_all', x=xs, x0=x0, n=n)
    ctx.sample({'engine': 'fornberg.float', 'x': cases[0][2], 'x0': cases[0][3], 'n': cases[0][4], 'model_hex': out[0][:200]})

    # ---------------- engine `fornberg.fraction`: the kernel on Fractions vs the Rat instance (exact) ----------
    eng = ctx.engine('fornberg.fraction')
    kernel = getattr(fornberg, '_fd_weights_all', None)
    if kernel is None:
        ctx.notes.append('engine fornberg.fraction skipped: attachment point _fd_weights_all missing')
    else:
        sub = cases[:ctx.budget(150, 1000)]
        out = run_driver(['fdwq %d %s %s' % (n, q2s(Fraction(x0)), ' '.join(q2s(Fraction(x)) for x in xs)) for _k, _w, xs, x0, n in sub], 'C15q')
        for (kind, where, xs, x0, n), line in zip(sub, out):
            eng['cases'] += 1
            m = len(xs)
            W = np.empty((m, n + 1), dtype=object)
            W[:] = Fraction(0)
            try:
                kernel(W, np.array([Fraction(x) for x in xs], dtype=object), Fraction(x0), n)
            except Exception as ex:
                eng['skipped'] += 1
                ctx.count('fornberg.fraction', 'kernel does not run on Fractions: %s' % type(ex).__name__)
                continue
            model = [[s2q(t) for t in row.split()] for row in line.split(' | ')]
            impl = [[Fraction(W[v, k]) for v in range(m)] for k in range(n + 1)]
            if impl == model:
                eng['exact'] += 1
            else:
                ctx.mismatch('fornberg.fraction', [xs, x0, n], [[str(a) for a in r] for r in impl], [[str(a) for a in r] for r in model])

    # guard
    eng = ctx.engine('fornberg.guard')
    gl = []
    for _ in range(ctx.budget(40, 200)):
        m = rng.randint(1, 6)
        n = rng.randint(m, m + 3)
        xs = [float(i) for i in range(m)]
        gl.append((xs, n))
    out = run_driver(['fdw %d %s %s' % (n, f2hex(0.0), ' '.join(f2hex(x) for x in xs)) for xs, n in gl], 'C15g')
    for (xs, n), line in zip(gl, out):
        eng['cases'] += 1
        try:
            fornberg.fd_weights_all(np.array(xs), 0.0, n)
            got = 'value'
        except ValueError:
            got = 'ValueError'
        except Exception as ex:
            got = type(ex).__name__
        if got == line == 'ValueError':
            eng['exact'] += 1
        else:
            ctx.mismatch('fornberg.guard', [xs, n], got, line)
            if got == 'value':
                ctx.violation('fd_weights_all with n >= len(x) returned numbers', x=xs, n=n, signature='C15-guard')

    # ---------------- failing-input search: float weights vs exact rational Lagrange-derivative weights -------
    ctx.search['rule'] = ('node sets of size 2..14 (uniform, random, clustered, permuted, one-sided, dyadic), x0 inside / outside / '
                          'on a node, every n < len(x); all rows of fd_weights_all compared with the derivatives of the Lagrange '
                          'basis polynomials computed in exact rational arithmetic from the same float inputs; bound '
                          'C*eps*m*sum of the magnitudes of the exact partial products; rows k>=1 sum to ~0, row 0 sums to 1; '
                          'non-trivial: m >= 3; distinct = distinct (nodes, x0, n)')
    extra = [gen_nodes(rng) for _ in range(ctx.budget(200, 3000) * (3 if (ctx.broken or ctx.mismatches) else 1))]
    worst = 0.0
    for kind, where, xs, x0, n in cases[:ctx.budget(200, 2000)] + extra:
        m = len(xs)
        ctx.tried((tuple(xs), x0, n) if m >= 3 else None)
        try:
            if rng.random() < 0.4:
                # the call before this one used almost the same nodes (jittered by 1e-9 .. 1e-7 relative), or the same nodes in single
                # precision: what this call returns must not depend on it
                with warnings.catch_warnings():
                    warnings.simplefilter('ignore')
                    jit = 10.0 ** rng.uniform(-9, -7)
                    if rng.random() < 0.6:
                        fornberg.fd_weights_all(np.array(xs) * (1 + jit), x0 * (1 + jit) if rng.random() < 0.5 else x0, n)
                    else:
                        fornberg.fd_weights_all(np.array(xs, dtype=np.float32), np.float32(x0), n)
            xs_arg = np.array(xs)
            if all(float(v) == int(v) and abs(v) < 2 ** 31 for v in xs) and rng.random() < 0.7:
                # whole-number nodes given as what a user types: a list of Python ints, a range-like integer array
                xs_arg = rng.choice([[int(v) for v in xs], np.array([int(v) for v in xs]), np.array([int(v) for v in xs], dtype=np.int32)])
            w = fornberg.fd_weights_all(xs_arg, x0, n)
            ctx.keep('fd_weights_all', w, xs=list(map(float, xs)), x0=float(x0), n=n)
        except Exception as ex:
            ctx.violation('fd_weights_all raised %r' % ex, x=xs, x0=x0, n=n)
            continue
        exact = lagrange_derivative_weights(xs, x0, n)
        # conditioning scale of row k: the exact weights are sums of products of (x0-x_u)/(x_v-x_u); use
        # the same sum with absolute values (computed in floats) as the magnitude that rounding is relative to
        span = max(abs(x - x0) for x in xs)
        for k in range(n + 1):
            rowmax = max(abs(float(e)) for e in exact[k])
            scale = max(rowmax, 1e-300)
            # absolute-value majorant of the k-th derivative of the basis polynomials
            maj = _majorant(xs, x0, k)
            for v in range(m):
                d = abs(float(w[k, v]) - float(exact[k][v]))
                bound = ENVELOPE * EPS * m * max(maj[v], scale * 1e-3)
                if bound > 0:
                    worst = max(worst, d / bound)
                if d > bound:
                    ctx.violation('fd_weights_all differs from the exact Lagrange-derivative weight', x=xs, x0=x0, n=n, row=k,
                                  node=v, got=float(w[k, v]), exact=float(exact[k][v]), bound=bound, kind=kind, where=where)
                    break
            else:
                continue
            break
    ctx.notes.append('worst |w - exact| / bound on this run: %.3g (envelope %g)' % (worst, ENVELOPE))
    ctx.assumptions.append('rounding is not modelled; the theorems are over arbitrary fields, the Float instance of the same '
                           'definitions is compared (<= 4 ulp) with the implementation')


def _majorant(xs, x0, k):
    """sum of absolute values of the terms of the k-th derivative at x0 of each Lagrange basis polynomial"""
    from math import factorial
    m = len(xs)
    res = []
    for v in range(m):
        coef = [1.0]
        denom = 1.0
        for u in range(m):
            if u == v:
                continue
            a = abs(xs[u] - x0)
            new = [0.0] * (len(coef) + 1)
            for i, c in enumerate(coef):
                new[i + 1] += c
                new[i] += a * c
            coef = new
            denom *= abs(xs[v] - xs[u])
        res.append(factorial(k) * coef[k] / denom if k < len(coef) else 0.0)
    return res


def replay(ctx, path):
    print(json.dumps(json.load(open(path)), indent=1)[:4000])
    return 0
