"""C04 — Hessian is symmetric and correct; Hessdiag is its diagonal."""
import json
import warnings
from fractions import Fraction

import numpy as np

from harness.common import q2s, s2q, run_driver, lean_obligations

MODULE = 'Ndt.Props.C04Multi'
THEOREMS = ['Ndt.hessian_cells_generated', 'Ndt.hessian_complex_cell_generated', 'Ndt.hessian_fdel_symmetric', 'Ndt.hessFlat_symmetric', 'Ndt.hessForward_quadratic', 'Ndt.hessForward_quadratic_diag',
            'Ndt.hessCentral_quadratic', 'Ndt.hessCentral_quadratic_diag', 'Ndt.hessCentral2_quadratic', 'Ndt.quadratic_form_along',
            'Ndt.bestEstimate_equal_columns', 'Ndt.hessian_constant_table', 'Ndt.hessdiag_exact',
            'Ndt.hessComplex_quadratic', 'Ndt.phi_bcMPoly', 'Ndt.hessMulticomplex_quadratic', 'Ndt.hessian_complex_not_high_order', 'Ndt.hessdiag_exact_complex']
METHODS = ['central', 'central2', 'forward', 'backward', 'complex', 'multicomplex']

# worst |Hessdiag - exact| / scale on the unchanged tree, MinStepGenerator() or MinStepGenerator(step_ratio=2), smooth family, 2400 cases each
HESSDIAG_WORST = {('central', 2): 2.1e-7, ('central', 4): 8.6e-11, ('central', 6): 4.2e-12,
                  ('forward', 2): 1.1e-6, ('forward', 4): 3.6e-9, ('forward', 6): 3.1e-10,
                  ('backward', 2): 9.6e-7, ('backward', 4): 4.5e-9, ('backward', 6): 3.9e-10}

# worst |Hessdiag - diag Q| / scale for quadratic f on the unchanged tree with MinStepGenerator(step_ratio=2) ('min2') and
# MinStepGenerator(base_step=0.01, step_ratio=2) ('min2b'), 9600 cases; the envelope is 30 x these
QUAD_WORST = {('backward', 2, 'min2'): 3.6e-07, ('backward', 2, 'min2b'): 2.0e-11, ('backward', 4, 'min2'): 8.7e-10,
              ('backward', 4, 'min2b'): 3.2e-11, ('backward', 6, 'min2'): 3.6e-11, ('backward', 6, 'min2b'): 3.6e-11,
              ('central', 2, 'min2'): 2.3e-07, ('central', 2, 'min2b'): 1.3e-11, ('central', 4, 'min2'): 6.5e-11,
              ('central', 4, 'min2b'): 1.7e-11, ('central', 6, 'min2'): 2.8e-12, ('central', 6, 'min2b'): 1.8e-11,
              ('central2', 2, 'min2'): 1.7e-07, ('central2', 2, 'min2b'): 1.2e-11, ('complex', 2, 'min2'): 4.9e-13,
              ('complex', 2, 'min2b'): 2.4e-14, ('forward', 2, 'min2'): 4.4e-07, ('forward', 2, 'min2b'): 3.4e-11,
              ('forward', 4, 'min2'): 9.1e-10, ('forward', 4, 'min2b'): 5.3e-11, ('forward', 6, 'min2'): 4.6e-11,
              ('forward', 6, 'min2b'): 6.0e-11, ('multicomplex', 2, 'min2'): 1.0e-15, ('multicomplex', 2, 'min2b'): 1.0e-15}

# worst |Hessian - exact| / scale on the unchanged tree with MinStepGenerator(base_step=0.01, step_ratio=2, num_steps=k), k = 2..5, smooth
# family, 3600 cases; the envelope is 20 x these (the number of Richardson terms that k steps allow decides the order of accuracy)
HESS_FEW_WORST = {('backward', 2): 1.3e-04, ('backward', 3): 2.5e-06, ('backward', 4): 2.0e-05, ('backward', 5): 6.9e-07,
                  ('central', 2): 2.6e-09, ('central', 3): 3.2e-12, ('central', 4): 3.2e-12, ('central', 5): 2.4e-10,
                  ('central2', 2): 4.8e-09, ('central2', 3): 1.2e-11, ('central2', 4): 1.2e-11, ('central2', 5): 7.2e-10,
                  ('forward', 2): 1.4e-04, ('forward', 3): 2.8e-06, ('forward', 4): 2.2e-05, ('forward', 5): 9.1e-06}

# worst error / scale of default-configured Hessian ('H/<method>') and Hessdiag ('D/<method>/<order>') on the unchanged tree, smooth family,
# 5400 cases; the envelope is 100 x these
HESS_DEFAULT_WORST = {'D/backward/2': 4.9e-09, 'D/backward/4': 3.8e-10, 'D/backward/6': 1.5e-10, 'D/central/2': 9.5e-12,
                      'D/central/4': 2.6e-12, 'D/central/6': 1.1e-12, 'D/complex/2': 6.6e-13, 'D/forward/2': 3.9e-09,
                      'D/forward/4': 2.8e-10, 'D/forward/6': 5.8e-11, 'D/multicomplex/2': 1.0e-15, 'H/backward': 3.0e-09,
                      'H/central': 1.4e-11, 'H/central2': 2.5e-11, 'H/complex': 1.5e-08, 'H/forward': 2.0e-09,
                      'H/multicomplex': 1.0e-15}


def run(ctx):
    import numdifftools as nd
    from numdifftools.finite_difference import HessianDifferenceFunctions as HDF
    from harness.translate import translator_obligations
    translator_obligations(ctx, ['LogHessianRule', 'HessCells.'])
    lean_obligations(ctx, MODULE, THEOREMS)
    rng = ctx.rng

    # ---------------- engine `hess.screen`: the outlier screen treats the entries of the Hessian independently -------------------------
    # (theorem bestEstimate_columnwise: the model's screen works on one column at a time; here the implementation's screen on a table
    # (steps x entries) with NaN rows — a function that is undefined at the largest steps — against the same screen on each column alone)
    engs = ctx.engine('hess.screen')
    try:
        from numdifftools.limits import _Limit as _L
        screen = _L._add_error_to_outliers
    except (ImportError, AttributeError):
        screen = None
        ctx.notes.append('attachment point _Limit._add_error_to_outliers not found: engine hess.screen skipped')
    for _ in range(ctx.budget(60, 600) if screen is not None else 0):
        nr, nc = rng.randint(3, 12), rng.randint(2, 6)
        mags = [10.0 ** rng.uniform(-3, 3) * rng.choice([-1, 1]) for _ in range(nc)]
        der = np.array([[mags[j] * (1 + rng.choice([1e-9, 1e-3, 0.3, 5.0]) * rng.uniform(-1, 1)) for j in range(nc)] for _ in range(nr)])
        for j in range(nc):
            if rng.random() < 0.6:
                der[:rng.randint(1, nr - 1), j] = np.nan          # the largest steps left the domain for this entry
        engs['cases'] += 1
        ctx.count('hess.screen', 'nan-rows' if np.isnan(der).any() else 'finite')
        try:
            with warnings.catch_warnings():
                warnings.simplefilter('ignore')
                whole = np.asarray(screen(der.copy()))
                alone = np.column_stack([np.asarray(screen(der[:, [j]].copy()))[:, 0] for j in range(nc)])
        except Exception as ex:
            ctx.mismatch('hess.screen', der.tolist(), 'raised %r' % ex, 'column by column')
            continue
        if whole.shape == alone.shape and np.array_equal(whole, alone, equal_nan=True):
            engs['exact'] += 1
        else:
            ctx.mismatch('hess.screen', der.tolist(), whole.tolist(), alone.tolist(), 'penalties of the table vs penalties column by column')
    # ---------------- engine `hess.cells`: the real-step difference functions on dyadic data vs the Rat model (exact) ------------
    eng = ctx.engine('hess.cells')
    cases = []
    for _ in range(ctx.budget(120, 1200)):
        n = rng.randint(1, 3)
        name = rng.choice(['_forward', '_backward', '_central_even', '_central2', '_complex_even', '_multicomplex2'])
        monos = []
        for _m in range(rng.randint(1, 5)):
            es = [rng.randint(0, 3) for _ in range(n)]
            monos.append((rng.randint(-4, 4), es))
        x = [Fraction(rng.randint(-8, 8), 8) for _ in range(n)]
        h = [Fraction(1, 2 ** rng.randint(1, 4)) for _ in range(n)]
        cases.append((name, n, monos, x, h))
    lines = ['hesscell %s %d | %s | %s | %s' % (nm, n, ' '.join(q2s(v) for v in x), ' '.join(q2s(v) for v in h),
                                                ' '.join('%d:%s' % (c, ','.join(map(str, es))) for c, es in monos))
             for nm, n, monos, x, h in cases]
    out = run_driver(lines, 'C04c')
    for (nm, n, monos, x, h), line in zip(cases, out):
        eng['cases'] += 1
        ctx.count('hess.cells', nm)
        f = lambda t: sum(c * np.prod([t[k] ** e for k, e in enumerate(es)]) for c, es in monos)
        xf, hf = np.array([float(v) for v in x]), np.array([float(v) for v in h])
        H = getattr(HDF, nm)(f, f(xf), xf, hf)
        model = [s2q(t) for t in line.split()]
        impl = [Fraction(float(v)) for v in np.ravel(H)]
        if impl == model:
            eng['exact'] += 1
        else:
            ctx.mismatch('hess.cells', [nm, n, str(monos), list(map(str, x)), list(map(str, h))], list(map(str, impl)), list(map(str, model)))
        if not np.array_equal(H, H.T):
            ctx.violation('per-step Hessian matrix is not symmetric', function=nm, n=n)
    ctx.sample({'engine': 'hess.cells', 'line': lines[0], 'model': out[0]})

    # ---------------- failing-input search ------------------------------------------------------------------------------------------
    ctx.search['rule'] = ('n 1..6; f = c + g.x + x\'Qx/2 (exact to rounding required) and f = exp(a.x) + sin(b.x) + x\'Qx/2 + products with analytic '
                          'Hessian; all six methods; Hessdiag orders 2, 4, 6; f returning a length-1 array; complex-valued f with real-step methods; '
                          'user step generators; checks: exact symmetry (H == H.T bitwise), entries within 1000 x error estimate + floor, Hessdiag vs '
                          'the Hessian diagonal within their error estimates; distinct = distinct (n, method, data)')
    # other objects exist in the same process: built with keyword step options of their own (scalar step, few steps, another ratio) and
    # used before anything below is built.  They must not change what a default-configured object does afterwards.
    with warnings.catch_warnings():
        warnings.simplefilter('ignore')
        try:
            _q = lambda t: float(np.sum(t * t))
            nd.Hessian(_q, step=1e-2, num_steps=6)(np.array([0.5, 1.0]))
            nd.Hessdiag(_q, step=0.05, step_ratio=3.0, num_steps=5)(np.array([0.5, 1.0]))
            nd.Hessian(_q, method='forward', step=1e-3, num_steps=4, offset=1)(np.array([0.5, 1.0]))
        except Exception as ex:
            ctx.violation('Hessian / Hessdiag with keyword step options raised %r' % ex)
    worst_few = 0.0
    for it in range(ctx.budget(120, 1500) * (2 if (ctx.broken or ctx.mismatches) else 1)):
        n = rng.randint(1, 6)
        meth = rng.choice(METHODS)
        x = np.array([rng.uniform(-1.5, 1.5) for _ in range(n)])
        Q = np.array([[rng.randint(-8, 8) / 4 for _ in range(n)] for _ in range(n)])
        Q = (Q + Q.T) / 2
        g = np.array([rng.randint(-8, 8) / 4 for _ in range(n)])
        a, b = np.array([rng.uniform(-1, 1) for _ in range(n)]), np.array([rng.uniform(-1, 1) for _ in range(n)])
        kind = rng.choice(['quadratic', 'quadratic', 'smooth', 'len1', 'complexvalued'])
        if kind == 'complexvalued' and meth in ('complex', 'multicomplex'):
            kind = 'smooth'
        ctx.tried((n, meth, kind, tuple(x[:2])))
        rep = dict(n=n, method=meth, kind=kind, x=x.tolist())
        quad = lambda t: 1.5 + np.dot(g, t) + 0.5 * np.dot(t, Q @ t)
        if kind == 'quadratic':
            f, exact = quad, Q
        elif kind == 'len1':
            f, exact = (lambda t: np.array([quad(t)])), Q
        elif kind == 'complexvalued':
            f, exact = (lambda t: (1 + 2j) * quad(t)), (1 + 2j) * Q
        else:
            f = lambda t: np.exp(np.dot(a, t)) + np.sin(np.dot(b, t)) + 0.5 * np.dot(t, Q @ t) + np.dot(a, t) * np.dot(b, t)
            exact = np.exp(a @ x) * np.outer(a, a) - np.sin(b @ x) * np.outer(b, b) + Q + np.outer(a, b) + np.outer(b, a)
        kw = {}
        few_steps = False
        if rng.random() < 0.2:
            from numdifftools.step_generators import MinStepGenerator, MaxStepGenerator
            kw['step'] = MaxStepGenerator(base_step=0.5, num_steps=12) if meth not in ('complex', 'multicomplex') else MinStepGenerator(num_extrap=4)
        elif meth in ('complex', 'multicomplex') and kind == 'smooth' and rng.random() < 0.6:
            # three moderate steps: the cancellation-free formulas plus the paired Richardson stage must then deliver close to full
            # accuracy (unchanged tree: below 1e-12 of the scale), whatever the error estimate says
            from numdifftools.step_generators import MinStepGenerator
            kw['step'] = MinStepGenerator(base_step=0.01, step_ratio=2.0, num_steps=3)
            few_steps = True
        try:
            with warnings.catch_warnings():
                warnings.simplefilter('ignore')
                H, info = nd.Hessian(f, method=meth, full_output=True, **kw)(x)
        except Exception as ex:
            ctx.violation('Hessian raised %r' % ex, **rep)
            continue
        if H.shape != (n, n):
            ctx.violation('Hessian shape is not (n, n)', got=list(H.shape), **rep)
            continue
        ctx.keep('Hessian', H, **rep)
        # the value does not depend on whether the record is requested
        try:
            with warnings.catch_warnings():
                warnings.simplefilter('ignore')
                H_plain = nd.Hessian(f, method=meth, **kw)(x)
        except Exception as ex:
            ctx.violation('Hessian (full_output=False) raised %r' % ex, **rep)
            continue
        if np.shape(H_plain) != (n, n) or not np.all((H_plain == H) | ((H_plain != H_plain) & (H != H))):
            ctx.violation('Hessian returns a different value without full_output', with_record=str(H.tolist()), without=str(np.asarray(H_plain).tolist()), **rep)
            continue
        if not np.array_equal(H, H.T):
            ctx.violation('Hessian is not exactly symmetric', H=str(H.tolist()), **rep)
            continue
        err = np.abs(H - exact)
        est = np.abs(np.asarray(info.error_estimate)).reshape(n, n)
        scale = 1 + np.abs(exact).max() + np.abs(g).max()
        if kind in ('quadratic', 'len1', 'complexvalued'):
            bound = 1e-6 * scale if meth in ('forward', 'backward', 'complex') else 1e-8 * scale
        elif few_steps:
            bound = 1e-9 * scale
            worst_few = max(worst_few, float(np.max(err)) / scale)
        else:
            bound = 1000 * est + {'forward': 1e-3, 'backward': 1e-3}.get(meth, 1e-5) * scale
        if np.any(err > bound):
            ctx.violation('Hessian entry differs from the exact second derivative', got=str(H.tolist()), exact=str(np.asarray(exact).tolist()), **rep)
            continue
        # Hessdiag
        if kind != 'complexvalued':
            order = rng.choice([2, 4, 6])
            try:
                with warnings.catch_warnings():
                    warnings.simplefilter('ignore')
                    hd, hi = nd.Hessdiag(f, method=meth, order=order, full_output=True)(x)
            except Exception as ex:
                ctx.violation('Hessdiag raised %r' % ex, order=order, **rep)
                continue
            if np.shape(hd) != (n,):
                ctx.violation('Hessdiag shape is not (n,)', got=list(np.shape(hd)), **rep)
                continue
            with warnings.catch_warnings():
                warnings.simplefilter('ignore')
                hd_plain = nd.Hessdiag(f, method=meth, order=order)(x)
            if np.shape(hd_plain) != (n,) or not np.all((hd_plain == hd) | ((hd_plain != hd_plain) & (hd != hd))):
                ctx.violation('Hessdiag returns a different value without full_output', order=order, with_record=hd.tolist(),
                              without=np.asarray(hd_plain).tolist(), **rep)
                continue
            dexact = np.real(np.diag(exact))
            tol = 1000 * (np.abs(hi.error_estimate) + np.diag(est)) + {'forward': 1e-3, 'backward': 1e-3}.get(meth, 1e-5) * scale
            if np.any(np.abs(hd - dexact) > tol) or np.any(np.abs(hd - np.real(np.diag(H))) > 2 * tol):
                ctx.violation('Hessdiag differs from the Hessian diagonal', order=order, hessdiag=hd.tolist(), diagonal=dexact.tolist(), **rep)
    # ---- Hessdiag for every supported order with a user step generator that serves all of them (the loop `for order in (2, 4, 6)` a
    # user writes with one MinStepGenerator): calibrated accuracy envelope per (method, order) = 100 x the worst error / scale seen on
    # the unchanged tree over 2400 random cases of this family (tools: /verif/DESIGN.md section 0.4), fresh generator or shared one alike
    from numdifftools.step_generators import MinStepGenerator, MaxStepGenerator
    worst_hd = {}
    for it in range(ctx.budget(60, 600)):
        n = rng.randint(1, 6)
        meth = rng.choice(['central', 'forward', 'backward'])
        x = np.array([rng.uniform(-1.5, 1.5) for _ in range(n)])
        Q = np.array([[rng.randint(-8, 8) / 4 for _ in range(n)] for _ in range(n)])
        Q = (Q + Q.T) / 2
        g = np.array([rng.randint(-8, 8) / 4 for _ in range(n)])
        a, b = np.array([rng.uniform(-1, 1) for _ in range(n)]), np.array([rng.uniform(-1, 1) for _ in range(n)])
        f = lambda t: np.exp(np.dot(a, t)) + np.sin(np.dot(b, t)) + 0.5 * np.dot(t, Q @ t) + np.dot(a, t) * np.dot(b, t)
        exact = np.exp(a @ x) * np.outer(a, a) - np.sin(b @ x) * np.outer(b, b) + Q + np.outer(a, b) + np.outer(b, a)
        scale = 1 + np.abs(exact).max() + np.abs(g).max()
        gopt = rng.choice([{}, {'step_ratio': 2.0}])
        shared = MinStepGenerator(**gopt)
        orders = [2, 4, 6]
        rng.shuffle(orders)
        ctx.tried(('hessdiag-orders', n, meth, tuple(x[:2]), tuple(orders)))
        for order in orders:
            try:
                with warnings.catch_warnings():
                    warnings.simplefilter('ignore')
                    hd = nd.Hessdiag(f, method=meth, order=order, step=shared)(x)
            except Exception as ex:
                ctx.violation('Hessdiag with a user step generator raised %r' % ex, order=order, method=meth, n=n, x=x.tolist())
                break
            e = float(np.max(np.abs(hd - np.diag(exact)))) / scale
            worst_hd[(meth, order)] = max(worst_hd.get((meth, order), 0.0), e / HESSDIAG_WORST[(meth, order)])
            if e > 100 * HESSDIAG_WORST[(meth, order)]:
                ctx.violation('Hessdiag (one MinStepGenerator serving the orders %s in turn) is outside the accuracy envelope of its order' % orders,
                              order=order, method=meth, n=n, x=x.tolist(), generator_options=gopt, error_over_scale=e,
                              envelope=100 * HESSDIAG_WORST[(meth, order)], a=a.tolist(), b=b.tolist(), Q=Q.tolist(), hessdiag=hd.tolist(),
                              exact=np.diag(exact).tolist())
                break
    # ---- one generator with a per-variable base step (an ndarray the caller owns) serving Hessian and Hessdiag repeatedly at points with
    # |x_i| > e - 1 (nominal step log1p|x_i| > 1): every repetition returns what the first evaluation returned, bit for bit, the caller's
    # array is left alone (accuracy then is that of the first evaluation, which the other families bound)
    for it in range(ctx.budget(30, 300)):
        n = rng.randint(1, 4)
        meth = rng.choice(['central', 'forward', 'backward'])
        x = np.array([rng.choice([-1, 1]) * rng.uniform(1.8, 6.0) if rng.random() < 0.7 else rng.uniform(-1.5, 1.5) for _ in range(n)])
        a, b = np.array([rng.uniform(-0.3, 0.3) for _ in range(n)]), np.array([rng.uniform(-1, 1) for _ in range(n)])
        f = lambda t: np.exp(np.dot(a, t)) + np.sin(np.dot(b, t)) + np.dot(a, t) * np.dot(b, t)
        exact = np.exp(a @ x) * np.outer(a, a) - np.sin(b @ x) * np.outer(b, b) + np.outer(a, b) + np.outer(b, a)
        scale = 1 + np.abs(exact).max()
        user = np.array([rng.choice([0.01, 0.02, 0.005]) for _ in range(n)])
        keep = user.copy()
        gcls = rng.choice([MinStepGenerator, MinStepGenerator, MaxStepGenerator])
        shared = gcls(base_step=user, step_ratio=2.0, num_steps=rng.choice([3, 4])) if gcls is MinStepGenerator else \
            gcls(base_step=user * 50, step_ratio=2.0, num_steps=8)
        ctx.tried(('array-base-step', n, meth, tuple(x[:2])))
        rep = dict(n=n, method=meth, x=x.tolist(), base_step=keep.tolist(), generator=gcls.__name__, a=a.tolist(), b=b.tolist())
        try:
            with warnings.catch_warnings():
                warnings.simplefilter('ignore')
                hobj, dobj = nd.Hessian(f, method=meth, step=shared), nd.Hessdiag(f, method=meth, step=shared)
                first_h, first_d = hobj(x), dobj(x)
                for _r in range(rng.randint(1, 5)):
                    last_d, last_h = dobj(x), hobj(x)
        except Exception as ex:
            ctx.violation('Hessian / Hessdiag with a per-variable base step raised %r' % ex, **rep)
            continue
        if not np.array_equal(user, keep):
            ctx.violation("the caller's base_step array was modified by Hessian / Hessdiag calls", now=user.tolist(), **rep)
        elif not (np.array_equal(first_h, last_h) and np.array_equal(first_d, last_d)):
            ctx.violation('a repeated Hessian / Hessdiag evaluation with the same generator differs from the first one',
                          first=np.ravel(first_h).tolist(), last=np.ravel(last_h).tolist(), first_diag=first_d.tolist(), last_diag=last_d.tolist(), **rep)
    # ---- a function whose domain ends close to x (c log x_k with x_k in 0.2 .. 0.6: the largest default steps give NaN for the entries that
    # involve x_k, the others are unaffected): worst error / (1 + max|H|) on the unchanged tree over 1200 cases: backward 6.1e-6, central
    # 3.9e-11; envelope 30 x that
    LOGB_WORST = {'backward': 6.2e-6, 'central': 4e-11}
    worst_lb = 0.0
    for it in range(ctx.budget(120, 1200)):
        n = rng.randint(2, 4)
        meth = rng.choice(['backward', 'central', 'backward'])
        a, b = np.array([rng.uniform(-1, 1) for _ in range(n)]), np.array([rng.uniform(-1.5, 1.5) for _ in range(n)])
        Q = np.array([[rng.randint(-8, 8) / 4 for _ in range(n)] for _ in range(n)])
        Q = (Q + Q.T) / 2
        k, c = rng.randrange(n), rng.uniform(0.5, 3)
        x = np.array([rng.uniform(0.5, 2) for _ in range(n)])
        x[k] = rng.uniform(0.2, 0.6)

        def f(t, a=a, b=b, Q=Q, k=k, c=c):
            with np.errstate(all='ignore'):
                return np.exp(a @ t) + np.sin(b @ t) + 0.5 * (t @ Q @ t) + c * np.log(t[k])
        exact = np.exp(a @ x) * np.outer(a, a) - np.sin(b @ x) * np.outer(b, b) + Q
        exact[k, k] -= c / x[k] ** 2
        ctx.tried(('log-boundary', n, meth, tuple(x[:2])))
        rep = dict(n=n, method=meth, x=x.tolist(), a=a.tolist(), b=b.tolist(), Q=Q.tolist(), log_term=[k, c])
        try:
            with warnings.catch_warnings():
                warnings.simplefilter('ignore')
                H = nd.Hessian(f, method=meth)(x)
        except Exception as ex:
            ctx.violation('Hessian raised %r on a function that is undefined at the largest steps' % ex, **rep)
            continue
        e = float(np.max(np.abs(H - exact))) / (1 + float(np.abs(exact).max()))
        worst_lb = max(worst_lb, e / LOGB_WORST[meth])
        if not np.array_equal(H, H.T):
            ctx.violation('Hessian is not exactly symmetric', hessian=H.tolist(), **rep)
        elif not e <= 30 * LOGB_WORST[meth]:
            ctx.violation('Hessian of a function whose domain ends close to x (NaN at the largest steps) is outside the accuracy envelope',
                          hessian=np.ravel(H).tolist(), exact=np.ravel(exact).tolist(), error_over_scale=e, envelope=30 * LOGB_WORST[meth], **rep)
    ctx.notes.append('Hessian next to the boundary of the domain: worst error / calibrated worst = %.3g (envelope 30)' % worst_lb)
    # ---- default configuration (no step argument at all): what most users run; calibrated envelope per method / order
    worst_d = 0.0
    for it in range(ctx.budget(60, 600)):
        n = rng.randint(1, 6)
        meth = rng.choice(METHODS)
        x = np.array([rng.uniform(-1.5, 1.5) for _ in range(n)])
        Q = np.array([[rng.randint(-8, 8) / 4 for _ in range(n)] for _ in range(n)])
        Q = (Q + Q.T) / 2
        g = np.array([rng.randint(-8, 8) / 4 for _ in range(n)])
        a, b = np.array([rng.uniform(-1, 1) for _ in range(n)]), np.array([rng.uniform(-1, 1) for _ in range(n)])
        f = lambda t: np.exp(np.dot(a, t)) + np.sin(np.dot(b, t)) + 0.5 * np.dot(t, Q @ t) + np.dot(a, t) * np.dot(b, t)
        exact = np.exp(a @ x) * np.outer(a, a) - np.sin(b @ x) * np.outer(b, b) + Q + np.outer(a, b) + np.outer(b, a)
        scale = 1 + np.abs(exact).max() + np.abs(g).max()
        ctx.tried(('hessian-default', n, meth, tuple(x[:2])))
        try:
            with warnings.catch_warnings():
                warnings.simplefilter('ignore')
                H = nd.Hessian(f, method=meth)(x)
                key, e = 'H/' + meth, float(np.max(np.abs(H - exact))) / scale
                if meth != 'central2' and rng.random() < 0.5:
                    order = rng.choice([2, 4, 6]) if meth in ('central', 'forward', 'backward') else 2
                    hd = nd.Hessdiag(f, method=meth, order=order)(x)
                    key, e = 'D/%s/%d' % (meth, order), float(np.max(np.abs(hd - np.diag(exact)))) / scale
        except Exception as ex:
            ctx.violation('default-configured Hessian / Hessdiag raised %r' % ex, method=meth, n=n, x=x.tolist())
            continue
        env = 100 * max(HESS_DEFAULT_WORST[key], 1e-14)
        worst_d = max(worst_d, e / env)
        if e > env:
            ctx.violation('default-configured %s is outside the accuracy envelope of its method' % ('Hessian' if key[0] == 'H' else 'Hessdiag'),
                          which=key, method=meth, n=n, x=x.tolist(), error_over_scale=e, envelope=env, a=a.tolist(), b=b.tolist(), Q=Q.tolist())
    ctx.notes.append('default-configured Hessian / Hessdiag: worst error / envelope = %.3g' % worst_d)
    # ---- real-step Hessians from very few user steps: with k steps the pass-through rule leaves k estimates to the Richardson stage, and the
    # accuracy jumps by an order of h with every term it can use
    worst_f = 0.0
    for it in range(ctx.budget(60, 600)):
        n = rng.randint(1, 6)
        meth = rng.choice(['forward', 'backward', 'central', 'central2'])
        x = np.array([rng.uniform(-1.5, 1.5) for _ in range(n)])
        Q = np.array([[rng.randint(-8, 8) / 4 for _ in range(n)] for _ in range(n)])
        Q = (Q + Q.T) / 2
        g = np.array([rng.randint(-8, 8) / 4 for _ in range(n)])
        a, b = np.array([rng.uniform(-1, 1) for _ in range(n)]), np.array([rng.uniform(-1, 1) for _ in range(n)])
        f = lambda t: np.exp(np.dot(a, t)) + np.sin(np.dot(b, t)) + 0.5 * np.dot(t, Q @ t) + np.dot(a, t) * np.dot(b, t)
        exact = np.exp(a @ x) * np.outer(a, a) - np.sin(b @ x) * np.outer(b, b) + Q + np.outer(a, b) + np.outer(b, a)
        scale = 1 + np.abs(exact).max() + np.abs(g).max()
        ns = rng.choice([2, 3, 3, 4, 5])
        ctx.tried(('hessian-few-steps', n, meth, ns, tuple(x[:2])))
        try:
            with warnings.catch_warnings():
                warnings.simplefilter('ignore')
                H = nd.Hessian(f, method=meth, step=MinStepGenerator(base_step=0.01, step_ratio=2.0, num_steps=ns))(x)
        except Exception as ex:
            ctx.violation('Hessian with %d user steps raised %r' % (ns, ex), method=meth, n=n, x=x.tolist())
            continue
        e = float(np.max(np.abs(H - exact))) / scale
        env = 20 * HESS_FEW_WORST[(meth, ns)]
        worst_f = max(worst_f, e / env)
        if not np.array_equal(H, H.T):
            ctx.violation('Hessian is not exactly symmetric', method=meth, n=n, x=x.tolist(), num_steps=ns)
        elif e > env:
            ctx.violation('Hessian from %d user steps (0.01, ratio 2) is outside the accuracy envelope of (%s, %d steps)' % (ns, meth, ns),
                          method=meth, n=n, x=x.tolist(), error_over_scale=e, envelope=env, a=a.tolist(), b=b.tolist(), Q=Q.tolist())
    ctx.notes.append('real-step Hessians from 2..5 user steps: worst error / envelope = %.3g' % worst_f)
    # the order of accuracy itself: halving the steps of a one-sided Hessian divides the error by 2^p, p = 1 + the number of Richardson
    # terms the k steps allow (k = 2: p = 2, k = 3: p = 3); the median ratio over the cases is asserted (unchanged tree: 4.00 and 8.00,
    # no single case below 2.4 resp. 5.7 in 1200), and the case with the smallest ratio is the replay
    ratios = {2: [], 3: []}
    for it in range(ctx.budget(40, 300)):
        n = rng.randint(1, 5)
        meth = rng.choice(['forward', 'backward'])
        x = np.array([rng.uniform(-1.5, 1.5) for _ in range(n)])
        Q = np.array([[rng.randint(-8, 8) / 4 for _ in range(n)] for _ in range(n)])
        Q = (Q + Q.T) / 2
        a, b = np.array([rng.uniform(-1, 1) for _ in range(n)]), np.array([rng.uniform(-1, 1) for _ in range(n)])
        f = lambda t: np.exp(np.dot(a, t)) + np.sin(np.dot(b, t)) + 0.5 * np.dot(t, Q @ t) + np.dot(a, t) * np.dot(b, t)
        exact = np.exp(a @ x) * np.outer(a, a) - np.sin(b @ x) * np.outer(b, b) + Q + np.outer(a, b) + np.outer(b, a)
        ns = rng.choice([2, 3, 3])
        errs = []
        try:
            with warnings.catch_warnings():
                warnings.simplefilter('ignore')
                for h0 in (0.04, 0.02):
                    H = nd.Hessian(f, method=meth, step=MinStepGenerator(base_step=h0 / 2 ** (ns - 1), step_ratio=2.0, num_steps=ns))(x)
                    errs.append(float(np.max(np.abs(H - exact))))
        except Exception as ex:
            ctx.violation('Hessian with %d user steps raised %r' % (ns, ex), method=meth, n=n, x=x.tolist())
            continue
        ctx.tried(('hessian-order', n, meth, ns, tuple(x[:2])))
        if errs[0] > 1e-8 and errs[1] > 0:
            ratios[ns].append((errs[0] / errs[1], dict(method=meth, n=n, x=x.tolist(), a=a.tolist(), b=b.tolist(), Q=Q.tolist(), errors=errs)))
    for ns, want in ((2, 3.0), (3, 6.0)):
        if len(ratios[ns]) >= 8:
            rs = sorted(r for r, _ in ratios[ns])
            med = rs[len(rs) // 2]
            ctx.notes.append('one-sided Hessian from %d steps: median error ratio under step halving %.2f over %d cases (expected %d)' % (ns, med, len(rs), 2 ** ns))
            if med < want:
                ctx.violation('halving the steps of a forward / backward Hessian built from %d steps divides the error by a median factor %.2f only '
                              '(order of accuracy %d expected: factor %d)' % (ns, med, ns, 2 ** ns), num_steps=ns,
                              **min(ratios[ns], key=lambda t: t[0])[1])
    # ---- quadratics through Hessdiag with small user steps of ratio exactly 2 (every supported order is exact on a quadratic, so what
    # remains is rounding: eps |f| / h^2 and the accuracy of the rule's cancellation of the f' h term)
    worst_q = 0.0
    for it in range(ctx.budget(60, 600)):
        n = rng.randint(1, 6)
        meth = rng.choice(['central', 'forward', 'backward', 'forward', 'backward', 'central2', 'complex', 'multicomplex'])
        x = np.array([rng.uniform(-1.5, 1.5) for _ in range(n)])
        Q = np.array([[rng.randint(-8, 8) / 4 for _ in range(n)] for _ in range(n)])
        Q = (Q + Q.T) / 2
        g = np.array([rng.randint(-8, 8) / 4 for _ in range(n)])
        f = lambda t: 1.5 + np.dot(g, t) + 0.5 * np.dot(t, Q @ t)
        scale = 1 + np.abs(Q).max() + np.abs(g).max()
        order = rng.choice([2, 4, 6]) if meth in ('central', 'forward', 'backward') else 2
        gk = rng.choice(['min2', 'min2b'])
        gen = MinStepGenerator(step_ratio=2.0) if gk == 'min2' else MinStepGenerator(base_step=0.01, step_ratio=2.0)
        ctx.tried(('hessdiag-quadratic', n, meth, order, gk, tuple(x[:2])))
        try:
            with warnings.catch_warnings():
                warnings.simplefilter('ignore')
                hd = nd.Hessdiag(f, method=meth, order=order, step=gen)(x)
        except Exception as ex:
            ctx.violation('Hessdiag of a quadratic raised %r' % ex, order=order, method=meth, n=n, x=x.tolist())
            continue
        e = float(np.max(np.abs(hd - np.diag(Q)))) / scale
        env = 30 * max(QUAD_WORST[(meth, order, gk)], 1e-14)
        worst_q = max(worst_q, e / env)
        if e > env:
            ctx.violation('Hessdiag of a quadratic (user MinStepGenerator with step ratio 2) is outside the rounding envelope of its order',
                          order=order, method=meth, n=n, x=x.tolist(), generator=gk, error_over_scale=e, envelope=env, g=g.tolist(), Q=Q.tolist(),
                          hessdiag=hd.tolist())
    ctx.notes.append('Hessdiag of quadratics with ratio-2 user steps: worst error / envelope = %.3g' % worst_q)
    if worst_hd:
        ctx.notes.append('Hessdiag with a shared MinStepGenerator: worst error / calibrated worst = %.3g (envelope 100)' % max(worst_hd.values()))
    ctx.notes.append('few-step complex / bicomplex Hessians: worst error / scale = %.3g (bound 1e-9)' % worst_few)
    ctx.assumptions.append('the complex (Ridout eq. 10) and bicomplex Hessian formulas are covered by the search only; rounding is not modelled')


def replay(ctx, path):
    print(json.dumps(json.load(open(path)), indent=1)[:4000])
    return 0
