"""C07 — Richardson extrapolation removes exactly the modelled error terms."""
import cmath
import json
import os
import math
from fractions import Fraction

import numpy as np

from harness.translate import translator_obligations
from harness.common import f2hex, hex2f, q2s, s2q, run_driver, lean_obligations, ulps

MODULE = 'Ndt.Props.C07'
THEOREMS = ['Ndt.richRule_length', 'Ndt.richCall_length', 'Ndt.richCall_nonempty', 'Ndt.richTerms_le',
            'Ndt.richRule_moments', 'Ndt.richCall_getElem?', 'Ndt.richardson_annihilates',
            'Ndt.richardson_columnwise', 'Ndt.richNodes_nodup_real', 'Ndt.richNodes_nodup_complex',
            'Ndt.richErrShort_nonneg', 'Ndt.richFact_nonneg', 'Ndt.richErrMain_nonneg', 'Ndt.maxNrm_nonneg', 'Ndt.richErrMain_nonneg_real', 'Ndt.richErr_nonneg_complex',
            'Ndt.evalP_lagrangeCoeffs', 'Ndt.correlate_getElem']
EPS = 2.0 ** -52
C_ROUND = 64.0
COND_LIMIT = 1e-3 / EPS


def gen_cfg(rng, allow_complex=True):
    kind = rng.random()
    if kind < 0.2:
        rho = rng.choice([2.0, 1.6, 4.0, 1.25, 3.0, 10.0])
    elif kind < 0.7:
        rho = rng.uniform(1.05, 10) if rng.random() < 0.8 else rng.uniform(10, 100)
    else:
        rho = 1.05 + 10 ** rng.uniform(-1, 1.9)
    if allow_complex and rng.random() < 0.25:
        rho = cmath.rect(rho, rng.uniform(-math.pi, math.pi))
    step = rng.randint(1, 4)
    order = rng.randint(1, 8)
    nt = rng.randint(0, 5)
    length = rng.randint(1, 20)
    return rho, step, order, nt, length


def r_matrix_cond(rho, step, order, nt):
    i = np.arange(nt + 1)[:, None]
    j = np.arange(nt)[None, :]
    r = np.ones((nt + 1, nt + 1), dtype=complex if isinstance(rho, complex) else float)
    r[:, 1:] = (1.0 / rho) ** (i * (step * j + order))
    return np.linalg.cond(r)


def qc(z):
    """exact Gaussian rational of a python complex/float"""
    z = complex(z)
    return Fraction(z.real), Fraction(z.imag)


def model_rule(cfgs, tag):
    lines = []
    for rho, step, order, nt, length in cfgs:
        if isinstance(rho, complex):
            lines.append('richrulec %s %s %d %d %d %d' % (q2s(Fraction(rho.real)), q2s(Fraction(rho.imag)), step, order, nt, length))
        else:
            lines.append('richrule %s %d %d %d %d' % (q2s(Fraction(rho)), step, order, nt, length))
    out = run_driver(lines, tag)
    res = []
    for (rho, *_), o in zip(cfgs, out):
        w = o.split()
        if isinstance(rho, complex):
            res.append([(s2q(w[2 * i]), s2q(w[2 * i + 1])) for i in range(len(w) // 2)])
        else:
            res.append([s2q(x) for x in w])
    return res


def run(ctx):
    from numdifftools import extrapolation as ex
    from numdifftools.extrapolation import Richardson
    translator_obligations(ctx, ['richerr.'])
    lean_obligations(ctx, MODULE, THEOREMS)
    rng = ctx.rng

    # ---------------- engine `richardson.rule`: float weights vs the exact closed form --------------
    cfgs = [gen_cfg(rng) for _ in range(ctx.budget(300, 3000))]
    cfgs += [(2.0, 1, 1, 2, 3), (1.6, 2, 2, 2, 15), (2.0, 4, 4, 2, 9), (4.0, 1, 1, 5, 33), (2.0, 1, 1, 0, 5), (2.0, 1, 1, 3, 1)]
    exact = model_rule(cfgs, 'C07r')
    eng = ctx.engine('richardson.rule')
    for cfg, wq in zip(cfgs, exact):
        rho, step, order, nt, length = cfg
        eng['cases'] += 1
        ctx.count('richardson.rule', 'complex' if isinstance(rho, complex) else 'real')
        w = Richardson(step_ratio=rho, step=step, order=order, num_terms=nt).rule(length)
        used = min(nt, length - 1)
        if len(w) != len(wq) or len(wq) != used + 1:
            ctx.mismatch('richardson.rule', list(map(str, cfg)), len(w), len(wq), 'rule length')
            continue
        if used == 0:
            ok = (w.tolist() == [1.0]) and (wq in ([Fraction(1)], [(Fraction(1), Fraction(0))]))
            eng['exact' if ok else 'mismatch'] += 1
            if not ok:
                ctx.mismatch('richardson.rule', list(map(str, cfg)), w.tolist(), str(wq))
            continue
        cond = r_matrix_cond(rho, step, order, used)
        if cond > COND_LIMIT:
            eng['skipped'] += 1
            ctx.count('richardson.rule', 'ill-conditioned (cond*eps>1e-3), not compared')
            continue
        if isinstance(rho, complex):
            wm = np.array([complex(float(a), float(b)) for a, b in wq])
        else:
            wm = np.array([float(a) for a in wq])
        err = np.max(np.abs(w - wm))
        bound = C_ROUND * EPS * (cond + 1) * max(np.max(np.abs(wm)), 1.0)
        if err <= bound:
            eng['rounded'] += 1
        else:
            ctx.mismatch('richardson.rule', list(map(str, cfg)), [str(x) for x in w], [str(x) for x in wm],
                         'err %.3g > bound %.3g' % (err, bound))
    ctx.sample({'engine': 'richardson.rule', 'cfg': [str(x) for x in cfgs[0]], 'model_weights': [str(x) for x in exact[0]]})

    # ---------------- engine `richardson.call`: dyadic sequences through __call__ --------------------
    eng = ctx.engine('richardson.call')
    captured = []
    orig = Richardson.__dict__.get('_estimate_error')
    have_private = orig is not None
    if have_private:
        f0 = orig.__func__ if isinstance(orig, staticmethod) else orig

        def spy(new_sequence, old_sequence, steps, rule):
            r = f0(new_sequence, old_sequence, steps, rule)
            captured.append((np.array(new_sequence), np.array(old_sequence), np.array(steps), np.array(rule), np.array(r)))
            return r
        Richardson._estimate_error = staticmethod(spy)
    err_queue = []
    try:
        call_cases = []
        for _ in range(ctx.budget(250, 2500)):
            rho, step, order, nt, length = gen_cfg(rng)
            ncols = rng.choice([1, 1, 2, 3, 5])
            cplx_seq = isinstance(rho, complex) or rng.random() < 0.1
            if cplx_seq:
                seq = np.array([[complex(rng.randint(-64, 64) / 8, rng.randint(-64, 64) / 8) for _c in range(ncols)] for _r in range(length)])
            else:
                seq = np.array([[rng.randint(-1024, 1024) / 16 for _c in range(ncols)] for _r in range(length)])
            # steps as callers pass them: positive (Derivative), negative (Limit from below), complex (Limit on a complex path)
            sgn = rng.choice([1.0, 1.0, -1.0])
            if isinstance(rho, complex) and rng.random() < 0.7:
                steps = np.array([[sgn * 0.5 / rho ** r] * ncols for r in range(length)])
            else:
                steps = np.array([[sgn * 2.0 ** (-r)] * ncols for r in range(length)])
            call_cases.append((rho, step, order, nt, length, ncols, seq, steps))
        lines, meta = [], []
        for (rho, step, order, nt, length, ncols, seq, steps) in call_cases:
            for c in range(ncols):
                col = seq[:, c]
                if isinstance(rho, complex) or np.iscomplexobj(seq):
                    a, b = qc(rho)
                    words = []
                    for z in col:
                        x, y = qc(z)
                        words += [q2s(x), q2s(y)]
                    lines.append('richcallc %s %s %d %d %d %s' % (q2s(a), q2s(b), step, order, nt, ' '.join(words)))
                    meta.append(True)
                else:
                    lines.append('richcall %s %d %d %d %s' % (q2s(Fraction(rho)), step, order, nt, ' '.join(q2s(Fraction(float(z))) for z in col)))
                    meta.append(False)
        out = run_driver(lines, 'C07c')
        k = 0
        for (rho, step, order, nt, length, ncols, seq, steps) in call_cases:
            eng['cases'] += 1
            used = min(nt, length - 1)
            ctx.count('richardson.call', 'len=%d' % min(length, 9) + ('+' if length > 9 else ''))
            ctx.count('richardson.call', 'terms_used=%d' % used)
            cols = []
            for c in range(ncols):
                w = out[k].split()
                if meta[k]:
                    cols.append([complex(float(s2q(w[2 * i])), float(s2q(w[2 * i + 1]))) for i in range(len(w) // 2)])
                else:
                    cols.append([float(s2q(x)) for x in w])
                k += 1
            model = np.array(cols).T if cols[0] else np.zeros((0, ncols))
            captured.clear()
            try:
                new, abserr, st = Richardson(step_ratio=rho, step=step, order=order, num_terms=nt)(seq, steps)
            except Exception as ex_:
                ctx.violation('Richardson.__call__ raised %r' % ex_, cfg=[str(rho), step, order, nt, length, ncols],
                              seq=str(seq.tolist()))
                continue
            if new.shape != (length - used, ncols) or model.shape != new.shape or st.shape != new.shape:
                ctx.mismatch('richardson.call', [str(rho), step, order, nt, length, ncols], list(new.shape), list(model.shape), 'shape')
                continue
            cond = r_matrix_cond(rho, step, order, used) if used else 1.0
            if cond > COND_LIMIT:
                eng['skipped'] += 1
                continue
            scale = np.max(np.abs(seq)) * (used + 1) * max(1.0, float(np.max(np.abs(model))) if model.size else 1.0)
            wmax = np.max(np.abs(Richardson(step_ratio=rho, step=step, order=order, num_terms=nt).rule(length)))
            bound = C_ROUND * EPS * (cond + 1) * max(wmax, 1.0) * max(scale, 1e-300)
            err = float(np.max(np.abs(new - model))) if model.size else 0.0
            if err == 0:
                eng['exact'] += 1
            elif err <= bound:
                eng['rounded'] += 1
            else:
                ctx.mismatch('richardson.call', [str(rho), step, order, nt, length, ncols, seq.tolist()],
                             new.tolist().__str__(), model.tolist().__str__(), 'err %.3g > bound %.3g' % (err, bound))
            # error estimates: Float model on the captured arguments (private attachment, optional)
            if have_private and captured:
                err_queue.append(captured[-1])
    finally:
        if have_private:
            Richardson._estimate_error = orig
    _check_err(ctx, err_queue)
    if not have_private:
        ctx.notes.append('engine richardson.err skipped: attachment point Richardson._estimate_error missing')

    # ---------------- failing-input search: the property on the implementation --------------------------
    ctx.search['rule'] = ('sequences L + sum_c a_c h_t^(order+spacing*c), h_t = h0*rho^-t, rho in (1.05,100] or complex '
                          'r*exp(i*theta), spacing 1..4, order 1..8, terms 0..5, lengths 1..20, 1..4 columns; exact '
                          'rational evaluation of the sequence rounded to float; each output compared with L within '
                          'C*eps*(cond+1)*sum|w||s|; weights sum to one; error estimates finite and >= 0; shapes. '
                          'Non-trivial: at least one term used; distinct = distinct configuration+data')
    budget = ctx.budget(600, 8000)
    if ctx.broken or ctx.mismatches:
        budget *= 3
    worst = 0.0
    shared_R = Richardson()
    for _ in range(budget):
        rho, step, order, nt, length = gen_cfg(rng)
        if rng.random() < 0.3:
            length = rng.choice([3, 4, 6])            # few distinct lengths, so that a re-configured object sees a length again
        used = min(nt, length - 1)
        ncols = rng.choice([1, 2, 3, 4])
        h0 = Fraction(rng.choice([1, 1, 2, 3]), rng.choice([1, 2, 4, 8]))
        cplx = isinstance(rho, complex)
        rq_ = qc(rho) if cplx else Fraction(rho)
        Ls, As = [], []
        for c in range(ncols):
            Ls.append(Fraction(rng.randint(-1000, 1000), rng.choice([1, 3, 7, 16])))
            As.append([Fraction(rng.randint(-100, 100), rng.choice([1, 2, 5])) for _ in range(used)])
        seq = np.zeros((length, ncols), dtype=complex if cplx else float)
        for t in range(length):
            for c in range(ncols):
                if cplx:
                    h = complex(h0) / rho ** t
                    seq[t, c] = complex(Ls[c]) + sum(complex(a) * h ** (order + step * j) for j, a in enumerate(As[c]))
                else:
                    h = h0 / rq_ ** t
                    seq[t, c] = float(Ls[c] + sum(a * h ** (order + step * j) for j, a in enumerate(As[c])))
        # the steps as a caller passes them: the actual h_t, which are negative for a limit from below and complex on a
        # complex path (Limit), positive real for Derivative
        sgn = rng.choice([1, 1, -1])
        if cplx:
            steps = np.array([[sgn * complex(h0) / rho ** t] * ncols for t in range(length)])
        else:
            steps = np.array([[sgn * float(h0) / float(rho) ** t] * ncols for t in range(length)])
        key = (str(rho), step, order, nt, length, ncols, str(Ls[0]))
        # half of the time one long-lived Richardson object is re-configured through its public attributes instead of a new one
        reused = rng.random() < 0.5
        # an integral ratio is passed as a Python int or a numpy integer half of the time (the type of a number is not part of its value)
        rho_arg = rho
        if not cplx and float(rho) == int(rho) and rng.random() < 0.5:
            rho_arg = rng.choice([int(rho), np.int64(int(rho))])
        if reused:
            R = shared_R
            R.step_ratio, R.step, R.order, R.num_terms = rho_arg, step, order, nt
        else:
            R = Richardson(step_ratio=rho_arg, step=step, order=order, num_terms=nt)
        # the documented alias `extrapolate` is the same operation as the call
        entry = 'extrapolate' if (hasattr(R, 'extrapolate') and rng.random() < 0.4) else '__call__'
        try:
            new, abserr, st = getattr(R, entry)(seq, steps)
            w = R.rule(length)
        except Exception as ex_:
            ctx.tried(key)
            ctx.violation('Richardson raised %r' % ex_, rho=str(rho), step=step, order=order, num_terms=nt, length=length)
            continue
        ctx.tried(key if used > 0 else None)
        rep = dict(rho=str(rho), rho_type=type(rho_arg).__name__, step=step, order=order, num_terms=nt, length=length, ncols=ncols,
                   L=[str(x) for x in Ls], a=[[str(x) for x in a] for a in As], h0=str(h0), object_reconfigured=reused,
                   entry_point=entry)
        ctx.keep('Richardson', new, **rep)
        if not cplx and rng.random() < 0.25:
            # the dtype of the sequence is not part of its value: the same whole numbers as an integer array (or the same values as
            # float32) must be mapped to what their float64 copy is mapped to
            big = float(np.max(np.abs(seq))) if np.all(np.isfinite(seq)) else float('inf')
            if big >= 1e30:
                continue
            alt = np.rint(seq).astype(rng.choice([np.int64, np.int32])) if (rng.random() < 0.6 and big < 1e9) else seq.astype(np.float32)
            try:
                new_a, err_a, _st = R(alt, steps)
                new_f, err_f, _st = R(alt.astype(np.float64), steps)
            except Exception as ex_:
                ctx.violation('Richardson raised %r on a sequence of dtype %s' % (ex_, alt.dtype), **rep)
                continue
            scale_a = float(np.max(np.abs(new_f))) + 1e-300
            if np.shape(new_a) != np.shape(new_f) or float(np.max(np.abs(np.asarray(new_a, dtype=float) - new_f))) > 1e-12 * scale_a or \
                    float(np.max(np.abs(np.asarray(err_a, dtype=float) - err_f))) > 1e-9 * (float(np.max(np.abs(err_f))) + 1e-300):
                ctx.violation('the result depends on the dtype of the sequence: an integer / float32 sequence is not mapped to what its float64 '
                              'copy is mapped to', dtype=str(alt.dtype), got=np.asarray(new_a, dtype=float).ravel()[:6].tolist(),
                              float64=new_f.ravel()[:6].tolist(), **rep)
                continue
        if new.shape[0] != length - used or new.shape[1:] != (ncols,):
            ctx.violation('number of outputs is not sequence length minus terms used', got=list(new.shape), **rep)
            continue
        cond = r_matrix_cond(rho, step, order, used) if used else 1.0
        if cond > COND_LIMIT:
            continue
        if abs(np.sum(w) - 1) > C_ROUND * EPS * (cond + 1) * max(1.0, np.max(np.abs(w))) * len(w):
            ctx.violation('weights do not sum to one', weights=[str(x) for x in w], **rep)
        if abserr.size and not (np.all(np.isfinite(abserr)) and np.all(np.imag(abserr) == 0) and np.all(np.real(abserr) >= 0)):
            ctx.violation('error estimate is not a finite non-negative real number', abserr=str(abserr.tolist())[:300],
                          steps_sign=sgn, **rep)
        for c in range(ncols):
            for t in range(new.shape[0]):
                mag = float(np.max(np.abs(w)) * np.sum(np.abs(seq[t:t + len(w), c])))
                # the float sequence carries the rounding of its own evaluation: eps * (|L| + sum|a h^k|)
                # measured on the unchanged tree (317 000 outputs, cond up to 1e12): |out - L| stays below 100 eps * mag whatever the condition
                # number is — the first row of the pseudo-inverse of this graded matrix is far more accurate than cond suggests — so the
                # conditioning factor is capped at 50 (x C_ROUND = 12 800 eps * mag, 150 x the worst value seen)
                bound = C_ROUND * EPS * min(cond + 1, 50.0) * max(mag, 1e-300)
                d = abs(new[t, c] - complex(Ls[c]) if cplx else new[t, c] - float(Ls[c]))
                worst = max(worst, d / bound)
                if os.environ.get('C07_LOG'):
                    open(os.environ['C07_LOG'], 'a').write('%r %r\n' % (float(cond), float(d / (EPS * max(mag, 1e-300)))))
                if d > bound:
                    ctx.violation('modelled error terms are not removed', column=c, slot=t, got=str(new[t, c]),
                                  error=float(d), bound=bound, cond=float(cond), **rep)
                    break
    ctx.notes.append('worst |out-L|/bound on this run: %.3g' % worst)
    ctx.assumptions.append('scipy.linalg.pinv is modelled by the exact inverse (Lagrange closed form); scipy.ndimage.convolve1d '
                           'by the correlation of DESIGN Appendix B; rounding is bounded by C*eps*cond, not proved')


def err_correspondence(ctx, ncases):
    """the `richardson.err` engine on its own (used by C02, whose theorems are about the same definitions): random configurations
    and sequences through Richardson.__call__, the arguments of _estimate_error captured, the Float model run on them"""
    from numdifftools.extrapolation import Richardson
    orig = Richardson.__dict__.get('_estimate_error')
    if orig is None:
        ctx.notes.append('engine richardson.err skipped: attachment point Richardson._estimate_error missing')
        return
    f0 = orig.__func__ if isinstance(orig, staticmethod) else orig
    captured = []

    def spy(new_sequence, old_sequence, steps, rule):
        r = f0(new_sequence, old_sequence, steps, rule)
        captured.append((np.array(new_sequence), np.array(old_sequence), np.array(steps), np.array(rule), np.array(r)))
        return r
    Richardson._estimate_error = staticmethod(spy)
    rng = ctx.rng
    try:
        for _ in range(ncases):
            rho, step, order, nt, length = gen_cfg(rng)
            ncols = rng.choice([1, 2, 3])
            if isinstance(rho, complex):
                seq = np.array([[complex(rng.uniform(-8, 8), rng.uniform(-8, 8)) for _c in range(ncols)] for _r in range(length)])
                steps = np.array([[rng.choice([1.0, -1.0]) * 0.5 / rho ** r] * ncols for r in range(length)])
            else:
                # a geometric transient plus noise, so that both `converged` outcomes occur
                L, a, q = rng.uniform(-5, 5), rng.uniform(-3, 3), rng.uniform(0, 0.9)
                seq = np.array([[L + a * q ** r * (1 if rng.random() < 0.8 else 0) + rng.choice([0.0, 1e-17, 1e-3]) * rng.uniform(-1, 1)
                                 for _c in range(ncols)] for r in range(length)])
                steps = np.array([[rng.choice([1.0, -1.0]) * 2.0 ** (-r)] * ncols for r in range(length)])
            try:
                Richardson(step_ratio=rho, step=step, order=order, num_terms=nt)(seq, steps)
            except Exception as ex_:
                ctx.violation('Richardson.__call__ raised %r' % ex_, cfg=[str(rho), step, order, nt, length, ncols])
    finally:
        Richardson._estimate_error = orig
    _check_err(ctx, captured)


def _cx_words(arr):
    out = []
    for z in np.asarray(arr, dtype=complex).ravel():
        out += [f2hex(z.real), f2hex(z.imag)]
    return ' '.join(out)


def _knife_edge(new, old, fact):
    """True when some `err <= tol` decision of the last branch is within rounding of flipping (the complex modulus of the
    model, sqrt(re^2+im^2), and numpy's hypot may differ in the last place)"""
    if new.shape[0] < 2:
        return False
    err = np.abs(np.diff(new, axis=0)) * fact
    tol = np.maximum(np.abs(new[1:]), np.abs(new[:-1])) * EPS * fact
    return bool(np.any(np.abs(err - tol) <= 1e-13 * np.maximum(err, tol)) and np.any(err != tol))


def _check_err(ctx, queue):
    if not queue:
        return
    eng = ctx.engine('richardson.err')
    cplx_flags = [any(np.iscomplexobj(a) for a in cap[:4]) for cap in queue]
    facts = run_driver([('richfactc %s %s' % (f2hex(EPS), _cx_words(cap[3]))) if cf else
                        ('richfact %s %s' % (f2hex(EPS), ' '.join(f2hex(x) for x in cap[3]))) for cap, cf in zip(queue, cplx_flags)], 'C07f')
    lines, shapes = [], []
    for cap, fh, cf in zip(queue, facts, cplx_flags):
        new, old, steps, rule, ret = cap
        new = new.reshape(new.shape[0], -1)
        old = old.reshape(old.shape[0], -1)
        steps = np.asarray(steps).reshape(np.shape(steps)[0], -1)
        for c in range(new.shape[1]):
            if cf:
                lines.append('richerrc %s %s | %s | %s | %s' % (f2hex(EPS), fh, _cx_words(new[:, c]), _cx_words(old[:, c]), _cx_words(steps[:, c])))
            else:
                lines.append('richerr %s %s | %s | %s | %s' % (
                    f2hex(EPS), fh, ' '.join(f2hex(x) for x in new[:, c]), ' '.join(f2hex(x) for x in old[:, c]),
                    ' '.join(f2hex(x) for x in steps[:, c])))
        shapes.append(new.shape[1])
    out = run_driver(lines, 'C07e')
    k = 0
    for cap, ncols, cf, fh in zip(queue, shapes, cplx_flags, facts):
        new, old, steps, rule, ret = cap
        model = np.array([[hex2f(x) for x in o.split()] for o in out[k:k + ncols]]).T
        k += ncols
        eng['cases'] += 1
        ctx.count('richardson.err', 'complex' if cf else 'real')
        ctx.count('richardson.err', 'short branch' if old.shape[0] < 2 else 'main branch')
        if np.iscomplexobj(ret) and np.any(np.imag(ret) != 0):
            ctx.mismatch('richardson.err', {'new': str(new.tolist()), 'rule': str(rule.tolist())}, str(np.ravel(ret)[:4].tolist()),
                         model.ravel()[:4].tolist(), 'the implementation returns complex error estimates, the model real ones')
            continue
        impl = np.real(np.asarray(ret)).astype(float).reshape(np.shape(ret)[0], -1) if np.size(ret) else np.zeros((0, ncols))
        if model.size == 0 and impl.size == 0:
            eng['exact'] += 1
            continue
        if model.shape != impl.shape:
            ctx.mismatch('richardson.err', {'new': str(new.tolist()), 'old': str(old.tolist())}, list(impl.shape), list(model.shape), 'shape')
            continue
        worst = max(ulps(float(a), float(b)) for a, b in zip(impl.ravel(), model.ravel()))
        if worst == 0:
            eng['bit_identical'] += 1
        elif worst <= (64 if cf else 16):
            eng['within_ulp'] += 1
        elif cf and _knife_edge(new.reshape(new.shape[0], -1), old, hex2f(fh)):
            eng['skipped'] += 1
            ctx.count('richardson.err', 'complex knife-edge (err == tol within rounding), not compared')
        else:
            ctx.mismatch('richardson.err', {'new': str(new.tolist()), 'old': str(old.tolist()), 'rule': str(rule.tolist())},
                         impl.tolist(), model.tolist(), '%s ulp' % worst)


def replay(ctx, path):
    d = json.load(open(path))
    print(json.dumps(d, indent=1)[:4000])
    return 0
