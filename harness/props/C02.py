"""C02 — Reported error estimate is honest; full_output record is self-consistent."""
import json
import warnings

import numpy as np

from harness.common import lean_obligations
from harness.search_deriv import derivative_search
from harness.points import displacement, canon

MODULE = 'Ndt.Props.C02Honest'
THEOREMS = ['Ndt.info_consistent', 'Ndt.bestEstimate_err_nonneg', 'Ndt.wynnTable_err_nonneg', 'Ndt.tailStage_err_nonneg',
            'Ndt.final_step_is_generated_step', 'Ndt.richErrGo_ge_diff', 'Ndt.richErr_dominates_geometric',
            'Ndt.chosenRow_valid', 'Ndt.bestEstimate_columnwise', 'Ndt.dea3_abserr_ge', 'Ndt.richErrMain_nonneg', 'Ndt.tailStage_honest_geometric',
            'Ndt.argMinRow_skips_nan', 'Ndt.bestEstimate_err_not_nan']


def run(ctx):
    import numdifftools as nd
    from harness.translate import translator_obligations
    translator_obligations(ctx, ['richerr.', 'dea3.'])
    lean_obligations(ctx, MODULE, THEOREMS)
    rng = ctx.rng
    # the Richardson error formula the theorems richErrGo_ge_diff / richErr_dominates_geometric / richErrMain_nonneg are about,
    # against Richardson._estimate_error (Float model on the captured arguments)
    from harness.props.C07 import err_correspondence
    err_correspondence(ctx, ctx.budget(80, 800))
    # the Float correspondence of the selection / tail stages (bit-exact) is shared with C08: run a reduced version here
    # record consistency for the multivariate classes: shapes, non-negativity, final_step within the generated steps
    eng = ctx.engine('record')
    worst_h = 0.0
    for _ in range(ctx.budget(60, 600)):
        cls = rng.choice(['Gradient', 'Jacobian', 'Hessdiag', 'Hessian', 'Derivative'])
        m = rng.choice(['central', 'forward', 'backward', 'complex', 'multicomplex'])
        dim = rng.randint(1, 4)
        xscale = rng.choice([2.0, 2.0, 8.0])
        x = np.array([rng.uniform(0.3, xscale) for _ in range(dim)])
        if cls == 'Derivative':
            f = lambda t: np.exp(t) * np.sin(t)
        elif cls == 'Jacobian':
            f = lambda t: np.array([np.sum(t ** 2), np.prod(np.cos(t)), t[0] * np.exp(t[-1])])
        else:
            f = lambda t: np.sum(np.exp(t)) * np.cos(t[0])
        eng['cases'] += 1
        ctx.count('record', cls + '/' + m)
        seen = []

        def g(t):
            r = f(t)
            if cls == 'Derivative':
                # elementwise: every element moves by its own step
                c_ = canon(t)
                base_ = np.zeros(c_.shape)
                base_[..., 0] = np.broadcast_to(x, c_.shape[:-1])
                seen.append(np.max(np.abs(c_ - base_), axis=-1))
            else:
                seen.append(displacement(t, x))
            return r
        try:
            with warnings.catch_warnings():
                warnings.simplefilter('ignore')
                xcall = x
                if cls == 'Gradient' and rng.random() < 0.5:
                    # a point given as a 2-d array (a function of n*m variables): the gradient is flat, and so is its record
                    xcall = x.reshape(rng.choice([(dim, 1), (1, dim)] + ([(2, dim // 2)] if dim % 2 == 0 else [])))
                val, info = getattr(nd, cls)(g, method=m, full_output=True)(xcall)
        except Exception as ex:
            ctx.violation('%s raised %r with full_output=True' % (cls, ex), cls=cls, method=m, x=x.tolist())
            continue
        rep = dict(cls=cls, method=m, x=x.tolist())
        fx = f(x)
        if not np.array_equal(np.asarray(info.f_value), np.asarray(fx)):
            ctx.violation('f_value differs from f(x)', got=str(info.f_value), **rep)
        ee, fs = np.asarray(info.error_estimate), np.asarray(info.final_step)
        try:
            vsize = np.asarray(val).size
            # one entry per entry of the result, and broadcasting them together pairs the entries off (no (n,) against (n, 1) table)
            ok_shape = (np.broadcast(np.asarray(val), ee).size == vsize and np.broadcast(np.asarray(val), fs).size == vsize and
                        ee.size == vsize and fs.size == vsize)
        except ValueError:
            ok_shape = False
        if not ok_shape:
            ctx.violation('error_estimate / final_step do not hold one entry per entry of the result', shapes=[list(np.shape(val)), list(ee.shape), list(fs.shape)], **rep)
            continue
        finite = np.isfinite(np.asarray(val).ravel())
        if not np.all((ee.ravel()[finite] >= 0) & np.isfinite(ee.ravel()[finite])):
            ctx.violation('error_estimate negative or not finite where the result is finite', error_estimate=ee.tolist(), **rep)
        # final_step within the range of the generated steps: a point differs from x by h/sqrt2 (sqrt(i) rules), h or 2h per component
        if cls == 'Derivative':
            moved = [d_ for d_ in seen if np.any(d_ > 0)]
            if moved:
                dmat = np.array([np.ravel(d_) for d_ in moved])               # (evaluations, elements)
                dmin = np.array([np.min(col[col > 0]) if np.any(col > 0) else np.inf for col in dmat.T])
                dmax = np.max(dmat, axis=0)
                fsv = np.abs(np.ravel(fs))
                if fsv.size == dmax.size and not (np.all(fsv <= 1.4143 * dmax) and np.all(fsv >= 0.999 * dmin / 2.01)):
                    ctx.violation('final_step outside the range of the generated steps', final_step=fs.tolist(), smallest=dmin.tolist(),
                                  largest=dmax.tolist(), **rep)
        else:
            disp = [d_ for d_ in seen if d_ > 0]
            if disp and not (np.all(np.abs(fs) <= 1.4143 * max(disp)) and np.all(np.abs(fs) >= 0.999 * min(disp) / 2.01)):
                ctx.violation('final_step outside the range of the generated steps', final_step=fs.tolist(), smallest=min(disp), largest=max(disp), **rep)
        # honesty of the estimate against the analytic derivative of the three test functions
        ex_ = np.exp(x)
        if cls == 'Derivative':
            exact = np.exp(x) * (np.sin(x) + np.cos(x))
        elif cls == 'Jacobian':
            exact = np.zeros((3, dim))
            exact[0] = 2 * x
            exact[1] = -np.prod(np.cos(x)) * np.tan(x)
            exact[2, 0] += np.exp(x[-1])
            exact[2, -1] += x[0] * np.exp(x[-1])
        else:
            grad = ex_ * np.cos(x[0])
            grad[0] -= np.sum(ex_) * np.sin(x[0])
            hess = np.diag(ex_ * np.cos(x[0]))
            hess[:, 0] -= ex_ * np.sin(x[0])
            hess[0, :] -= ex_ * np.sin(x[0])
            hess[0, 0] -= np.sum(ex_) * np.cos(x[0])
            exact = {'Gradient': grad, 'Hessdiag': np.diag(hess), 'Hessian': hess}[cls]
        v_ = np.asarray(val, dtype=float)
        if v_.shape != np.shape(exact):
            ex2 = np.reshape(exact, v_.shape) if v_.size == np.size(exact) else None
        else:
            ex2 = exact
        if ex2 is not None:
            scale = float(np.max(np.abs(ex2))) + float(np.max(np.abs(fx))) + 1.0
            err_ = np.abs(v_ - ex2)
            bound = 1000.0 * np.abs(np.reshape(ee, v_.shape)) + 1e-7 * scale
            worst_h = max(worst_h, float(np.max(err_ / bound)))
            if np.any(err_ > bound):
                i_ = int(np.argmax(err_ / bound))
                ctx.violation('true error exceeds 1000 x error_estimate + rounding floor (%s)' % cls, entry=i_, got=float(v_.ravel()[i_]),
                              exact=float(np.ravel(ex2)[i_]), error_estimate=float(ee.ravel()[i_]), **rep)
        eng['exact'] += 1
    ctx.notes.append('multivariate honesty: worst err / (1000 est + 1e-7 scale) = %.3g' % worst_h)
    # full_output switched on after construction (fd.full_output = True): the record is that of an object built with it
    for _ in range(ctx.budget(20, 100)):
        m = rng.choice(['central', 'forward', 'backward', 'complex', 'multicomplex'])
        n = rng.randint(1, 2 if m == 'multicomplex' else 3)
        xq = rng.uniform(0.3, 2.0)
        fq = lambda t: np.exp(0.5 * t) + t * t
        ctx.tried(('full_output-later', m, n, xq))
        try:
            with warnings.catch_warnings():
                warnings.simplefilter('ignore')
                dq = nd.Derivative(fq, n=n, method=m)
                if rng.random() < 0.5:
                    dq(xq)
                dq.full_output = True
                vq, iq = dq(xq)
                vr, ir = nd.Derivative(fq, n=n, method=m, full_output=True)(xq)
        except Exception as ex:
            ctx.violation('Derivative raised %r after full_output was switched on' % ex, method=m, n=n)
            continue
        if not (float(iq.f_value) == float(fq(xq)) and float(vq) == float(vr) and float(iq.error_estimate) == float(ir.error_estimate)):
            ctx.violation('the record of an object whose full_output was switched on after construction differs from that of an object built '
                          'with full_output=True (f_value must be f(x))', method=m, n=n, x=xq, f_value=float(iq.f_value), fx=float(fq(xq)),
                          value=[float(vq), float(vr)])
    # f_value is f at the point and with the extra arguments of *this* call: one object called again with other extra arguments at
    # the same point, and with the caller's array updated in place between the calls
    for _ in range(ctx.budget(30, 200)):
        m = rng.choice(['central', 'forward', 'backward', 'complex', 'multicomplex'])
        n = rng.randint(1, 2 if m == 'multicomplex' else 3)
        fa = lambda t, a, b=0.0: a * np.exp(0.5 * t) + b * t
        xs = np.array([rng.uniform(0.3, 2.0) for _ in range(rng.randint(1, 3))])
        a1, a2, b2 = rng.uniform(1, 2), rng.uniform(2, 3), rng.uniform(0.5, 1.5)
        d = nd.Derivative(fa, n=n, method=m, full_output=True)
        ctx.tried(('f_value-reuse', m, n, tuple(xs)))
        try:
            with warnings.catch_warnings():
                warnings.simplefilter('ignore')
                d(xs, a1)
                _v, i2 = d(xs, a2, b=b2)
                want2 = fa(xs, a2, b=b2)
                xs += 0.25                      # the caller's own array, updated in place
                _v, i3 = d(xs, a2, b=b2)
                want3 = fa(xs, a2, b=b2)
        except Exception as ex:
            ctx.violation('Derivative raised %r on a repeated call' % ex, method=m, n=n)
            continue
        if not np.array_equal(np.asarray(i2.f_value), want2):
            ctx.violation('f_value differs from f(x) of this call (same point, other extra arguments than in the previous call)', method=m, n=n,
                          x=(xs - 0.25).tolist(), f_value=np.asarray(i2.f_value).tolist(), fx=want2.tolist())
        elif not np.array_equal(np.asarray(i3.f_value), want3):
            ctx.violation('f_value differs from f(x) of this call (the same array object, updated in place since the previous call)', method=m, n=n,
                          x=xs.tolist(), f_value=np.asarray(i3.f_value).tolist(), fx=want3.tolist())
    ctx.search['rule'] = ('as C01 (random expression programs x methods x n x order x step options, Taylor-series oracle) with the pair '
                          '(result, error_estimate): |result - exact| <= 1000 * error_estimate + floor(method, n) * local scale, where floor is '
                          '1% of the largest clean-tree error ratio of that (method, n); record checks (f_value == f(x), error_estimate >= 0 and '
                          'finite, shapes, final_step within the generated steps) for all five classes; distinct = distinct (program, x, config)')
    derivative_search(ctx, ctx.budget(500, 6000) * (2 if (ctx.broken or ctx.mismatches) else 1), honesty=True)
    ctx.assumptions.append('the honesty of the estimate for general f is a statistical fact about rounding noise and truncation: sampled by the '
                           'search, not proved; the theorems give non-negativity, argmin correctness, the same-row reading of the record and the '
                           'dominance factor under a single geometric residual')


def replay(ctx, path):
    print(json.dumps(json.load(open(path)), indent=1)[:4000])
    return 0
