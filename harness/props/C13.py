"""C13 — dea3 recovers the limit of a geometric transient and never produces garbage."""
import json
import math
import warnings
from fractions import Fraction

import numpy as np

from harness.translate import translator_obligations
from harness.common import f2hex, hex2f, run_driver, lean_obligations, ulps

MODULE = 'Ndt.Props.C13'
THEOREMS = ['Ndt.dea3_eq', 'Ndt.dea3_abserr_nonneg', 'Ndt.dea3_abserr_ge', 'Ndt.dea3_converged',
            'Ndt.dea3_constant', 'Ndt.dea3_no_division_by_zero', 'Ndt.dea3Sss_geometric',
            'Ndt.dea3_geometric', 'Ndt.dea3_geometric_tiny', 'Ndt.dea3_geometric_error_dominated',
            'Ndt.dea3List_length', 'Ndt.dea3List_getElem', 'Ndt.dea3Call_symmetric', 'Ndt.dea3Call_plain', 'Ndt.dea3_generated']

EPS = 2.0 ** -52
TINY = 2.0 ** -1022
ENVELOPE = 64.0      # measured clean-tree maximum of |result-L| / bound is < 1 (see DESIGN 6/C13)


def gen_geometric(rng):
    L = rng.choice([0.0, 1.0, -1.0, rng.uniform(-10, 10), 10.0 ** rng.uniform(-15, 15) * rng.choice([-1, 1])])
    a = 10.0 ** rng.uniform(-15, 15) * rng.choice([-1, 1])
    while True:
        q = rng.choice([rng.uniform(-50, 50), rng.uniform(-1, 1), rng.uniform(0.5, 0.99), rng.uniform(1.01, 2),
                        -rng.uniform(0.5, 2), 0.5, 0.25, -0.5, 2.0, -1.0, -1.0, -2.0, 3.0])     # -1: the first and third term tie exactly
        if abs(q) > 1e-3 and abs(q - 1) > 1e-3:
            break
    k = rng.randint(0, 6)
    if rng.random() < 0.12:
        # a term of the triple is zero or tiny next to the transient (the limit cancels it): L = -a q^(k+j) (1 + tiny)
        j = rng.choice([0, 1, 2])
        q = rng.choice([0.5, 0.25, -0.5, 2.0, -2.0, 0.75, 1.5, q])
        a = rng.choice([1.0, -4.0, 3.0, a])
        L = -a * q ** (k + j) * (1 + rng.choice([0.0, 0.0, 1e-9, -1e-7, 1e-12]))
    return L, a, q, k


def triple(L, a, q, k):
    return tuple(L + a * q ** (k + i) for i in range(3))


def gen_arbitrary(rng):
    kind = rng.randint(0, 8)
    u = lambda: rng.choice([-1, 1]) * 10.0 ** rng.uniform(-20, 20)
    if kind == 0:
        x = u()
        return (x, x, x)
    if kind == 1:
        return (0.0, 0.0, 0.0)
    if kind == 2:
        x = u()
        return (x, x, u())
    if kind == 3:
        x = u()
        return (u(), x, x)
    if kind == 4:
        x = u()
        return (x, float(np.nextafter(x, np.inf)), float(np.nextafter(np.nextafter(x, np.inf), np.inf)))
    if kind == 5:
        return (0.0, u(), 0.0)
    if kind == 6:       # arithmetic progression: delta1 == delta2, sss == tiny
        x = float(rng.randint(-1000, 1000))
        d = float(rng.randint(1, 64)) / 8
        return (x, x + d, x + 2 * d)
    if kind == 7:
        return (rng.uniform(-1, 1), rng.uniform(-1, 1), rng.uniform(-1, 1))
    return (u(), u(), u())


def guard_holds(e0, e1, e2):
    """the documented convergence / irregular-behaviour guard, evaluated in exact arithmetic"""
    E0, E1, E2 = map(Fraction, (e0, e1, e2))
    d1, d2 = E1 - E0, E2 - E1
    eps = Fraction(EPS)
    if abs(d1) <= max(abs(E1), abs(E0)) * eps or abs(d2) <= max(abs(E2), abs(E1)) * eps:
        return True
    if d1 == d2:
        return True
    sss = 1 / d2 - 1 / d1
    return abs(sss * E1) <= Fraction(1, 10000) * (1 + Fraction(1, 1000))


def rounding_bound(e0, e1, e2, q):
    """first-order rounding envelope of the three-term Shanks formula on these inputs"""
    E0, E1, E2 = map(Fraction, (e0, e1, e2))
    d1, d2 = E1 - E0, E2 - E1
    D = d1 - d2
    if D == 0:
        return float('inf')
    corr = d1 * d2 / D
    kappa_in = (abs(E0) * d2 * d2 + 2 * abs(E1) * abs(d1 * d2) + abs(E2) * d1 * d1) / (D * D)
    canc = (abs(d1) + abs(d2)) / abs(D)      # cancellation in 1/d2 - 1/d1
    b = Fraction(EPS) * (kappa_in + abs(corr) * (2 + 2 * canc) + max(abs(E0), abs(E1), abs(E2)))
    return float(b)


def run(ctx):
    from numdifftools.extrapolation import dea3
    translator_obligations(ctx, ['dea3.'])
    lean_obligations(ctx, MODULE, THEOREMS)
    rng = ctx.rng

    # ---------------- correspondence engine `dea3` (bits) -----------------------------------
    n_geo = ctx.budget(4000, 40000)
    n_arb = ctx.budget(3000, 30000)
    cases = []
    for _ in range(n_geo):
        L, a, q, k = gen_geometric(rng)
        cases.append(('geo', triple(L, a, q, k)))
    for _ in range(n_arb):
        cases.append(('arb', gen_arbitrary(rng)))
    corpus = _load_corpus()
    cases = [('corpus', tuple(c)) for c in corpus] + cases
    arr = np.array([c[1] for c in cases], dtype=float)
    with warnings.catch_warnings():
        warnings.simplefilter('ignore')
        res, err = dea3(arr[:, 0].copy(), arr[:, 1].copy(), arr[:, 2].copy())
    lines = ['dea3 %s %s %s %s %s' % (f2hex(EPS), f2hex(TINY), f2hex(a), f2hex(b), f2hex(c)) for _k, (a, b, c) in cases]
    out = run_driver(lines, 'C13')
    eng = ctx.engine('dea3')
    for i, (kind, tr) in enumerate(cases):
        mr, me = out[i].split()
        ir, ie = float(res[i]), float(err[i])
        eng['cases'] += 1
        ctx.count('dea3', kind)
        same = (f2hex(ir) == mr) and (f2hex(ie) == me)
        if same:
            eng['bit_identical'] += 1
        else:
            ctx.mismatch('dea3', {'e': [f2hex(x) for x in tr], 'values': list(tr)}, [f2hex(ir), f2hex(ie)], [mr, me])
    ctx.sample({'engine': 'dea3', 'case': list(cases[len(corpus)][1]), 'impl': [float(res[len(corpus)]), float(err[len(corpus)])],
                'model': out[len(corpus)]})

    # arrays: shapes, symmetric, inputs unmodified, elementwise
    for _ in range(ctx.budget(40, 400)):
        shape = rng.choice([(1,), (2,), (5,), (3, 4), (2, 3, 2), (7, 1)])
        n = int(np.prod(shape))
        tri = np.array([gen_arbitrary(rng) if rng.random() < 0.5 else triple(*gen_geometric(rng)) for _ in range(n)])
        v = [tri[:, j].reshape(shape).copy() for j in range(3)]
        if len(shape) >= 2 and rng.random() < 0.5:
            # the same values in another memory layout (column-major copy, transposed view of the transposed copy): LAPACK output,
            # DataFrame.values, x.T — the layout of an array is not part of its value
            v = [np.asfortranarray(a) if rng.random() < 0.5 else np.ascontiguousarray(np.moveaxis(a, 0, -1)).transpose(
                [len(shape) - 1] + list(range(len(shape) - 1))) for a in v]
        keep = [x.copy() for x in v]
        sym = rng.random() < 0.5
        eng['cases'] += 1
        ctx.count('dea3', 'array-sym' if sym else 'array')
        try:
            with warnings.catch_warnings():
                warnings.simplefilter('ignore')
                r, e = dea3(v[0], v[1], v[2], symmetric=sym)
        except Exception as ex:     # property: raises nothing
            ctx.violation('dea3 raised %r' % ex, inputs=[x.tolist() for x in keep], symmetric=sym)
            continue
        if not all(np.array_equal(a, b, equal_nan=True) for a, b in zip(v, keep)):
            ctx.violation('dea3 modified its inputs', inputs=[x.tolist() for x in keep], symmetric=sym)
        ls = ['dea3 %s %s %s %s %s' % (f2hex(EPS), f2hex(TINY), f2hex(a), f2hex(b), f2hex(c))
              for a, b, c in zip(keep[0].ravel(), keep[1].ravel(), keep[2].ravel())]
        o = run_driver(ls, 'C13a')
        mres = np.array([hex2f(x.split()[0]) for x in o]).reshape(shape)
        merr = np.array([hex2f(x.split()[1]) for x in o]).reshape(shape)
        if sym and shape[0] > 1:     # model: dea3Call drops the last result / the first error (axis 0)
            mres, merr = mres[:-1], merr[1:]
        if r.shape != mres.shape or e.shape != merr.shape or \
                not np.array_equal(r, mres, equal_nan=True) or not np.array_equal(e, merr, equal_nan=True):
            ctx.mismatch('dea3', {'shape': shape, 'symmetric': sym, 'inputs': [x.tolist() for x in keep]},
                         [r.tolist(), e.tolist()], [mres.tolist(), merr.tolist()], 'array call')
        else:
            eng['bit_identical'] += 1
        # the property itself, on the implementation alone: an array call is the scalar call of every element (bit for bit)
        flat_r, flat_e = [], []
        with warnings.catch_warnings():
            warnings.simplefilter('ignore')
            for a, b, c in zip(keep[0].ravel(), keep[1].ravel(), keep[2].ravel()):
                r1, e1 = dea3(a, b, c)
                flat_r.append(float(np.ravel(r1)[0]))
                flat_e.append(float(np.ravel(e1)[0]))
        sr, se = np.array(flat_r).reshape(shape), np.array(flat_e).reshape(shape)
        if sym and shape[0] > 1:
            sr, se = sr[:-1], se[1:]
        if r.shape == sr.shape and e.shape == se.shape and \
                not (np.array_equal(r, sr, equal_nan=True) and np.array_equal(e, se, equal_nan=True)):
            bad = np.argwhere(~((r == sr) | (np.isnan(r) & np.isnan(sr))) | ~((e == se) | (np.isnan(e) & np.isnan(se))))
            ctx.violation('dea3 does not treat array inputs elementwise: an element of the array call differs from the scalar call on that element',
                          shape=list(shape), symmetric=sym, index=bad[0].tolist() if len(bad) else None,
                          inputs=[x.tolist() for x in keep], array_call=[r.tolist(), e.tolist()], scalar_calls=[sr.tolist(), se.tolist()])

    # arrays in which *every* element is stalled (constant sequences, all zeros, a tie in the last pair): shapes, the symmetric trimming
    # and broadcasting of a scalar term must be what they are for any other array
    for _ in range(ctx.budget(30, 200)):
        nn = rng.randint(2, 6)
        kind = rng.choice(['constant', 'zeros', 'last-tie', 'first-tie'])
        base = np.array([rng.choice([0.0, 1.0, -2.5, rng.uniform(-3, 3)]) for _ in range(nn)])
        if kind == 'constant':
            v0 = v1 = v2 = base
        elif kind == 'zeros':
            v0 = v1 = v2 = np.zeros(nn)
        elif kind == 'last-tie':
            v0, v1 = base + 1.0, base
            v2 = base
        else:
            v0 = v1 = base
            v2 = base + 0.5
        sym = rng.random() < 0.6
        scalar_last = rng.random() < 0.3 and kind in ('constant', 'zeros') and float(np.ptp(v2)) == 0.0
        a2 = float(v2[0]) if scalar_last else v2.copy()
        ctx.tried(('all-stalled', kind, nn, sym, scalar_last))
        try:
            with warnings.catch_warnings():
                warnings.simplefilter('ignore')
                r, e = dea3(v0.copy(), v1.copy(), a2, symmetric=sym)
                rs = [dea3(float(a), float(b), float(c)) for a, b, c in zip(v0, v1, v2)]
        except Exception as ex:
            ctx.violation('dea3 raised %r' % ex, inputs=[v0.tolist(), v1.tolist(), np.ravel(a2).tolist()], symmetric=sym)
            continue
        want_r = np.array([float(np.ravel(t[0])[0]) for t in rs])
        want_e = np.array([float(np.ravel(t[1])[0]) for t in rs])
        if sym and nn > 1:
            want_r, want_e = want_r[:-1], want_e[1:]
        if np.shape(r) != want_r.shape or np.shape(e) != want_e.shape or not np.array_equal(r, want_r) or not np.array_equal(e, want_e):
            ctx.violation('dea3 on an array whose elements are all stalled (constant / tied terms) differs from the elementwise result: shape or '
                          'values', kind=kind, symmetric=sym, scalar_last_term=scalar_last, inputs=[v0.tolist(), v1.tolist(), np.ravel(a2).tolist()],
                          got_shapes=[list(np.shape(r)), list(np.shape(e))], expected_shapes=[list(want_r.shape), list(want_e.shape)],
                          got=[np.ravel(r).tolist(), np.ravel(e).tolist()], expected=[want_r.tolist(), want_e.tolist()])

    # ---------------- failing-input search on the implementation ------------------------------
    budget = ctx.budget(6000, 60000)
    if ctx.broken or ctx.mismatches:
        budget *= 3
    ctx.search['rule'] = ('geometric triples L + a q^(k..k+2), L,a over 30 decades, q in (-50,50) minus '
                          'neighbourhoods of 0 and 1, checked against the exact limit L with the first-order '
                          'rounding envelope of the Shanks formula; arbitrary triples (ties, zeros, constants, 1-ulp '
                          'steps, arithmetic progressions) checked for finiteness/non-negativity; a case is '
                          'non-trivial when it is outside the documented guard; distinct = distinct input triple')
    worst = 0.0
    geo = [gen_geometric(rng) for _ in range(budget)]
    tr = np.array([triple(*g) for g in geo])
    with warnings.catch_warnings():
        warnings.simplefilter('ignore')
        res, err = dea3(tr[:, 0].copy(), tr[:, 1].copy(), tr[:, 2].copy())
    # the same triples as a 2-d batch (columns of unrelated magnitudes): every element must come out as in the 1-d call
    cols = rng.choice([3, 4, 7])
    nrow = len(geo) // cols
    with warnings.catch_warnings():
        warnings.simplefilter('ignore')
        res2, err2 = dea3(*[tr[:nrow * cols, j].reshape(nrow, cols).copy() for j in range(3)])
    same = ((res2.ravel() == res[:nrow * cols]) | (np.isnan(res2.ravel()) & np.isnan(res[:nrow * cols]))) & \
           ((err2.ravel() == err[:nrow * cols]) | (np.isnan(err2.ravel()) & np.isnan(err[:nrow * cols])))
    if not np.all(same):
        i = int(np.argmin(same))
        ctx.violation('dea3 does not treat array inputs elementwise: the (rows, %d) batch differs from the 1-d call' % cols, index=i,
                      e=tr[i].tolist(), batch=[float(res2.ravel()[i]), float(err2.ravel()[i])], flat=[float(res[i]), float(err[i])],
                      exact_limit=geo[i][0])
    for i, (L, a, q, k) in enumerate(geo):
        e0, e1, e2 = tr[i]
        r, ae = float(res[i]), float(err[i])
        if not (math.isfinite(r) and math.isfinite(ae) and ae >= 0):
            ctx.tried()
            ctx.violation('non-finite result or negative/non-finite error estimate', e=[e0, e1, e2], result=r, abserr=ae)
            continue
        if guard_holds(e0, e1, e2):
            ctx.tried()
            continue
        ctx.tried((e0, e1, e2))
        # exact limit of the float triple's underlying geometric sequence is L up to the rounding of the
        # three terms, which the envelope accounts for
        b = rounding_bound(e0, e1, e2, q)
        d = abs(r - L)
        if b > 0 and math.isfinite(b):
            worst = max(worst, d / b)
        if d > ENVELOPE * b:
            ctx.violation('dea3 does not recover the geometric limit', L=L, a=a, q=q, k=k, e=[e0, e1, e2],
                          result=r, error=d, envelope=ENVELOPE * b)
        elif d > ae + ENVELOPE * b:
            ctx.violation('error estimate smaller than the true error', L=L, a=a, q=q, k=k, e=[e0, e1, e2],
                          result=r, error=d, abserr=ae)
    for _ in range(budget // 2):
        t3 = gen_arbitrary(rng)
        with warnings.catch_warnings():
            warnings.simplefilter('error')
            try:
                r, ae = dea3(*t3)
            except Exception as ex:
                ctx.tried()
                ctx.violation('dea3 raised or leaked a warning: %r' % ex, e=list(t3))
                continue
        ctx.tried(t3)
        if not (np.all(np.isfinite(r)) and np.all(np.isfinite(ae)) and np.all(ae >= 0)):
            ctx.violation('non-finite result or negative error estimate on moderate input', e=list(t3),
                          result=float(r[0]), abserr=float(ae[0]))
    ctx.notes.append('worst |result-L| / first-order rounding bound on this run: %.3g (envelope %g)' % (worst, ENVELOPE))
    ctx.assumptions.append('IEEE-754 rounding is not modelled: the theorems are over ordered fields; the Float '
                           'instance of the same definition is compared bit for bit with numpy')
    _save_corpus(ctx)


def _corpus_path():
    import os
    from harness.common import VERIF
    return os.path.join(VERIF, 'corpus', 'C13.json')


def _load_corpus():
    import os
    p = _corpus_path()
    if os.path.exists(p):
        return [[hex2f(x) for x in c] for c in json.load(open(p))]
    return []


def _save_corpus(ctx):
    pass    # the corpus is curated by hand from replays (committed), never grown at run time


def replay(ctx, path):
    from numdifftools.extrapolation import dea3
    d = json.load(open(path))
    for v in d.get('violations', []):
        e = v.get('e')
        if e:
            print('dea3(%r) ->' % (e,), dea3(*e), ' expected limit', v.get('L'))
    for m in d.get('mismatches', []):
        print('mismatch', m)
    return 0
