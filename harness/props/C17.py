"""C17 — FFT Taylor coefficients are accurate within their reported error."""
import json
import math
import warnings
from fractions import Fraction

import numpy as np

from harness.common import q2s, s2q, run_driver, lean_obligations
from harness.translate import translator_obligations
from harness.oracle.series import family

MODULE = 'Ndt.Props.C17'
THEOREMS = ['Ndt.num_coefficients', 'Ndt.root_pow_sum', 'Ndt.dft_aliasing', 'Ndt.extrapolate_removes_two_terms', 'Ndt.taylorLoop_spec',
            'Ndt.failed_iff_cap', 'Ndt.radStep_converged_iff', 'Ndt.radStep_bracket_mono', 'Ndt.radRun_after_bracket']
EPS = 2.0 ** -52
K_EST, C_FLOOR = 1000.0, 100.0       # calibrated: worst err/(est + 100 eps fmax/R^k) = 33 over 1100 runs with the final circle inside the disc


def run(ctx):
    import numdifftools.fornberg as fb
    translator_obligations(ctx, ['guard.guard_num_taylor'])
    lean_obligations(ctx, MODULE, THEOREMS)
    rng = ctx.rng

    # ---------------- engine `taylor.count`: the number of coefficients, exhaustively ------------------------------------------------
    eng = ctx.engine('taylor.count')
    ns = list(range(1, 200))
    out = run_driver(['numtaylor %d' % n for n in ns], 'C17n')
    for n, line in zip(ns, out):
        eng['cases'] += 1
        try:
            impl = str(int(fb._num_taylor_coefficients(n)))
        except ValueError:
            impl = 'ValueError'
        if impl == line:
            eng['exact'] += 1
        else:
            ctx.mismatch('taylor.count', n, impl, line)
        if impl != 'ValueError' and int(impl) < n + 1:
            ctx.violation('fewer than n + 1 Taylor coefficients are computed', n=n, m=int(impl))
    eng['distribution'] = {'n': '1..199 exhaustive'}
    ctx.sample({'engine': 'taylor.count', 'n': 13, 'model': out[12]})

    # ---------------- engine `taylor.extrapolate`: the two Richardson passes on dyadic data (exact) ------------------------------------
    eng = ctx.engine('taylor.extrapolate')
    ex = getattr(fb, '_extrapolate', None)
    if ex is None:
        ctx.notes.append('engine taylor.extrapolate skipped: attachment point _extrapolate missing')
    else:
        cases = []
        for _ in range(ctx.budget(100, 1000)):
            nk = rng.randint(3, 7)
            m = rng.choice([1, 2, 3])
            rs = [Fraction(2) ** rng.randint(-3, 3) for _ in range(nk)]
            while any(rs[i] == rs[i + 1] for i in range(nk - 1)) or any(rs[i] == rs[i + 2] for i in range(nk - 2)):
                rs = [Fraction(2) ** rng.randint(-3, 3) for _ in range(nk)]
            bs = [Fraction(rng.randint(-64, 64), 8) for _ in range(nk)]
            cases.append((m, bs, rs))
        out = run_driver(['textrap %d | %s | %s' % (m, ' '.join(q2s(v) for v in bs), ' '.join(q2s(v) for v in rs)) for m, bs, rs in cases], 'C17e')
        for (m, bs, rs), line in zip(cases, out):
            eng['cases'] += 1
            impl = ex([np.array([float(v)]) for v in bs], [float(v) for v in rs], m)
            model = [float(s2q(t)) for t in line.split()]
            iv = [float(np.ravel(v)[0]) for v in impl]
            if len(iv) == len(model) and all(abs(a - b) <= 1e-9 * (1 + abs(b)) for a, b in zip(iv, model)):
                eng['rounded' if iv != model else 'exact'] += 1
            else:
                ctx.mismatch('taylor.extrapolate', [m, list(map(str, bs)), list(map(str, rs))], iv, model)

    # ---------------- failing-input search (also drives engine `taylor.loop`) ------------------------------------------------------------------
    ctx.search['rule'] = ('f in {exp(az), 1/(b-z), sin/cos(az), log(b+z), (3+z)^p, polynomials, products} with closed-form series; z0 in the unit '
                          'square (real and complex); n in {1..100}; initial radius 1e-5..1 or the default; step_ratio 1.2..3; num_extrap 1..5; '
                          'checks: >= n+1 coefficients; when neither degenerate nor failed: |c_k - a_k| <= 1000 * error_estimate_k + 100 eps max|f| / R^k '
                          'for k <= n; derivative() = taylor() * k! (estimates too); failed exactly when no iteration converged; default radius, n <= 20, '
                          'analytic within 1.5: never degenerate / failed; distinct = distinct (f, z0, n, r, ratio, num_extrap)')
    # deterministic probe of the recorded finding (final circle beyond the nearest singularity)
    with warnings.catch_warnings():
        warnings.simplefilter('ignore')
        pz0 = 0.34693088456262167 + 0.2057617572947047j
        pf = lambda z: np.exp((1 + 1j) * z) * (3.0 + z) ** 0.5
        pc, pinfo = fb.taylor(pf, pz0, n=100, r=0.0059, step_ratio=2.2645367618606502, num_extrap=4, full_output=True)
    if not (pinfo.degenerate or pinfo.failed) and float(pinfo.final_radius) >= 0.9 * abs(3 + pz0):
        from harness.oracle.series import cauchy, binom_general
        import cmath
        a1 = [cmath.exp((1 + 1j) * pz0) * (1 + 1j) ** k / math.factorial(k) for k in range(len(pc))]
        a2 = [binom_general(0.5, k) * (3.0 + pz0) ** (0.5 - k) for k in range(len(pc))]
        pa = cauchy(a1, a2)
        if abs(pc[100] - pa[100]) > 1000 * abs(pinfo.error_estimate[100]) + 1e-6 * abs(pa[100]):
            ctx.violation('taylor coefficient wrong although neither degenerate nor failed (final circle beyond the singularity)', k=100,
                          got=str(pc[100]), exact=str(pa[100]), final_radius=float(pinfo.final_radius), distance_to_singularity=abs(3 + pz0),
                          signature='C17-radius-beyond-singularity')
    leng = ctx.engine('taylor.loop')
    cc = getattr(fb.Taylor, '_check_convergence', None)
    worst = 0.0
    loop_jobs = []
    rad_jobs = []
    for it in range(ctx.budget(200, 2000) * (2 if (ctx.broken or ctx.mismatches) else 1)):
        name, f, series, dist = family(rng)
        z0 = complex(rng.uniform(0, 1), rng.uniform(0, 1)) if rng.random() < 0.5 else rng.uniform(0, 1)
        n = rng.choice([1, 2, 5, 6, 10, 13, 20, 27, 40, 40, 60, 60, 75, 100, 100])
        default_r = rng.random() < 0.4
        r = 0.0059 if default_r else 10 ** rng.uniform(-5, 0)
        ratio, ne = rng.uniform(1.2, 3), rng.randint(1, 5)
        if not default_r and rng.random() < 0.35:
            # an initial radius already close to the optimal one with few extrapolation circles: the search ends after very few
            # circles and the result rests on the short-sequence fallback of the estimate
            r, ne = rng.choice([0.3, 0.5, 0.75, 1.0]), rng.choice([1, 1, 2])
            ratio = rng.choice([1.6, 2.0, 3.0, ratio])
        if not default_r and rng.random() < 0.2:
            # a small initial radius with many coefficients (r**-k overflows on the first circles) and a single extrapolation circle
            r, ne, n = 10 ** rng.uniform(-5, -2.5), 1, rng.choice([60, 75, 100])
        kw = dict(n=n, r=r, step_ratio=ratio, num_extrap=ne, full_output=True)
        if default_r and rng.random() < 0.5:
            kw = dict(n=n, full_output=True)
        if rng.random() < 0.25:
            # an explicit iteration cap (documented: min_iter then defaults to max_iter // 2), through taylor() and derivative() alike
            kw['max_iter'] = rng.choice([40, 60, 45])
            if rng.random() < 0.5 and 'r' in kw and kw.get('num_extrap') != 1:
                kw['r'], kw['n'] = 10.0 ** rng.uniform(-5.5, -4), rng.choice([13, 20, 27, n])
                n = kw['n']
        rep = dict(f=name, z0=str(z0), **{k: v for k, v in kw.items() if k != 'full_output'})
        ctx.tried(tuple(sorted((k, str(v)) for k, v in rep.items())))
        flags = []
        state_after = []
        rad_inputs = []          # per call of _check_convergence: the outputs of _check_fft / _poor_convergence, None if not consulted
        cf, pc = getattr(fb, '_check_fft', None), getattr(fb, '_poor_convergence', None)
        if cf is not None and pc is not None:
            def cf_spy(m1, m2, check_degenerate=True, cf=cf):
                res = cf(m1, m2, check_degenerate)
                rad_inputs.append([bool(res[0]), bool(res[1]), False])
                return res

            def pc_spy(*a, pc=pc, **k):
                res = pc(*a, **k)
                if rad_inputs:
                    rad_inputs[-1][2] = bool(res)
                return res
            fb._check_fft, fb._poor_convergence = cf_spy, pc_spy
        if cc is not None:
            def spy(self, i, z0_, r_, m_, bn_, cc=cc, flags=flags):
                n_before = len(rad_inputs)
                res = cc(self, i, z0_, r_, m_, bn_)
                flags.append(bool(res[0]))
                if len(rad_inputs) == n_before:
                    rad_inputs.append([False, False, False])       # _check_fft was not consulted in this call (degenerate / converged)
                state_after.clear()
                # private bookkeeping attributes are optional attachment points: absent ones are reported as None and not compared
                state_after.extend([getattr(self, '_direction_changes', None), getattr(self, '_degenerate', None),
                                    getattr(self, '_num_changes', None)])
                return res
            fb.Taylor._check_convergence = spy
        try:
            with warnings.catch_warnings():
                warnings.simplefilter('ignore')
                if hasattr(fb, 'Taylor') and 'max_iter' not in kw and rng.random() < 0.3:
                    # one Taylor object, used before with another number of coefficients (and other options) at another point, then
                    # reconfigured by attribute assignment: the result is that of the final configuration
                    n0 = rng.choice([1, 4, 12, 30, 70])
                    tobj = fb.Taylor(f, n=n0, r=kw.get('r', 0.0059) * rng.choice([1, 0.5]), num_extrap=rng.randint(1, 5),
                                     step_ratio=rng.uniform(1.2, 3), full_output=True)
                    tobj(z0 + 0.125)
                    del flags[:], rad_inputs[:]
                    tobj.n, tobj.r, tobj.num_extrap, tobj.step_ratio = n, kw.get('r', 0.0059), kw.get('num_extrap', 3), kw.get('step_ratio', 1.6)
                    rep['object_used_before_with_n'] = n0
                    c, info = tobj(z0)
                else:
                    c, info = fb.taylor(f, z0, **kw)
        except Exception as ex_:
            ctx.violation('taylor raised %r' % ex_, **rep)
            continue
        finally:
            if cc is not None:
                fb.Taylor._check_convergence = cc
            if cf is not None and pc is not None:
                fb._check_fft, fb._poor_convergence = cf, pc
        m = len(c)
        if m < n + 1:
            ctx.violation('taylor returned fewer than n + 1 coefficients', got=m, **rep)
            continue
        # the iteration loop against the model
        if cc is not None:
            loop_jobs.append((list(flags), bool(info.failed), int(kw.get('max_iter', 30))))
            if cf is not None and pc is not None and len(rad_inputs) == len(flags):
                rad_jobs.append((int(kw.get('num_extrap', 3)), [list(t) for t in rad_inputs], list(flags), list(state_after), rep))
            if bool(info.failed) != (not any(flags)) or (info.failed and len(flags) != kw.get('max_iter', 30)):
                ctx.violation('failed is not set exactly when the iteration cap was reached', failed=bool(info.failed), iterations_run=len(flags),
                              converged_flags=str(flags[-5:]), **rep)
        d = dist(z0)
        if 'r' not in kw and 'max_iter' not in kw and n <= 20 and d > 1.5 and not name.startswith('poly') and (info.degenerate or info.failed):
            ctx.violation('default radius, n <= 20, analytic within 1.5: reported degenerate or failed', degenerate=bool(info.degenerate),
                          failed=bool(info.failed), signature=None, **rep)
        if info.degenerate or info.failed:
            continue
        a = series(z0, m)
        R = float(info.final_radius)
        th = np.linspace(0, 2 * np.pi, 64, endpoint=False)
        with warnings.catch_warnings():
            warnings.simplefilter('ignore')
            fmax = float(np.max(np.abs(f(z0 + R * np.exp(1j * th)))))
        err = np.abs(np.asarray(c) - np.asarray(a))[:n + 1]
        est = np.abs(np.asarray(info.error_estimate))[:n + 1]
        floor = C_FLOOR * EPS * fmax / R ** np.arange(n + 1)
        q = err / (K_EST * est + floor)
        k = int(np.argmax(q))
        sig = 'C17-radius-beyond-singularity' if R >= 0.9 * d else None
        if sig is None:
            worst = max(worst, float(q[k]))
        if not q[k] <= 1:
            ctx.violation('a Taylor coefficient is farther from the exact one than 1000 x its error estimate plus the FFT rounding floor',
                          k=k, got=str(c[k]), exact=str(a[k]), error=float(err[k]), error_estimate=float(est[k]), floor=float(floor[k]),
                          final_radius=R, distance_to_singularity=d, signature=sig, **rep)
            continue
        # derivative = coefficients * k!
        if it % 4 == 0 or 'max_iter' in kw:
            with warnings.catch_warnings():
                warnings.simplefilter('ignore')
                dv, dinfo = fb.derivative(f, z0, **kw)
            mm = min(m, len(dv)) if 'object_used_before_with_n' in rep else m       # a reused object may return more than n + 1 coefficients
            fact = np.array([float(math.factorial(k_)) for k_ in range(mm)])
            if len(dv) < n + 1 or not (np.allclose(dv[:mm], np.asarray(c)[:mm] * fact, rtol=1e-12, atol=0) and
                    np.allclose(dinfo.error_estimate[:mm], np.asarray(info.error_estimate)[:mm] * fact, rtol=1e-12, atol=0)):
                ctx.violation('derivative() is not taylor() times k! (values or error estimates)', **rep)
    # default options on entire functions of modest scale, 14 <= n <= 20 (FFT size 32): the search has to move the radius from 0.0059 to
    # beyond 3, which takes about 13 circles — the documented min_iter = max_iter // 2 = 15 leaves room for that; the result must be neither
    # degenerate nor failed, and accurate
    for fname, fe, ser in (('exp(z/2)', lambda z: np.exp(0.5 * z), lambda z0, k: np.exp(0.5 * z0) * 0.5 ** k / math.factorial(k)),
                           ('exp(0.3z)', lambda z: np.exp(0.3 * z), lambda z0, k: np.exp(0.3 * z0) * 0.3 ** k / math.factorial(k)),
                           ('exp((0.3+0.4j)z)', lambda z: np.exp((0.3 + 0.4j) * z),
                            lambda z0, k: np.exp((0.3 + 0.4j) * z0) * (0.3 + 0.4j) ** k / math.factorial(k))):
        for n in (14, 16, 20, 10):
            for z0 in (0.0, 0.5, 0.25 + 0.5j):
                ctx.tried(('defaults-entire', fname, n, str(z0)))
                try:
                    with warnings.catch_warnings():
                        warnings.simplefilter('ignore')
                        c, info = fb.taylor(fe, z0, n=n, full_output=True)
                except Exception as ex_:
                    ctx.violation('taylor raised %r' % ex_, f=fname, z0=str(z0), n=n)
                    continue
                if len(c) < n + 1:
                    ctx.violation('taylor returned fewer than n + 1 coefficients', got=len(c), f=fname, z0=str(z0), n=n)
                    continue
                if info.degenerate or info.failed:
                    ctx.violation('default options, entire function of modest scale: reported degenerate or failed', f=fname, z0=str(z0), n=n,
                                  degenerate=bool(info.degenerate), failed=bool(info.failed), iterations=int(info.iterations))
                    continue
                errs = [abs(complex(c[k]) - complex(ser(z0, k))) for k in range(n + 1)]
                est = np.abs(np.asarray(info.error_estimate))[:n + 1]
                R = float(info.final_radius)
                fmax = float(np.max(np.abs(fe(z0 + R * np.exp(2j * np.pi * np.arange(64) / 64)))))
                bad = [k for k in range(n + 1) if errs[k] > K_EST * est[k] + C_FLOOR * EPS * fmax / R ** k]
                if bad:
                    ctx.violation('a Taylor coefficient is farther from the exact one than 1000 x its error estimate plus the FFT rounding floor',
                                  f=fname, z0=str(z0), n=n, k=bad[0], error=float(errs[bad[0]]), error_estimate=float(est[bad[0]]), final_radius=R)
    # a small initial radius with many coefficients (r**-k overflows on the first circles) and a single extrapolation circle, enumerated
    for fname, fe, ser in (('exp(z/2)', lambda z: np.exp(0.5 * z), lambda z0, k: np.exp(0.5 * z0) * 0.5 ** k / math.factorial(k)),
                           ('1/(4-z)', lambda z: 1.0 / (4.0 - z), lambda z0, k: 1.0 / (4.0 - z0) ** (k + 1))):
        for n, r in ((60, 1e-3), (100, 3e-3), (60, 3e-3), (53, 3e-3), (75, 1e-4), (60, 1e-5), (40, 1e-5)):
            for z0 in (0.0, 0.25, 0.3 + 0.2j):
                ctx.tried(('small-radius-one-circle', fname, n, r, str(z0)))
                try:
                    with warnings.catch_warnings():
                        warnings.simplefilter('ignore')
                        c, info = fb.taylor(fe, z0, n=n, r=r, num_extrap=1, full_output=True)
                except Exception as ex_:
                    ctx.violation('taylor raised %r' % ex_, f=fname, z0=str(z0), n=n, r=r, num_extrap=1)
                    continue
                if info.degenerate or info.failed or len(c) < n + 1:
                    continue
                R = float(info.final_radius)
                if fname.startswith('1/') and R >= 0.9 * abs(4.0 - z0):
                    continue              # the recorded finding C17-radius-beyond-singularity
                est = np.abs(np.asarray(info.error_estimate))[:n + 1]
                fmax = float(np.max(np.abs(fe(z0 + R * np.exp(2j * np.pi * np.arange(64) / 64)))))
                bad = [k for k in range(n + 1)
                       if abs(complex(c[k]) - complex(ser(z0, k))) > K_EST * est[k] + C_FLOOR * EPS * fmax / R ** k]
                if bad:
                    k = bad[0]
                    ctx.violation('a Taylor coefficient is farther from the exact one than 1000 x its error estimate plus the FFT rounding floor',
                                  f=fname, z0=str(z0), n=n, r=r, num_extrap=1, k=k, error=float(abs(complex(c[k]) - complex(ser(z0, k)))),
                                  error_estimate=float(est[k]), final_radius=R)
    louts = run_driver(['tloop %d %s' % (mi, ' '.join('1' if v else '0' for v in fl)) for fl, _f, mi in loop_jobs], 'C17t') if loop_jobs else []
    for (fl, failed, _mi), line in zip(loop_jobs, louts):
        leng['cases'] += 1
        w = line.split()
        model_failed = w[1] == '1'
        if failed == model_failed and int(w[0]) == len(fl):
            leng['exact'] += 1
        else:
            ctx.mismatch('taylor.loop', fl, [failed, len(fl)], w)
    # ---------------- engine `taylor.radius`: the bookkeeping of the radius search against the state machine `radRun` -------------------------
    reng = ctx.engine('taylor.radius')
    if rad_jobs:
        routs = run_driver(['radrun %d %s' % (ne_, ' '.join('%d %d %d' % (int(a), int(b), int(c)) for a, b, c in ins)) for ne_, ins, _f, _s, _r in rad_jobs], 'C17r')
        for (ne_, ins, fl, st_after, rep_), line in zip(rad_jobs, routs):
            reng['cases'] += 1
            w = line.split()
            impl = [len(fl), int(any(fl))] + [None if v is None else int(v) for v in st_after]
            model = [int(w[0]), int(w[1]), int(w[2]), int(w[3]), int(w[4])]
            model = [mv if iv is not None else None for mv, iv in zip(model, impl)]
            ctx.count('taylor.radius', 'converged' if any(fl) else 'cap reached')
            if impl == model:
                reng['exact'] += 1
            else:
                ctx.mismatch('taylor.radius', dict(rep_, num_extrap_used=ne_, inputs=ins[:40]), impl, model,
                             '(iterations, converged, direction changes, degenerate, num_changes)')
    else:
        ctx.notes.append('engine taylor.radius skipped: attachment points _check_fft / _poor_convergence / _check_convergence missing')
    ctx.notes.append('worst err / (1000 est + 100 eps fmax / R^k) with the final circle inside the disc of analyticity: %.3g' % worst)
    ctx.assumptions.append('FFT rounding, the success of the heuristic radius search and the accuracy-vs-estimate claim are explored, not proved; '
                           'numpy.fft.fft is identified with the exact DFT in dft_aliasing')


def replay(ctx, path):
    print(json.dumps(json.load(open(path)), indent=1)[:4000])
    return 0
