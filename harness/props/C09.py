"""C09 — Results depend only on (function, point, configuration), not on history."""
import json
import os
import subprocess
import sys
import threading
import warnings
from fractions import Fraction

import numpy as np

from harness.common import f2hex, q2s, s2q, run_driver, lean_obligations, REPO
from harness.translate import translator_obligations

MODULE = 'Ndt.Props.C09'
THEOREMS = ['Ndt.Cache.get?_mem', 'Ndt.lookupOrCompute_correct', 'Ndt.inv_nil', 'Ndt.inv_foreign_puts', 'Ndt.interleaved_lookup_correct',
            'Ndt.call_is_pure', 'Ndt.step_inv', 'Ndt.reachable_inv', 'Ndt.history_independent', 'Ndt.set_restore_identity']
REAL = ['central', 'forward', 'backward']
FUNCS = {'exp': np.exp, 'sinpoly': lambda t: np.sin(t) + t ** 3, 'rat': lambda t: t * t / (1 + t * t)}

WORKER = r'''
import sys, json, struct, warnings
sys.path.insert(0, %r)
warnings.simplefilter('ignore')
import numpy as np, numdifftools as nd
from numdifftools import finite_difference as fdm
def _rc(mod):
    c = getattr(mod, 'FD_RULES', None)
    if isinstance(c, dict):
        return c
    cands = [v for k, v in vars(mod).items() if isinstance(v, dict) and not k.startswith('__') and all(isinstance(kk, tuple) for kk in v)]
    return cands[0] if len(cands) == 1 else {}
RCW = _rc(fdm)
FUNCS = {'exp': np.exp, 'sinpoly': lambda t: np.sin(t) + t ** 3, 'rat': lambda t: t * t / (1 + t * t),
         'sumexp': lambda t: np.sum(np.exp(0.5 * t)) + np.prod(np.sin(t))}
def hx(v):
    v = float(v)
    if v != v:
        return 'nan'          # every NaN is the same value (as harness.common.f2hex)
    return '%%x' %% struct.unpack('<Q', struct.pack('<d', v))[0]
INITIAL = {k: np.array(v, copy=True) for k, v in RCW.items()}    # the cache as a fresh interpreter has it
for line in sys.stdin:
    req = json.loads(line)
    RCW.clear()
    RCW.update({k: np.array(v, copy=True) for k, v in INITIAL.items()})
    kw = {'step_ratio': req['step_ratio']} if req.get('step_ratio') else {}
    if req.get('gen'):
        from numdifftools.step_generators import MinStepGenerator, MaxStepGenerator
        o = dict(req['gen']['opts'])
        if isinstance(o.get('base_step'), list):
            o['base_step'] = np.array(o['base_step'])
        kw = {'step': (MinStepGenerator if req['gen']['cls'] == 'min' else MaxStepGenerator)(**o)}
    d = getattr(nd, req['cls'])(FUNCS[req['f']], n=req['n'], method=req['method'], order=req['order'], full_output=True, **kw) if req['cls'] == 'Derivative' \
        else getattr(nd, req['cls'])(FUNCS[req['f']], method=req['method'], order=req['order'], full_output=True, **kw)
    val, info = d(np.asarray(req['x']))
    print(json.dumps([[hx(v) for v in np.ravel(val)], [hx(v) for v in np.ravel(info.error_estimate)], [hx(v) for v in np.ravel(info.final_step)],
                      [int(v) for v in np.ravel(info.index)]]))
    sys.stdout.flush()
'''


def fresh_eval(reqs):
    """evaluate the requests in a separate interpreter, each with an empty rule cache and brand-new objects"""
    p = subprocess.run(['/venv/bin/python', '-c', WORKER % os.path.join(REPO, 'src')], input='\n'.join(json.dumps(r) for r in reqs) + '\n',
                       capture_output=True, text=True, timeout=3000)
    if p.returncode != 0:
        raise RuntimeError('fresh-interpreter worker failed: ' + p.stderr[-500:])
    return [json.loads(l) for l in p.stdout.strip().split('\n')]


def pack(val, info):
    return [[f2hex(v) for v in np.ravel(val)], [f2hex(v) for v in np.ravel(info.error_estimate)], [f2hex(v) for v in np.ravel(info.final_step)],
            [int(v) for v in np.ravel(info.index)]]


def make_exact(h):
    return (h + 1.0) - 1.0


def run(ctx):
    import numdifftools as nd
    from numdifftools import finite_difference as fdm
    from harness.common import rule_cache
    RC = rule_cache(fdm)
    translator_obligations(ctx, ['LogRule._parity', 'LogRule.num_terms', 'LogRule.method_order', 'LogRule.richardson_step', 'StepGen.default_step_ratio'])
    lean_obligations(ctx, MODULE, THEOREMS)
    rng = ctx.rng
    r1, rN = q2s(Fraction(make_exact(2.0))), q2s(Fraction(make_exact(1.6)))

    # ---------------- engine `history`: random operation sequences, trace of cache keys and generator state (exact) ----------
    eng = ctx.engine('history')
    requests, results, pending = [], [], []
    for seq_i in range(ctx.budget(60, 600)):
        RC.clear()
        objs, toks, impl_trace = [], [], []
        length = rng.randint(3, 12)
        # every third sequence is "paired": its objects share (method, n, order) and differ only in the step ratio, and nothing but
        # constructions and calls happens, so that two configurations compete for what could be one cache entry
        paired = seq_i % 3 == 2
        # another third is reconfiguration-heavy: few objects, mostly attribute assignments (method, order, n) between calls
        reconf = seq_i % 3 == 1
        pm = rng.choice(['central', 'forward', 'backward', 'complex'])
        pn, po = rng.randint(1, 4), rng.randint(1, 6)
        for step_i in range(length):
            kind = rng.choice(['C', 'K', 'K', 'K', 'N', 'O', 'M', 'S', 'X']) if objs else 'C'
            if paired:
                kind = 'C' if len(objs) < 2 else rng.choice(['K', 'K', 'K', 'C'])
            elif reconf:
                kind = 'C' if not objs else rng.choice(['M', 'M', 'O', 'N', 'N', 'K', 'K', 'K'])
            if kind == 'C' and len(objs) < 5:
                m = rng.choice(['central', 'forward', 'backward', 'complex', 'multicomplex'])
                n = rng.randint(1, 2 if m == 'multicomplex' else 4)
                o = rng.randint(1, 6)
                fname = rng.choice(list(FUNCS))
                # an explicit step ratio in half of the constructions: ratios that share an integer part or differ in the last bits
                sr = rng.choice([None, None, None, 2.0, 2.5, 2.25, 1.6, 1.2, 1.25, 3.0, 3.5])
                if paired:
                    m, n, o = pm, pn, po
                    sr = rng.choice([None, 2.0, 2.5, 2.25, 1.6, 1.2, 1.25, 1.75])
                kw = {} if sr is None else {'step_ratio': sr}
                d = nd.Derivative(FUNCS[fname], n=n, method=m, order=o, full_output=True, **kw)
                # the intended configuration is tracked here, never read back from the object
                objs.append({'d': d, 'f': fname, 'sr': sr, 'n': n, 'method': m, 'order': o})
                toks.append('C,%s,%d,%d,1,%s' % (m, n, o, '-' if sr is None else q2s(Fraction(make_exact(sr)))))
                impl_trace.append((sorted(RC), None))
                continue
            if kind == 'C':
                kind = 'K'
            i = rng.randrange(len(objs))
            d = objs[i]['d']
            cfg = objs[i]
            if kind == 'K':
                x = rng.choice([0.5, 1.25, 2.0, rng.uniform(0.3, 3), rng.uniform(3, 40)])
                xarg = x
                if seq_i % 2 == 0:
                    # one array per object, updated in place between its calls
                    buf = cfg.setdefault('buf', np.zeros(()))
                    buf[...] = x
                    xarg = buf
                with warnings.catch_warnings():
                    warnings.simplefilter('ignore')
                    try:
                        val, info = d(xarg)
                    except ValueError:
                        # a configuration the library rejects (multicomplex with n > 2 after a change of n)
                        if not (cfg['method'] == 'multicomplex' and cfg['n'] > 2):
                            ctx.violation('a valid configuration reached by attribute assignment was rejected', config=[cfg['method'], cfg['n'], cfg['order']])
                        toks.append('N,%d,%d' % (i, cfg['n']))
                        impl_trace.append((sorted(RC), None))
                        continue
                st = d.step._state
                toks.append('K,%d,x%d' % (i, len(toks)))
                impl_trace.append((sorted(RC), (str(st.method), int(st.n), int(st.order))))
                requests.append({'cls': 'Derivative', 'f': objs[i]['f'], 'n': cfg['n'], 'method': cfg['method'], 'order': cfg['order'], 'x': x,
                                 'step_ratio': cfg['sr']})
                results.append(pack(val, info))
                ctx.tried((seq_i, step_i))
            elif kind == 'N':
                newn = rng.randint(1, 4)
                if rng.random() < 0.5:
                    newn = 1 if cfg['n'] > 1 else rng.randint(2, 4)      # cross the n = 1 / n > 1 boundary (default ratio 2 / 1.6)
                if cfg['method'] == 'multicomplex':
                    newn = min(newn, 2)
                d.n = newn
                cfg['n'] = newn
                toks.append('N,%d,%d' % (i, newn))
                impl_trace.append((sorted(RC), None))
            elif kind == 'O':
                newo = rng.randint(1, 6)
                d.order = newo
                cfg['order'] = newo
                toks.append('O,%d,%d' % (i, newo))
                impl_trace.append((sorted(RC), None))
            elif kind == 'M':
                # only real-step methods are interchangeable (the generator class is chosen at construction)
                if cfg['method'] in REAL:
                    newm = rng.choice(REAL)
                    d.method = newm
                    cfg['method'] = newm
                    toks.append('M,%d,%s' % (i, newm))
                elif cfg['n'] <= 2:
                    newm = rng.choice(['complex', 'multicomplex'])
                    d.method = newm
                    cfg['method'] = newm
                    toks.append('M,%d,%s' % (i, newm))
                else:
                    toks.append('O,%d,%d' % (i, cfg['order']))
                impl_trace.append((sorted(RC), None))
            elif kind == 'S':
                j = rng.randrange(len(objs))
                same_family = (objs[j]['method'] in REAL) == (cfg['method'] in REAL)
                if same_family:
                    d.step = objs[j]['d'].step
                    cfg['sr'] = objs[j]['sr']          # the options of the generator now in use (tracked here, not read back)
                    toks.append('S,%d,%d' % (i, j))
                else:
                    toks.append('O,%d,%d' % (i, cfg['order']))
                impl_trace.append((sorted(RC), None))
            else:
                RC.clear()
                toks.append('X')
                impl_trace.append(([], None))
        pending.append((toks, impl_trace))
    lines_h = run_driver(['history %s %s %s' % (r1, rN, ' '.join(t)) for t, _tr in pending], 'C09h') if pending else []
    for (toks, impl_trace), line in zip(pending, lines_h):
        eng['cases'] += 1
        ctx.count('history', 'len=%d' % len(toks))
        model = line.split(' ')
        ok = len(model) == len(impl_trace)
        if ok:
            for (keys, st), mt in zip(impl_trace, model):
                mkeys, mst = mt.split('|')
                mk = sorted((float(s2q(a)), float(b), float(c)) for a, b, c in (t.split(',') for t in mkeys.split(';') if t))
                try:
                    ik = sorted(tuple(float(v) for v in (key if isinstance(key, tuple) else (key,))) for key in keys)
                except (TypeError, ValueError):
                    ik = [('unrecognised key',)]
                if mk != ik:
                    ok = False
                    break
                if st is not None:
                    parts = mst.split(':')
                    if (parts[2], int(parts[3]), int(parts[4])) != st:
                        ok = False
                        break
        if ok:
            eng['exact'] += 1
        else:
            ctx.mismatch('history', toks, [str(t) for t in impl_trace][:12], model[:12], 'trace of (sorted cache keys, generator state)')
    ctx.sample({'engine': 'history', 'ops': toks, 'model_trace': line[:300]})

    # ---------------- search: every call result against a fresh-interpreter evaluation, bit for bit -------------------------------
    ctx.search['rule'] = ('random sequences (length <= 12) of construct / call at x / set n, order, real-step method / share a step generator / '
                          'clear the rule cache over a pool of <= 5 objects; every call result (value, error_estimate, final_step, index) is '
                          'compared bit for bit with the evaluation of the same (function, point, configuration) in a separate interpreter with an '
                          'empty cache and brand-new objects; plus histories in which one user-created step generator (default / explicit scale and base step, '
                          'scalar or array-valued) serves 2-3 Derivative or Hessdiag objects of different (method, n, order) at several points; plus 16 threads on disjoint objects against the sequential results; '
                          'distinct = distinct (sequence, position)')
    if requests:
        fresh = fresh_eval(requests)
        for req, got, want in zip(requests, results, fresh):
            if got != want:
                ctx.violation('a call result depends on history: it differs from a fresh-interpreter evaluation of the same '
                              '(function, point, configuration)', request=req, in_history=got, fresh=want)
                break
    shared_generator_histories(ctx, nd, rng)
    single_reconfiguration_table(ctx, nd, rng)
    # threads
    nthreads = 16
    cfgs = []
    for t in range(nthreads):
        m = rng.choice(['central', 'forward', 'backward', 'complex'])
        cfgs.append({'cls': 'Derivative', 'f': rng.choice(list(FUNCS)), 'n': rng.randint(1, 3), 'method': m, 'order': rng.randint(1, 6),
                     'x': [rng.uniform(0.3, 3) for _ in range(3)]})
    seq_results = []
    for c in cfgs:
        RC.clear()
        with warnings.catch_warnings():
            warnings.simplefilter('ignore')
            d = nd.Derivative(FUNCS[c['f']], n=c['n'], method=c['method'], order=c['order'], full_output=True)
            seq_results.append(pack(*d(np.asarray(c['x']))))
    for rep_i in range(ctx.budget(3, 20)):
        RC.clear()
        objs = [nd.Derivative(FUNCS[c['f']], n=c['n'], method=c['method'], order=c['order'], full_output=True) for c in cfgs]
        out = [None] * nthreads
        barrier = threading.Barrier(nthreads)

        def work(k):
            barrier.wait()
            for _ in range(3):
                with np.errstate(all='ignore'):
                    out[k] = pack(*objs[k](np.asarray(cfgs[k]['x'])))
        with warnings.catch_warnings():
            warnings.simplefilter('ignore')
            ths = [threading.Thread(target=work, args=(k,)) for k in range(nthreads)]
            [t.start() for t in ths]
            [t.join() for t in ths]
        ctx.tried(('threads', rep_i))
        for k in range(nthreads):
            if out[k] != seq_results[k]:
                ctx.violation('a result computed while other objects were used in other threads differs from the sequential result',
                              config=cfgs[k], concurrent=out[k], sequential=seq_results[k])
                break
    RC.clear()
    ctx.assumptions.append('thread interleavings are modelled at the granularity of the interpreter lock (atomic dict get / set); '
                           'numpy / LAPACK internals are outside the model; warnings.catch_warnings in dea3 is process-global (affects warnings only)')


def single_reconfiguration_table(ctx, nd, rng):
    """the systematic part of the reconfiguration histories: call, change exactly one of (method, n, order), call again at the same
    point — for every ordered pair of neighbouring configurations of a small grid (real-step methods x n 1, 2 x order 2, 3, 4, and
    complex / multicomplex x order), the second call against a fresh interpreter"""
    # n = 0 (the function value itself) is a configuration like any other: a visit there must leave nothing behind
    grid = [(m, n, o) for m in REAL for n in (0, 1, 2, 4) for o in (2, 3, 4)] + [(m, n, o) for m in ('complex', 'multicomplex') for n in (0, 1, 2) for o in (2, 4)]
    pairs = []
    for a in grid:
        for b in grid:
            if a != b and sum(x != y for x, y in zip(a, b)) == 1 and (a[0] in REAL) == (b[0] in REAL):
                pairs.append((a, b))
    if not ctx.thorough:
        pairs = rng.sample(pairs, 90)
    requests, results = [], []
    for a, b in pairs:
        fname = rng.choice(list(FUNCS))
        x = rng.choice([0.5, 1.25, 2.0])
        d = nd.Derivative(FUNCS[fname], n=a[1], method=a[0], order=a[2], full_output=True)
        try:
            with warnings.catch_warnings():
                warnings.simplefilter('ignore')
                d(x)
                if a[0] != b[0]:
                    d.method = b[0]
                if a[1] != b[1]:
                    d.n = b[1]
                if a[2] != b[2]:
                    d.order = b[2]
                val, info = d(x)
        except Exception as ex:
            ctx.violation('a reconfigured object raised %r' % ex, before=list(a), after=list(b), x=x)
            continue
        ctx.tried(('reconfigure', a, b, fname, x))
        requests.append({'cls': 'Derivative', 'f': fname, 'n': b[1], 'method': b[0], 'order': b[2], 'x': x, 'step_ratio': None,
                         'history': ['call as %s' % (a,), 'set to %s' % (b,), 'call']})
        results.append(pack(val, info))
    # round trips: one attribute set to another value and back again (with or without a call in between) leaves no trace
    trips = []
    for m in ('central', 'forward', 'backward', 'complex'):
        for n in (1, 2, 3):
            for o in (1, 2, 3, 4, 5):
                others_m = [t for t in (REAL if m in REAL else ['complex', 'multicomplex']) if t != m]
                for via in [('method', t) for t in others_m if not (t == 'multicomplex' and n > 2)] + \
                        [('order', t) for t in (1, 2, 6) if t != o] + [('n', t) for t in (1, 2, 4) if t != n]:
                    trips.append((m, n, o, via))
    if not ctx.thorough:
        trips = rng.sample(trips, 90)
    for (m, n, o, (attr, other)) in trips:
        fname = rng.choice(list(FUNCS))
        x = rng.choice([0.5, 1.25, 2.0])
        d = nd.Derivative(FUNCS[fname], n=n, method=m, order=o, full_output=True)
        try:
            with warnings.catch_warnings():
                warnings.simplefilter('ignore')
                setattr(d, attr, other)
                if rng.random() < 0.5:
                    d(x)
                setattr(d, attr, {'method': m, 'n': n, 'order': o}[attr])
                val, info = d(x)
        except Exception as ex:
            ctx.violation('a reconfigured object raised %r' % ex, configuration=[m, n, o], via=[attr, other], x=x)
            continue
        ctx.tried(('round-trip', m, n, o, attr, other, fname, x))
        requests.append({'cls': 'Derivative', 'f': fname, 'n': n, 'method': m, 'order': o, 'x': x, 'step_ratio': None,
                         'history': ['built as %s' % ((m, n, o),), 'set %s = %s' % (attr, other), 'set back', 'call']})
        results.append(pack(val, info))
    if requests:
        fresh = fresh_eval(requests)
        for req, got, want in zip(requests, results, fresh):
            if got != want:
                ctx.violation('a call result depends on history (one attribute changed between two calls of the same object): it differs '
                              'from a fresh-interpreter evaluation of the same (function, point, configuration)', request=req, in_history=got,
                              fresh=want)
                break


def shared_generator_histories(ctx, nd, rng):
    """one user-created step generator (default or explicit scale / base step, scalar or array-valued base step) serves several
    objects with different (method, n, order) at several points; every call against a fresh interpreter with a brand-new equal generator"""
    from numdifftools.step_generators import MinStepGenerator, MaxStepGenerator
    fsum = lambda t: np.sum(np.exp(0.5 * t)) + np.prod(np.sin(t))
    requests, results = [], []
    for seq_i in range(ctx.budget(40, 400)):
        gcls = rng.choice(['min', 'min', 'max'])
        dim = rng.choice([1, 2, 3])
        opts = {}
        bs = rng.choice(['none', 'none', 'scalar', 'array'])
        if bs == 'scalar':
            opts['base_step'] = rng.choice([1e-3, 0.01, 0.25]) if gcls == 'min' else rng.choice([0.5, 1.0, 2.0])
        elif bs == 'array':
            opts['base_step'] = [rng.choice([1e-3, 0.01, 0.02]) if gcls == 'min' else rng.choice([0.5, 1.0, 2.0]) for _ in range(dim)]
        if rng.random() < 0.4:
            opts['step_ratio'] = rng.choice([2.0, 1.6, 3.0])
        if rng.random() < 0.3:
            opts['num_steps'] = rng.choice([6, 9, 12])
        if rng.random() < 0.2 and gcls == 'min':
            opts['scale'] = rng.choice([2.0, 3.0])
        live = dict(opts)
        user_array = None
        if bs == 'array':
            user_array = np.array(opts['base_step'])
            live['base_step'] = user_array
        gen = (MinStepGenerator if gcls == 'min' else MaxStepGenerator)(**live)
        family = rng.choice(['Derivative', 'Derivative', 'Hessdiag'])
        objs = []
        for _ in range(rng.randint(2, 3)):
            m = rng.choice(['central', 'forward', 'backward', 'complex'] if family == 'Derivative' else ['central', 'forward', 'backward'])
            n = rng.randint(1, 3) if family == 'Derivative' else 2
            o = rng.choice([1, 2, 3, 4, 6]) if family == 'Derivative' else rng.choice([2, 4, 6])
            if rng.random() < 0.5 and objs:
                m, n = objs[0]['method'], objs[0]['n']          # same method and n, another order
            fname = rng.choice(['exp', 'sinpoly', 'rat']) if family == 'Derivative' else 'sumexp'
            f = FUNCS[fname] if family == 'Derivative' else fsum
            d = nd.Derivative(f, n=n, method=m, order=o, step=gen, full_output=True) if family == 'Derivative' else \
                nd.Hessdiag(f, method=m, order=o, step=gen, full_output=True)
            objs.append({'d': d, 'f': fname, 'n': n, 'method': m, 'order': o})
        inplace, xbuf = rng.random() < 0.5, None
        for call_i in range(rng.randint(4, 8)):
            cfg = rng.choice(objs)
            x = [rng.choice([0.5, 1.25, 2.5, 7.0, -3.5, rng.uniform(1.5, 9)]) for _ in range(dim)]
            xa = np.asarray(x if (dim > 1 or family == 'Hessdiag' or bs == 'array') else x[0])
            if rng.random() < 0.3:
                # somebody else constructs one more object on the same generator, passing step options next to it (they do not apply to
                # a generator object that is handed over ready-made, and certainly do not reconfigure it for its other users)
                extra = rng.choice([{'num_steps': 4}, {'step_ratio': 3.0}, {'base_step': 0.5}, {'offset': 2}, {'num_extrap': 2}])
                try:
                    (nd.Derivative if family == 'Derivative' else nd.Hessdiag)(FUNCS['exp'] if family == 'Derivative' else fsum, step=gen, **extra)
                except Exception:
                    pass
            if inplace:
                # the caller keeps one array and updates it in place between the calls (x *= 2, x -= rate * grad(x), x[0] = ..)
                if xbuf is None:
                    xbuf = np.array(xa, dtype=float)
                xbuf[...] = xa
                xa = xbuf
            try:
                with warnings.catch_warnings():
                    warnings.simplefilter('ignore')
                    val, info = cfg['d'](xa)
            except Exception as ex:
                ctx.violation('a call with a shared user step generator raised %r' % ex, generator=[gcls, opts], config=[cfg['method'], cfg['n'], cfg['order']],
                              x=np.asarray(xa).tolist(), call=call_i)
                break
            requests.append({'cls': family, 'f': cfg['f'], 'n': cfg['n'], 'method': cfg['method'], 'order': cfg['order'], 'x': np.asarray(xa).tolist(),
                             'step_ratio': None, 'gen': {'cls': gcls, 'opts': opts}, 'history': [seq_i, call_i]})
            results.append(pack(val, info))
            ctx.tried(('shared-generator', seq_i, call_i))
        if user_array is not None and not np.array_equal(user_array, np.array(opts['base_step'])):
            ctx.violation("the caller's base_step array was modified by calls of objects using the generator", generator=[gcls, opts],
                          now=user_array.tolist())
    if requests:
        fresh = fresh_eval(requests)
        for req, got, want in zip(requests, results, fresh):
            if got != want:
                ctx.violation('a call result depends on history (shared user step generator): it differs from a fresh-interpreter evaluation '
                              'of the same (function, point, configuration) with a brand-new generator built from the same options',
                              request=req, in_history=got, fresh=want)
                break


def replay(ctx, path):
    print(json.dumps(json.load(open(path)), indent=1)[:4000])
    return 0
