"""C03 — Jacobian, Gradient, directionaldiff: right entries and shapes for any R^n -> R^m."""
import json
import warnings
from fractions import Fraction

import numpy as np

from harness.common import s2q, run_driver, lean_obligations

MODULE = 'Ndt.Props.C03Complex'
THEOREMS = ['Ndt.jacRavel2_length', 'Ndt.jacobian_layout2', 'Ndt.jacobian_step_layout', 'Ndt.jacobian_layout3', 'Ndt.jacobian_shapes',
            'Ndt.jacobian_affine_exact', 'Ndt.derivative_exact_on_polynomials', 'Ndt.flat_gather', 'Ndt.jacobian_affine_exact_complex', 'Ndt.directionaldiff_exact']
METHODS = ['central', 'forward', 'backward', 'complex', 'multicomplex']
TOL_AFFINE = 1e-9


def run(ctx):
    import numdifftools as nd
    lean_obligations(ctx, MODULE, THEOREMS)
    rng = ctx.rng

    # ---------------- engine `jac.layout`: shapes and entry positions, exact ------------------------------------------------
    eng = ctx.engine('jac.layout')
    grid = [(n, m, None) for n in range(1, 9) for m in range(1, 7)] + [(n, m, k) for n in range(1, 6) for m in range(1, 5) for k in range(1, 5)]
    if not ctx.thorough:
        grid = [g for g in grid if rng.random() < 0.4 or g[0] == 1 or g[1] == 1]
    out = run_driver(['jacravel %d %d' % (n, m) if k is None else 'jacravel %d %d %d' % (n, m, k) for n, m, k in grid], 'C03l')
    for (n, m, k), line in zip(grid, out):
        eng['cases'] += 1
        flat, shape = line.split(' | ')
        model = np.array([float(s2q(t)) for t in flat.split()])
        mshape = tuple(int(t) for t in shape.split())
        meth = rng.choice(METHODS)
        x = np.array([rng.uniform(0.5, 2) for _ in range(n)])
        if k is None:
            A = np.array([[10000.0 * j + 100.0 * i for j in range(n)] for i in range(m)])
            f = lambda t: A @ t + 1.0
        else:
            A = np.array([[[10000.0 * j + 100.0 * i + l for l in range(k)] for j in range(n)] for i in range(m)])     # [i, j, l]
            f = lambda t: np.einsum('ijl,j->il', A, t) + 1.0
        ctx.count('jac.layout', 'f shape %s' % ('(m,)' if k is None else '(m,k)'))
        try:
            with warnings.catch_warnings():
                warnings.simplefilter('ignore')
                J, info = nd.Jacobian(f, method=meth, full_output=True)(x)
        except Exception as ex:
            ctx.violation('Jacobian raised %r' % ex, n=n, m=m, k=k, method=meth)
            continue
        if J.shape != mshape:
            ctx.mismatch('jac.layout', [n, m, k, meth], list(J.shape), list(mshape), 'shape')
            ctx.violation('Jacobian has the wrong shape', n=n, m=m, k=k, method=meth, got=list(J.shape))
            continue
        if np.allclose(J.ravel(), model, rtol=1e-7, atol=1e-4):
            eng['exact'] += 1
        else:
            ctx.mismatch('jac.layout', [n, m, k, meth], J.ravel()[:8].tolist(), model[:8].tolist(), 'entry positions (slopes encode (j, i, l))')
        if np.shape(info.error_estimate) != J.shape or np.shape(info.final_step) != J.shape:
            ctx.violation('error_estimate / final_step do not have the shape of the Jacobian', n=n, m=m, k=k, method=meth)
    ctx.sample({'engine': 'jac.layout', 'case': list(map(str, grid[0])), 'model': out[0][:200]})

    # ---------------- failing-input search -----------------------------------------------------------------------------------------
    ctx.search['rule'] = ('n 1..8, m 1..6 (k 1..4 for matrix-valued f), affine maps with random dyadic A, b (exact to rounding required) and smooth '
                          'nonlinear maps with analytic Jacobian, all five methods, orders 2 and 4, random x; Gradient shape and equality with the '
                          'single Jacobian row (also for f returning a length-1 array and 2-d x); directionaldiff against Gradient . v/|v| within '
                          'the error estimates; distinct = distinct (n, m, method, order, data)')
    for it in range(ctx.budget(150, 2000) * (2 if (ctx.broken or ctx.mismatches) else 1)):
        n, m = rng.randint(1, 8), rng.randint(1, 6)
        meth = rng.choice(METHODS)
        order = rng.choice([2, 4])
        # coordinates of different magnitude: the nominal step log(1.718 + |x_j|) (at least 1) then differs between coordinates
        xscale = rng.choice([2.0, 2.0, 10.0, 100.0])
        x = np.array([rng.uniform(-xscale, xscale) for _ in range(n)])
        # the dtype of x is not part of its value: float32 (values rounded to float32 first) and integer-typed arrays as well
        xdtype = rng.choice(['float64', 'float64', 'float32', 'int'])
        if xdtype == 'float32':
            x = x.astype(np.float32)
        elif xdtype == 'int':
            x = np.array([rng.randint(-int(xscale), int(xscale)) for _ in range(n)])
        A = np.array([[rng.randint(-16, 16) / 4 for _ in range(n)] for _ in range(m)])
        b = np.array([rng.randint(-8, 8) / 2 for _ in range(m)])
        kind = rng.choice(['affine', 'affine', 'nonlinear', 'scalar', 'len1', 'matrix', 'matrix'])
        kk = rng.randint(1, 4)
        T = np.array([[[rng.randint(-16, 16) / 4 for _ in range(n)] for _ in range(kk)] for _ in range(m)])      # (m, k, n)
        # step options: default, an explicit step ratio, or a user-supplied generator with its own ratio
        sk = rng.choice([{}, {}, {'step_ratio': rng.choice([1.6, 2.5, 3.0, 4.0])}, 'gen'])
        if sk == 'gen':
            from numdifftools.step_generators import MinStepGenerator, MaxStepGenerator
            sk = {'step': MaxStepGenerator(base_step=1.0, step_ratio=rng.choice([1.6, 3.0]), num_steps=14)} if meth in ('central', 'forward', 'backward') \
                else {'step': MinStepGenerator(step_ratio=rng.choice([1.6, 3.0]), num_extrap=4)}
        ctx.tried((n, m, meth, order, kind, tuple(x[:2]), str(sorted(sk))))
        rep = dict(n=n, m=m, method=meth, order=order, kind=kind, x=x.tolist(), x_dtype=str(x.dtype),
                   step_options=str({k: (v if not hasattr(v, 'step_ratio') else '%s(step_ratio=%s)' % (type(v).__name__, v.step_ratio)) for k, v in sk.items()}))
        # a third of the objects reach (method, order) by attribute assignment after construction with another order (and, for the
        # real-step methods, another method): the entries must be those of the final configuration
        reconf = rng.random() < 0.33
        rep['reconfigured'] = reconf

        def mk(fun, method=None, order=None, full_output=True, **kw):
            if not reconf:
                return nd.Jacobian(fun, method=method, order=order, full_output=full_output, **kw)
            m0 = rng.choice(['central', 'forward', 'backward']) if method in ('central', 'forward', 'backward') else method
            obj = nd.Jacobian(fun, method=m0, order={2: 4, 4: 2}[order], full_output=full_output, **kw)
            if rng.random() < 0.5:
                with warnings.catch_warnings():
                    warnings.simplefilter('ignore')
                    obj(x)                      # used once in its first configuration
            obj.method = method
            obj.order = order
            return obj
        if 'step' not in sk and rng.random() < 0.3:
            # another object with almost the same step ratio (literal 1.618034 next to (1 + sqrt 5) / 2, float32(1.3) next to 1.3, a ratio
            # computed as 4.8 / 3) was evaluated just before: its rules are not this object's rules
            r_near = float(sk.get('step_ratio', 2.0)) * (1 + rng.choice([3e-7, -2e-7, 4e-8]))
            rep['earlier_object_step_ratio'] = r_near
            with warnings.catch_warnings():
                warnings.simplefilter('ignore')
                nd.Jacobian(lambda t: A @ t + b, method=meth, order=order, step_ratio=r_near)(np.asarray(x, dtype=float))
        try:
            with warnings.catch_warnings():
                warnings.simplefilter('ignore')
                if kind == 'affine':
                    J, info = mk(lambda t: A @ t + b, method=meth, order=order, full_output=True, **sk)(x)
                    exact, tol = A, TOL_AFFINE * (1 + np.abs(A).max())
                elif kind == 'nonlinear':
                    W = A / 4
                    J, info = mk(lambda t: np.sin(W @ t) + (W @ t) ** 2, method=meth, order=order, full_output=True, **sk)(x)
                    u = W @ x
                    exact = (np.cos(u) + 2 * u)[:, None] * W
                    tol = None
                elif kind == 'matrix':
                    # f(t)[i, l] = sum_j T[i, l, j] t_j (+ a smooth term in half of the cases): shape (m, k); Jacobian [i, j, l] = d f[i, l] / d x_j
                    smooth = it % 2 == 1
                    fm = (lambda t: T @ t + np.sin(T @ t / 16)) if smooth else (lambda t: T @ t)
                    J, info = mk(fm, method=meth, order=order, full_output=True, **sk)(x)
                    dT = (1 + np.cos(T @ x / 16) / 16)[:, :, None] * T if smooth else T
                    exact = np.transpose(dT, (0, 2, 1))
                    tol = None if smooth else TOL_AFFINE * (1 + np.abs(T).max())
                elif kind == 'scalar':
                    J, info = mk(lambda t: np.sum(A[0] * t) + np.prod(np.cos(t / 4)), method=meth, order=order, full_output=True, **sk)(x)
                    exact = (A[0] - np.prod(np.cos(x / 4)) * np.tan(x / 4) / 4)[None, :]
                    tol = None
                else:
                    J, info = mk(lambda t: np.array([np.sum(A[0] * t)]), method=meth, order=order, full_output=True, **sk)(x)
                    exact, tol = A[:1], TOL_AFFINE * (1 + np.abs(A).max())
        except Exception as ex:
            ctx.violation('Jacobian raised %r' % ex, **rep)
            continue
        if J.shape != exact.shape:
            ctx.violation('Jacobian shape is not (m, n) / (m, n, k)', got=list(J.shape), expected=list(exact.shape), **rep)
            continue
        err = np.abs(J - exact)
        if xdtype == 'float32' and tol is not None:
            # for a float32 x the library forms its steps in float32: their ratios are exact only to float32 rounding, and so is the
            # result of a rule with more than one term (unchanged tree: up to 1.5e-7 relative); "exact to rounding" is then float32's
            tol = 2e-6 * (1 + float(np.max(np.abs(exact))))
        if tol is not None and meth in ('central', 'forward', 'backward'):
            # "exact to rounding" for a difference quotient read at step h: the values of f carry a rounding of eps |f(x)|, which the
            # quotient divides by h (|x| up to 100 makes |f| ~ 1e3; with step ratio 4 the sequence reaches steps ~1e-5)
            with np.errstate(all='ignore'):
                hmin = float(np.min(np.abs(np.asarray(info.final_step, dtype=float))))
                fsz = float(np.max(np.abs(np.asarray(info.f_value))))
            if hmin > 0 and np.isfinite(fsz):
                tol = tol + 100.0 * 2.0 ** -52 * fsz / hmin
        bound = tol if tol is not None else 1000 * np.asarray(info.error_estimate) + (1e-5 if xdtype == 'float32' else 1e-7) * (1 + np.abs(exact))
        if np.any(err > bound):
            ctx.violation('Jacobian entry differs from the exact partial derivative', got=J.tolist(), exact=exact.tolist(), **rep)
            continue
        # Gradient = the single Jacobian row, shape (n,) / 0-d
        if kind in ('scalar', 'len1', 'affine'):
            fs = (lambda t: np.sum(A[0] * t) + np.prod(np.cos(t / 4))) if kind == 'scalar' else (lambda t: np.sum(A[0] * t))
            xx = x.reshape(2, -1) if (n % 2 == 0 and rng.random() < 0.3) else x
            with warnings.catch_warnings():
                warnings.simplefilter('ignore')
                g = nd.Gradient(fs, method=meth, order=order, **sk)(xx)
                Jr = nd.Jacobian(fs, method=meth, order=order, **sk)(x)
            want_shape = () if n == 1 else (n,)
            if np.shape(g) != want_shape:
                ctx.violation('Gradient shape is not that of the flattened x', got=list(np.shape(g)), expected=list(want_shape), **rep)
            elif not np.array_equal(np.ravel(g), np.ravel(Jr)):
                ctx.violation('Gradient differs from the single Jacobian row', gradient=np.ravel(g).tolist(), row=np.ravel(Jr).tolist(), **rep)
            # directionaldiff
            v = np.array([rng.uniform(-1, 1) for _ in range(n)])
            if np.linalg.norm(v) > 1e-3 and rng.random() < 0.5:
                # a direction typed by hand: unit length to five or six decimals only (0.70711, 0, 0.70711), or a coordinate axis, or a
                # unit vector scaled by exactly 3 — the result is Gradient . v/|v| for every non-zero v
                kind_v = rng.choice(['rounded', 'rounded', 'almost', 'axis', 'times3'])
                u = v / np.linalg.norm(v)
                if kind_v == 'rounded':
                    v = np.round(u, rng.choice([5, 6]))
                elif kind_v == 'almost':
                    v = u * (1.0 + rng.choice([-1, 1]) * 10.0 ** rng.uniform(-7, -5.1))
                elif kind_v == 'axis':
                    v = np.zeros(n)
                    v[rng.randrange(n)] = rng.choice([1.0, -1.0])
                else:
                    v = 3.0 * np.round(u, 5)
            if np.linalg.norm(v) > 1e-3:
                with warnings.catch_warnings():
                    warnings.simplefilter('ignore')
                    dd, di = nd.directionaldiff(fs, x, v, method=meth, order=order, full_output=True, **sk)
                    gg, gi = nd.Gradient(fs, method=meth, order=order, full_output=True, **sk)(x)
                want = float(np.dot(np.ravel(gg), v / np.linalg.norm(v)))
                tol_d = 1000 * (float(np.max(di.error_estimate)) + float(np.sum(np.abs(gi.error_estimate)))) + 1e-8 * (1 + abs(want))
                if abs(float(dd) - want) > tol_d:
                    ctx.violation('directionaldiff differs from Gradient . v/|v|', got=float(dd), expected=want, v=v.tolist(), **rep)
    ctx.assumptions.append('numpy broadcasting / transpose / ravel are modelled by list functions (layout theorems) and validated by the layout '
                           'engine; rounding is not modelled')


def replay(ctx, path):
    print(json.dumps(json.load(open(path)), indent=1)[:4000])
    return 0
