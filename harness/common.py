"""Shared machinery for the checks: Lean build/audit, the model driver, verdict logic, evidence.

Run under /venv/bin/python.  The implementation under test is imported from REPO/src
(REPO defaults to /repo; VERIF_REPO overrides it for experiments on scratch worktrees).
"""
from __future__ import annotations
import sys as _sys
if hasattr(_sys, 'set_int_max_str_digits'):
    _sys.set_int_max_str_digits(0)          # exact rationals of the model can have thousands of digits (rules for n up to 20)

import fcntl
import json
import os
import random
import re
import struct
import subprocess
import sys
import time
from fractions import Fraction

VERIF = os.path.dirname(os.path.dirname(os.path.abspath(__file__)))
REPO = os.environ.get('VERIF_REPO', '/repo')
LEAN = os.path.join(VERIF, 'lean')
WORK = os.path.join(VERIF, 'work')
GUARD = 'NUMDIFFTOOLS_VERIF'
STD_AXIOMS = {'propext', 'Classical.choice', 'Quot.sound'}
TRUSTED_BASE = [
    'Lean 4.33.0 kernel and elaborator; Mathlib v4.33.0 as compiled on the image',
    'axioms: propext, Classical.choice, Quot.sound only (audited with #print axioms on every run); '
    'no native_decide, no bv_decide, no sorry, no axioms of our own',
    'the correspondence harness (harness/*.py) and the translator (translator/py2lean.py)',
    'IEEE-754 rounding, numpy/scipy/LAPACK/FFT/libm are modelled, not verified (DESIGN.md section 5)',
]


def setup_impl_path():
    src = os.path.join(REPO, 'src')
    if src not in sys.path:
        sys.path.insert(0, src)
    os.environ[GUARD] = '1'


# ----------------------------------------------------------------------------------------------
# numbers on the wire
# ----------------------------------------------------------------------------------------------
def f2hex(x) -> str:
    x = float(x)
    if x != x:
        return 'nan'
    return '%x' % struct.unpack('<Q', struct.pack('<d', x))[0]


def hex2f(s: str) -> float:
    if s == 'nan':
        return float('nan')
    return struct.unpack('<d', struct.pack('<Q', int(s, 16)))[0]


def q2s(q) -> str:
    q = Fraction(q)
    return str(q.numerator) if q.denominator == 1 else '%d/%d' % (q.numerator, q.denominator)


def s2q(s: str) -> Fraction:
    return Fraction(s)


def ulps(a: float, b: float) -> float:
    """distance in units in the last place (inf if signs/finite-ness differ)"""
    if a == b:
        return 0
    if a != a or b != b or a in (float('inf'), float('-inf')) or b in (float('inf'), float('-inf')):
        return float('inf')

    def key(x):
        i = struct.unpack('<q', struct.pack('<d', x))[0]
        return i if i >= 0 else -(i & 0x7fffffffffffffff)
    return abs(key(a) - key(b))


# ----------------------------------------------------------------------------------------------
# Lean: build, audit, driver
# ----------------------------------------------------------------------------------------------
def rule_cache(mod):
    """the module-level cache of finite-difference rules (an optional attachment point: found by its name, or — if renamed — as
    the only module-level dict keyed by tuples); a detached dict when it cannot be identified"""
    c = getattr(mod, 'FD_RULES', None)
    if isinstance(c, dict):
        return c
    cands = [v for k, v in vars(mod).items() if isinstance(v, dict) and not k.startswith('__') and all(isinstance(kk, tuple) for kk in v)]
    return cands[0] if len(cands) == 1 else {}


_INITIAL_RULES = {}


def reset_rule_cache(cache):
    """put the rule cache back to the state it had when the library was imported (remembered at the first call, before the harness
    has touched it): a cache that is pre-populated at import time is part of what a user gets, so the harness must not wipe it"""
    import numpy as np
    key = id(cache)
    if key not in _INITIAL_RULES:
        _INITIAL_RULES[key] = {k: np.array(v, copy=True) for k, v in cache.items()}
        return
    cache.clear()
    cache.update({k: np.array(v, copy=True) for k, v in _INITIAL_RULES[key].items()})


def generated_steps(obj, x_i):
    """(steps, step_ratio) the differentiator `obj` generates at `x_i`: through its private `_get_steps` when present (an optional
    attachment point), else through the public generator object `obj.step`"""
    g = getattr(obj, '_get_steps', None)
    if g is not None:
        return g(x_i)
    gen = obj.step.step_generator_function(x_i, obj.method, obj.n, obj.method_order)
    return list(gen()), gen.step_ratio


def run_subruns(ctx, n_sub):
    """thorough tier: `n_sub` further runs of the engines and the search with other PRNG streams, in parallel processes; their
    cases, mismatches, violations and known-finding hits are merged into `ctx` (obligations are the parent's)"""
    os.makedirs(WORK, exist_ok=True)
    procs = []
    for j in range(1, n_sub + 1):
        out = os.path.join(WORK, 'sub_%s_%d_%d.json' % (ctx.pid, os.getpid(), j))
        env = dict(os.environ, VERIF_SUBRUN=out, VERIF_SEED=str(ctx.seed * 1000 + j), VERIF_TIER='thorough')
        # seven processes in parallel: without a cap every one of them starts one BLAS / OpenMP thread per core and they starve each
        # other (C10 thorough: 70 minutes instead of 2); two threads each keeps the machine busy without oversubscribing it
        for var in ('OMP_NUM_THREADS', 'OPENBLAS_NUM_THREADS', 'MKL_NUM_THREADS'):
            env.setdefault(var, '2')
        procs.append((j, out, subprocess.Popen([os.path.join(VERIF, 'check'), ctx.pid, '--tier', 'thorough'], env=env,
                                               stdout=subprocess.PIPE, stderr=subprocess.STDOUT, text=True)))
    merged = 0
    extra_nontrivial = 0
    for j, out, p in procs:
        txt, _ = p.communicate()
        if p.returncode != 0 or not os.path.exists(out):
            raise RuntimeError('thorough sub-run %d failed (rc %s): %s' % (j, p.returncode, (txt or '')[-600:]))
        d = json.load(open(out))
        os.remove(out)
        merged += 1
        for v in d['violations']:
            v = dict(v, subrun_seed=d['seed'])
            sig = v.get('signature')
            if not (sig and any(sig == k.get('signature') for k in ctx.known)) and len(ctx.violations) < 10:
                ctx.violations.append(v)
        for hit in d['known_hits']:
            hit = tuple(hit)
            if hit not in ctx.known_hits:
                ctx.known_hits.append(hit)
        for mm in d['mismatches']:
            if len(ctx.mismatches) < 20:
                ctx.mismatches.append(dict(mm, subrun_seed=d['seed']))
        for name, st in d['engines'].items():
            e = ctx.engine(name)
            for k in ('cases', 'exact', 'bit_identical', 'within_ulp', 'rounded', 'mismatch', 'skipped'):
                e[k] += st.get(k, 0)
            for k, v in st.get('distribution', {}).items():
                if isinstance(v, (int, float)) and isinstance(e['distribution'].get(k, 0), (int, float)):
                    e['distribution'][k] = e['distribution'].get(k, 0) + v
        ctx.search['evaluations'] += d['evaluations']
        extra_nontrivial += d['nontrivial']
    ctx.search['extra_nontrivial'] = extra_nontrivial
    ctx.notes.append('thorough tier: %d parallel sub-runs (seeds %d..%d) merged' % (merged, ctx.seed * 1000 + 1, ctx.seed * 1000 + n_sub))


class LeanLock:
    def __enter__(self):
        os.makedirs(os.path.join(LEAN, '.lake'), exist_ok=True)
        self.f = open(os.path.join(LEAN, '.lake', 'verif.lock'), 'w')
        fcntl.flock(self.f, fcntl.LOCK_EX)
        return self

    def __exit__(self, *a):
        fcntl.flock(self.f, fcntl.LOCK_UN)
        self.f.close()


_DECL = re.compile(r'^\s*(?:@\[[^\]]*\]\s*)?(?:private\s+|protected\s+|noncomputable\s+)*'
                   r'(theorem|lemma|def|example|instance|abbrev|structure|inductive)\s+([^\s:({\[]*)')


def _enclosing_decl(path, line):
    try:
        src = open(path).read().split('\n')
    except OSError:
        return '?'
    for i in range(min(line, len(src)) - 1, -1, -1):
        m = _DECL.match(src[i])
        if m:
            return m.group(2) or m.group(1)
    return '?'


def lake_build(targets, timeout=3000):
    """Build the targets.  Returns (ok, errors) with errors = [{file, line, decl, msg}]."""
    with LeanLock():
        t0 = time.time()
        p = subprocess.run(['lake', 'build'] + list(targets), cwd=LEAN, capture_output=True, text=True,
                           timeout=timeout)
    out = p.stdout + p.stderr
    errors = []
    for m in re.finditer(r'^error: ([^\s:]+\.lean):(\d+):(\d+): (.*)$', out, re.M):
        f, ln, _c, msg = m.group(1), int(m.group(2)), m.group(3), m.group(4)
        errors.append({'file': f, 'line': ln, 'decl': _enclosing_decl(os.path.join(LEAN, f), ln),
                       'msg': msg[:300]})
    ok = p.returncode == 0
    if not ok and not errors:
        errors.append({'file': '?', 'line': 0, 'decl': '?', 'msg': out[-1500:]})
    return ok, errors, out, time.time() - t0


def audit_axioms(module, theorems, tag):
    """#print axioms for every theorem; returns {theorem: [axioms] or None if unknown/missing}."""
    os.makedirs(WORK, exist_ok=True)
    path = os.path.join(WORK, 'Audit_%s.lean' % tag)
    with open(path, 'w') as f:
        f.write('import %s\n' % module)
        for t in theorems:
            f.write('#print axioms %s\n' % t)
    with LeanLock():
        p = subprocess.run(['lake', 'env', 'lean', path], cwd=LEAN, capture_output=True, text=True, timeout=3000)
    out = p.stdout + p.stderr
    res = {t: None for t in theorems}
    flat = re.sub(r'\s+', ' ', out)
    for t in theorems:
        m = re.search(r"'%s' depends on axioms: \[([^\]]*)\]" % re.escape(t), flat)
        if m:
            res[t] = [a.strip() for a in m.group(1).split(',') if a.strip()]
        elif re.search(r"'%s' does not depend on any axioms" % re.escape(t), flat):
            res[t] = []
    return res, out


_FORBIDDEN = re.compile(r'\bsorry\b|\badmit\b|^axiom\s|native_decide|bv_decide|implemented_by|\bunsafe\s|maxHeartbeats 0',
                        re.M)


def _strip_comments(src: str) -> str:
    src = re.sub(r'/-.*?-/', '', src, flags=re.S)
    return re.sub(r'--.*$', '', src, flags=re.M)


def textual_scan():
    """grep for sorry/admit/axiom/native_decide/... in lean/Ndt (comments removed)."""
    hits = []
    for root, _d, files in os.walk(os.path.join(LEAN, 'Ndt')):
        for fn in files:
            if fn.endswith('.lean'):
                p = os.path.join(root, fn)
                for m in _FORBIDDEN.finditer(_strip_comments(open(p).read())):
                    hits.append('%s: %s' % (os.path.relpath(p, LEAN), m.group(0).strip()))
    return hits


def run_driver(lines, tag, timeout=3000):
    """Pipe protocol lines through the Lean model driver; returns the output lines."""
    os.makedirs(WORK, exist_ok=True)
    inp = os.path.join(WORK, 'driver_%s_%d.in' % (tag, os.getpid()))
    with open(inp, 'w') as f:
        for ln in lines:
            f.write(ln + '\n')
    with open(inp) as fin:
        p = subprocess.run(['lake', 'env', 'lean', '--run', 'Main.lean'], cwd=LEAN, stdin=fin,
                           capture_output=True, text=True, timeout=timeout)
    try:
        os.remove(inp)
    except OSError:
        pass
    out = p.stdout.split('\n')
    if out and out[-1] == '':
        out.pop()
    if p.returncode != 0 or len(out) != len(lines):
        raise RuntimeError('driver failed: rc=%s, %d lines in, %d out; stderr=%s'
                           % (p.returncode, len(lines), len(out), p.stderr[-800:]))
    return out


# ----------------------------------------------------------------------------------------------
# known findings
# ----------------------------------------------------------------------------------------------
def load_known():
    p = os.path.join(VERIF, 'known_findings.json')
    if not os.path.exists(p):
        return {'findings': [], 'fixed': []}
    return json.load(open(p))


# ----------------------------------------------------------------------------------------------
# the per-run context and verdict
# ----------------------------------------------------------------------------------------------
class Ctx:
    def __init__(self, pid, tier, seed):
        self.pid, self.tier, self.seed = pid, tier, seed
        self.rng = random.Random(seed * 1000003 + sum(map(ord, pid)))
        self.t0 = time.time()
        self.obligations = []       # {name, kind, ok, detail}
        self.engines = {}           # engine -> stats dict
        self.search = {'evaluations': 0, 'nontrivial': set(), 'rule': ''}
        self.violations = []        # property failures on the implementation (dicts, replayable)
        self.known_hits = []        # (finding id, text)
        self.mismatches = []        # model/impl disagreements (broken correspondence), shrunk
        self.samples = []
        self.notes = []
        self.assumptions = []
        self.checker_cmd = ''
        self.known = [f for f in load_known()['findings'] if f['property'] == pid]
        self.thorough = tier == 'thorough'
        self.kept = []              # (label, returned object, snapshot at return time, replay info)

    # results are values: what a call returned must not change when the library is used again
    def keep(self, label, obj, **replay):
        """remember a returned array (the object itself, not a copy) together with a snapshot of its contents; `verify_kept`
        reports a violation when a later call changed it (a result aliased to a buffer, cache or internal state)"""
        import numpy as np
        if len(self.kept) < 4000 and isinstance(obj, np.ndarray) and obj.size:
            self.kept.append((label, obj, np.array(obj, copy=True), replay))

    def verify_kept(self):
        import numpy as np
        for label, obj, snap, replay in self.kept:
            same = obj.shape == snap.shape and bool(np.all((obj == snap) | ((obj != obj) & (snap != snap))))
            if not same:
                self.violation('%s: an array returned by an earlier call was changed by later calls (the result is aliased to '
                               'internal state)' % label, returned=str(snap.tolist())[:300], now=str(obj.tolist())[:300], **replay)
                break
        n = len(self.kept)
        self.kept = []
        return n

    # budgets: quick/thorough
    def budget(self, quick, thorough):
        return thorough if self.thorough else quick

    def oblige(self, name, kind, ok, detail=''):
        self.obligations.append({'name': name, 'kind': kind, 'ok': bool(ok), 'detail': detail})

    def engine(self, name):
        return self.engines.setdefault(name, {'cases': 0, 'exact': 0, 'bit_identical': 0, 'within_ulp': 0,
                                              'rounded': 0, 'mismatch': 0, 'skipped': 0, 'distribution': {}})

    def count(self, engine, key, n=1):
        d = self.engine(engine)['distribution']
        d[key] = d.get(key, 0) + n

    def mismatch(self, engine, case, impl, model, note=''):
        e = self.engine(engine)
        e['mismatch'] += 1
        if len(self.mismatches) < 20:
            self.mismatches.append({'engine': engine, 'case': case, 'impl': impl, 'model': model, 'note': note})

    def tried(self, key=None):
        self.search['evaluations'] += 1
        if key is not None:
            self.search['nontrivial'].add(key)

    def violation(self, what, **replay):
        """a concrete input on which the PROPERTY fails on the implementation"""
        sig = replay.get('signature')
        for k in self.known:
            if sig is not None and sig == k.get('signature'):
                if (k['id'], k['text']) not in self.known_hits:
                    self.known_hits.append((k['id'], k['text']))
                return
        if len(self.violations) < 10:
            self.violations.append(dict(what=what, **replay))

    def sample(self, s):
        if len(self.samples) < 12:
            self.samples.append(s)

    @property
    def broken(self):
        return [o for o in self.obligations if not o['ok']]


def lean_obligations(ctx: Ctx, module, theorems):
    """Build the property module, audit the axioms of its theorems, scan the sources."""
    if os.environ.get('VERIF_SUBRUN'):
        return True          # a parallel sub-run of the thorough tier: the parent has built and audited everything
    ok, errors, out, dt = lake_build([module, 'Ndt.Driver.Main'])
    ctx.checker_cmd = 'cd lean && lake build %s Ndt.Driver.Main && lake env lean work/Audit_%s.lean (#print axioms)' % (module, ctx.pid)
    bad_decls = {}
    for e in errors:
        bad_decls.setdefault(e['decl'], []).append('%s:%d %s' % (e['file'], e['line'], e['msg']))
    build_ok = ok
    if not ok:
        # which of the registered theorems are affected?  If the error is in an imported module every
        # theorem downstream is unchecked.
        ctx.oblige('build:' + module, 'build', False, json.dumps(errors[:5]))
        # The regenerated definitions (lean/Ndt/Gen) may no longer fit the hand-written proofs or the driver.  The broken
        # obligations stay recorded; for the correspondence engines and the failing-input search the generated files are put
        # back to the last known-good translation so that the driver can still be built and run.
        try:
            from translator import py2lean
            with LeanLock():
                restored = py2lean.restore_baseline_files()
            if restored:
                ok2, _e2, _o2, _dt2 = lake_build(['Ndt.Driver.Main'])
                ctx.notes.append('build failed with the regenerated definitions; generated files restored to the baseline translation '
                                 'for the driver (driver build %s)' % ('ok' if ok2 else 'still failing'))
        except Exception as ex_:          # pragma: no cover
            ctx.notes.append('baseline fallback failed: %r' % ex_)
    else:
        ctx.oblige('build:' + module, 'build', True, '%.1fs' % dt)
    if build_ok:
        ax, aout = audit_axioms(module, theorems, ctx.pid)
        for t in theorems:
            a = ax[t]
            if a is None:
                ctx.oblige('theorem:' + t, 'theorem', False, 'not found by #print axioms')
            elif not set(a) <= STD_AXIOMS:
                ctx.oblige('theorem:' + t, 'theorem', False, 'axioms: %s' % a)
            else:
                ctx.oblige('theorem:' + t, 'theorem', True, 'axioms: %s' % a)
    else:
        for t in theorems:
            short = t.split('.')[-1]
            detail = '; '.join(bad_decls.get(short, [])) or 'module did not build'
            ctx.oblige('theorem:' + t, 'theorem', False, detail)
    hits = textual_scan()
    ctx.oblige('scan:no-sorry-axiom-native_decide', 'scan', not hits, '; '.join(hits[:5]))
    if ctx.thorough and build_ok:
        with LeanLock():
            p = subprocess.run(['lake', 'env', 'leanchecker', module], cwd=LEAN, capture_output=True, text=True,
                               timeout=6000)
        ctx.oblige('leanchecker:' + module, 'recheck', p.returncode == 0, (p.stdout + p.stderr)[-300:])
    return build_ok


def finish(ctx: Ctx, level='proof'):
    """Verdict + evidence.  Returns the exit code."""
    nk = ctx.verify_kept()
    if nk:
        ctx.notes.append('%d returned arrays were kept (not copied) and re-examined at the end of the run: unchanged' % nk
                         if not any('aliased to internal state' in v.get('what', '') for v in ctx.violations) else
                         'a kept result changed after later calls')
    sub = os.environ.get('VERIF_SUBRUN')
    if sub:
        json.dump({'violations': ctx.violations, 'mismatches': ctx.mismatches, 'engines': ctx.engines, 'known_hits': ctx.known_hits,
                   'evaluations': ctx.search['evaluations'], 'nontrivial': len(ctx.search['nontrivial']), 'notes': ctx.notes, 'seed': ctx.seed},
                  open(sub, 'w'), default=str)
        return 0
    os.makedirs(os.path.join(VERIF, 'evidence'), exist_ok=True)
    os.makedirs(os.path.join(VERIF, 'replays', ctx.pid), exist_ok=True)
    for e, st in ctx.engines.items():
        if st['mismatch']:
            ctx.oblige('corr:' + e, 'correspondence', False, '%d mismatches' % st['mismatch'])
        else:
            ctx.oblige('corr:' + e, 'correspondence', True, '%d cases' % st['cases'])
    lines = []
    rc = 0
    for fid, text in ctx.known_hits:
        lines.append('KNOWN-FINDING: property=%s %s' % (ctx.pid, text))
    replay_path = None
    if ctx.violations:
        replay_path = os.path.join('replays', ctx.pid, 'violation_%d.json' % ctx.seed)
        json.dump({'property': ctx.pid, 'kind': 'failing-input', 'violations': ctx.violations,
                   'broken_obligations': ctx.broken, 'mismatches': ctx.mismatches,
                   'replay_cmd': './check %s --replay %s' % (ctx.pid, replay_path)},
                  open(os.path.join(VERIF, replay_path), 'w'), indent=1, default=str)
        lines.append('VIOLATION property=%s replay=%s' % (ctx.pid, replay_path))
        rc = 1
    elif ctx.broken:
        replay_path = os.path.join('replays', ctx.pid, 'broken_%d.json' % ctx.seed)
        json.dump({'property': ctx.pid, 'kind': 'broken-obligation',
                   'broken_obligations': ctx.broken, 'mismatches': ctx.mismatches,
                   'note': 'the property is no longer shown to hold: the named theorem / translation / '
                           'correspondence does not check, and the failing-input search found no input on '
                           'which the property itself fails'},
                  open(os.path.join(VERIF, replay_path), 'w'), indent=1, default=str)
        lines.append('VIOLATION property=%s replay=%s no-failing-input-found' % (ctx.pid, replay_path))
        rc = 1
    n_obl = len(ctx.obligations)
    n_ok = sum(1 for o in ctx.obligations if o['ok'])
    nontriv = len(ctx.search['nontrivial']) + ctx.search.get('extra_nontrivial', 0)
    ev = {
        'property_id': ctx.pid, 'tier': ctx.tier, 'seed': ctx.seed, 'level': level,
        'coverage': {
            'obligations': n_obl, 'discharged': n_ok,
            'checker_cmd': ctx.checker_cmd or 'n/a',
            'trusted_base': TRUSTED_BASE,
            'obligation_list': ctx.obligations,
            'correspondence': ctx.engines,
            'search': {'evaluations': ctx.search['evaluations'], 'distinct_nontrivial': nontriv,
                       'rule': ctx.search['rule']},
            'evaluations': max(1, ctx.search['evaluations'] + sum(e['cases'] for e in ctx.engines.values())),
            'distinct_nontrivial': nontriv,
            'rule': ctx.search['rule'],
            'samples': ctx.samples or ['(none)'],
            'known_findings_reproduced': [t for _i, t in ctx.known_hits],
            'notes': ctx.notes,
        },
        'assumptions': ctx.assumptions,
        'wall_s': round(time.time() - ctx.t0, 2),
        'violations': len(ctx.violations) + (1 if (ctx.broken and not ctx.violations) else 0),
    }
    # VERIF_EVIDENCE_DIR redirects the evidence (used when the checks are run against a deliberately changed tree,
    # so that the committed evidence always describes the unchanged tree)
    evdir = os.environ.get('VERIF_EVIDENCE_DIR') or os.path.join(VERIF, 'evidence')
    os.makedirs(evdir, exist_ok=True)
    json.dump(ev, open(os.path.join(evdir, ctx.pid + '.json'), 'w'), indent=1, default=str)
    for ln in lines:
        print(ln)
    print('%s %s seed=%d: obligations %d/%d, engines %s, search %d evals (%d distinct), %.1fs -> %s'
          % (ctx.pid, ctx.tier, ctx.seed, n_ok, n_obl,
             {k: (v['cases'], v['mismatch']) for k, v in ctx.engines.items()},
             ctx.search['evaluations'], nontriv, time.time() - ctx.t0, 'FAIL' if rc else 'ok'))
    if rc and ctx.broken:
        for o in ctx.broken[:8]:
            print('  broken: %s  %s' % (o['name'], o['detail'][:300]))
    if rc and ctx.mismatches:
        print('  first mismatch: %s' % json.dumps(ctx.mismatches[0], default=str)[:600])
    if rc and ctx.violations:
        print('  first violation: %s' % json.dumps(ctx.violations[0], default=str)[:800])
    sys.stdout.flush()
    return rc


def install_rename_aliases():
    """A private helper of the library that was merely renamed (identical body, see translator.py2lean.normalise) stays reachable
    under the name the harness knows: the old name is added as an alias next to the new one (never over an existing attribute)."""
    import importlib
    from translator import py2lean
    done = []
    try:
        ren = py2lean.compute_renames()
    except Exception:
        return done
    for relpath, items in ren.items():
        try:
            mod = importlib.import_module('numdifftools.' + relpath[:-3])
        except Exception:
            continue
        for scope, new, old in items:
            owner = getattr(mod, scope, None) if scope else mod
            if owner is None or old in vars(owner) or new not in vars(owner):
                continue
            setattr(owner, old, vars(owner)[new])
            done.append('%s: %s%s -> %s' % (relpath, scope + '.' if scope else '', old, new))
    return done
