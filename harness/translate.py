"""Run the translator and turn its status into proof obligations of the current check."""
import json
import os
from harness.common import LeanLock, VERIF


def translator_obligations(ctx, prefixes):
    if os.environ.get('VERIF_SUBRUN'):
        return {}            # sub-run of the thorough tier: the parent ran the translator
    from translator import py2lean
    with LeanLock():
        status, bad, changed = py2lean.main()
    n = 0
    for k, v in sorted(status.items()):
        if any(k.startswith(p) for p in prefixes) or k.startswith('unit:'):
            ctx.oblige('translate:' + k, 'translation', v.get('ok', False), v.get('error', ''))
            n += 1
    if changed:
        ctx.notes.append('translator output changed on this run (Gen files rewritten)')
    return status
