"""Failing-input search shared by C01 and C02: random expression programs, all methods, n, order, step options,
against the Taylor-series oracle.

Envelopes (per (method, n), relative to the local scale of f and its derivatives) were calibrated on the
unchanged tree (6 seeds x 4000 programs, see DESIGN.md section 6/C01): ENV = 100 x the largest ratio observed.
They are part of the committed framework and are never recomputed at run time.
"""
import math
import warnings

import numpy as np

from harness.exprs import gen_program, local_scale, Node

NMAX = {'central': 6, 'complex': 4, 'forward': 4, 'backward': 4, 'multicomplex': 2}
MAXRATIO = {('backward', 1): 4.6e-11, ('backward', 2): 4.6e-06, ('backward', 3): 0.0013, ('backward', 4): 0.13,
            ('central', 1): 2.7e-12, ('central', 2): 8.4e-05, ('central', 3): 4.7e-09, ('central', 4): 1.1e-07,
            ('central', 5): 9.1e-07, ('central', 6): 9.8e-06, ('complex', 1): 1.3e-10, ('complex', 2): 1.9e-11,
            ('complex', 3): 0.0013, ('complex', 4): 0.001, ('forward', 1): 3.3e-11, ('forward', 2): 4.2e-06,
            ('forward', 3): 0.0015, ('forward', 4): 0.053, ('multicomplex', 1): 1.6e-12, ('multicomplex', 2): 1e-12}
ENV = {k: 100.0 * v for k, v in MAXRATIO.items()}            # C01: |result - exact| <= ENV * S
FLOOR = {k: 0.01 * v for k, v in MAXRATIO.items()}           # C02: |result - exact| <= K_EST * estimate + FLOOR * S
K_EST = 1000.0
# complex-step methods with a user generator of several moderate steps (MaxStepGenerator(base_step=0.1, step_ratio=2, num_steps=5) /
# MinStepGenerator(base_step=1e-3, step_ratio=2, num_steps=8), step_nom=1): worst |result - exact| / S(n..n+8) on the unchanged tree per
# (method, n, order, generator), 6 seeds x 1200 programs; the envelope is 100 x these
MULTISTEP_WORST = {('complex', 1, 1, 'max'): 3.2e-14, ('complex', 1, 1, 'min'): 1.6e-15, ('complex', 1, 2, 'max'): 3.1e-14,
                   ('complex', 1, 2, 'min'): 1.1e-15, ('complex', 1, 3, 'max'): 3.5e-14, ('complex', 1, 3, 'min'): 1.1e-15,
                   ('complex', 1, 4, 'max'): 1.1e-13, ('complex', 1, 4, 'min'): 6.2e-14, ('complex', 1, 5, 'max'): 6.8e-14,
                   ('complex', 1, 5, 'min'): 4.7e-14, ('complex', 1, 6, 'max'): 2.1e-13, ('complex', 1, 6, 'min'): 3.8e-14,
                   ('complex', 2, 1, 'max'): 6.5e-14, ('complex', 2, 1, 'min'): 4.5e-14, ('complex', 2, 2, 'max'): 6.3e-14,
                   ('complex', 2, 2, 'min'): 1.1e-13, ('complex', 2, 3, 'max'): 4.6e-14, ('complex', 2, 3, 'min'): 3.5e-14,
                   ('complex', 2, 4, 'max'): 5.3e-14, ('complex', 2, 4, 'min'): 6.6e-14, ('complex', 2, 5, 'max'): 1.0e-13,
                   ('complex', 2, 5, 'min'): 2.6e-14, ('complex', 2, 6, 'max'): 2.7e-13, ('complex', 2, 6, 'min'): 7.1e-14,
                   ('multicomplex', 1, 1, 'max'): 9.5e-14, ('multicomplex', 1, 1, 'min'): 7.8e-15, ('multicomplex', 1, 2, 'max'): 3.7e-14,
                   ('multicomplex', 1, 2, 'min'): 2.1e-14, ('multicomplex', 1, 3, 'max'): 3.1e-14, ('multicomplex', 1, 3, 'min'): 3.9e-15,
                   ('multicomplex', 1, 4, 'max'): 8.8e-13, ('multicomplex', 1, 4, 'min'): 6.2e-15, ('multicomplex', 1, 5, 'max'): 8.9e-13,
                   ('multicomplex', 1, 5, 'min'): 1.3e-15, ('multicomplex', 1, 6, 'max'): 1.6e-08, ('multicomplex', 1, 6, 'min'): 9.9e-12,
                   ('multicomplex', 2, 1, 'max'): 5.0e-11, ('multicomplex', 2, 1, 'min'): 2.5e-15, ('multicomplex', 2, 2, 'max'): 1.7e-10,
                   ('multicomplex', 2, 2, 'min'): 1.8e-14, ('multicomplex', 2, 3, 'max'): 7.3e-12, ('multicomplex', 2, 3, 'min'): 8.1e-14,
                   ('multicomplex', 2, 4, 'max'): 3.4e-10, ('multicomplex', 2, 4, 'min'): 1.3e-13, ('multicomplex', 2, 5, 'max'): 2.4e-10,
                   ('multicomplex', 2, 5, 'min'): 2.4e-15, ('multicomplex', 2, 6, 'max'): 2.8e-07, ('multicomplex', 2, 6, 'min'): 1.7e-10}


def uses(tree, names):
    if not isinstance(tree, Node):
        return False
    if tree.op in names:
        return True
    return any(uses(c, names) for c in tree.args)


def big_hyperbolic_argument(tree, x):
    """an argument of tanh / tan(->tanh) / sinh / cosh with magnitude above 300 (see the known finding on
    Bicomplex.tanh overflowing through sinh/cosh)"""
    worst = [0.0]

    def walk(node):
        if not isinstance(node, Node):
            return node
        if node.op == 'x':
            return x
        if node.op == 'const':
            return node.const
        a = [walk(c) for c in node.args]
        if node.op in ('tanh', 'sinh', 'cosh', 'tan') and a:
            worst[0] = max(worst[0], abs(float(a[0])))
        return float(Node(node.op, tuple(Node('const', const=float(t)) for t in a), node.const)(x))
    try:
        walk(tree)
    except Exception:
        return True
    return worst[0] > 300


def under_resolution(d, n, h, tree=None, x=None):
    """how badly f is under-resolved at distance h: (i) max over k = 2, 4 of |f^(n+k)(x)| h^k / k! relative to |f^(n)(x)| (how large
    the next Taylor terms of the n-th derivative are), and, when the program is given, (ii) how far f itself is from its Taylor
    polynomial (all known derivatives) at x +- h, x +- h/2, relative to the local size of f — a saturated function such as
    tanh(x sinh(sin(2 x^2))) at x = -75 has all derivatives ~0 at x and flips sign 0.01 away"""
    base = abs(d[n]) + 1e-300
    ur = max([abs(d[n + k]) * h ** k / math.factorial(k) / base for k in (2, 4) if n + k < len(d)] or [0.0])
    if tree is not None and h > 0 and math.isfinite(h):
        s0 = max(abs(v) / math.factorial(k) for k, v in enumerate(d)) + 1e-300
        for t in (h, -h, h / 2, -h / 2):
            try:
                with warnings.catch_warnings():
                    warnings.simplefilter('ignore')
                    fv = float(tree(x + t))
            except Exception:
                continue
            if not math.isfinite(fv):
                continue
            tay = sum(v * t ** k / math.factorial(k) for k, v in enumerate(d))
            ur = max(ur, abs(fv - tay) / max(s0, abs(tay)))
    return ur


def under_resolved_probe(ctx):
    """deterministic probes of the recorded findings C02-under-resolved-at-final-step and C02-complex-estimate-blind-to-truncation"""
    import numdifftools as nd
    g = lambda x: (x * ((x ** 3 - (x - x)) / (1.0 + ((np.cos(x) * np.arctan(x)) * (np.cos(x) * np.arctan(x))))))
    gx, gexact = -71.90686125680566, 61633275.77111569
    with warnings.catch_warnings():
        warnings.simplefilter('ignore')
        gv, ginfo = nd.Derivative(g, n=4, method='complex', order=4, full_output=True)(gx)
    if abs(float(gv) - gexact) > K_EST * float(ginfo.error_estimate) + 1e-5 * abs(gexact):
        ctx.violation('true error exceeds %g x error_estimate + rounding floor' % K_EST, got=float(gv), exact=gexact,
                      error_estimate=float(ginfo.error_estimate), final_step=float(ginfo.final_step), x=gx, method='complex', n=4, order=4,
                      signature='C02-complex-estimate-blind-to-truncation')
    f = lambda x: ((np.expm1(0.05 * x) - (1.0 + (1.0 * x * 1.0 * x)) ** 2.5) /
                   (2.0 + (np.expm1(2.0 * np.sin(np.sin(x))) * np.expm1(2.0 * np.sin(np.sin(x))))))
    x, exact = 15.71588204554346, -14534768.5074242
    with warnings.catch_warnings():
        warnings.simplefilter('ignore')
        v, info = nd.Derivative(f, n=4, method='complex', order=4, full_output=True)(x)
    if abs(float(v) - exact) > K_EST * float(info.error_estimate) + 1e-5 * abs(exact):
        ctx.violation('true error exceeds %g x error_estimate + rounding floor' % K_EST, got=float(v), exact=exact,
                      error_estimate=float(info.error_estimate), final_step=float(info.final_step), x=x, method='complex', n=4, order=4,
                      signature='C02-under-resolved-at-final-step')


def tiny_log1p_argument(tree, x):
    """an argument of log1p with magnitude below 1e-3: numpy's *complex* log1p (what the user function calls under
    method='complex') computes log(hypot(1 + re, im)) and keeps only absolute accuracy there — a limitation of numpy, outside the
    library (Bicomplex.log1p, the multicomplex path, has its own accurate version since 1ff91f9)"""
    smallest = [float('inf')]

    def walk(node):
        if not isinstance(node, Node):
            return node
        if node.op == 'x':
            return x
        if node.op == 'const':
            return node.const
        a = [walk(c) for c in node.args]
        if node.op == 'log1p' and a:
            smallest[0] = min(smallest[0], abs(float(a[0])))
        return float(Node(node.op, tuple(Node('const', const=float(t)) for t in a), node.const)(x))
    try:
        walk(tree)
    except Exception:
        return True
    return smallest[0] < 1e-3


def derivative_search(ctx, budget, honesty):
    import numdifftools as nd
    from numdifftools.step_generators import MinStepGenerator, MaxStepGenerator
    rng = ctx.rng
    worst = {}
    skipped_nonfinite = [0]
    # deterministic probe of a repaired defect (9b2f666, 14bf9fb: multicomplex second derivative through Bicomplex.arctan / arcsin / arccos)
    with warnings.catch_warnings():
        warnings.simplefilter('ignore')
        pv, pinfo = nd.Derivative(np.arctan, n=2, method='multicomplex', full_output=True)(1.0454421587490552)
    pexact = -2 * 1.0454421587490552 / (1 + 1.0454421587490552 ** 2) ** 2
    if abs(float(pv) - pexact) > 1e-6 * abs(pexact) and float(pinfo.error_estimate) < 1e-9:
        ctx.violation('multicomplex second derivative of arctan is wrong with a tiny error estimate', got=float(pv), exact=pexact,
                      error_estimate=float(pinfo.error_estimate), x=1.0454421587490552)
    if not honesty:
        # deterministic probe of the recorded finding C01-under-resolved-at-final-step
        with warnings.catch_warnings():
            warnings.simplefilter('ignore')
            uv, ui = nd.Derivative(lambda t: np.sin(t * t), n=3, method='central', order=4, full_output=True)(-25.536662458823972)
        if abs(float(uv) - 31454.693811492572) > 1e-3 * 31454.7:
            ctx.violation('Derivative is outside the accuracy envelope of (central, n=3)', f='sin(x**2)', x=-25.536662458823972, got=float(uv),
                          exact=31454.693811492572, final_step=float(ui.final_step), signature='C01-under-resolved-at-final-step')
    for it in range(budget):
        m = rng.choice(list(NMAX))
        n = rng.randint(0 if rng.random() < 0.05 else 1, NMAX[m])
        order = rng.randint(1, 8)
        tree, x, d = gen_program(rng, 8)
        if m == 'multicomplex' and (big_hyperbolic_argument(tree, x)):
            continue
        if m == 'complex' and tiny_log1p_argument(tree, x):
            continue
        kw = dict(n=n, method=m, order=order, full_output=True)
        if rng.random() < 0.15 and n >= 1:
            if m in ('complex', 'multicomplex'):
                kw['step'] = rng.choice([MinStepGenerator(), MinStepGenerator(num_extrap=5)])
            else:
                kw['step'] = rng.choice([MaxStepGenerator(), MaxStepGenerator(step_ratio=2.0), MaxStepGenerator(num_steps=20)])
        array_x = rng.random() < 0.15
        xs = np.array([x, x]) if array_x else x
        pick = 0
        if array_x and rng.random() < 0.5:
            # a 2-d argument that is not C-contiguous; the point under test sits at logical position [0, 1] (its place in memory
            # differs from its place in C order), the other elements are nearby points of the domain (within 1e-3 |x|)
            xa, xb = x * (1 + 1e-3), x * (1 - 1e-3)
            xs = np.asfortranarray(np.array([[xa, x, xb], [xb, xa, xa]])) if rng.random() < 0.5 else \
                np.array([[xa, xb], [x, xa], [xb, xa]]).T
            pick = 1
        key = (m, n, order, str(tree), x)
        S = local_scale(d, max(n, 0), n + 4)
        rep = dict(program=str(tree), x=x, method=m, n=n, order=order, step=type(kw.get('step')).__name__, exact=d[n] if n < len(d) else None)
        nonfinite = [False]

        def f_obs(t, tree=tree, nonfinite=nonfinite):
            # the program itself, observed: did it return a non-finite value at a point the method evaluated?
            r = tree(t)
            z1 = getattr(r, 'z1', r)
            if not np.all(np.isfinite(np.asarray(z1))):
                nonfinite[0] = True
            return r
        try:
            with warnings.catch_warnings():
                warnings.simplefilter('ignore')
                val, info = nd.Derivative(f_obs, **kw)(xs)
        except Exception as ex:
            ctx.tried(key)
            ctx.violation('Derivative raised %r' % ex, **rep)
            continue
        if nonfinite[0] and m in ('complex', 'multicomplex'):
            # the program overflows (or leaves its domain) at the complex points of the stencil, e.g. sin(x**4) at x = 27 has
            # |sin| ~ exp(4 x^3 h): the function cannot be evaluated where the method needs it — outside the property's domain
            ctx.tried(None)
            skipped_nonfinite[0] += 1
            continue
        ctx.tried(key)
        v = float(np.ravel(val)[pick])
        est = float(np.ravel(info.error_estimate)[pick])
        if n == 0:
            with warnings.catch_warnings():
                warnings.simplefilter('ignore')
                direct = float(np.ravel(tree(np.asarray(xs)))[pick])
            if not v == direct:
                ctx.violation('n = 0 does not return f(x)', got=v, fx=direct, **rep)
            continue
        sig = None
        err = abs(v - d[n]) if math.isfinite(v) else float('inf')
        ratio = err / S
        worst[(m, n)] = max(worst.get((m, n), 0.0), ratio / ENV[(m, n)])
        # the rounding noise of the double-precision evaluation of this expression (running error bound of the oracle's own recurrences):
        # for the complex-step methods it enters the n-th derivative directly, for the real-step methods through eps_f / h^n
        hfin_c = abs(float(np.ravel(info.final_step)[pick]))
        cond_n = (d.cond[n] if getattr(d, 'cond', None) else 0.0)
        cond_0 = (d.cond[0] if getattr(d, 'cond', None) else 0.0)
        conditioning = cond_n if m in ('complex', 'multicomplex') else (10.0 * cond_0 / hfin_c ** n if hfin_c > 0 else 0.0)
        if not honesty:
            if not err <= ENV[(m, n)] * S + conditioning:
                # recorded finding: f is under-resolved at the step the generator ends on (see under_resolution)
                hfin = abs(float(np.ravel(info.final_step)[pick]))
                ur = under_resolution(d, n, hfin, tree, x)
                sig1 = sig or ('C01-under-resolved-at-final-step' if ur > 0.25 else None)
                ctx.violation('Derivative is outside the accuracy envelope of (%s, n=%d)' % (m, n), got=v, error=err, local_scale=S,
                              ratio=ratio, envelope=ENV[(m, n)], final_step=hfin, under_resolution=ur, signature=sig1, **rep)
        else:
            fv = np.ravel(info.f_value)[pick] if np.ndim(info.f_value) else info.f_value
            with warnings.catch_warnings():
                warnings.simplefilter('ignore')
                direct = float(np.ravel(tree(np.asarray(xs)))[pick])
            if not float(fv) == direct:
                ctx.violation('f_value differs from f(x)', f_value=float(fv), fx=direct, **rep)
            if math.isfinite(v) and not (math.isfinite(est) and est >= 0):
                ctx.violation('error_estimate negative or not finite although the result is finite', got=v, error_estimate=est, **rep)
            if np.shape(info.error_estimate) != np.shape(val) or np.shape(info.final_step) != np.shape(val):
                ctx.violation('error_estimate / final_step do not have one entry per entry of the result',
                              shapes=[list(np.shape(val)), list(np.shape(info.error_estimate)), list(np.shape(info.final_step))], **rep)
            # the rounding floor: the calibrated share of the local scale, plus — for the real-step methods, whose quotients subtract
            # nearly equal values — the resolution of a difference quotient at the step the result was read at, eps |f(x)| / h^n
            hfin0 = abs(float(np.ravel(info.final_step)[pick]))
            resolution = 10.0 * 2.0 ** -52 * abs(direct) / hfin0 ** n if (m in ('central', 'forward', 'backward') and hfin0 > 0) else 0.0
            resolution += conditioning
            if not err <= K_EST * est + FLOOR[(m, n)] * S + resolution:
                # recorded finding: f is under-resolved at the step the generator ends on (the next Taylor terms of f^(n) at that step
                # are comparable with f^(n) itself), and the extrapolation of the short sequence does not see the truncation error
                hfin = abs(float(np.ravel(info.final_step)[pick]))
                ur = under_resolution(d, n, hfin, tree, x)
                sig2 = sig or ('C02-under-resolved-at-final-step' if ur > 0.25 else None)
                if sig2 is None and m == 'complex' and n >= 3 and 'step' not in kw and \
                        ur * abs(d[n]) > K_EST * est + FLOOR[(m, n)] * S + resolution:
                    # recorded finding: complex, n >= 3, default steps — the truncation scale at the final step dwarfs the estimate
                    sig2 = 'C02-complex-estimate-blind-to-truncation'
                ctx.violation('true error exceeds %g x error_estimate + rounding floor' % K_EST, got=v, error=err, error_estimate=est,
                              floor=FLOOR[(m, n)] * S + resolution, final_step=hfin, under_resolution=ur, signature=sig2, **rep)
    if honesty:
        nan_tail_family(ctx, max(120, budget // 3))
        random_ratio_family(ctx, max(100, budget // 4))
        under_resolved_probe(ctx)
        slow_drift_family(ctx)
        stationary_single_estimate(ctx, max(20, budget // 8))
    else:
        shared_generator_probe(ctx, max(6, budget // 60))
        multistep_complex_family(ctx, max(80, budget // 5))
        elementary_table_family(ctx, None if ctx.thorough else 2)
        scale_invariance_family(ctx, 400 if ctx.thorough else 60)
        singular_step_family(ctx)
        polynomial_ratio_family(ctx, 1500 if ctx.thorough else 150)
    ctx.notes.append('%d programs skipped: not finite at the complex points of the stencil' % skipped_nonfinite[0])
    ctx.notes.append('worst ratio / envelope per (method, n) on this run: %s'
                     % {('%s,%d' % k): float('%.2g' % v) for k, v in sorted(worst.items())})


def elementary_cases():
    """well-conditioned elementary functions with closed-form derivatives of every order, at fixed points: (name, f, x, exact(n))"""
    out = []
    for x in (0.5, 1.25, -0.75):
        out.append(('exp', np.exp, x, lambda n, x=x: math.exp(x)))
        out.append(('sin', np.sin, x, lambda n, x=x: math.sin(x + n * math.pi / 2)))
        # 1/(2+x): n-th derivative (-1)^n n! / (2+x)^(n+1)
        out.append(('1/(2+x)', lambda t: 1.0 / (2.0 + t), x, lambda n, x=x: (-1) ** n * math.factorial(n) / (2.0 + x) ** (n + 1)))
        # log(3+x): f itself for n = 0, else (-1)^(n-1) (n-1)! / (3+x)^n
        out.append(('log(3+x)', lambda t: np.log(3.0 + t), x,
                    lambda n, x=x: math.log(3.0 + x) if n == 0 else (-1) ** (n - 1) * math.factorial(n - 1) / (3.0 + x) ** n))
    return out


_ELEM = {}


def elementary_table_family(ctx, per_config):
    """Every (method, n, order) with the default step generator on a fixed list of well-conditioned elementary functions: the
    relative error must stay within 30 x the worst value the unchanged tree attains for that (method, n, order) on the same list
    (harness/calib/elementary_table.json; deterministic inputs, so the unchanged tree reproduces its calibration exactly).  This is
    the fine-grained form of the per-(method, n) envelope: a rule that is accurate to 1e-8 where it used to be accurate to 1e-13
    is reported even though 1e-8 is inside the envelope that random programs need."""
    import json
    import os
    import numdifftools as nd
    if not _ELEM:
        path = os.path.join(os.path.dirname(os.path.abspath(__file__)), 'calib', 'elementary_table.json')
        _ELEM.update(json.load(open(path)))
    rng = ctx.rng
    cases = elementary_cases()
    worst = 0.0
    for m in NMAX:
        for n in range(1, NMAX[m] + 1):
            for order in range(1, 9):
                for name, f, x, exact in (cases if per_config is None else rng.sample(cases, per_config)):
                    ctx.tried(('elementary', m, n, order, name, x))
                    # a third of the objects are stepped through n = 0, 1, .. (a Taylor-coefficient loop over one object) up to the
                    # order under test instead of being built for it
                    loop = rng.random() < 0.33
                    try:
                        with warnings.catch_warnings():
                            warnings.simplefilter('ignore')
                            if loop:
                                dobj = nd.Derivative(f, n=0, method=m, order=order)
                                for k_ in sorted({0, max(n - 1, 0), n}):
                                    dobj.n = k_
                                    v = float(dobj(x))
                            else:
                                v = float(nd.Derivative(f, n=n, method=m, order=order)(x))
                    except Exception as ex:
                        ctx.violation('Derivative raised %r' % ex, program=name, x=x, method=m, n=n, order=order, stepped_through_n=loop)
                        continue
                    e = abs(v - exact(n)) / max(abs(exact(n)), abs(exact(0)), 1e-300)
                    env = 30.0 * max(_ELEM['%s/%d/%d' % (m, n, order)], 1e-14)
                    worst = max(worst, e / env)
                    if not e <= env:
                        ctx.violation('Derivative of an elementary function (default steps) lost accuracy: outside 30 x the calibrated worst '
                                      'relative error of (%s, n=%d, order=%d)' % (m, n, order), program=name, x=x, method=m, n=n, order=order,
                                      got=v, exact=exact(n), relative_error=e, envelope=env, stepped_through_n=loop)
    ctx.notes.append('elementary table family: worst relative error / envelope = %.3g' % worst)


def singular_step_family(ctx):
    """Round points next to a singularity: with the default steps 2, 1, 0.5, .. (times the nominal step 1) a dyadic x <= 1 puts one step
    exactly on the singularity of log / arctanh / log1p, where f is -inf or +inf (not NaN).  That sample must be discarded like any
    other non-finite one: the unchanged tree is accurate to 3e-13 (n=1), 9e-11 (n=2 central), 1.3e-7 (n=2 one-sided) here; asserted with a factor 80+."""
    import numdifftools as nd
    cases = [('log', np.log, [1.0, 0.5, 0.25, 2.0], lambda x: 1 / x, lambda x: -1 / x ** 2),
             ('arctanh', np.arctanh, [0.5, -0.5, 0.75], lambda x: 1 / (1 - x * x), lambda x: 2 * x / (1 - x * x) ** 2),
             ('log1p', np.log1p, [-0.5, -0.75, 1.0], lambda x: 1 / (1 + x), lambda x: -1 / (1 + x) ** 2),
             ('log(x)/x', lambda t: np.log(t) / t, [1.0, 0.5], lambda x: (1 - np.log(x)) / x ** 2, lambda x: (2 * np.log(x) - 3) / x ** 3)]
    worst = 0.0
    for name, f, pts, d1, d2 in cases:
        for x in pts:
            for m in ('central', 'forward', 'backward'):
                for n in (1, 2):
                    ctx.tried(('singular-step', name, x, m, n))
                    try:
                        with warnings.catch_warnings():
                            warnings.simplefilter('ignore')
                            v, info = nd.Derivative(f, n=n, method=m, full_output=True)(x)
                    except Exception as ex:
                        ctx.violation('Derivative raised %r' % ex, program=name, x=x, method=m, n=n)
                        continue
                    exact = float(d1(x) if n == 1 else d2(x))
                    e = abs(float(v) - exact) / abs(exact)
                    worst = max(worst, e)
                    if not e <= (1e-9 if n == 1 else 1e-8 if m == 'central' else 1e-5):     # measured: 3e-13 / 9e-11 / 1.3e-7
                        ctx.violation('Derivative at a round point whose default steps hit the singularity of f exactly (f = +-inf there) is wrong',
                                      program=name, x=x, method=m, n=n, got=float(v), exact=exact, relative_error=e,
                                      error_estimate=float(info.error_estimate))
    ctx.notes.append('round points next to a singularity: worst relative error %.3g' % worst)


def scale_invariance_family(ctx, budget):
    """The envelope of the property is relative to the size of f: differentiating c*f must give c times the derivative of f.  For c a
    power of two every floating-point operation of the pipeline scales exactly (no threshold of the library is absolute), so on the
    unchanged tree the two results are bit-identical (2880 of 2880 configurations of the elementary table, c = 2^-100, 2^-70, 2^60);
    asserted here to 1e-12 relative for the value.  (The error estimate is *not* homogeneous where a single quotient is all there is — the
    complex-step defaults: estimate = (|value| eps + h) * 12.7, the recorded finding C02-single-quotient-unscaled — so it is not asserted.)"""
    import numdifftools as nd
    rng = ctx.rng
    cases = elementary_cases()
    worst = 0.0
    for _ in range(budget):
        name, f, x, exact = rng.choice(cases)
        m = rng.choice(list(NMAX))
        n = rng.randint(1, NMAX[m])
        order = rng.randint(1, 8)
        k = rng.choice([-100, -70, -40, 60])
        c = 2.0 ** k
        ctx.tried(('scale', name, x, m, n, order, k))
        try:
            with warnings.catch_warnings():
                warnings.simplefilter('ignore')
                v0, i0 = nd.Derivative(f, n=n, method=m, order=order, full_output=True)(x)
                v1, i1 = nd.Derivative(lambda t, f=f, c=c: c * f(t), n=n, method=m, order=order, full_output=True)(x)
        except Exception as ex:
            ctx.violation('Derivative raised %r' % ex, program=name, x=x, method=m, n=n, order=order, scale='2**%d' % k)
            continue
        v0, v1 = float(v0), float(v1) / c
        e0, e1 = float(i0.error_estimate), float(i1.error_estimate) / c
        d = abs(v1 - v0) / max(abs(v0), 1e-300)
        de = abs(e1 - e0) / max(abs(e0), 1e-300) if (math.isfinite(e0) and math.isfinite(e1)) else (0.0 if (e0 != e0 and e1 != e1) else float('inf'))
        worst = max(worst, d)
        if not d <= 1e-12:
            ctx.violation('Derivative is not homogeneous: differentiating 2**k * f does not give 2**k times the derivative of f (an absolute '
                          'threshold somewhere in the pipeline)', program=name, x=x, method=m, n=n, order=order, scale='2**%d' % k, derivative_of_f=v0,
                          derivative_of_scaled_f_over_scale=v1, exact=float(exact(n)), relative_difference=d)
    ctx.notes.append('scale invariance: worst relative difference %.3g' % worst)


def multistep_complex_family(ctx, budget):
    """complex / multicomplex with a user-supplied generator of several moderate steps: here the Richardson stage (error terms
    h^2, h^4, .. for both methods) does real work, unlike with the default single tiny step; accuracy envelope per
    (method, n, order, generator) calibrated on the unchanged tree (MULTISTEP_WORST x 100), relative to S(n .. n+8)"""
    import numdifftools as nd
    from numdifftools.step_generators import MinStepGenerator, MaxStepGenerator
    rng = ctx.rng
    worst = 0.0
    done = 0
    for _ in range(budget):
        m = rng.choice(['multicomplex', 'multicomplex', 'complex'])
        n = rng.randint(1, 2)
        order = rng.randint(1, 6)
        tree, x, d = gen_program(rng, 10, depth=rng.randint(1, 3), xs=lambda r: r.choice([1, -1]) * 10.0 ** r.uniform(-1, 1))
        if (m == 'multicomplex' and big_hyperbolic_argument(tree, x)) or tiny_log1p_argument(tree, x):
            continue
        gk = rng.choice(['max', 'min'])
        g = MaxStepGenerator(base_step=0.1, step_ratio=2.0, num_steps=5, step_nom=1.0) if gk == 'max' else \
            MinStepGenerator(base_step=1e-3, step_ratio=2.0, num_steps=8, step_nom=1.0)
        bad = [False]

        def f(t, tree=tree, bad=bad):
            r = tree(t)
            if not np.all(np.isfinite(np.asarray(getattr(r, 'z1', r)))):
                bad[0] = True
            return r
        rep = dict(program=str(tree), x=x, method=m, n=n, order=order, exact=d[n],
                   step='MaxStepGenerator(base_step=0.1, step_ratio=2, num_steps=5, step_nom=1)' if gk == 'max' else
                   'MinStepGenerator(base_step=1e-3, step_ratio=2, num_steps=8, step_nom=1)')
        try:
            with warnings.catch_warnings():
                warnings.simplefilter('ignore')
                v = float(nd.Derivative(f, n=n, method=m, order=order, step=g)(x))
        except Exception as ex:
            ctx.tried(('multistep', m, n, order, gk, str(tree), x))
            ctx.violation('Derivative raised %r' % ex, **rep)
            continue
        if bad[0]:
            ctx.tried(None)
            continue
        ctx.tried(('multistep', m, n, order, gk, str(tree), x))
        done += 1
        S = local_scale(d, n, n + 8)
        ratio = (abs(v - d[n]) if math.isfinite(v) else float('inf')) / S
        env = max(100.0 * MULTISTEP_WORST[(m, n, order, gk)], 1e-12)
        worst = max(worst, ratio / env)
        if not abs(v - d[n]) <= env * S + (d.cond[n] if getattr(d, 'cond', None) else 0.0):
            ctx.violation('Derivative (complex-step method, user generator with several moderate steps) is outside the accuracy envelope of '
                          '(%s, n=%d, order=%d)' % (m, n, order), got=v, error=abs(v - d[n]), local_scale=S, ratio=ratio, envelope=env, **rep)
    ctx.notes.append('multi-step complex family: %d cases, worst ratio / envelope = %.3g' % (done, worst))


def polynomial_ratio_family(ctx, budget):
    """Exactness on polynomials with step ratios that are not round numbers (sqrt 2, e / 2, the golden ratio, 4.8 / 3, random): for a
    polynomial of degree <= n + 1 every rule of order >= 2 is exact at *any* step size (theorem `derivative_exact_on_polynomials`), so
    with large steps (MaxStepGenerator(base_step=1), 6 steps, ratio <= 2.5, n <= 2 one-sided / <= 3 central and complex) nothing but rounding
    (eps / h^n at the smallest step) is left: the unchanged tree is within 1.7e-12 of the exact value relative to the size of the
    coefficients (4000 cases); asserted at 5e-11."""
    import numdifftools as nd
    from numdifftools.step_generators import MaxStepGenerator
    rng = ctx.rng
    worst = 0.0
    for _ in range(budget):
        m = rng.choice(['central', 'forward', 'backward', 'complex'])
        n = rng.randint(1, 3 if m in ('central', 'complex') else 2)
        order = rng.choice([2, 3, 4, 6])
        ratio = rng.choice([rng.uniform(1.25, 2.5), 2.0 ** 0.5, (1 + 5 ** 0.5) / 2, math.e / 2, 4.8 / 3, 2.0 ** (1.0 / 3), 5.0 / 3.0])
        x = rng.choice([0.0, 0.5, -1.25, rng.uniform(-2, 2)])
        coef = [rng.randint(-8, 8) / 4 for _ in range(n + 2)]
        if coef[n] == 0:
            coef[n] = 1.0
        f = lambda t, coef=coef, x=x: sum(c * (t - x) ** k for k, c in enumerate(coef))
        exact = coef[n] * math.factorial(n)
        rep = dict(polynomial_coefficients_about_x=coef, x=x, method=m, n=n, order=order, step_ratio=ratio)
        ctx.tried(('polynomial-ratio', m, n, order, ratio, x))
        try:
            with warnings.catch_warnings():
                warnings.simplefilter('ignore')
                val = nd.Derivative(f, n=n, method=m, order=order, step=MaxStepGenerator(base_step=1.0, step_ratio=ratio, num_steps=6))(x)
        except Exception as ex:
            ctx.violation('Derivative raised %r' % ex, **rep)
            continue
        scale = math.factorial(n) * max(abs(c) for c in coef) * 2.0
        e = abs(float(val) - exact) / scale
        worst = max(worst, e)
        if not e <= 5e-11:
            ctx.violation('Derivative is not exact (to rounding) on a polynomial of degree n + 1 when the step ratio is not a round number',
                          got=float(val), exact=exact, relative_error=e, **rep)
    ctx.notes.append('polynomials with non-round step ratios: worst relative error %.3g (asserted 5e-11)' % worst)


def slow_drift_family(ctx):
    """Honesty on sequences that drift slowly (like log h) instead of converging geometrically: f(x) = x log(x^2 + a) / 2 at 0, whose
    difference quotients are log(h^2 + a) / 2 and settle only once h^2 << a; and polynomials of degree 9 sampled with few large steps.
    The extrapolation stage must then report the differences it observed, not its rounding floor.  Asserted: the honesty bound."""
    import numdifftools as nd
    from numdifftools.step_generators import MaxStepGenerator
    rng = ctx.rng
    for a in (1e-6, 1e-8, 1e-4, 10.0 ** rng.uniform(-9, -3)):
        for m in ('central', 'forward', 'backward'):
            f = lambda t, a=a: 0.5 * t * np.log(t * t + a)
            exact = 0.5 * math.log(a)
            ctx.tried(('slow-drift', a, m))
            try:
                with warnings.catch_warnings():
                    warnings.simplefilter('ignore')
                    val, info = nd.Derivative(f, method=m, full_output=True)(0.0)
            except Exception as ex:
                ctx.violation('Derivative raised %r' % ex, program='x log(x^2 + a) / 2', a=a, method=m)
                continue
            err, est = abs(float(val) - exact), float(info.error_estimate)
            if not err <= K_EST * est + 1e-9 * abs(exact):
                ctx.violation('true error exceeds %g x error_estimate + rounding floor (slowly drifting difference quotients)' % K_EST,
                              program='x log(x^2 + a) / 2 at 0', a=a, method=m, got=float(val), exact=exact, error=err, error_estimate=est)
    for _ in range(40 if not ctx.thorough else 400):
        # p(t) = c1 t + c9 t^9: the quotient p(h) / h = c1 + c9 h^8 is far from c1 at h = 2, 1 and stalls (to rounding) below h ~ 0.01
        c1, c9 = rng.choice([1.5, -2.0, 0.75]), rng.choice([1.0, -0.5, 3.0])
        ns = rng.randint(5, 7)
        m = rng.choice(['central', 'forward'])
        f = lambda t, c1=c1, c9=c9: c1 * t + c9 * t ** 9
        ctx.tried(('few-large-steps', c1, c9, ns, m))
        try:
            with warnings.catch_warnings():
                warnings.simplefilter('ignore')
                val, info = nd.Derivative(f, method=m, full_output=True, step=MaxStepGenerator(base_step=2.0, step_ratio=2.0, num_steps=ns))(0.0)
        except Exception as ex:
            ctx.violation('Derivative raised %r' % ex, program='c1 t + c9 t^9', c1=c1, c9=c9, num_steps=ns, method=m)
            continue
        err, est = abs(float(val) - c1), float(info.error_estimate)
        if not err <= K_EST * est + 1e-9 * abs(c1):
            ctx.violation('true error exceeds %g x error_estimate + rounding floor (few large steps, high-degree polynomial)' % K_EST,
                          program='c1 t + c9 t^9 at 0', c1=c1, c9=c9, num_steps=ns, method=m, got=float(val), exact=c1, error=err, error_estimate=est)


def random_ratio_family(ctx, budget):
    """Honesty with step ratios that are not round numbers (a ratio with many decimals must be used as it is, in the steps, the rule
    and the Richardson stage alike): elementary functions with closed-form derivatives, all methods, n <= 3, order 1..6,
    step_ratio uniform in (1.25, 4); |value - exact| <= K_EST * estimate + 1e-9 * scale + 10 eps |f| / final_step^n."""
    import numdifftools as nd
    rng = ctx.rng
    cases = elementary_cases()
    worst = 0.0
    for _ in range(budget):
        name, f, x, exact = rng.choice(cases)
        m = rng.choice(['central', 'forward', 'backward', 'complex'])
        n = rng.randint(1, 3)
        order = rng.randint(1, 6)
        ratio = rng.choice([rng.uniform(1.25, 4.0), 2.0 ** 0.5, 4.0 / 3.0, 5.0 / 3.0, math.e / 2])
        rep = dict(program=name, x=x, method=m, n=n, order=order, step_ratio=ratio)
        ctx.tried(('random-ratio', name, x, m, n, order, ratio))
        try:
            with warnings.catch_warnings():
                warnings.simplefilter('ignore')
                val, info = nd.Derivative(f, n=n, method=m, order=order, step_ratio=ratio, full_output=True)(x)
        except Exception as ex:
            ctx.violation('Derivative raised %r' % ex, **rep)
            continue
        v, est = float(val), float(info.error_estimate)
        ex_n = float(exact(n))
        scale = abs(float(exact(0))) + abs(ex_n)
        err = abs(v - ex_n) if math.isfinite(v) else float('inf')
        hfin = abs(float(info.final_step))
        resolution = 10.0 * 2.0 ** -52 * abs(float(exact(0))) / hfin ** n if (hfin > 0 and m != 'complex') else 0.0
        floor = 1e-9 * scale + resolution
        worst = max(worst, err / (K_EST * est + floor))
        if not err <= K_EST * est + floor:
            ctx.violation('true error exceeds %g x error_estimate + rounding floor (step ratio with many decimals)' % K_EST, got=v, exact=ex_n,
                          error=err, error_estimate=est, floor=floor, final_step=hfin, **rep)
    ctx.notes.append('random step ratios: worst error / (K_EST * estimate + floor) = %.3g' % worst)


def nan_tail_family(ctx, budget):
    """Honesty where the largest steps leave the domain: functions undefined to the left of 0 (log, sqrt, x log x, x^1.5, closed-form
    derivatives) at 0.3 <= x <= 3 with central / backward steps and step options that make the first estimates NaN (default, ratio 2 or 3,
    12..26 steps).  The value returned must belong to the same row as the error estimate returned with it: |value - exact| <=
    K_EST * estimate + 1e-8 * scale + 10 eps |f(x)| / final_step^n (unchanged tree: worst ratio 6.6 with a floor of 1e-9 * scale over 6000 cases)."""
    import numdifftools as nd
    rng = ctx.rng
    funs = {
        'log(x)': (np.log, {1: lambda x: 1 / x, 2: lambda x: -1 / x ** 2, 3: lambda x: 2 / x ** 3, 4: lambda x: -6 / x ** 4}),
        'sqrt(x)': (np.sqrt, {1: lambda x: 0.5 * x ** -0.5, 2: lambda x: -0.25 * x ** -1.5, 3: lambda x: 0.375 * x ** -2.5,
                              4: lambda x: -0.9375 * x ** -3.5}),
        'x*log(x)': (lambda x: x * np.log(x), {1: lambda x: np.log(x) + 1, 2: lambda x: 1 / x, 3: lambda x: -1 / x ** 2, 4: lambda x: 2 / x ** 3}),
        'x**1.5': (lambda x: x ** 1.5, {1: lambda x: 1.5 * x ** 0.5, 2: lambda x: 0.75 * x ** -0.5, 3: lambda x: -0.375 * x ** -1.5,
                                        4: lambda x: 0.5625 * x ** -2.5}),
    }
    worst = 0.0
    nan_seen = all_nan = 0
    for _ in range(budget):
        name = rng.choice(sorted(funs))
        fun, ex = funs[name]
        x = rng.uniform(0.3, 3.0)
        m = rng.choice(['central', 'central', 'backward'])
        n = rng.randint(1, 4)
        order = rng.choice([2, 4, 6] if m == 'central' else [1, 2, 3, 4])
        opts = rng.choice([{}, {'step_ratio': 3.0}, {'step_ratio': 3.0}, {'step_ratio': 2.0}, {'num_steps': rng.randint(18, 26), 'step_ratio': 2.0},
                           {'num_steps': rng.randint(12, 20)}])
        seen = [False]

        def f(t, fun=fun, seen=seen):
            r = fun(t)
            if not np.all(np.isfinite(r)):
                seen[0] = True
            return r
        rep = dict(program=name, x=x, method=m, n=n, order=order, step_options=opts)
        ctx.tried(('nan-tail', name, x, m, n, order, str(opts)))
        try:
            with warnings.catch_warnings():
                warnings.simplefilter('ignore')
                val, info = nd.Derivative(f, n=n, method=m, order=order, full_output=True, **opts)(x)
        except Exception as ex_:
            ctx.violation('Derivative raised %r' % ex_, **rep)
            continue
        nan_seen += seen[0]
        exact = float(ex[n](x))
        v, est = float(val), float(info.error_estimate)
        scale = abs(float(fun(x))) + abs(exact)
        if not math.isfinite(v) and seen[0]:
            all_nan += 1          # too few steps stay inside the domain for a single finite estimate: the library answers NaN, not a number
            continue
        err = abs(v - exact) if math.isfinite(v) else float('inf')
        if math.isfinite(v) and not (math.isfinite(est) and est >= 0):
            ctx.violation('error_estimate negative or not finite although the result is finite', got=v, error_estimate=est, **rep)
            continue
        # as in the main search: the resolution of a difference quotient at the step the result was read at, eps |f(x)| / h^n, belongs to
        # the rounding floor (with 26 halvings the smallest steps are ~1e-6, where a second difference resolves nothing below 1e-4)
        hfin = abs(float(info.final_step))
        resolution = 10.0 * 2.0 ** -52 * abs(float(fun(x))) / hfin ** n if hfin > 0 else 0.0
        worst = max(worst, err / (est + 1e-9 * scale + resolution))
        if not err <= K_EST * est + 1e-8 * scale + resolution:
            ctx.violation('true error exceeds %g x error_estimate + rounding floor (the largest steps leave the domain of f: NaN rows)' % K_EST,
                          got=v, exact=exact, error=err, error_estimate=est, floor=1e-8 * scale + resolution, final_step=hfin, **rep)
    ctx.notes.append('NaN-tail family: %d cases, %d with NaN estimates at the largest steps (%d with no finite estimate at all: result NaN, skipped); '
                     'worst error / (estimate + floor) = %.3g (bound %g)' % (budget, nan_seen, all_nan, worst, K_EST))


def stationary_single_estimate(ctx, budget):
    """Honesty of the estimate where only one difference quotient is available (a scalar step: one step, no extrapolation)
    at a stationary point: g = f - f'(x0) (x - x0) has g'(x0) = 0, so an estimate that is relative to the computed value
    collapses while the truncation error h |f''| / 2 stays.  First derivative, forward / backward / central, step 1e-7..1e-5."""
    import numdifftools as nd
    from harness.exprs import X
    rng = ctx.rng
    EPS = 2.0 ** -52
    with warnings.catch_warnings():
        warnings.simplefilter('ignore')
        pv, pi = nd.Derivative(lambda t: 1e6 * t * t, n=1, method='forward', order=1, step=1e-6, full_output=True)(1.0)
    if abs(float(pv) - 2e6) > K_EST * float(pi.error_estimate) + 100.0 * EPS * 2e6 / 1e-6:
        ctx.violation('single difference quotient: the error estimate is the bare step, not scaled by f', f='1e6 * x**2', x=1.0, method='forward',
                      order=1, step=1e-6, got=float(pv), exact=2e6, error_estimate=float(pi.error_estimate),
                      signature='C02-single-quotient-unscaled')
    done = skipped = 0
    worst = 0.0
    for _ in range(budget):
        tree, x, d = gen_program(rng, 4)
        if abs(d[3]) > 1e6 * max(1.0, abs(d[0])):
            skipped += 1
            continue
        # with one quotient the library reports (|value| eps + h) * 12.7: the step itself, not scaled by f.  That covers the
        # truncation error h |f''| / 2 up to |f''| = 2 * 12.7 * K_EST; beyond it the recorded finding applies.
        sig = 'C02-single-quotient-unscaled' if abs(d[2]) > 1e4 else None
        g = Node('sub', (tree, Node('scale', (Node('shift', (X,), const=-x),), const=d[1])))
        m = rng.choice(['forward', 'backward', 'central'])
        h = 10.0 ** rng.uniform(-7, -5)
        order = 1 if m != 'central' else 2
        rep = dict(program=str(g), x=x, method=m, n=1, order=order, step=h, exact=0.0)
        ctx.tried(('stationary', m, str(tree), x, h))
        try:
            with warnings.catch_warnings():
                warnings.simplefilter('ignore')
                val, info = nd.Derivative(g, n=1, method=m, order=order, step=h, full_output=True)(x)
        except Exception as ex:
            ctx.violation('Derivative raised %r' % ex, **rep)
            continue
        v, est = float(val), float(info.error_estimate)
        # rounding of the single quotient: eps * (|f| + |f'| |x|) / h, in units of the local scale of f
        S0 = max(abs(d[0]), abs(d[1]) * max(abs(x), 1.0), 1e-300)
        floor = 100.0 * EPS * S0 / h
        err = abs(v)
        done += 1
        if sig is None:
            worst = max(worst, err / (K_EST * est + floor)) if math.isfinite(est) and est >= 0 else float('inf')
        if not (math.isfinite(est) and est >= 0 and err <= K_EST * est + floor):
            ctx.violation('true error exceeds %g x error_estimate + rounding floor (single difference quotient at a stationary point)' % K_EST,
                          got=v, error=err, error_estimate=est, floor=floor, second_derivative=d[2], signature=sig, **rep)
    ctx.notes.append('single-estimate / stationary-point probes: %d run, %d skipped (|f\'\'| or |f\'\'\'| beyond 1e4 / 1e6 x |f|), worst err/(K est + floor) = %.3g'
                     % (done, skipped, worst))


def shared_generator_probe(ctx, rounds):
    """One step-generator object handed to several Derivative objects of different n (and one Derivative whose n is changed):
    a legitimate configuration of C01 — the generator is the documented default of the complex-step methods, only shared —
    whose results must stay inside the same envelope as with a fresh generator per object."""
    import numdifftools as nd
    from numdifftools.step_generators import MinStepGenerator
    rng = ctx.rng
    for _ in range(rounds):
        m = rng.choice(['complex', 'multicomplex'])
        order = rng.randint(1, 8)
        tree, x, d = gen_program(rng, 8)
        if m == 'multicomplex' and (big_hyperbolic_argument(tree, x) or uses(tree, ('arcsin', 'arccos', 'arctan'))):
            continue
        shared = MinStepGenerator()
        ns = list(range(1, NMAX[m] + 1))
        rng.shuffle(ns)
        reuse_object = rng.random() < 0.5
        obj = None
        for n in ns:
            rep = dict(program=str(tree), x=x, method=m, n=n, order=order, step='one MinStepGenerator() shared by the sequence n=%s%s'
                       % (ns, ', one Derivative object with n reassigned' if reuse_object else ''), exact=d[n])
            ctx.tried(('shared', m, order, str(tree), x, n))
            try:
                with warnings.catch_warnings():
                    warnings.simplefilter('ignore')
                    if reuse_object and obj is not None:
                        obj.n = n
                    else:
                        obj = nd.Derivative(tree, n=n, method=m, order=order, step=shared, full_output=True)
                    val, info = obj(x)
            except Exception as ex:
                ctx.violation('Derivative raised %r' % ex, **rep)
                break
            S = local_scale(d, n, n + 4)
            err = abs(float(val) - d[n]) if math.isfinite(float(val)) else float('inf')
            if not err / S <= ENV[(m, n)]:
                ctx.violation('Derivative is outside the accuracy envelope of (%s, n=%d) when its step generator is shared' % (m, n),
                              got=float(val), error=err, local_scale=S, ratio=err / S, envelope=ENV[(m, n)], **rep)
                break
