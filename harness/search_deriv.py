"""Failing-input search shared by C01 and C02: random expression programs, all methods, n, order, step options,
against the Taylor-series oracle.

Envelopes (per (method, n), relative to the local scale of f and its derivatives) were calibrated on the
unchanged tree (6 seeds x 4000 programs, see DESIGN.md section 6/C01): ENV = 100 x the largest ratio observed.
They are part of the committed framework and are never recomputed at run time.
"""
import math
import warnings

import numpy as np

from harness.exprs import gen_program, local_scale, Node

NMAX = {'central': 6, 'complex': 4, 'forward': 4, 'backward': 4, 'multicomplex': 2}
MAXRATIO = {('backward', 1): 4.6e-11, ('backward', 2): 4.6e-06, ('backward', 3): 0.0013, ('backward', 4): 0.13,
            ('central', 1): 2.7e-12, ('central', 2): 8.4e-05, ('central', 3): 4.7e-09, ('central', 4): 1.1e-07,
            ('central', 5): 9.1e-07, ('central', 6): 9.8e-06, ('complex', 1): 1.3e-10, ('complex', 2): 1.9e-11,
            ('complex', 3): 0.0013, ('complex', 4): 0.001, ('forward', 1): 3.3e-11, ('forward', 2): 4.2e-06,
            ('forward', 3): 0.0015, ('forward', 4): 0.053, ('multicomplex', 1): 1.6e-12, ('multicomplex', 2): 1e-12}
ENV = {k: 100.0 * v for k, v in MAXRATIO.items()}            # C01: |result - exact| <= ENV * S
FLOOR = {k: 0.01 * v for k, v in MAXRATIO.items()}           # C02: |result - exact| <= K_EST * estimate + FLOOR * S
K_EST = 1000.0


def uses(tree, names):
    if not isinstance(tree, Node):
        return False
    if tree.op in names:
        return True
    return any(uses(c, names) for c in tree.args)


def big_hyperbolic_argument(tree, x):
    """an argument of tanh / tan(->tanh) / sinh / cosh with magnitude above 300 (see the known finding on
    Bicomplex.tanh overflowing through sinh/cosh)"""
    worst = [0.0]

    def walk(node):
        if not isinstance(node, Node):
            return node
        if node.op == 'x':
            return x
        if node.op == 'const':
            return node.const
        a = [walk(c) for c in node.args]
        if node.op in ('tanh', 'sinh', 'cosh', 'tan') and a:
            worst[0] = max(worst[0], abs(float(a[0])))
        return float(Node(node.op, tuple(Node('const', const=float(t)) for t in a), node.const)(x))
    try:
        walk(tree)
    except Exception:
        return True
    return worst[0] > 300


def under_resolution(d, n, h):
    """max over k = 2, 4 of |f^(n+k)(x)| h^k / k! relative to |f^(n)(x)|: how large the next Taylor terms of the n-th derivative are
    at distance h"""
    base = abs(d[n]) + 1e-300
    return max(abs(d[n + k]) * h ** k / math.factorial(k) / base for k in (2, 4) if n + k < len(d))


def under_resolved_probe(ctx):
    """deterministic probe of the recorded finding C02-under-resolved-at-final-step"""
    import numdifftools as nd
    f = lambda x: ((np.expm1(0.05 * x) - (1.0 + (1.0 * x * 1.0 * x)) ** 2.5) /
                   (2.0 + (np.expm1(2.0 * np.sin(np.sin(x))) * np.expm1(2.0 * np.sin(np.sin(x))))))
    x, exact = 15.71588204554346, -14534768.5074242
    with warnings.catch_warnings():
        warnings.simplefilter('ignore')
        v, info = nd.Derivative(f, n=4, method='complex', order=4, full_output=True)(x)
    if abs(float(v) - exact) > K_EST * float(info.error_estimate) + 1e-5 * abs(exact):
        ctx.violation('true error exceeds %g x error_estimate + rounding floor' % K_EST, got=float(v), exact=exact,
                      error_estimate=float(info.error_estimate), final_step=float(info.final_step), x=x, method='complex', n=4, order=4,
                      signature='C02-under-resolved-at-final-step')


def tiny_log1p_argument(tree, x):
    """an argument of log1p with magnitude below 1e-3: numpy's *complex* log1p (what the user function calls under
    method='complex') computes log(hypot(1 + re, im)) and keeps only absolute accuracy there — a limitation of numpy, outside the
    library (Bicomplex.log1p, the multicomplex path, has its own accurate version since 1ff91f9)"""
    smallest = [float('inf')]

    def walk(node):
        if not isinstance(node, Node):
            return node
        if node.op == 'x':
            return x
        if node.op == 'const':
            return node.const
        a = [walk(c) for c in node.args]
        if node.op == 'log1p' and a:
            smallest[0] = min(smallest[0], abs(float(a[0])))
        return float(Node(node.op, tuple(Node('const', const=float(t)) for t in a), node.const)(x))
    try:
        walk(tree)
    except Exception:
        return True
    return smallest[0] < 1e-3


def derivative_search(ctx, budget, honesty):
    import numdifftools as nd
    from numdifftools.step_generators import MinStepGenerator, MaxStepGenerator
    rng = ctx.rng
    worst = {}
    skipped_nonfinite = [0]
    # deterministic probe of the recorded finding (multicomplex second derivative through Bicomplex.arctan/arcsin/arccos)
    with warnings.catch_warnings():
        warnings.simplefilter('ignore')
        pv, pinfo = nd.Derivative(np.arctan, n=2, method='multicomplex', full_output=True)(1.0454421587490552)
    pexact = -2 * 1.0454421587490552 / (1 + 1.0454421587490552 ** 2) ** 2
    if abs(float(pv) - pexact) > 1e-6 * abs(pexact) and float(pinfo.error_estimate) < 1e-9:
        ctx.violation('multicomplex second derivative of arctan is wrong with a tiny error estimate', got=float(pv), exact=pexact,
                      error_estimate=float(pinfo.error_estimate), x=1.0454421587490552, signature='C01-multicomplex2-inverse-trig')
    if not honesty:
        # deterministic probe of the recorded finding C01-under-resolved-at-final-step
        with warnings.catch_warnings():
            warnings.simplefilter('ignore')
            uv, ui = nd.Derivative(lambda t: np.sin(t * t), n=3, method='central', order=4, full_output=True)(-25.536662458823972)
        if abs(float(uv) - 31454.693811492572) > 1e-3 * 31454.7:
            ctx.violation('Derivative is outside the accuracy envelope of (central, n=3)', f='sin(x**2)', x=-25.536662458823972, got=float(uv),
                          exact=31454.693811492572, final_step=float(ui.final_step), signature='C01-under-resolved-at-final-step')
    for it in range(budget):
        m = rng.choice(list(NMAX))
        n = rng.randint(0 if rng.random() < 0.05 else 1, NMAX[m])
        order = rng.randint(1, 8)
        tree, x, d = gen_program(rng, 8)
        if m == 'multicomplex' and (big_hyperbolic_argument(tree, x)):
            continue
        if m == 'complex' and tiny_log1p_argument(tree, x):
            continue
        inv_trig = m == 'multicomplex' and n == 2 and uses(tree, ('arcsin', 'arccos', 'arctan'))
        if inv_trig and rng.random() < 0.8:
            continue        # a few are kept so that the known finding is re-confirmed, the rest would only repeat it
        kw = dict(n=n, method=m, order=order, full_output=True)
        if rng.random() < 0.15 and n >= 1:
            if m in ('complex', 'multicomplex'):
                kw['step'] = rng.choice([MinStepGenerator(), MinStepGenerator(num_extrap=5)])
            else:
                kw['step'] = rng.choice([MaxStepGenerator(), MaxStepGenerator(step_ratio=2.0), MaxStepGenerator(num_steps=20)])
        array_x = rng.random() < 0.15
        xs = np.array([x, x]) if array_x else x
        pick = 0
        if array_x and rng.random() < 0.5:
            # a 2-d argument that is not C-contiguous; the point under test sits at logical position [0, 1] (its place in memory
            # differs from its place in C order), the other elements are nearby points of the domain (within 1e-3 |x|)
            xa, xb = x * (1 + 1e-3), x * (1 - 1e-3)
            xs = np.asfortranarray(np.array([[xa, x, xb], [xb, xa, xa]])) if rng.random() < 0.5 else \
                np.array([[xa, xb], [x, xa], [xb, xa]]).T
            pick = 1
        key = (m, n, order, str(tree), x)
        S = local_scale(d, max(n, 0), n + 4)
        rep = dict(program=str(tree), x=x, method=m, n=n, order=order, step=type(kw.get('step')).__name__, exact=d[n] if n < len(d) else None)
        nonfinite = [False]

        def f_obs(t, tree=tree, nonfinite=nonfinite):
            # the program itself, observed: did it return a non-finite value at a point the method evaluated?
            r = tree(t)
            z1 = getattr(r, 'z1', r)
            if not np.all(np.isfinite(np.asarray(z1))):
                nonfinite[0] = True
            return r
        try:
            with warnings.catch_warnings():
                warnings.simplefilter('ignore')
                val, info = nd.Derivative(f_obs, **kw)(xs)
        except Exception as ex:
            ctx.tried(key)
            ctx.violation('Derivative raised %r' % ex, **rep)
            continue
        if nonfinite[0] and m in ('complex', 'multicomplex'):
            # the program overflows (or leaves its domain) at the complex points of the stencil, e.g. sin(x**4) at x = 27 has
            # |sin| ~ exp(4 x^3 h): the function cannot be evaluated where the method needs it — outside the property's domain
            ctx.tried(None)
            skipped_nonfinite[0] += 1
            continue
        ctx.tried(key)
        v = float(np.ravel(val)[pick])
        est = float(np.ravel(info.error_estimate)[pick])
        if n == 0:
            with warnings.catch_warnings():
                warnings.simplefilter('ignore')
                direct = float(np.ravel(tree(np.asarray(xs)))[pick])
            if not v == direct:
                ctx.violation('n = 0 does not return f(x)', got=v, fx=direct, **rep)
            continue
        sig = 'C01-multicomplex2-inverse-trig' if inv_trig else None
        err = abs(v - d[n]) if math.isfinite(v) else float('inf')
        ratio = err / S
        worst[(m, n)] = max(worst.get((m, n), 0.0), ratio / ENV[(m, n)])
        if not honesty:
            if not ratio <= ENV[(m, n)]:
                # recorded finding: f is under-resolved at the step the generator ends on (see under_resolution)
                hfin = abs(float(np.ravel(info.final_step)[pick]))
                ur = under_resolution(d, n, hfin)
                sig1 = sig or ('C01-under-resolved-at-final-step' if ur > 0.25 else None)
                ctx.violation('Derivative is outside the accuracy envelope of (%s, n=%d)' % (m, n), got=v, error=err, local_scale=S,
                              ratio=ratio, envelope=ENV[(m, n)], final_step=hfin, under_resolution=ur, signature=sig1, **rep)
        else:
            fv = np.ravel(info.f_value)[pick] if np.ndim(info.f_value) else info.f_value
            with warnings.catch_warnings():
                warnings.simplefilter('ignore')
                direct = float(np.ravel(tree(np.asarray(xs)))[pick])
            if not float(fv) == direct:
                ctx.violation('f_value differs from f(x)', f_value=float(fv), fx=direct, **rep)
            if math.isfinite(v) and not (math.isfinite(est) and est >= 0):
                ctx.violation('error_estimate negative or not finite although the result is finite', got=v, error_estimate=est, **rep)
            if np.shape(info.error_estimate) != np.shape(val) or np.shape(info.final_step) != np.shape(val):
                ctx.violation('error_estimate / final_step do not have one entry per entry of the result',
                              shapes=[list(np.shape(val)), list(np.shape(info.error_estimate)), list(np.shape(info.final_step))], **rep)
            # the rounding floor: the calibrated share of the local scale, plus — for the real-step methods, whose quotients subtract
            # nearly equal values — the resolution of a difference quotient at the step the result was read at, eps |f(x)| / h^n
            hfin0 = abs(float(np.ravel(info.final_step)[pick]))
            resolution = 10.0 * 2.0 ** -52 * abs(direct) / hfin0 ** n if (m in ('central', 'forward', 'backward') and hfin0 > 0) else 0.0
            if not err <= K_EST * est + FLOOR[(m, n)] * S + resolution:
                # recorded finding: f is under-resolved at the step the generator ends on (the next Taylor terms of f^(n) at that step
                # are comparable with f^(n) itself), and the extrapolation of the short sequence does not see the truncation error
                hfin = abs(float(np.ravel(info.final_step)[pick]))
                ur = under_resolution(d, n, hfin)
                sig2 = sig or ('C02-under-resolved-at-final-step' if ur > 0.25 else None)
                ctx.violation('true error exceeds %g x error_estimate + rounding floor' % K_EST, got=v, error=err, error_estimate=est,
                              floor=FLOOR[(m, n)] * S + resolution, final_step=hfin, under_resolution=ur, signature=sig2, **rep)
    if honesty:
        under_resolved_probe(ctx)
        stationary_single_estimate(ctx, max(20, budget // 8))
    else:
        shared_generator_probe(ctx, max(6, budget // 60))
    ctx.notes.append('%d programs skipped: not finite at the complex points of the stencil' % skipped_nonfinite[0])
    ctx.notes.append('worst ratio / envelope per (method, n) on this run: %s'
                     % {('%s,%d' % k): float('%.2g' % v) for k, v in sorted(worst.items())})


def stationary_single_estimate(ctx, budget):
    """Honesty of the estimate where only one difference quotient is available (a scalar step: one step, no extrapolation)
    at a stationary point: g = f - f'(x0) (x - x0) has g'(x0) = 0, so an estimate that is relative to the computed value
    collapses while the truncation error h |f''| / 2 stays.  First derivative, forward / backward / central, step 1e-7..1e-5."""
    import numdifftools as nd
    from harness.exprs import X
    rng = ctx.rng
    EPS = 2.0 ** -52
    with warnings.catch_warnings():
        warnings.simplefilter('ignore')
        pv, pi = nd.Derivative(lambda t: 1e6 * t * t, n=1, method='forward', order=1, step=1e-6, full_output=True)(1.0)
    if abs(float(pv) - 2e6) > K_EST * float(pi.error_estimate) + 100.0 * EPS * 2e6 / 1e-6:
        ctx.violation('single difference quotient: the error estimate is the bare step, not scaled by f', f='1e6 * x**2', x=1.0, method='forward',
                      order=1, step=1e-6, got=float(pv), exact=2e6, error_estimate=float(pi.error_estimate),
                      signature='C02-single-quotient-unscaled')
    done = skipped = 0
    worst = 0.0
    for _ in range(budget):
        tree, x, d = gen_program(rng, 4)
        if abs(d[3]) > 1e6 * max(1.0, abs(d[0])):
            skipped += 1
            continue
        # with one quotient the library reports (|value| eps + h) * 12.7: the step itself, not scaled by f.  That covers the
        # truncation error h |f''| / 2 up to |f''| = 2 * 12.7 * K_EST; beyond it the recorded finding applies.
        sig = 'C02-single-quotient-unscaled' if abs(d[2]) > 1e4 else None
        g = Node('sub', (tree, Node('scale', (Node('shift', (X,), const=-x),), const=d[1])))
        m = rng.choice(['forward', 'backward', 'central'])
        h = 10.0 ** rng.uniform(-7, -5)
        order = 1 if m != 'central' else 2
        rep = dict(program=str(g), x=x, method=m, n=1, order=order, step=h, exact=0.0)
        ctx.tried(('stationary', m, str(tree), x, h))
        try:
            with warnings.catch_warnings():
                warnings.simplefilter('ignore')
                val, info = nd.Derivative(g, n=1, method=m, order=order, step=h, full_output=True)(x)
        except Exception as ex:
            ctx.violation('Derivative raised %r' % ex, **rep)
            continue
        v, est = float(val), float(info.error_estimate)
        # rounding of the single quotient: eps * (|f| + |f'| |x|) / h, in units of the local scale of f
        S0 = max(abs(d[0]), abs(d[1]) * max(abs(x), 1.0), 1e-300)
        floor = 100.0 * EPS * S0 / h
        err = abs(v)
        done += 1
        if sig is None:
            worst = max(worst, err / (K_EST * est + floor)) if math.isfinite(est) and est >= 0 else float('inf')
        if not (math.isfinite(est) and est >= 0 and err <= K_EST * est + floor):
            ctx.violation('true error exceeds %g x error_estimate + rounding floor (single difference quotient at a stationary point)' % K_EST,
                          got=v, error=err, error_estimate=est, floor=floor, second_derivative=d[2], signature=sig, **rep)
    ctx.notes.append('single-estimate / stationary-point probes: %d run, %d skipped (|f\'\'| or |f\'\'\'| beyond 1e4 / 1e6 x |f|), worst err/(K est + floor) = %.3g'
                     % (done, skipped, worst))


def shared_generator_probe(ctx, rounds):
    """One step-generator object handed to several Derivative objects of different n (and one Derivative whose n is changed):
    a legitimate configuration of C01 — the generator is the documented default of the complex-step methods, only shared —
    whose results must stay inside the same envelope as with a fresh generator per object."""
    import numdifftools as nd
    from numdifftools.step_generators import MinStepGenerator
    rng = ctx.rng
    for _ in range(rounds):
        m = rng.choice(['complex', 'multicomplex'])
        order = rng.randint(1, 8)
        tree, x, d = gen_program(rng, 8)
        if m == 'multicomplex' and (big_hyperbolic_argument(tree, x) or uses(tree, ('arcsin', 'arccos', 'arctan'))):
            continue
        shared = MinStepGenerator()
        ns = list(range(1, NMAX[m] + 1))
        rng.shuffle(ns)
        reuse_object = rng.random() < 0.5
        obj = None
        for n in ns:
            rep = dict(program=str(tree), x=x, method=m, n=n, order=order, step='one MinStepGenerator() shared by the sequence n=%s%s'
                       % (ns, ', one Derivative object with n reassigned' if reuse_object else ''), exact=d[n])
            ctx.tried(('shared', m, order, str(tree), x, n))
            try:
                with warnings.catch_warnings():
                    warnings.simplefilter('ignore')
                    if reuse_object and obj is not None:
                        obj.n = n
                    else:
                        obj = nd.Derivative(tree, n=n, method=m, order=order, step=shared, full_output=True)
                    val, info = obj(x)
            except Exception as ex:
                ctx.violation('Derivative raised %r' % ex, **rep)
                break
            S = local_scale(d, n, n + 4)
            err = abs(float(val) - d[n]) if math.isfinite(float(val)) else float('inf')
            if not err / S <= ENV[(m, n)]:
                ctx.violation('Derivative is outside the accuracy envelope of (%s, n=%d) when its step generator is shared' % (m, n),
                              got=float(val), error=err, local_scale=S, ratio=err / S, envelope=ENV[(m, n)], **rep)
                break
