"""Independent oracle: truncated Taylor-series arithmetic ("jets").

A Jet holds the Taylor coefficients c_0..c_N of a function of one real variable around a point
(c_k = f^(k)(x0)/k!).  Expression programs written with Python operators and numpy ufuncs
(np.exp, np.sin, ...) can be evaluated on a Jet; the n-th derivative is n! * c_n.  Coefficients are
python floats (or complex) computed by the classical recurrences; nothing of numdifftools is used.
"""
import math

import numpy as np


class Jet(object):
    __array_priority__ = 1000

    def __init__(self, c):
        self.c = list(c)

    # ---------------------------------------------------------------- construction
    @staticmethod
    def variable(x0, order):
        return Jet([x0, 1.0] + [0.0] * (order - 1)) if order >= 1 else Jet([x0])

    @staticmethod
    def const(v, order):
        return Jet([v] + [0.0] * order)

    @property
    def N(self):
        return len(self.c) - 1

    def _lift(self, o):
        if isinstance(o, Jet):
            return o
        return Jet.const(o, self.N)

    def deriv(self, n):
        return math.factorial(n) * self.c[n]

    # ---------------------------------------------------------------- ring
    def __add__(self, o):
        o = self._lift(o)
        return Jet([a + b for a, b in zip(self.c, o.c)])
    __radd__ = __add__

    def __neg__(self):
        return Jet([-a for a in self.c])

    def __pos__(self):
        return self

    def __sub__(self, o):
        return self + (-self._lift(o))

    def __rsub__(self, o):
        return self._lift(o) - self

    def __mul__(self, o):
        o = self._lift(o)
        n = self.N
        return Jet([sum(self.c[j] * o.c[k - j] for j in range(k + 1)) for k in range(n + 1)])
    __rmul__ = __mul__

    def __truediv__(self, o):
        o = self._lift(o)
        n = self.N
        q = []
        for k in range(n + 1):
            q.append((self.c[k] - sum(q[j] * o.c[k - j] for j in range(k))) / o.c[0])
        return Jet(q)

    def __rtruediv__(self, o):
        return self._lift(o) / self

    def __pow__(self, r):
        if isinstance(r, Jet):
            return (r * self.log()).exp()
        if isinstance(r, (int, np.integer)) and r >= 0:
            out = Jet.const(1.0, self.N)
            base = self
            k = int(r)
            while k:
                if k & 1:
                    out = out * base
                base = base * base
                k >>= 1
            return out
        if isinstance(r, (int, np.integer)):
            return Jet.const(1.0, self.N) / (self ** (-int(r)))
        return self._pow_real(r if isinstance(self.c[0], (np.longdouble, Err)) else float(r))

    def __rpow__(self, b):
        return (self * math.log(b)).exp()

    def _pow_real(self, r):
        a = self.c
        n = self.N
        p = [a[0] ** r]
        for k in range(1, n + 1):
            p.append(sum((r * j - (k - j)) * a[j] * p[k - j] for j in range(1, k + 1)) / (k * a[0]))
        return Jet(p)

    # ---------------------------------------------------------------- elementary functions
    def exp(self):
        a, n = self.c, self.N
        e = [_exp(a[0])]
        for k in range(1, n + 1):
            e.append(sum(j * a[j] * e[k - j] for j in range(1, k + 1)) / k)
        return Jet(e)

    def log(self):
        a, n = self.c, self.N
        l = [_log(a[0])]
        for k in range(1, n + 1):
            l.append((a[k] - sum(j * l[j] * a[k - j] for j in range(1, k)) / k) / a[0])
        return Jet(l)

    def sqrt(self):
        return self._pow_real(0.5)

    def _sincos(self):
        a, n = self.c, self.N
        s, c = [_sin(a[0])], [_cos(a[0])]
        for k in range(1, n + 1):
            s.append(sum(j * a[j] * c[k - j] for j in range(1, k + 1)) / k)
            c.append(-sum(j * a[j] * s[k - j] for j in range(1, k + 1)) / k)
        return Jet(s), Jet(c)

    def _sinhcosh(self):
        a, n = self.c, self.N
        s, c = [_sinh(a[0])], [_cosh(a[0])]
        for k in range(1, n + 1):
            s.append(sum(j * a[j] * c[k - j] for j in range(1, k + 1)) / k)
            c.append(sum(j * a[j] * s[k - j] for j in range(1, k + 1)) / k)
        return Jet(s), Jet(c)

    def sin(self):
        return self._sincos()[0]

    def cos(self):
        return self._sincos()[1]

    def tan(self):
        s, c = self._sincos()
        return s / c

    def sinh(self):
        return self._sinhcosh()[0]

    def cosh(self):
        return self._sinhcosh()[1]

    def tanh(self):
        s, c = self._sinhcosh()
        return s / c

    def _d(self):
        """derivative series (one order shorter, padded)"""
        return Jet([k * self.c[k] for k in range(1, self.N + 1)] + [0.0])

    def _integrate(self, g, c0):
        return Jet([c0] + [g.c[k - 1] / k for k in range(1, self.N + 1)])

    def arctan(self):
        return self._integrate(self._d() / (1.0 + self * self), _atan(self.c[0]))

    def arcsin(self):
        return self._integrate(self._d() / (1.0 - self * self).sqrt(), _asin(self.c[0]))

    def arccos(self):
        r = -self.arcsin()
        r.c[0] = np.arccos(self.c[0]) if isinstance(self.c[0], np.longdouble) else (math.pi / 2) - self.arcsin().c[0]
        # (for Err coefficients the subtraction above records its own rounding)
        return r

    def arcsinh(self):
        return self._integrate(self._d() / (1.0 + self * self).sqrt(), _asinh(self.c[0]))

    def arccosh(self):
        return self._integrate(self._d() / (self * self - 1.0).sqrt(), _acosh(self.c[0]))

    def arctanh(self):
        return self._integrate(self._d() / (1.0 - self * self), _atanh(self.c[0]))

    def expm1(self):
        e = self.exp()
        e.c[0] = _expm1(self.c[0])
        return e

    def log1p(self):
        l = (1.0 + self).log()
        l.c[0] = _log1p(self.c[0])
        return l

    def log2(self):
        return self.log() / math.log(2.0)

    def log10(self):
        return self.log() / math.log(10.0)

    def exp2(self):
        return (self * math.log(2.0)).exp()

    # ---------------------------------------------------------------- numpy dispatch
    def __array_ufunc__(self, ufunc, method, *inputs, **kwargs):
        if method != '__call__':
            return NotImplemented
        name = ufunc.__name__
        table = {'add': lambda a, b: _j(a, b)[0] + _j(a, b)[1], 'subtract': lambda a, b: _j(a, b)[0] - _j(a, b)[1],
                 'multiply': lambda a, b: _j(a, b)[0] * _j(a, b)[1], 'true_divide': lambda a, b: _j(a, b)[0] / _j(a, b)[1],
                 'divide': lambda a, b: _j(a, b)[0] / _j(a, b)[1],
                 'power': lambda a, b: (a ** b) if isinstance(a, Jet) else b.__rpow__(a),
                 'negative': lambda a: -a, 'positive': lambda a: a, 'square': lambda a: a * a,
                 'reciprocal': lambda a: 1.0 / a}
        if name in table:
            return table[name](*inputs)
        if hasattr(self, name) and len(inputs) == 1:
            return getattr(self, name)()
        return NotImplemented


def _j(a, b):
    if isinstance(a, Jet):
        return a, a._lift(b)
    return b._lift(a), b


class Err(object):
    """a double together with a first-order running bound of the rounding error of the computation that produced it (Higham,
    Accuracy and Stability, 3.3): |computed - exact| <~ eps * m.  Used as coefficient type of a Jet it bounds the rounding noise of the
    double-precision evaluation of f and of its derivatives at x (see derivatives_conditioned)."""
    __slots__ = ('v', 'm')
    __array_priority__ = 2000

    def __init__(self, v, m=0.0):
        self.v, self.m = float(v), float(m)

    @staticmethod
    def lift(o):
        return o if isinstance(o, Err) else Err(o, 0.0)

    def __add__(self, o):
        o = Err.lift(o)
        z = self.v + o.v
        return Err(z, self.m + o.m + abs(z))
    __radd__ = __add__

    def __neg__(self):
        return Err(-self.v, self.m)

    def __sub__(self, o):
        return self + (-Err.lift(o))

    def __rsub__(self, o):
        return Err.lift(o) - self

    def __mul__(self, o):
        o = Err.lift(o)
        z = self.v * o.v
        return Err(z, abs(o.v) * self.m + abs(self.v) * o.m + abs(z))
    __rmul__ = __mul__

    def __truediv__(self, o):
        o = Err.lift(o)
        z = self.v / o.v
        return Err(z, self.m / abs(o.v) + abs(self.v) * o.m / (o.v * o.v) + abs(z))

    def __rtruediv__(self, o):
        return Err.lift(o) / self

    def __pow__(self, r):
        r = float(r)
        z = self.v ** r
        return Err(z, abs(r * self.v ** (r - 1.0)) * self.m + abs(z))

    def __float__(self):
        return self.v

    def apply(self, g, dg):
        z = g(self.v)
        return Err(z, abs(dg(self.v)) * self.m + abs(z))


_ERR_DERIV = {'exp': math.exp, 'log': lambda a: 1.0 / a, 'sin': math.cos, 'cos': math.sin, 'sinh': math.cosh, 'cosh': math.sinh,
              'atan': lambda a: 1.0 / (1.0 + a * a), 'asin': lambda a: 1.0 / math.sqrt(1.0 - a * a),
              'asinh': lambda a: 1.0 / math.sqrt(1.0 + a * a), 'acosh': lambda a: 1.0 / math.sqrt(a * a - 1.0),
              'atanh': lambda a: 1.0 / (1.0 - a * a), 'expm1': math.exp, 'log1p': lambda a: 1.0 / (1.0 + a)}


def _cx(f_real, f_cx, f_np=None):
    def g(x):
        if isinstance(x, Err):
            return x.apply(f_real, _ERR_DERIV[f_real.__name__])
        if isinstance(x, np.longdouble) and f_np is not None:
            return f_np(x)            # extended precision (x87 80-bit: 64-bit mantissa), see derivatives_extended
        if isinstance(x, complex):
            return complex(f_cx(x))
        return f_real(x)
    return g


import cmath
_exp = _cx(math.exp, cmath.exp, np.exp)
_log = _cx(math.log, cmath.log, np.log)
_sin = _cx(math.sin, cmath.sin, np.sin)
_cos = _cx(math.cos, cmath.cos, np.cos)
_sinh = _cx(math.sinh, cmath.sinh, np.sinh)
_cosh = _cx(math.cosh, cmath.cosh, np.cosh)
_atan = _cx(math.atan, cmath.atan, np.arctan)
_asin = _cx(math.asin, cmath.asin, np.arcsin)
_asinh = _cx(math.asinh, cmath.asinh, np.arcsinh)
_acosh = _cx(math.acosh, cmath.acosh, np.arccosh)
_atanh = _cx(math.atanh, cmath.atanh, np.arctanh)
_expm1 = _cx(math.expm1, lambda z: np.expm1(z), np.expm1)
_log1p = _cx(math.log1p, lambda z: np.log1p(z), np.log1p)


def derivatives(f, x0, nmax):
    """[f(x0), f'(x0), ..., f^(nmax)(x0)] of an expression program f"""
    j = f(Jet.variable(float(x0) if not isinstance(x0, complex) else x0, max(nmax, 1)))
    if not isinstance(j, Jet):
        j = Jet.const(j, max(nmax, 1))
    return [j.deriv(k) for k in range(nmax + 1)]


def derivatives_extended(f, x0, nmax):
    """the same recurrences in extended precision (numpy.longdouble: 64-bit mantissa on x86-64, 11 bits more than a double), rounded
    to doubles at the end, together with the rounding noise of the double-precision evaluation:
        noise[k] = |d_double[k] - d_extended[k]|
    For an expression with internal cancellation (tanh(x) - cosh(tiny) at x = 90, sinh(26)/cosh(26) differentiated twice) the
    double-precision value of f and of its derivatives is only defined up to this noise, whatever differentiates it."""
    if np.finfo(np.longdouble).eps >= 2.0 ** -52:
        d = derivatives(f, x0, nmax)           # no extended type on this platform
        return d, [0.0] * len(d)
    n = max(nmax, 1)
    one, zero = np.longdouble(1), np.longdouble(0)
    with np.errstate(all='ignore'):
        j = f(Jet([np.longdouble(x0), one] + [zero] * (n - 1)))
    if not isinstance(j, Jet):
        j = Jet.const(np.longdouble(j), n)
    dl = [j.deriv(k) for k in range(nmax + 1)]
    d64 = derivatives(f, x0, nmax)
    noise = [abs(float(np.longdouble(a) - b)) if (math.isfinite(a) and np.isfinite(b)) else float('inf') for a, b in zip(d64, dl)]
    return [float(v) for v in dl], noise


def derivatives_conditioned(f, x0, nmax):
    """running rounding-error bounds (in absolute terms, already multiplied by eps = 2^-52) of the double-precision evaluation of
    [f(x0), f'(x0), ..]: the magnitude below which the value of the k-th derivative *of this expression in double arithmetic* is
    not defined (internal cancellation: tanh(x) - cosh(tiny); saturation: the second derivative of sinh(u)/cosh(u) at u = 26)."""
    n = max(nmax, 1)
    j = f(Jet([Err(x0, 0.0), Err(1.0, 0.0)] + [Err(0.0, 0.0) for _ in range(n - 1)]))
    if not isinstance(j, Jet):
        return [abs(float(j)) * 2.0 ** -52] + [0.0] * nmax
    out = []
    for k in range(nmax + 1):
        c = Err.lift(j.c[k])
        out.append(math.factorial(k) * c.m * 2.0 ** -52)
    return out
