"""Exact arithmetic for the independent oracles: Q(zeta8) with zeta8 = (1+i)/sqrt(2) = sqrt(i).

An element is a0 + a1 z + a2 z^2 + a3 z^3 with z^4 = -1 (z^2 = i).  Real and imaginary parts live in
Q(sqrt 2) and are returned as pairs (p, q) meaning p + q*sqrt(2).
"""
from fractions import Fraction
import math


class Q8:
    __slots__ = ('a',)

    def __init__(self, a0=0, a1=0, a2=0, a3=0):
        self.a = (Fraction(a0), Fraction(a1), Fraction(a2), Fraction(a3))

    @staticmethod
    def of(x):
        return x if isinstance(x, Q8) else Q8(x)

    def __add__(self, o):
        o = Q8.of(o)
        return Q8(*[x + y for x, y in zip(self.a, o.a)])
    __radd__ = __add__

    def __neg__(self):
        return Q8(*[-x for x in self.a])

    def __sub__(self, o):
        return self + (-Q8.of(o))

    def __rsub__(self, o):
        return Q8.of(o) - self

    def __mul__(self, o):
        o = Q8.of(o)
        r = [Fraction(0)] * 4
        for i, x in enumerate(self.a):
            if x == 0:
                continue
            for j, y in enumerate(o.a):
                k = i + j
                if k >= 4:
                    r[k - 4] -= x * y
                else:
                    r[k] += x * y
        return Q8(*r)
    __rmul__ = __mul__

    def __pow__(self, n):
        r = Q8(1)
        b = self
        while n:
            if n & 1:
                r = r * b
            b = b * b
            n >>= 1
        return r

    def real(self):
        """(p, q) with Re = p + q*sqrt2;  z = (1+i)/sqrt2 = (sqrt2/2)(1+i), z^3 = (sqrt2/2)(-1+i)"""
        a0, a1, a2, a3 = self.a
        return (a0, (a1 - a3) / 2)

    def imag(self):
        a0, a1, a2, a3 = self.a
        return (a2, (a1 + a3) / 2)


ZETA = Q8(0, 1, 0, 0)
I = Q8(0, 0, 1, 0)


def s2float(pq):
    return float(pq[0]) + float(pq[1]) * math.sqrt(2.0)


def s2_is_rational(pq):
    return pq[1] == 0
