"""Independent oracle: Wynn's epsilon table in exact rational arithmetic, with a first-order running
bound on the rounding error a float evaluation of the same recurrences can accumulate."""
from fractions import Fraction

EPS = 2.0 ** -52


def wynn_column_values(seq):
    """For the sequence s_0..s_{N-1} (floats or Fractions) return, for every number of terms n = 1..N, the entry
    of highest even order determined by those terms: eps_{2*floor((n-1)/2)}^{((n-1) % 2)}, as
    (exact Fraction or None when a difference vanished, rounding bound as float).

    Table: eps_{-1}^{(j)} = 0, eps_0^{(j)} = s_j, eps_{r+1}^{(j)} = eps_{r-1}^{(j+1)} + 1/(eps_r^{(j+1)} - eps_r^{(j)}).
    """
    N = len(seq)
    s = [Fraction(x) for x in seq]
    # cols[r][j] = (value, errbound) for eps_r^{(j)}, r = -1, 0, 1, ...
    prev2 = [(Fraction(0), 0.0)] * (N + 1)          # eps_{-1}
    prev1 = [(x, 0.0) for x in s]                    # eps_0
    table = {0: prev1}
    r = 0
    while len(prev1) > 1:
        cur = []
        for j in range(len(prev1) - 1):
            a, ea = prev2[j + 1]
            (b1, e1), (b0, e0) = prev1[j + 1], prev1[j]
            if a is None or b1 is None or b0 is None:
                cur.append((None, float('inf')))
                continue
            d = b1 - b0
            if d == 0:
                cur.append((None, float('inf')))
                continue
            v = a + 1 / d
            fd = abs(float(d))
            ed = e1 + e0 + EPS * fd                      # error of the computed difference
            if ed >= fd:
                err = float('inf')
            else:
                inv = 1.0 / fd
                einv = inv * (ed / (fd - ed)) + EPS * inv
                err = ea + einv + EPS * abs(float(v))
            cur.append((v, err))
        r += 1
        table[r] = cur
        prev2, prev1 = prev1, cur
    out = []
    for n in range(1, N + 1):
        k = n - 1
        order = k - (k % 2)
        j = k % 2
        out.append(table[order][j])
    return out
