"""Independent oracle: exact Lagrange-derivative weights from the (float) nodes, in rational arithmetic."""
from fractions import Fraction
from math import factorial


def lagrange_derivative_weights(xs, x0, n):
    """rows k = 0..n, entries v: k-th derivative at x0 of the Lagrange basis polynomial of node v"""
    xs = [Fraction(x) for x in xs]
    x0 = Fraction(x0)
    m = len(xs)
    rows = [[Fraction(0)] * m for _ in range(n + 1)]
    for v in range(m):
        coef = [Fraction(1)]                 # polynomial in s = t - x0, low degree first
        denom = Fraction(1)
        for u in range(m):
            if u == v:
                continue
            a = xs[u] - x0                   # factor (s - a)
            new = [Fraction(0)] * (len(coef) + 1)
            for i, c in enumerate(coef):
                new[i + 1] += c
                new[i] -= a * c
            coef = new
            denom *= xs[v] - xs[u]
        for k in range(n + 1):
            rows[k][v] = factorial(k) * coef[k] / denom if k < len(coef) else Fraction(0)
    return rows
