"""Independent oracle for Bicomplex functions: the idempotent decomposition
F(z1 + j z2) = e1 f(z1 - i z2) + e2 f(z1 + i z2), evaluated with numpy's own complex functions."""
import numpy as np


def components(z1, z2):
    return z1 - 1j * z2, z1 + 1j * z2


def assemble(fa, fb):
    return 0.5 * (fa + fb), 0.5j * (fa - fb)


def extend(f, z1, z2):
    a, b = components(np.asarray(z1, dtype=complex), np.asarray(z2, dtype=complex))
    return assemble(f(a), f(b))


def extend2(f, z1, z2, w1, w2):
    a, b = components(np.asarray(z1, dtype=complex), np.asarray(z2, dtype=complex))
    c, d = components(np.asarray(w1, dtype=complex), np.asarray(w2, dtype=complex))
    return assemble(f(a, c), f(b, d))


def clog1p_ref(w):
    """log(1 + w) for complex w with full relative accuracy: the alternating series (40 terms) for |w| < 0.1 — numpy's complex log1p
    loses the relative accuracy of the real part for small w — and log(1 + w) otherwise"""
    w = np.asarray(w, dtype=complex)
    small = np.abs(w) < 0.1
    ws = np.where(small, w, 0)
    acc = np.zeros_like(ws)
    for k in range(40, 0, -1):          # sum_{k>=1} (-1)^(k+1) w^k / k, smallest terms first
        acc = acc + ((-1.0) ** (k + 1) / k) * ws ** k
    out = np.where(small, acc, np.log(1 + np.where(small, 0, w)))
    return out if out.ndim else complex(out)


UNARY = {
    # name: (complex function, real domain (lo, hi))
    'exp': (np.exp, (-3, 3)), 'log': (np.log, (0.2, 5)), 'sqrt': (np.sqrt, (0.2, 5)),
    'sin': (np.sin, (-3, 3)), 'cos': (np.cos, (-3, 3)), 'tan': (np.tan, (-1.2, 1.2)),
    'cot': (lambda w: 1 / np.tan(w), (0.3, 2.8)), 'sec': (lambda w: 1 / np.cos(w), (-1.2, 1.2)),
    'csc': (lambda w: 1 / np.sin(w), (0.3, 2.8)),
    'sinh': (np.sinh, (-3, 3)), 'cosh': (np.cosh, (-3, 3)), 'tanh': (np.tanh, (-3, 3)),
    'coth': (lambda w: 1 / np.tanh(w), (0.3, 3)), 'sech': (lambda w: 1 / np.cosh(w), (-3, 3)),
    'csch': (lambda w: 1 / np.sinh(w), (0.3, 3)),
    'arcsin': (np.arcsin, (-0.8, 0.8)), 'arccos': (np.arccos, (-0.8, 0.8)), 'arctan': (np.arctan, (-3, 3)),
    'arccosh': (np.arccosh, (1.3, 5)), 'arcsinh': (np.arcsinh, (-3, 3)), 'arctanh': (np.arctanh, (-0.8, 0.8)),
    'expm1': (np.expm1, (-2, 2)), 'log1p': (clog1p_ref, (-0.7, 3)), 'log2': (np.log2, (0.2, 5)),
    'log10': (np.log10, (0.2, 5)), 'exp2': (np.exp2, (-3, 3)),
}
