"""Independent oracle: exact Taylor series (closed forms) of the test functions used for C17."""
import cmath
import math


def binom_general(p, k):
    r = 1.0
    for i in range(k):
        r *= (p - i) / (i + 1)
    return r


def cauchy(a, b):
    n = min(len(a), len(b))
    return [sum(a[j] * b[k - j] for j in range(k + 1)) for k in range(n)]


def family(rng):
    """returns (name, callable f(z) on numpy arrays, series(z0, N) -> list of N coefficients, distance to the nearest singularity(z0))"""
    import numpy as np
    kind = rng.choice(['exp', 'geom', 'sin', 'cos', 'log', 'pow', 'poly', 'product'])
    if kind == 'exp':
        a = rng.choice([1.0, 2.0, -1.0, 0.5, 1 + 1j])
        return ('exp(%sz)' % a, lambda z: np.exp(a * z),
                lambda z0, N: [cmath.exp(a * z0) * a ** k / math.factorial(k) for k in range(N)], lambda z0: float('inf'))
    if kind == 'geom':
        b = rng.choice([2.0, 3.0, -2.5, 2 + 2j])
        return ('1/(%s-z)' % b, lambda z: 1.0 / (b - z), lambda z0, N: [1.0 / (b - z0) ** (k + 1) for k in range(N)], lambda z0: abs(b - z0))
    if kind in ('sin', 'cos'):
        a = rng.choice([1.0, 2.0, 0.5])
        sh = 0.0 if kind == 'sin' else math.pi / 2
        f = (lambda z: np.sin(a * z)) if kind == 'sin' else (lambda z: np.cos(a * z))
        return ('%s(%sz)' % (kind, a), f,
                lambda z0, N: [a ** k / math.factorial(k) * cmath.sin(a * z0 + sh + k * math.pi / 2) for k in range(N)], lambda z0: float('inf'))
    if kind == 'log':
        b = rng.choice([3.0, 4.0, 2.5])
        return ('log(%s+z)' % b, lambda z: np.log(b + z),
                lambda z0, N: [cmath.log(b + z0)] + [(-1) ** (k + 1) / (k * (b + z0) ** k) for k in range(1, N)], lambda z0: abs(b + z0))
    if kind == 'pow':
        p = rng.choice([0.5, -0.5, 1.5, -2.0, 2.5])
        return ('(3+z)^%s' % p, lambda z: (3.0 + z) ** p,
                lambda z0, N: [binom_general(p, k) * (3.0 + z0) ** (p - k) for k in range(N)], lambda z0: abs(3 + z0))
    if kind == 'poly':
        cs = [rng.uniform(-2, 2) for _ in range(rng.randint(3, 12))]

        def series(z0, N):
            out = []
            for k in range(N):
                out.append(sum(cs[l] * math.comb(l, k) * z0 ** (l - k) for l in range(k, len(cs))) if k < len(cs) else 0.0)
            return out
        return ('poly deg %d' % (len(cs) - 1), lambda z: sum(c * z ** l for l, c in enumerate(cs)), series, lambda z0: float('inf'))
    n1, f1, s1, d1 = family(_Fixed(rng, ['exp', 'sin', 'cos']))
    n2, f2, s2, d2 = family(_Fixed(rng, ['geom', 'log', 'pow']))
    return ('%s * %s' % (n1, n2), lambda z: f1(z) * f2(z), lambda z0, N: cauchy(s1(z0, N), s2(z0, N)), lambda z0: min(d1(z0), d2(z0)))


class _Fixed(object):
    """rng wrapper that restricts the first `choice` (the kind) to a sub-list"""

    def __init__(self, rng, kinds):
        self.rng, self.kinds, self.first = rng, kinds, True

    def choice(self, seq):
        if self.first:
            self.first = False
            return self.rng.choice(self.kinds)
        return self.rng.choice(seq)

    def __getattr__(self, name):
        return getattr(self.rng, name)
