"""Canonical form of the arguments handed to the user function: every coordinate becomes the 4 reals
(z1.re, z1.im, z2.re, z2.im); a real argument is (x, 0, 0, 0), a complex one (re, im, 0, 0)."""
import numpy as np


def canon(arg):
    from numdifftools.multicomplex import Bicomplex
    if isinstance(arg, Bicomplex):
        z1 = np.asarray(arg.z1, dtype=complex)
        z2 = np.asarray(arg.z2, dtype=complex)
    else:
        z1 = np.asarray(arg, dtype=complex)
        z2 = np.zeros_like(z1)
    z1, z2 = np.broadcast_arrays(z1, z2)
    return np.stack([z1.real, z1.imag, z2.real, z2.imag], axis=-1)


def displacement(arg, x):
    """largest deviation of any component of any coordinate from the real point x"""
    c = canon(arg)
    x = np.asarray(x, dtype=float)
    base = np.zeros(c.shape)
    base[..., 0] = np.broadcast_to(x, c.shape[:-1])
    return float(np.max(np.abs(c - base))) if c.size else 0.0
