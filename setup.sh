#!/bin/bash
# Build the Lean project (models, driver, proofs) from the files on disk.  Offline.
set -e
cd "$(dirname "$0")"
mkdir -p work evidence replays
/venv/bin/python -m translator.py2lean || true   # regenerate Ndt/Gen from /repo (checks do this again on every run)
cd lean
lake build Ndt Ndt.Driver.Main 2>&1 | tail -3
