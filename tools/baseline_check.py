#!/venv/bin/python
"""Run the repository's pinned baseline (guard off) and compare the passing set with BASELINE.json."""
import json, subprocess, sys, os, xml.etree.ElementTree as ET
out = '/tmp/baseline_junit.xml'
env = dict(os.environ)
env.pop('NUMDIFFTOOLS_VERIF', None)
subprocess.run('cd /repo && /venv/bin/python -m pytest -ra -q -p no:cacheprovider --timeout=900 '
               '--continue-on-collection-errors --junitxml=%s' % out, shell=True, env=env,
               stdout=subprocess.DEVNULL, stderr=subprocess.DEVNULL)
base = json.load(open('/root/.vp/BASELINE.json'))
passed = set()
for tc in ET.parse(out).getroot().iter('testcase'):
    if not any(ch.tag in ('failure', 'error', 'skipped') for ch in tc):
        passed.add('%s::%s' % (tc.get('classname'), tc.get('name')))
want = set(base['stable_pass'])
missing = sorted(want - passed)
print('baseline: %d expected, %d of them pass now, %d newly passing' % (len(want), len(want & passed), len(passed - want)))
for m in missing:
    print('  NOT PASSING:', m)
sys.exit(1 if missing else 0)
