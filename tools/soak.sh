#!/bin/bash
# usage: tools/soak.sh "<seeds for the quick tier>" "<seeds for the thorough tier>"
# Runs every check for the given seeds against VERIF_REPO (default /repo) with the evidence redirected (soak results are not
# evidence) and prints one line per run; exit 1 if any run reported a violation or an infrastructure error.
cd "$(dirname "$0")/.."
[ -d lean/.lake/build ] || ./setup.sh > /dev/null 2>&1
ids=$(python3 -c "import json;print(' '.join(c['property_id'] for c in json.load(open('MANIFEST.json'))['checks']))")
export VERIF_EVIDENCE_DIR=${VERIF_EVIDENCE_DIR:-$(pwd)/work/soak_evidence}
rc=0
for tier in quick thorough; do
  seeds=$1; [ $tier = thorough ] && seeds=$2
  for s in $seeds; do
    for id in $ids; do
      out=$(VERIF_SEED=$s ./check $id --tier $tier 2>&1); r=$?
      echo "$out" | grep -v "^KNOWN-FINDING\|^  broken" | tail -2 | cut -c1-900
      [ $r -ne 0 ] && rc=1
    done
  done
done
exit $rc
