#!/venv/bin/python
"""Calibration of harness/calib/elementary_table.json: worst relative error of Derivative with default steps on a fixed list of
well-conditioned elementary functions and points, per (method, n, order).  Run on the unchanged (repaired) tree only; the table is a
committed constant of the framework and is never recomputed by a check."""
import json, os, sys, warnings
HERE = os.path.dirname(os.path.dirname(os.path.abspath(__file__)))
sys.path.insert(0, os.environ.get('VERIF_REPO', '/repo') + '/src')
sys.path.insert(0, HERE)
import numpy as np
import numdifftools as nd
from harness.search_deriv import elementary_cases, NMAX
warnings.simplefilter('ignore')
worst = {}
for name, f, x, exact in elementary_cases():
    for m in NMAX:
        for n in range(1, NMAX[m] + 1):
            for order in range(1, 9):
                v = float(nd.Derivative(f, n=n, method=m, order=order)(x))
                e = abs(v - exact(n)) / max(abs(exact(n)), abs(exact(0)), 1e-300)
                k = '%s/%d/%d' % (m, n, order)
                worst[k] = max(worst.get(k, 0.0), e)
json.dump(worst, open(os.path.join(HERE, 'harness', 'calib', 'elementary_table.json'), 'w'), indent=0, sort_keys=True)
print(len(worst), 'entries; largest', max(worst.values()))
