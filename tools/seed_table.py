#!/usr/bin/env python3
"""Regenerate the table of section 0.8 of DESIGN.md (between the header row and the first non-table line) from
seeded/*/meta.json and seeded/*/result.json."""
import glob, json, os, re, sys
HERE = os.path.dirname(os.path.dirname(os.path.abspath(__file__)))
rows = []
for d in sorted(glob.glob(os.path.join(HERE, 'seeded', 'C*'))):
    name = os.path.basename(d)
    meta = json.load(open(os.path.join(d, 'meta.json')))
    res = json.load(open(os.path.join(d, 'result.json'))) if os.path.exists(os.path.join(d, 'result.json')) else {'checks': []}
    outs = []
    for line in res['checks']:
        m = re.match(r'check (C\d+) exit=(\d+)\s*(.*)', line)
        if not m:
            continue
        cid, rc, rest = m.group(1), int(m.group(2)), m.group(3)
        if rc == 0:
            outs.append('%s passes' % cid)
        elif 'no-failing-input-found' in rest:
            outs.append('%s (broken obligation, no failing input)' % cid)
        elif rc == 1:
            w = re.search(r'first: (.*?)\s*$', rest)
            outs.append('%s (failing input: %s)' % (cid, (w.group(1) if w else '').strip()[:170]))
        else:
            outs.append('%s infrastructure error' % cid)
    summary = str(meta.get('summary', '')).replace('|', '/').replace('\n', ' ')[:260]
    rows.append('| `%s` | %s | %s | %s |' % (name, meta.get('property'), summary, '; '.join(outs)))
p = os.path.join(HERE, 'DESIGN.md')
lines = open(p).read().split('\n')
i0 = next(i for i, l in enumerate(lines) if l.startswith('| seeded change | property |'))
i1 = i0 + 2
while i1 < len(lines) and lines[i1].startswith('| `C'):
    i1 += 1
lines[i0 + 2:i1] = rows
open(p, 'w').write('\n'.join(lines))
print('%d rows' % len(rows))
