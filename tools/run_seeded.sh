#!/bin/bash
# usage: tools/run_seeded.sh [name-prefix]
# Mutation regression: every seeded change under seeded/ is applied to /repo in turn, the check of the property it breaks is run
# (quick tier, evidence redirected), the patch is undone.  Prints one line per seed and a summary; exit 1 if a seed is no longer
# reported by its own property's check (exit code 1 of the check), or if a check ends with an infrastructure error (exit 2).
# /repo must be clean; nothing is committed there.
cd "$(dirname "$0")/.."
if ! git -C /repo diff --quiet; then echo "/repo has uncommitted changes; refusing"; exit 2; fi
EV=$(mktemp -d /tmp/seeded_ev.XXXXXX)
missed=0; crashed=0; total=0
for d in seeded/${1:-C}*/; do
  name=$(basename "$d")
  pid=$(python3 -c "import json,sys;print(json.load(open(sys.argv[1]))['property'])" "$d/meta.json")
  if ! git -C /repo apply "$(pwd)/$d/patch.diff" 2>/dev/null; then echo "$name: patch does not apply (rebase it)"; crashed=$((crashed+1)); continue; fi
  out=$(VERIF_EVIDENCE_DIR=$EV ./check "$pid" --tier quick 2>&1); rc=$?
  git -C /repo checkout -- .
  total=$((total+1))
  line=$(echo "$out" | grep -m1 '^VIOLATION' | cut -c1-90)
  case $rc in
    1) echo "$name: $pid reports it   ($line)";;
    0) echo "$name: $pid MISSES it"; missed=$((missed+1));;
    *) echo "$name: $pid infrastructure error"; crashed=$((crashed+1));;
  esac
done
rm -rf "$EV"
echo "seeded changes: $total run, $missed missed, $crashed crashed / not applicable"
[ $missed -eq 0 ] && [ $crashed -eq 0 ]
