#!/bin/bash
# usage: tools/try_seed.sh <seed-dir-name under seeded/> <check ids...>
# Confirms a seeded change (suite still passes with it, demo fails with it and passes without) in a scratch
# worktree, then applies it to /repo, runs the named checks (quick tier), and undoes it straight afterwards.
# Results go to seeded/<name>/result.json.  Never commits anything to /repo.
set -u
cd "$(dirname "$0")/.."
NAME=$1; shift
DIR=seeded/$NAME
PATCH=$(pwd)/$DIR/patch.diff
WT=$(mktemp -d /tmp/seedcheck.XXXXXX)
if ! git -C /repo diff --quiet; then echo "/repo has uncommitted changes; refusing"; exit 2; fi
git -C /repo worktree add -q --detach "$WT/wt" HEAD || exit 2
res() { echo "$1" >> "$WT/log"; echo "$1"; }
# 1. demo passes without the change
( cd "$WT/wt" && PYTHONPATH=$WT/wt/src /venv/bin/python "$OLDPWD/$DIR/demo.py" > "$WT/demo0.out" 2>&1 ); D0=$?
git -C "$WT/wt" apply "$PATCH" || { echo "patch does not apply"; git -C /repo worktree remove --force "$WT/wt"; rm -rf "$WT"; exit 2; }
( cd "$WT/wt" && PYTHONPATH=$WT/wt/src /venv/bin/python "$OLDPWD/$DIR/demo.py" > "$WT/demo1.out" 2>&1 ); D1=$?
/venv/bin/python tools/run_baseline_at.py "$WT/wt" > "$WT/base.out" 2>&1; B=$?
res "demo_without_change_exit=$D0 demo_with_change_exit=$D1 baseline_with_change_exit=$B ($(head -1 "$WT/base.out"))"
git -C /repo worktree remove --force "$WT/wt"
# 2. my checks against the change
git -C /repo apply "$PATCH" || { echo "patch does not apply to /repo"; rm -rf "$WT"; exit 2; }
trap 'git -C /repo checkout -- . ' EXIT
declare -A OUT
for id in "$@"; do
  VERIF_EVIDENCE_DIR=$WT/ev ./check "$id" --tier quick > "$WT/$id.out" 2>&1; rc=$?
  line=$(grep -m1 '^VIOLATION' "$WT/$id.out" | cut -c1-300)
  what=""
  if [ -n "$line" ]; then
    rp=$(echo "$line" | sed -n 's/.*replay=\([^ ]*\).*/\1/p')
    what=$(/venv/bin/python -c "
import json,sys
d=json.load(open(sys.argv[1]))
v=d.get('violations') or []
print('kind=%s; first: %s' % (d.get('kind'), (v[0].get('what') if v else (d.get('broken_obligations') or d.get('mismatches') or [''])[0]))[:400])" "$rp" 2>/dev/null | tr '\n' ' ')
  fi
  res "check $id exit=$rc $line $what"
done
git -C /repo checkout -- .
trap - EXIT
/venv/bin/python - "$DIR" "$WT/log" <<'E'
import json, sys, re
d, log = sys.argv[1], sys.argv[2]
lines = open(log).read().strip().split('\n')
r = {'confirmed': lines[0], 'checks': lines[1:]}
json.dump(r, open(d + '/result.json', 'w'), indent=1)
E
rm -rf "$WT"
